// Checks that rendering commutes with a whole-pixel translation of the root transform.
//
// Usage: shift_check <in-svg> <dx> <dy> [scale] [margin] [out-prefix]
//
// The tree is rendered twice on a canvas of (scale * size + 2 * margin):
//   base:    root transform = translate(margin, margin) * scale
//   shifted: root transform = translate(margin + dx, margin + dy) * scale
// and every pixel (x, y) of the base image is compared with pixel (x + dx, y + dy) of the
// shifted one (pixels that fall outside of either canvas are not compared).

fn main() {
    let args: Vec<String> = std::env::args().collect();
    if args.len() < 4 {
        println!("Usage:\n\tshift_check <in-svg> <dx> <dy> [scale] [margin] [out-prefix]");
        std::process::exit(2);
    }

    let dx: i32 = args[2].parse().unwrap();
    let dy: i32 = args[3].parse().unwrap();
    let scale: f32 = args.get(4).map(|s| s.parse().unwrap()).unwrap_or(1.0);
    let margin: i32 = args.get(5).map(|s| s.parse().unwrap()).unwrap_or(40);
    let prefix = args.get(6);

    let tree = {
        let mut opt = usvg::Options {
            resources_dir: std::fs::canonicalize(&args[1])
                .ok()
                .and_then(|p| p.parent().map(|p| p.to_path_buf())),
            ..usvg::Options::default()
        };
        opt.fontdb_mut().load_system_fonts();
        let svg_data = std::fs::read(&args[1]).unwrap();
        usvg::Tree::from_data(&svg_data, &opt).unwrap()
    };

    let size = tree.size().to_int_size();
    let w = (size.width() as f32 * scale).ceil() as i32 + 2 * margin;
    let h = (size.height() as f32 * scale).ceil() as i32 + 2 * margin;

    let render = |tx: i32, ty: i32| {
        let mut pixmap = tiny_skia::Pixmap::new(w as u32, h as u32).unwrap();
        let ts = tiny_skia::Transform::from_row(scale, 0.0, 0.0, scale, tx as f32, ty as f32);
        resvg::render(&tree, ts, &mut pixmap.as_mut());
        pixmap
    };

    let base = render(margin, margin);
    let shifted = render(margin + dx, margin + dy);

    if let Some(prefix) = prefix {
        base.save_png(format!("{}-base.png", prefix)).unwrap();
        shifted.save_png(format!("{}-shifted.png", prefix)).unwrap();
    }

    let mut compared = 0u64;
    let mut differ = 0u64;
    let mut max_diff = 0i32;
    let mut first: Option<(i32, i32, [u8; 4], [u8; 4])> = None;
    let (mut minx, mut miny, mut maxx, mut maxy) = (i32::MAX, i32::MAX, i32::MIN, i32::MIN);
    for y in 0..h {
        for x in 0..w {
            let (sx, sy) = (x + dx, y + dy);
            if sx < 0 || sy < 0 || sx >= w || sy >= h {
                continue;
            }
            compared += 1;
            let a = base.pixel(x as u32, y as u32).unwrap();
            let b = shifted.pixel(sx as u32, sy as u32).unwrap();
            let a = [a.red(), a.green(), a.blue(), a.alpha()];
            let b = [b.red(), b.green(), b.blue(), b.alpha()];
            let d = (0..4)
                .map(|i| (a[i] as i32 - b[i] as i32).abs())
                .max()
                .unwrap();
            if d > 3 {
                differ += 1;
                minx = minx.min(x);
                miny = miny.min(y);
                maxx = maxx.max(x);
                maxy = maxy.max(y);
                if first.is_none() {
                    first = Some((x, y, a, b));
                }
            }
            max_diff = max_diff.max(d);
        }
    }

    println!(
        "canvas {}x{} scale {} shift ({},{}): compared {} px, {} differ by more than 3 levels, max channel difference {}",
        w, h, scale, dx, dy, compared, differ, max_diff
    );
    if let Some((x, y, a, b)) = first {
        println!(
            "  differing area x {}..={} y {}..={} (base coordinates); first at ({},{}): base rgba {:?}, shifted rgba {:?}",
            minx, maxx, miny, maxy, x, y, a, b
        );
        println!("RESULT: VIOLATION");
        std::process::exit(1);
    }
    println!("RESULT: OK");
}
