#!/bin/sh
# Build the framework from files on disk only (offline): translator output, Lean project (model,
# all property theorems incl. the exhaustive kernel decisions, driver executable), Rust harness.
set -e
cd "$(dirname "$0")"
export CARGO_NET_OFFLINE=true
python3 tools/extract_tables.py
(cd lean && lake build Resvg resvg-model)
cp /repo/Cargo.lock harness/Cargo.lock 2>/dev/null || true
(cd harness && RUSTFLAGS="--cfg resvg_verif" cargo build --offline)
# the command-line binaries for C20 (dev profile with optimisation, debug assertions kept)
(cd /repo && cargo build --offline --config profile.dev.opt-level=2 -p resvg -p usvg --bins --target-dir /verif/harness/target/cli)
echo setup-ok
