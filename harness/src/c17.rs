//! C17: viewBox → transform (root, nested svg, symbol) and root size resolution.
use crate::util::*;
use std::sync::Arc;

pub const ALIGNS: [&str; 10] = [
    "none", "xMinYMin", "xMidYMin", "xMaxYMin", "xMinYMid", "xMidYMid", "xMaxYMid", "xMinYMax", "xMidYMax", "xMaxYMax",
];

/// a number as it will appear in the document, with the f64/f32 values svgtypes/usvg derive from it
#[derive(Clone)]
pub struct Num {
    pub text: String,
    pub f64v: f64,
    pub f32v: f32,
}

pub fn num(text: String) -> Num {
    let f64v: f64 = text.parse().unwrap();
    Num { text, f64v, f32v: f64v as f32 }
}

fn fmt_f(x: f64) -> String {
    // plain decimal, no exponent surprises
    let s = format!("{}", x);
    s
}

pub fn gen_len(rng: &mut Rng, positive: bool) -> Num {
    let v: f64 = match rng.below(8) {
        0 => (rng.range(1, 400) as f64) / 4.0,
        1 => rng.range(1, 2000) as f64,
        2 => (rng.range(1, 100000) as f64) / 1000.0,
        3 => (rng.range(1, 999) as f64) / 10.0,
        4 => 1.0 / 3.0 * rng.range(1, 300) as f64,
        5 => [0.1, 0.5, 1.0, 7.0, 50.0, 100.0, 333.3, 1e-3, 12345.678][rng.below(9) as usize],
        _ => rng.f32_in(0.5, 800.0) as f64,
    };
    let v = if !positive && rng.chance(1, 3) { -v } else { v };
    num(fmt_f(v))
}

fn opts(dpi: f32, dw: f32, dh: f32) -> usvg::Options<'static> {
    let mut o = usvg::Options::default();
    o.dpi = dpi;
    o.default_size = usvg::Size::from_wh(dw, dh).unwrap();
    o.fontdb = Arc::new(usvg::fontdb::Database::new());
    o
}

fn ts_bits(t: usvg::Transform) -> String {
    let c = |f: f32| if f == 0.0 { 0u32 } else { f.to_bits() };
    format!("{:08x} {:08x} {:08x} {:08x} {:08x} {:08x}", c(t.sx), c(t.ky), c(t.kx), c(t.sy), c(t.tx), c(t.ty))
}

/// Walk first children while they are groups; return the non-identity transforms met on the way.
fn chain_transforms(g: &usvg::Group) -> Vec<usvg::Transform> {
    let mut v = vec![];
    let mut cur = g;
    loop {
        match cur.children().first() {
            Some(usvg::Node::Group(ref c)) => {
                if !c.transform().is_identity() {
                    v.push(c.transform());
                }
                cur = c;
            }
            _ => break,
        }
    }
    v
}

const IDENT: &str = "3f800000 00000000 00000000 3f800000 00000000 00000000";

pub fn corr(tier: &str, seed: u64, c: &mut Corr) {
    let mut rng = Rng::new(seed ^ 0xC17);
    let n = if tier == "thorough" { 4000 } else { 500 };
    // ---- root viewBox, all aligns × {meet, slice} × random rectangles
    for i in 0..n {
        let al = ALIGNS[i % 10];
        let slice = (i / 10) % 2 == 1;
        let (vx, vy) = (gen_len(&mut rng, false), gen_len(&mut rng, false));
        let vw = gen_len(&mut rng, true);
        // aspect ratios 1:50 .. 50:1
        let ratio = [0.02, 0.1, 0.5, 1.0, 1.0, 2.0, 10.0, 50.0][rng.below(8) as usize] * rng.f32_in(0.8, 1.25) as f64;
        let vh = num(fmt_f(((vw.f64v * ratio * 1000.0).round() / 1000.0).max(0.001)));
        let w = gen_len(&mut rng, true);
        let h = gen_len(&mut rng, true);
        let par = if al == "none" { "none".to_string() } else { format!("{} {}", al, if slice { "slice" } else { "meet" }) };
        let svg = format!(
            r#"<svg xmlns="http://www.w3.org/2000/svg" width="{}" height="{}" viewBox="{} {} {} {}" preserveAspectRatio="{}"><rect width="10" height="10"/></svg>"#,
            w.text, h.text, vx.text, vy.text, vw.text, vh.text, par
        );
        let tree = match usvg::Tree::from_str(&svg, &opts(96.0, 100.0, 100.0)) {
            Ok(t) => t,
            Err(_) => continue,
        };
        let size = tree.size();
        let ts = chain_transforms(tree.root());
        let ans = if ts.is_empty() { IDENT.to_string() } else { ts_bits(ts[0]) };
        c.emit(
            &format!(
                "vb2ts {} {} {} {} {} {} {} {}",
                al,
                if slice { "slice" } else { "meet" },
                hx(vx.f32v), hx(vy.f32v), hx(vw.f32v), hx(vh.f32v), hx(size.width()), hx(size.height())
            ),
            &ans,
        );
    }
    // ---- nested svg and symbol viewports (overflow=visible: no clip group)
    for i in 0..n {
        let al = ALIGNS[(i * 7 + 3) % 10];
        let slice = rng.chance(1, 2);
        let (x, y) = if rng.chance(1, 4) { (num("0".into()), num("0".into())) } else { (gen_len(&mut rng, false), gen_len(&mut rng, false)) };
        let (vx, vy) = (gen_len(&mut rng, false), gen_len(&mut rng, false));
        let (vw, vh) = (gen_len(&mut rng, true), gen_len(&mut rng, true));
        let (w, h) = (gen_len(&mut rng, true), gen_len(&mut rng, true));
        let par = if al == "none" { "none".to_string() } else { format!("{} {}", al, if slice { "slice" } else { "meet" }) };
        let symbol = i % 2 == 1;
        let svg = if symbol {
            format!(
                r##"<svg xmlns="http://www.w3.org/2000/svg" xmlns:xlink="http://www.w3.org/1999/xlink" width="300" height="300"><symbol id="s" viewBox="{} {} {} {}" preserveAspectRatio="{}" overflow="visible"><rect width="10" height="10"/></symbol><use xlink:href="#s" x="{}" y="{}" width="{}" height="{}"/></svg>"##,
                vx.text, vy.text, vw.text, vh.text, par, x.text, y.text, w.text, h.text
            )
        } else {
            format!(
                r#"<svg xmlns="http://www.w3.org/2000/svg" width="300" height="300"><svg x="{}" y="{}" width="{}" height="{}" viewBox="{} {} {} {}" preserveAspectRatio="{}" overflow="visible"><rect width="10" height="10"/></svg></svg>"#,
                x.text, y.text, w.text, h.text, vx.text, vy.text, vw.text, vh.text, par
            )
        };
        let tree = match usvg::Tree::from_str(&svg, &opts(96.0, 100.0, 100.0)) {
            Ok(t) => t,
            Err(_) => continue,
        };
        let ts = chain_transforms(tree.root());
        let ans = match ts.len() {
            0 => IDENT.to_string(),
            1 => ts_bits(ts[0]),
            _ => format!("unexpected-{}-transforms", ts.len()),
        };
        c.emit(
            &format!(
                "nestedvb {} {} {} {} {} {} {} {} {} {}",
                al,
                if slice { "slice" } else { "meet" },
                hx(x.f32v), hx(y.f32v), hx(vx.f32v), hx(vy.f32v), hx(vw.f32v), hx(vh.f32v), hx(w.f32v), hx(h.f32v)
            ),
            &ans,
        );
    }
    // ---- the image route: fit_view_box + aligned_pos + the stored view box (image.rs convert_inner), for an SVG
    // image of a given size in an element rect, every alignment with meet and slice
    for i in 0..n {
        let al = ALIGNS[(i * 3 + 1) % 10];
        let slice = (i / 10) % 2 == 0;
        let (x, y) = (gen_len(&mut rng, false), gen_len(&mut rng, false));
        let (w, h) = (gen_len(&mut rng, true), gen_len(&mut rng, true));
        let (aw, ah) = (gen_len(&mut rng, true), gen_len(&mut rng, true));
        let par = if al == "none" { "none".to_string() } else { format!("{} {}", al, if slice { "slice" } else { "meet" }) };
        let inner = format!(r#"<svg xmlns="http://www.w3.org/2000/svg" width="{}" height="{}"><rect width="1" height="1"/></svg>"#, aw.text, ah.text);
        let svg = format!(
            r#"<svg xmlns="http://www.w3.org/2000/svg" xmlns:xlink="http://www.w3.org/1999/xlink" width="300" height="300"><image x="{}" y="{}" width="{}" height="{}" preserveAspectRatio="{}" xlink:href="data:image/svg+xml;base64,{}"/></svg>"#,
            x.text, y.text, w.text, h.text, par, b64(inner.as_bytes())
        );
        let tree = match usvg::Tree::from_str(&svg, &opts(96.0, 100.0, 100.0)) {
            Ok(t) => t,
            Err(_) => continue,
        };
        // the image, and the transforms of the groups above it
        fn find_image(g: &usvg::Group, ts: &mut Vec<usvg::Transform>) -> Option<(f32, f32)> {
            for n in g.children() {
                match n {
                    usvg::Node::Image(im) => return Some((im.size().width(), im.size().height())),
                    usvg::Node::Group(c) => {
                        let before = ts.len();
                        if !c.transform().is_identity() {
                            ts.push(c.transform());
                        }
                        if let Some(s) = find_image(c, ts) {
                            return Some(s);
                        }
                        ts.truncate(before);
                    }
                    _ => {}
                }
            }
            None
        }
        let mut ts = vec![];
        let ans = match find_image(tree.root(), &mut ts) {
            None => "none".to_string(),
            Some((iw, ih)) => {
                // the nested tree's size is the image size the converter used
                if iw.to_bits() != aw.f32v.to_bits() || ih.to_bits() != ah.f32v.to_bits() {
                    continue;
                }
                match ts.len() {
                    0 => IDENT.to_string(),
                    1 => ts_bits(ts[0]),
                    k => format!("unexpected-{}-transforms", k),
                }
            }
        };
        c.emit(
            &format!("imagefit {} {} {} {} {} {} {} {}", al, if slice { "slice" } else { "meet" }, hx(x.f32v), hx(y.f32v), hx(w.f32v), hx(h.f32v), hx(aw.f32v), hx(ah.f32v)),
            &ans,
        );
    }
    // ---- root size resolution
    let units = [("", "none"), ("px", "px"), ("in", "in"), ("cm", "cm"), ("mm", "mm"), ("pt", "pt"), ("pc", "pc"), ("%", "percent"), ("em", "em"), ("ex", "ex")];
    let dpis = [96.0f32, 72.0, 300.0, 10.0, 4000.0, 90.0, 123.0];
    for _ in 0..n {
        let dpi = *rng.pick(&dpis);
        let (dw, dh) = if rng.chance(1, 2) { (100.0f32, 100.0f32) } else { (rng.range(1, 2000) as f32, rng.range(1, 2000) as f32) };
        let mut side = |rng: &mut Rng| -> (String, String) {
            // (attribute text or empty, request token)
            match rng.below(10) {
                0 => (String::new(), "absent".to_string()),
                1 => ("auto".to_string(), "absent".to_string()), // unparsable length -> attribute() is None
                _ => {
                    let (suffix, uname) = *rng.pick(&units);
                    let n = match rng.below(12) {
                        0 => num("0".into()),
                        1 => num("-5".into()),
                        2 => num("1e300".into()),
                        3 => num("1e-40".into()),
                        _ => gen_len(rng, true),
                    };
                    (format!("{}{}", n.text, suffix), format!("{}:{:016x}", uname, n.f64v.to_bits()))
                }
            }
        };
        let (wt, wr) = side(&mut rng);
        let (ht, hr) = side(&mut rng);
        let vb = if rng.chance(1, 2) {
            let (a, b, cc, d) = (gen_len(&mut rng, false), gen_len(&mut rng, false), gen_len(&mut rng, true), gen_len(&mut rng, true));
            Some((a, b, cc, d))
        } else {
            None
        };
        let mut attrs = String::new();
        if !wt.is_empty() {
            attrs += &format!(r#" width="{}""#, wt);
        }
        if !ht.is_empty() {
            attrs += &format!(r#" height="{}""#, ht);
        }
        let vbr = match &vb {
            Some((a, b, cc, d)) => {
                attrs += &format!(r#" viewBox="{} {} {} {}""#, a.text, b.text, cc.text, d.text);
                format!("{},{},{},{}", hx(a.f32v), hx(b.f32v), hx(cc.f32v), hx(d.f32v))
            }
            None => "novb".to_string(),
        };
        // empty document: the bbox fallback (restore_viewbox) cannot override the size
        let svg = format!(r#"<svg xmlns="http://www.w3.org/2000/svg"{}></svg>"#, attrs);
        let o = opts(dpi, dw, dh);
        let fs = o.font_size;
        let ans = match usvg::Tree::from_str(&svg, &o) {
            Ok(t) => format!("ok {} {}", hx(t.size().width()), hx(t.size().height())),
            Err(usvg::Error::InvalidSize) => "err".to_string(),
            Err(e) => format!("other-error {}", e),
        };
        // the model also reports the restore flag; it is not observable on an empty document, so strip it there
        c.emit(&format!("svgsize {} {} {} {} {} {} {}", wr, hr, vbr, hx(dw), hx(dh), hx(dpi), hx(fs)), &ans);
    }
}

// ------------------------------------------------------------------------------------------
// implementation-side oracle: the SVG viewport rules computed independently (f64) and measured
// in the rendering.

use crate::rend;
use resvg::tiny_skia;

/// expected image (x0, y0, x1, y1) of the viewBox rectangle inside a W×H viewport, by the SVG rules
fn spec_box(al: &str, slice: bool, vw: f64, vh: f64, w: f64, h: f64) -> (f64, f64, f64, f64) {
    if al == "none" {
        return (0.0, 0.0, w, h);
    }
    let (sx, sy) = (w / vw, h / vh);
    let s = if slice { sx.max(sy) } else { sx.min(sy) };
    let (iw, ih) = (vw * s, vh * s);
    let fx = if al.starts_with("xMin") { 0.0 } else if al.starts_with("xMid") { 0.5 } else { 1.0 };
    let fy = if al.ends_with("YMin") { 0.0 } else if al.ends_with("YMid") { 0.5 } else { 1.0 };
    let x0 = (w - iw) * fx;
    let y0 = (h - ih) * fy;
    (x0, y0, x0 + iw, y0 + ih)
}

pub fn search(tier: &str, seed: u64, s: &mut Search) {
    let mut rng = Rng::new(seed ^ 0x5EA7C17);
    let n = (if tier == "thorough" { 3000 } else { 300 }) * budget_mult();
    let kinds = ["root", "nested", "symbol", "image", "pattern", "marker"];
    for i in 0..n {
        let kind = kinds[(i % kinds.len() as u64) as usize];
        let al = ALIGNS[rng.below(10) as usize];
        let slice = rng.chance(1, 2);
        let par = if al == "none" { "none".to_string() } else { format!("{} {}", al, if slice { "slice" } else { "meet" }) };
        // integer geometry so that expected edges are easy to compare (±1 px for anti-aliasing)
        let vx = rng.range(-40, 40) as f64;
        let vy = rng.range(-40, 40) as f64;
        let vw = rng.range(2, 120) as f64;
        let vh = (vw * [0.1, 0.25, 0.5, 1.0, 2.0, 4.0, 10.0][rng.below(7) as usize]).max(1.0).round();
        let w = rng.range(20, 120) as f64;
        let h = rng.range(20, 120) as f64;
        // the viewport is placed at (px, py) inside a 200x200 canvas for the nested kinds
        let (px, py) = (rng.range(10, 60) as f64, rng.range(10, 60) as f64);
        let marker = format!(r##"<rect x="{vx}" y="{vy}" width="{vw}" height="{vh}" fill="#f00"/>"##);
        let (svg, ox, oy, clip_to_viewport) = match kind {
            "root" => (
                format!(r#"<svg xmlns="http://www.w3.org/2000/svg" width="{w}" height="{h}" viewBox="{vx} {vy} {vw} {vh}" preserveAspectRatio="{par}">{marker}</svg>"#),
                0.0, 0.0, true,
            ),
            "nested" => (
                format!(r#"<svg xmlns="http://www.w3.org/2000/svg" width="200" height="200"><svg x="{px}" y="{py}" width="{w}" height="{h}" viewBox="{vx} {vy} {vw} {vh}" preserveAspectRatio="{par}">{marker}</svg></svg>"#),
                px, py, true,
            ),
            "symbol" => (
                format!(r##"<svg xmlns="http://www.w3.org/2000/svg" xmlns:xlink="http://www.w3.org/1999/xlink" width="200" height="200"><symbol id="s" viewBox="{vx} {vy} {vw} {vh}" preserveAspectRatio="{par}">{marker}</symbol><use xlink:href="#s" x="{px}" y="{py}" width="{w}" height="{h}"/></svg>"##),
                px, py, true,
            ),
            "image" => {
                // an SVG image whose own size is vw×vh: the image viewport maps it by preserveAspectRatio
                let inner = format!(r##"<svg xmlns="http://www.w3.org/2000/svg" width="{vw}" height="{vh}"><rect width="{vw}" height="{vh}" fill="#f00"/></svg>"##);
                let b64 = b64(inner.as_bytes());
                (
                    format!(r#"<svg xmlns="http://www.w3.org/2000/svg" xmlns:xlink="http://www.w3.org/1999/xlink" width="200" height="200"><image x="{px}" y="{py}" width="{w}" height="{h}" preserveAspectRatio="{par}" xlink:href="data:image/svg+xml;base64,{b64}"/></svg>"#),
                    px, py, true,
                )
            }
            "pattern" => (
                // one tile of size w×h at (px,py); the filled rect shows exactly that tile
                format!(r##"<svg xmlns="http://www.w3.org/2000/svg" width="200" height="200"><pattern id="p" patternUnits="userSpaceOnUse" x="{px}" y="{py}" width="{w}" height="{h}" viewBox="{vx} {vy} {vw} {vh}" preserveAspectRatio="{par}">{marker}</pattern><rect x="{px}" y="{py}" width="{w}" height="{h}" fill="url(#p)"/></svg>"##),
                px, py, true,
            ),
            _ => {
                // marker viewport markerWidth×markerHeight, stroke width 1, ref point 0,0 at the path start (px,py)
                (
                    format!(r##"<svg xmlns="http://www.w3.org/2000/svg" width="200" height="200"><marker id="m" markerUnits="userSpaceOnUse" markerWidth="{w}" markerHeight="{h}" viewBox="{vx} {vy} {vw} {vh}" preserveAspectRatio="{par}" overflow="visible">{marker}</marker><path d="M {px} {py} L 300 300" stroke="none" fill="none" marker-start="url(#m)"/></svg>"##),
                    px, py, true,
                )
            }
        };
        let tree = match rend::parse(&svg, &rend::base_opts()) {
            Ok(t) => t,
            Err(e) => {
                s.finding("oracle:viewport:parse-error", &format!("viewport document rejected: {}", e), &svg);
                continue;
            }
        };
        let size = tree.size().to_int_size();
        let Some(pm) = rend::render(&tree, size.width(), size.height(), tiny_skia::Transform::identity()) else { continue };
        let (mut ex0, mut ey0, mut ex1, mut ey1) = spec_box(al, slice, vw, vh, w, h);
        if kind == "marker" {
            // refX/refY = 0: the viewBox origin maps to the vertex; SVG: the marker content is positioned so that
            // (refX, refY) *in marker content coordinates after the viewBox transform* lands on the vertex.
            // Expected box = spec_box shifted so that the image of the point (0,0) of the viewBox coordinate system is at the vertex.
            let (sx, sy) = if al == "none" { (w / vw, h / vh) } else { let k = (ex1 - ex0) / vw; (k, k) };
            // image of user point (0,0): x = ex0 + (0 - vx) * sx
            let rx = ex0 + (0.0 - vx) * sx;
            let ry = ey0 + (0.0 - vy) * sy;
            ex0 -= rx; ex1 -= rx; ey0 -= ry; ey1 -= ry;
            // overflow="visible": no clip (how resvg clips a `slice` marker is not part of this property)
        } else if clip_to_viewport {
            ex0 = ex0.max(0.0); ey0 = ey0.max(0.0); ex1 = ex1.min(w); ey1 = ey1.min(h);
        }
        let (ex0, ey0, ex1, ey1) = (ex0 + ox, ey0 + oy, ex1 + ox, ey1 + oy);
        // clip to canvas
        let cw = size.width() as f64;
        let ch = size.height() as f64;
        let (ex0, ey0, ex1, ey1) = (ex0.max(0.0), ey0.max(0.0), ex1.min(cw), ey1.min(ch));
        let key = format!("{} {} vb={} {} {} {} vp={}x{}@{},{}", kind, par, vx, vy, vw, vh, w, h, px, py);
        let expect_empty = ex1 - ex0 < 1.5 || ey1 - ey0 < 1.5;
        s.case(&format!("viewport-{}", kind), &key, !expect_empty);
        if expect_empty {
            continue;
        }
        match rend::alpha_bbox(&pm, 127) {
            None => s.finding(
                &format!("oracle:viewport:{}:nothing-painted", kind),
                &format!("expected the viewBox rectangle at ({:.2},{:.2})-({:.2},{:.2}), nothing painted", ex0, ey0, ex1, ey1),
                &svg,
            ),
            Some((x0, y0, x1, y1)) => {
                let ok = (x0 as f64 - ex0).abs() <= 1.01 && (y0 as f64 - ey0).abs() <= 1.01 && (x1 as f64 - ex1).abs() <= 1.01 && (y1 as f64 - ey1).abs() <= 1.01;
                if !ok {
                    s.finding(
                        &format!("oracle:viewport:{}:misplaced", kind),
                        &format!("{} {}: expected ({:.2},{:.2})-({:.2},{:.2}), painted ({},{})-({},{})", kind, par, ex0, ey0, ex1, ey1, x0, y0, x1, y1),
                        &svg,
                    );
                }
            }
        }
    }
    // ---- root scale s  ==  width·s / height·s  (documents with a viewBox)
    for _ in 0..n / 3 {
        let al = ALIGNS[rng.below(10) as usize];
        let slice = rng.chance(1, 2);
        let par = if al == "none" { "none".to_string() } else { format!("{} {}", al, if slice { "slice" } else { "meet" }) };
        let (vw, vh) = (rng.range(10, 100), rng.range(10, 100));
        let (w, h) = (rng.range(10, 60), rng.range(10, 60));
        let k = *rng.pick(&[2.0f32, 3.0, 0.5, 1.5, 4.0]);
        let body = format!(
            r##"<circle cx="{}" cy="{}" r="{}" fill="#08f"/><rect x="{}" y="{}" width="{}" height="{}" fill="#f80" opacity="0.7" transform="rotate(17 {} {})"/>"##,
            vw / 2, vh / 2, vw.min(vh) / 3, vw / 5, vh / 4, vw / 2, vh / 3, vw / 2, vh / 2
        );
        let a = format!(r#"<svg xmlns="http://www.w3.org/2000/svg" width="{w}" height="{h}" viewBox="0 0 {vw} {vh}" preserveAspectRatio="{par}">{body}</svg>"#);
        let (w2, h2) = (w as f32 * k, h as f32 * k);
        let b = format!(r#"<svg xmlns="http://www.w3.org/2000/svg" width="{w2}" height="{h2}" viewBox="0 0 {vw} {vh}" preserveAspectRatio="{par}">{body}</svg>"#);
        let (Ok(ta), Ok(tb)) = (rend::parse(&a, &rend::base_opts()), rend::parse(&b, &rend::base_opts())) else { continue };
        let cw = (w as f32 * k).ceil() as u32;
        let chh = (h as f32 * k).ceil() as u32;
        let (Some(pa), Some(pb)) = (
            rend::render(&ta, cw, chh, tiny_skia::Transform::from_scale(k, k)),
            rend::render(&tb, cw, chh, tiny_skia::Transform::identity()),
        ) else { continue };
        // float noise of ~1e-6 px can flip one of tiny-skia's 4 vertical sub-samples on an edge pixel
        // (a quarter of full coverage), so isolated differences up to ~70 levels are rounding, not misplacement
        let (mx, cnt_big) = rend::diff(&pa, &pb, 80);
        let (_, cnt_small) = rend::diff(&pa, &pb, 24);
        let cnt = cnt_big + if cnt_small * 50 > (cw * chh) as usize { cnt_small } else { 0 };
        s.case("scale-vs-size", &format!("{} k={} {}", par, k, a), true);
        if cnt > 0 {
            s.finding("oracle:scale-vs-size:differs", &format!("render(doc, scale {k}) differs from render(doc with size*{k}): max diff {mx}, {cnt} px"), &a);
        }
    }
    // ---- Tree::size by the SVG rules (independent f64 computation)
    let units: [(&str, f64); 7] = [("", 1.0), ("px", 1.0), ("in", 96.0), ("cm", 96.0 / 2.54), ("mm", 96.0 / 25.4), ("pt", 96.0 / 72.0), ("pc", 96.0 / 6.0)];
    for _ in 0..n {
        let dpi = *rng.pick(&[96.0f32, 72.0, 300.0, 10.0, 4000.0]);
        let (dw, dh) = (rng.range(1, 900) as f32, rng.range(1, 900) as f32);
        let vb = if rng.chance(1, 2) { Some((rng.range(-50, 50) as f64, rng.range(-50, 50) as f64, rng.range(1, 500) as f64, rng.range(1, 500) as f64)) } else { None };
        let mut side = |rng: &mut Rng, vbside: Option<f64>, defside: f64| -> (String, Option<f64>) {
            // returns attribute text and expected px (None = error expected)
            match rng.below(6) {
                0 => (String::new(), Some(vbside.unwrap_or(defside))),
                1 => {
                    let p = rng.range(1, 300) as f64;
                    (format!("{}%", p), Some(vbside.unwrap_or(defside) * p / 100.0))
                }
                2 => ("0".to_string(), None),
                3 => (format!("-{}", rng.range(1, 50)), None),
                _ => {
                    let (u, f) = *rng.pick(&units);
                    let nn = rng.range(1, 400) as f64 / 4.0;
                    let f = if u.is_empty() || u == "px" { 1.0 } else { f * dpi as f64 / 96.0 };
                    (format!("{}{}", nn, u), Some(nn * f))
                }
            }
        };
        let (wt, we) = side(&mut rng, vb.map(|v| v.2), dw as f64);
        let (ht, he) = side(&mut rng, vb.map(|v| v.3), dh as f64);
        let mut attrs = String::new();
        if !wt.is_empty() { attrs += &format!(r#" width="{}""#, wt); }
        if !ht.is_empty() { attrs += &format!(r#" height="{}""#, ht); }
        if let Some(v) = vb { attrs += &format!(r#" viewBox="{} {} {} {}""#, v.0, v.1, v.2, v.3); }
        let svg = format!(r#"<svg xmlns="http://www.w3.org/2000/svg"{}></svg>"#, attrs);
        let o = opts(dpi, dw, dh);
        let res = usvg::Tree::from_str(&svg, &o);
        let key = format!("dpi={} def={}x{} {}", dpi, dw, dh, svg);
        s.case("tree-size", &key, true);
        match (res, we, he) {
            (Ok(t), Some(we), Some(he)) => {
                let close = |a: f32, b: f64| ((a as f64) - b).abs() <= 1e-4 * b.abs().max(1.0);
                if !(close(t.size().width(), we) && close(t.size().height(), he)) {
                    s.finding("oracle:tree-size:wrong", &format!("Tree::size = {}x{}, SVG rules give {}x{}", t.size().width(), t.size().height(), we, he), &key);
                }
            }
            (Ok(t), _, _) => s.finding("oracle:tree-size:non-positive-accepted", &format!("non-positive size accepted as {}x{}", t.size().width(), t.size().height()), &key),
            (Err(usvg::Error::InvalidSize), Some(_), Some(_)) => s.finding("oracle:tree-size:valid-rejected", "a valid size was rejected with InvalidSize", &key),
            (Err(usvg::Error::InvalidSize), _, _) => {}
            (Err(e), _, _) => s.finding("oracle:tree-size:other-error", &format!("unexpected error {}", e), &key),
        }
    }
    // ---- defaults of an instance viewport: a `use` of a symbol without width / height takes 100% of the current
    // viewport (a non-square one here), i.e. it equals the same `use` with the sizes written out
    for _ in 0..n / 3 {
        let (rw, rh) = (rng.range(40, 200), rng.range(40, 200));
        let (sw, sh) = (rng.range(4, 60), rng.range(4, 60));
        let al = ALIGNS[rng.below(10) as usize];
        let par = if al == "none" { "none".to_string() } else { format!("{} {}", al, if rng.chance(1, 2) { "slice" } else { "meet" }) };
        let (gw, gh) = match rng.below(3) {
            0 => (None, None),
            1 => (Some(rng.range(10, 150)), None),
            _ => (None, Some(rng.range(10, 150))),
        };
        let doc = |w: Option<i64>, h: Option<i64>| {
            format!(
                r##"<svg xmlns="http://www.w3.org/2000/svg" xmlns:xlink="http://www.w3.org/1999/xlink" width="{rw}" height="{rh}" viewBox="0 0 {rw} {rh}"><symbol id="s" viewBox="0 0 {sw} {sh}" preserveAspectRatio="{par}"><rect width="{sw}" height="{sh}" fill="#f00"/><circle cx="{}" cy="{}" r="{}" fill="#00f"/></symbol><use xlink:href="#s"{}{}/></svg>"##,
                sw / 2, sh / 2, (sw.min(sh) / 3).max(1),
                w.map(|v| format!(r#" width="{v}""#)).unwrap_or_default(),
                h.map(|v| format!(r#" height="{v}""#)).unwrap_or_default()
            )
        };
        let (a, b) = (doc(gw, gh), doc(Some(gw.unwrap_or(rw)), Some(gh.unwrap_or(rh))));
        let (Ok(ta), Ok(tb)) = (rend::parse(&a, &rend::base_opts()), rend::parse(&b, &rend::base_opts())) else { continue };
        let (Some(pa), Some(pb)) = (rend::render(&ta, rw as u32, rh as u32, tiny_skia::Transform::identity()), rend::render(&tb, rw as u32, rh as u32, tiny_skia::Transform::identity())) else { continue };
        s.case("symbol-default-size", &a, pa.data().chunks(4).any(|p| p[3] != 0));
        let (ok, why) = rend::similar(&pa, &pb, 4);
        if !ok {
            s.finding("oracle:viewport:symbol-default-size", &format!("a use without width/height differs from the same use with 100% written out ({}x{}): {}", gw.unwrap_or(rw), gh.unwrap_or(rh), why), &a);
        }
    }
    // ---- viewport attributes spread over an xlink:href chain of patterns: each attribute is inherited on its
    // own, so the chain equals one pattern that carries them all
    for _ in 0..n / 3 {
        let (vw, vh) = (rng.range(4, 30), rng.range(4, 30));
        let (tw, th) = (rng.range(20, 90), rng.range(20, 90));
        let al = ALIGNS[rng.below(10) as usize];
        let par = if al == "none" { "none".to_string() } else { format!("{} {}", al, if rng.chance(1, 2) { "slice" } else { "meet" }) };
        let content = format!(r##"<rect x="-5" y="-5" width="{}" height="{}" fill="#0a0"/><circle cx="0" cy="0" r="{}" fill="#f00"/>"##, vw, vh, (vw.min(vh) / 3).max(1));
        let vb = format!(r#"viewBox="-5 -5 {vw} {vh}""#);
        let pa = format!(r#"preserveAspectRatio="{par}""#);
        let size = format!(r#"width="{tw}" height="{th}" patternUnits="userSpaceOnUse""#);
        // where each attribute sits: 0 = base, 1 = middle, 2 = referencing pattern
        let place = [rng.below(3), rng.below(3), rng.below(3), rng.below(3)];
        let at = |k: u64| -> String {
            let mut a = String::new();
            if place[0] == k { a += &format!(" {vb}"); }
            if place[1] == k { a += &format!(" {pa}"); }
            if place[2] == k { a += &format!(" {size}"); }
            a
        };
        let kids = |k: u64| if place[3] == k { content.clone() } else { String::new() };
        let chain = format!(
            r##"<pattern id="p0"{}>{}</pattern><pattern id="p1" xlink:href="#p0"{}>{}</pattern><pattern id="p" xlink:href="#p1"{}>{}</pattern>"##,
            at(0), kids(0), at(1), kids(1), at(2), kids(2)
        );
        let flat = format!(r##"<pattern id="p" {vb} {pa} {size}>{content}</pattern>"##);
        let doc = |defs: &str| format!(r##"<svg xmlns="http://www.w3.org/2000/svg" xmlns:xlink="http://www.w3.org/1999/xlink" width="200" height="200"><defs>{defs}</defs><rect x="10" y="10" width="180" height="180" fill="url(#p)"/></svg>"##);
        let (a, b) = (doc(&chain), doc(&flat));
        let (Ok(ta), Ok(tb)) = (rend::parse(&a, &rend::base_opts()), rend::parse(&b, &rend::base_opts())) else { continue };
        let (Some(pa_), Some(pb_)) = (rend::render(&ta, 200, 200, tiny_skia::Transform::identity()), rend::render(&tb, 200, 200, tiny_skia::Transform::identity())) else { continue };
        s.case("pattern-href-chain", &a, pa_.data().chunks(4).any(|p| p[3] != 0));
        let (ok, why) = rend::similar(&pa_, &pb_, 4);
        if !ok {
            s.finding("oracle:viewport:pattern-href-chain", &format!("viewBox / preserveAspectRatio / size / content spread over an href chain of patterns differ from one pattern that carries them all: {}", why), &a);
        }
    }
    // ---- an SVG used as an image is sized with the same options (DPI) as the document that embeds it
    for _ in 0..n / 3 {
        let dpi = *rng.pick(&[72.0f32, 300.0, 150.0, 96.0, 30.0]);
        let (u, f) = *rng.pick(&units[2..]);
        let (nw, nh) = (rng.range(1, 12) as f64 / 4.0, rng.range(1, 12) as f64 / 4.0);
        let k = f * dpi as f64 / 96.0;
        let inner = |w: String, h: String| format!(r##"<svg xmlns="http://www.w3.org/2000/svg" width="{w}" height="{h}"><rect width="100%" height="100%" fill="#f00"/><rect width="50%" height="50%" fill="#00f"/></svg>"##);
        let (ia, ib) = (inner(format!("{nw}{u}"), format!("{nh}{u}")), inner(format!("{}", nw * k), format!("{}", nh * k)));
        let sized = rng.chance(1, 2);
        let outer = |data: &str| {
            format!(
                r#"<svg xmlns="http://www.w3.org/2000/svg" xmlns:xlink="http://www.w3.org/1999/xlink" width="200" height="200"><image x="10" y="10"{} xlink:href="data:image/svg+xml;base64,{}"/></svg>"#,
                if sized { r#" width="120" height="90" preserveAspectRatio="xMidYMid meet""# } else { "" },
                b64(data.as_bytes())
            )
        };
        let o = opts(dpi, 100.0, 100.0);
        let (a, b) = (outer(&ia), outer(&ib));
        let (Ok(ta), Ok(tb)) = (usvg::Tree::from_str(&a, &o), usvg::Tree::from_str(&b, &o)) else { continue };
        let (Some(pa), Some(pb)) = (rend::render(&ta, 200, 200, tiny_skia::Transform::identity()), rend::render(&tb, 200, 200, tiny_skia::Transform::identity())) else { continue };
        let key = format!("dpi={} inner={} {}", dpi, ia, a);
        s.case("image-svg-dpi", &key, pa.data().chunks(4).any(|p| p[3] != 0));
        let (ok, why) = rend::similar(&pa, &pb, 4);
        if !ok {
            s.finding("oracle:viewport:svg-image-ignores-dpi", &format!("an embedded SVG sized {nw}{u} x {nh}{u} at {dpi} dpi differs from the same image sized in pixels ({} x {}): {}", nw * k, nh * k, why), &key);
        }
    }
}

pub fn b64(data: &[u8]) -> String {
    const T: &[u8; 64] = b"ABCDEFGHIJKLMNOPQRSTUVWXYZabcdefghijklmnopqrstuvwxyz0123456789+/";
    let mut o = String::new();
    for ch in data.chunks(3) {
        let b = [ch[0], *ch.get(1).unwrap_or(&0), *ch.get(2).unwrap_or(&0)];
        let n = ((b[0] as u32) << 16) | ((b[1] as u32) << 8) | b[2] as u32;
        o.push(T[(n >> 18) as usize & 63] as char);
        o.push(T[(n >> 12) as usize & 63] as char);
        o.push(if ch.len() > 1 { T[(n >> 6) as usize & 63] as char } else { '=' });
        o.push(if ch.len() > 2 { T[n as usize & 63] as char } else { '=' });
    }
    o
}
