//! C16: per-pixel filter arithmetic — exhaustive 8-bit correspondence + generated parameters.
use crate::util::*;
use resvg::tiny_skia;
use resvg::verif::filter as vf;
use resvg::verif::filter::RGBA8;

fn px(r: u8, g: u8, b: u8, a: u8) -> RGBA8 {
    RGBA8 { r, g, b, a }
}

fn row<F: Fn(u8) -> u8>(f: F) -> String {
    (0..=255u8).map(|c| f(c).to_string()).collect::<Vec<_>>().join(" ")
}

pub fn corr(tier: &str, seed: u64, c: &mut Corr) {
    // exhaustive: multiply / demultiply for every (c, a)
    for a in 0..=255u8 {
        let mut data: Vec<RGBA8> = (0..=255u8).map(|c| px(c, c, c, a)).collect();
        vf::multiply_alpha(&mut data);
        c.emit(&format!("px mul {}", a), &row(|i| data[i as usize].r));
        let mut data: Vec<RGBA8> = (0..=255u8).map(|c| px(c, c, c, a)).collect();
        vf::demultiply_alpha(&mut data);
        c.emit(&format!("px demul {}", a), &row(|i| data[i as usize].g));
        let mut data: Vec<RGBA8> = (0..=255u8).map(|c| px(c, c, c, a)).collect();
        vf::pixmap_into_linear_rgb(&mut data);
        c.emit(&format!("px pixlin {}", a), &row(|i| data[i as usize].b));
        let mut data: Vec<RGBA8> = (0..=255u8).map(|c| px(c, c, c, a)).collect();
        vf::pixmap_into_srgb(&mut data);
        c.emit(&format!("px pixsrgb {}", a), &row(|i| data[i as usize].r));
    }
    let mut data: Vec<RGBA8> = (0..=255u8).map(|c| px(c, c, c, 255)).collect();
    vf::into_linear_rgb(&mut data);
    c.emit("px tolin", &row(|i| data[i as usize].r));
    let mut data: Vec<RGBA8> = (0..=255u8).map(|c| px(c, c, c, 255)).collect();
    vf::from_linear_rgb(&mut data);
    c.emit("px tosrgb", &row(|i| data[i as usize].r));

    // generated: arithmetic composite, transfer functions, colour matrix
    let mut rng = Rng::new(seed ^ 0xC16);
    let n = if tier == "thorough" { 20000 } else { 2000 };
    let kpool: [f32; 14] = [0.0, 1.0, -1.0, 0.5, -0.5, 0.25, 2.0, 1.0 / 255.0, 0.003921569, 1e-3, -1e-3, 10.0, 0.9999999, 1.0000001];
    let kgen = |rng: &mut Rng| -> f32 {
        if rng.chance(1, 2) {
            *rng.pick(&kpool)
        } else {
            rng.f32_in(-2.0, 2.0)
        }
    };
    let u8gen = |rng: &mut Rng| -> u8 {
        match rng.below(6) {
            0 => 0,
            1 => 255,
            2 => 1,
            3 => 254,
            _ => rng.below(256) as u8,
        }
    };
    for _ in 0..n {
        let (k1, k2, k3, k4) = (kgen(&mut rng), kgen(&mut rng), kgen(&mut rng), kgen(&mut rng));
        let p = px(u8gen(&mut rng), u8gen(&mut rng), u8gen(&mut rng), u8gen(&mut rng));
        let q = px(u8gen(&mut rng), u8gen(&mut rng), u8gen(&mut rng), u8gen(&mut rng));
        let marker = px(7, 7, 7, 7);
        let mut dest = [marker];
        vf::arithmetic(k1, k2, k3, k4, 1, 1, &[p], &[q], &mut dest);
        let ans = if dest[0] == marker {
            // marker could in principle be a genuine result; re-run with another marker
            let mut d2 = [px(9, 9, 9, 9)];
            vf::arithmetic(k1, k2, k3, k4, 1, 1, &[p], &[q], &mut d2);
            if d2[0] == px(9, 9, 9, 9) { "skip".to_string() } else { format!("{} {} {} {}", d2[0].r, d2[0].g, d2[0].b, d2[0].a) }
        } else {
            format!("{} {} {} {}", dest[0].r, dest[0].g, dest[0].b, dest[0].a)
        };
        c.emit(
            &format!("px arith {} {} {} {} {} {} {} {} {} {} {} {}", hx(k1), hx(k2), hx(k3), hx(k4), p.r, p.g, p.b, p.a, q.r, q.g, q.b, q.a),
            &ans,
        );
    }
    // transfer functions over the whole 8-bit domain, random parameters
    let nt = if tier == "thorough" { 400 } else { 60 };
    for i in 0..nt {
        use usvg::filter::TransferFunction as TF;
        let func = match i % 3 {
            0 => TF::Linear { slope: kgen(&mut rng), intercept: kgen(&mut rng) },
            1 => {
                let len = 1 + rng.below(6) as usize;
                TF::Discrete((0..len).map(|_| rng.f32_in(-0.25, 1.25)).collect())
            }
            _ => {
                let len = 1 + rng.below(6) as usize;
                TF::Table((0..len).map(|_| rng.f32_in(-0.25, 1.25)).collect())
            }
        };
        // the values that actually reached the tree (after text round trip)
        let fe = make_ct(func);
        let func = fe.func_r().clone();
        let hl = |v: &Vec<f32>| v.iter().map(|x| hx(*x)).collect::<Vec<_>>().join(" ");
        let req = match &func {
            TF::Linear { slope, intercept } => format!("px linear {} {}", hx(*slope), hx(*intercept)),
            TF::Discrete(v) => format!("px discrete {}", hl(v)),
            TF::Table(v) => format!("px table {}", hl(v)),
            _ => continue,
        };
        let ans = row(|ch| {
            let mut d = [px(ch, 0, 0, 255)];
            vf::component_transfer(&fe, 1, 1, &mut d);
            d[0].r
        });
        c.emit(&req, &ans);
    }
    // colour matrix (general 20-value matrix) on random pixels
    for _ in 0..n / 2 {
        let m: Vec<f32> = (0..20).map(|_| kgen(&mut rng)).collect();
        let p = px(u8gen(&mut rng), u8gen(&mut rng), u8gen(&mut rng), u8gen(&mut rng));
        let mut d = [p];
        vf::color_matrix(&usvg::filter::ColorMatrixKind::Matrix(m.clone()), 1, 1, &mut d);
        c.emit(
            &format!("px matrix {} {} {} {} {}", p.r, p.g, p.b, p.a, m.iter().map(|x| hx(*x)).collect::<Vec<_>>().join(" ")),
            &format!("{} {} {} {}", d[0].r, d[0].g, d[0].b, d[0].a),
        );
    }
    // lighting kernels on a bumpy alpha image: the alpha stored for the colour channels they computed
    let o = crate::corpus::opts_for(None);
    let nl = if tier == "thorough" { 300 } else { 40 };
    for i in 0..nl {
        let specular = i % 3 != 0;
        let (cr, cg, cb) = match i % 8 {
            0 => (16, 76, 135),
            1 => (135, 76, 16),
            2 => (76, 135, 16),
            3 => (16, 135, 76),
            4 => (200, 30, 120),
            5 => (90, 90, 250),
            _ => (rng.below(256), rng.below(256), rng.below(256)),
        };
        let light = match rng.below(3) {
            0 => format!(r#"<feDistantLight azimuth="{}" elevation="{}"/>"#, rng.range(0, 360), rng.range(5, 85)),
            1 => format!(r#"<fePointLight x="{}" y="{}" z="{}"/>"#, rng.range(0, 12), rng.range(0, 12), rng.range(2, 30)),
            _ => format!(r#"<feSpotLight x="{}" y="{}" z="{}" pointsAtX="6" pointsAtY="6" pointsAtZ="0" specularExponent="{}"/>"#, rng.range(0, 12), rng.range(0, 12), rng.range(4, 30), rng.range(1, 8)),
        };
        let prim = if specular {
            format!(r#"<feSpecularLighting surfaceScale="{}" specularConstant="{}" specularExponent="{}" lighting-color="rgb({cr},{cg},{cb})">{light}</feSpecularLighting>"#, rng.range(1, 9), rng.pick(&["0.5", "1", "1.7", "3"]), rng.range(1, 12))
        } else {
            format!(r#"<feDiffuseLighting surfaceScale="{}" diffuseConstant="{}" lighting-color="rgb({cr},{cg},{cb})">{light}</feDiffuseLighting>"#, rng.range(1, 9), rng.pick(&["0.5", "1", "1.7"]))
        };
        let svg = format!(r##"<svg xmlns="http://www.w3.org/2000/svg" width="12" height="12"><filter id="f" color-interpolation-filters="sRGB">{prim}</filter><rect width="12" height="12" filter="url(#f)"/></svg>"##);
        let Ok(Ok(t)) = crate::pan::catch(|| usvg::Tree::from_str(&svg, &o)) else { continue };
        let Some(f) = t.filters().first() else { continue };
        let Some(pr) = f.primitives().first() else { continue };
        let ls = match pr.kind() {
            usvg::filter::Kind::SpecularLighting(fe) => fe.light_source(),
            usvg::filter::Kind::DiffuseLighting(fe) => fe.light_source(),
            _ => continue,
        };
        let (w, h) = (12u32, 12u32);
        let src: Vec<RGBA8> = (0..w * h).map(|_| px(0, 0, 0, u8gen(&mut rng))).collect();
        let kind = pr.kind().clone();
        let Ok(out) = crate::pan::catch(|| vf::lighting(&kind, ls, w, h, &src)) else { continue };
        for p in out {
            c.emit(&format!("px lightalpha {} {} {} {}", if specular { "specular" } else { "diffuse" }, p.r, p.g, p.b), &p.a.to_string());
        }
    }
}

pub fn make_ct(func_r: usvg::filter::TransferFunction) -> usvg::filter::ComponentTransfer {
    // ComponentTransfer has crate-private fields: build it by parsing a tiny document.
    use usvg::filter::TransferFunction as TF;
    let f = match &func_r {
        TF::Identity => r#"<feFuncR type="identity"/>"#.to_string(),
        TF::Linear { slope, intercept } => format!(r#"<feFuncR type="linear" slope="{}" intercept="{}"/>"#, slope, intercept),
        TF::Discrete(v) => format!(r#"<feFuncR type="discrete" tableValues="{}"/>"#, v.iter().map(|x| format!("{}", x)).collect::<Vec<_>>().join(" ")),
        TF::Table(v) => format!(r#"<feFuncR type="table" tableValues="{}"/>"#, v.iter().map(|x| format!("{}", x)).collect::<Vec<_>>().join(" ")),
        TF::Gamma { amplitude, exponent, offset } => format!(r#"<feFuncR type="gamma" amplitude="{}" exponent="{}" offset="{}"/>"#, amplitude, exponent, offset),
    };
    let svg = format!(
        r#"<svg xmlns="http://www.w3.org/2000/svg" width="10" height="10"><filter id="f"><feComponentTransfer>{}</feComponentTransfer></filter><rect width="5" height="5" filter="url(#f)"/></svg>"#,
        f
    );
    let tree = usvg::Tree::from_str(&svg, &usvg::Options::default()).expect("ct doc parses");
    let filt = &tree.filters()[0];
    match filt.primitives()[0].kind() {
        usvg::filter::Kind::ComponentTransfer(ct) => ct.clone(),
        _ => panic!("not a component transfer"),
    }
}

// ------------------------------------------------------------------------------------------
// implementation-side oracle (independent of the Lean model): the statement itself on the real code

fn valid(p: &RGBA8) -> bool {
    p.r <= p.a && p.g <= p.a && p.b <= p.a
}

fn rand_image(rng: &mut Rng, n: usize, premultiplied: bool) -> Vec<RGBA8> {
    (0..n)
        .map(|_| {
            let a = match rng.below(5) {
                0 => 0,
                1 => 255,
                _ => rng.below(256) as u8,
            };
            if premultiplied {
                let m = a as u64 + 1;
                px(rng.below(m) as u8, rng.below(m) as u8, rng.below(m) as u8, a)
            } else {
                px(rng.below(256) as u8, rng.below(256) as u8, rng.below(256) as u8, a)
            }
        })
        .collect()
}

/// document level: generated content under generated filter chains - region, validity, identity chains
fn document_level(tier: &str, seed: u64, s: &mut Search) {
    let mut rng = Rng::new(seed ^ 0x5EA7C16D);
    let n = (if tier == "thorough" { 3000 } else { 300 }) * budget_mult();
    let o = crate::corpus::opts_for(None);
    // primitives that are mathematically the identity on their input (sRGB interpolation)
    let ident = |rng: &mut Rng, input: &str, res: &str| -> String {
        let r = if res.is_empty() { String::new() } else { format!(r#" result="{}""#, res) };
        let i = if input.is_empty() { String::new() } else { format!(r#" in="{}""#, input) };
        match rng.below(8) {
            0 => format!(r#"<feOffset{i} dx="0" dy="0"{r}/>"#),
            1 => format!(r#"<feGaussianBlur{i} stdDeviation="0"{r}/>"#),
            2 => format!(r#"<feMerge{r}><feMergeNode{i}/></feMerge>"#),
            3 => format!(r#"<feColorMatrix{i} type="matrix" values="1 0 0 0 0 0 1 0 0 0 0 0 1 0 0 0 0 0 1 0"{r}/>"#),
            4 => format!(r#"<feComponentTransfer{i}{r}><feFuncR type="identity"/><feFuncG type="linear" slope="1" intercept="0"/><feFuncB type="gamma" amplitude="1" exponent="1" offset="0"/><feFuncA type="table" tableValues="0 1"/></feComponentTransfer>"#),
            5 => format!(r#"<feColorMatrix{i} type="saturate" values="1"{r}/>"#),
            6 => format!(r#"<feColorMatrix{i} type="hueRotate" values="0"{r}/>"#),
            _ => format!(r#"<feComposite{i} in2="zz-transparent" operator="over"{r}/>"#),
        }
    };
    for i in 0..n {
        let (w, h) = (rng.range(40, 90) as u32, rng.range(40, 90) as u32);
        let mut g = crate::gen::Gen::new(&mut rng, crate::gen::Cfg::plain(w, h));
        let mut content = String::new();
        for _ in 0..1 + g.rng.below(3) {
            content += &g.shape();
        }
        let defs0 = g.defs();
        // an integer region well inside the canvas (positive offsets: see the tiny-skia finding of C14)
        let (rx, ry) = (g.rng.range(2, 15), g.rng.range(2, 15));
        let (rw, rh) = (g.rng.range(10, w as i64 - rx - 2), g.rng.range(10, h as i64 - ry - 2));
        let scale = *g.rng.pick(&[1i64, 1, 2]);
        let rng = &mut *g.rng;
        let identity_chain = i % 2 == 0;
        let mut prims = String::from(r#"<feFlood flood-opacity="0" result="zz-transparent"/>"#);
        if identity_chain {
            // identity primitives wired through named results; decoys reuse names BEFORE the real producer,
            // unknown names fall back to the previous result
            let names = ["a", "b", "a", "c"];
            let mut last: Option<String> = None; // name carrying the (unchanged) source
            let len = 1 + rng.below(5);
            for k in 0..len {
                let name = names[rng.below(4) as usize].to_string();
                if rng.chance(1, 3) && last.as_deref() != Some(name.as_str()) {
                    // decoy: something visible under the same name, overwritten by the next producer
                    prims += &format!(r#"<feFlood flood-color="red" result="{}"/>"#, name);
                }
                let input = match (&last, rng.below(4)) {
                    (None, _) => "SourceGraphic".to_string(),
                    (Some(l), 0) | (Some(l), 1) => l.clone(),
                    (Some(_), _) if k > 0 && rng.chance(1, 2) => "SourceGraphic".to_string(),
                    (Some(l), _) => l.clone(),
                };
                prims += &ident(rng, &input, &name);
                last = Some(name);
            }
            // the last primitive's result is the filter result; make sure it is the identity one
            prims += &ident(rng, last.as_deref().unwrap_or("SourceGraphic"), "");
        } else if i % 6 == 1 {
            // a lighting primitive with a colour of every channel order (alone, or lit from a blurred alpha)
            let (cr, cg, cb) = match (i / 6) % 7 {
                0 => (16, 76, 135),
                1 => (135, 76, 16),
                2 => (76, 135, 16),
                3 => (16, 135, 76),
                4 => (76, 16, 135),
                5 => (135, 16, 76),
                _ => (rng.below(256), rng.below(256), rng.below(256)),
            };
            let light = match rng.below(3) {
                0 => format!(r#"<feDistantLight azimuth="{}" elevation="{}"/>"#, rng.range(0, 360), rng.range(10, 80)),
                1 => format!(r#"<fePointLight x="{}" y="{}" z="{}"/>"#, rng.range(0, w as i64), rng.range(0, h as i64), rng.range(5, 40)),
                _ => format!(r#"<feSpotLight x="{}" y="{}" z="{}" pointsAtX="{}" pointsAtY="{}" pointsAtZ="0" specularExponent="{}"/>"#, rng.range(0, w as i64), rng.range(0, h as i64), rng.range(5, 40), w / 2, h / 2, rng.range(1, 8)),
            };
            if rng.chance(1, 2) {
                prims += r#"<feGaussianBlur in="SourceAlpha" stdDeviation="2" result="bump"/>"#;
            }
            if rng.chance(2, 3) {
                prims += &format!(r#"<feSpecularLighting surfaceScale="{}" specularConstant="{}" specularExponent="{}" lighting-color="rgb({cr},{cg},{cb})">{light}</feSpecularLighting>"#, rng.range(1, 8), rng.pick(&["0.6", "1", "2"]), rng.range(1, 15));
            } else {
                prims += &format!(r#"<feDiffuseLighting surfaceScale="{}" diffuseConstant="{}" lighting-color="rgb({cr},{cg},{cb})">{light}</feDiffuseLighting>"#, rng.range(1, 8), rng.pick(&["0.6", "1", "2"]));
            }
        } else {
            let mut results = vec![];
            let mut gg = crate::gen::Gen::new(rng, crate::gen::Cfg::full(w, h));
            for _ in 0..1 + gg.rng.below(4) {
                prims += &gg.primitive(&mut results);
            }
        }
        let ci = if identity_chain || rng.chance(1, 2) { "sRGB" } else { "linearRGB" };
        let hdr = format!(r#"<svg xmlns="http://www.w3.org/2000/svg" xmlns:xlink="http://www.w3.org/1999/xlink" width="{}" height="{}" viewBox="0 0 {w} {h}">"#, w as i64 * scale, h as i64 * scale);
        // the working colour space is written on the filter itself or arrives there by inheritance
        let (on_root, on_defs, on_filter) = match rng.below(5) {
            0 => (format!(r#" color-interpolation-filters="{ci}""#), String::new(), String::new()),
            1 => (String::new(), format!(r#" color-interpolation-filters="{ci}""#), String::new()),
            2 => (String::new(), format!(r#" style="color-interpolation-filters:{ci}""#), String::new()),
            _ => (String::new(), String::new(), format!(r#" color-interpolation-filters="{ci}""#)),
        };
        let hdr_f = hdr.replacen(" width=", &format!("{on_root} width="), 1);
        let filtered = format!(
            r##"{hdr_f}<defs{on_defs}>{defs0}<filter id="zf" filterUnits="userSpaceOnUse" x="{rx}" y="{ry}" width="{rw}" height="{rh}"{on_filter}>{prims}</filter></defs><g filter="url(#zf)">{content}</g></svg>"##
        );
        let (cw, ch) = ((w as i64 * scale) as u32, (h as i64 * scale) as u32);
        let Ok(Ok(t)) = crate::pan::catch(|| usvg::Tree::from_str(&filtered, &o)) else { continue };
        let Ok(Some(pf)) = crate::pan::catch(|| crate::rend::render(&t, cw, ch, tiny_skia::Transform::identity())) else { continue };
        let class = if identity_chain { "doc-identity-chain" } else { "doc-random-chain" };
        s.case(class, &filtered, pf.data().chunks(4).any(|p| p[3] != 0));
        // validity
        if let Some((x, y, p)) = crate::rend::all_valid_premultiplied(&pf) {
            s.finding("oracle:document:channel>alpha", &format!("pixel ({},{}) = {:?} is not valid premultiplied RGBA", x, y, p), &filtered);
            continue;
        }
        // region (device space: the region scaled by the root scale)
        let (x0, y0, x1, y1) = ((rx * scale) as u32, (ry * scale) as u32, ((rx + rw) * scale) as u32, ((ry + rh) * scale) as u32);
        let mut outside = None;
        for y in 0..ch {
            for x in 0..cw {
                if (x < x0 || x >= x1 || y < y0 || y >= y1) && pf.data()[((y * cw + x) * 4 + 3) as usize] != 0 {
                    outside = Some((x, y));
                }
            }
        }
        if let Some((x, y)) = outside {
            s.finding("oracle:document:paint-outside-region", &format!("pixel ({},{}) outside the filter region {}..{} x {}..{} is painted", x, y, x0, x1, y0, y1), &filtered);
            continue;
        }
        if identity_chain {
            // inside the region the image equals the unfiltered content
            let plain = format!(r##"{hdr}<defs>{defs0}<clipPath id="zc"><rect x="{rx}" y="{ry}" width="{rw}" height="{rh}"/></clipPath></defs><g clip-path="url(#zc)"><g>{content}</g></g></svg>"##);
            let Ok(Ok(tp)) = crate::pan::catch(|| usvg::Tree::from_str(&plain, &o)) else { continue };
            let Ok(Some(pp)) = crate::pan::catch(|| crate::rend::render(&tp, cw, ch, tiny_skia::Transform::identity())) else { continue };
            let (ok, why) = crate::rend::similar(&pp, &pf, 2);
            if !ok {
                // A thin stroke (under one device pixel: tiny-skia's hairline rasteriser) moves by one pixel across
                // its direction when the layer it is drawn into has other bounds; along a nearly horizontal or
                // vertical line that is many pixels.  Differences that are all of that kind, in a document that has
                // such a stroke, are the rasteriser's and not a primitive's: a signature of their own.
                let thin = filtered.contains(r#"stroke-width="0."#) && scale == 1;
                if thin && hairline_shift_only(&pp, &pf) {
                    s.finding("dep:hairline-moves-with-layer-bounds", &format!("identity chain over a stroke thinner than a pixel: {}", why), &filtered);
                } else {
                    s.finding("oracle:document:identity-chain-not-noop", &format!("a chain of identity primitives changed the image inside the region: {}", why), &filtered);
                }
            }
        }
    }
}

/// every pixel that differs by more than 80 has a close value one row (column) away within 12 pixels along the
/// row (column) in the other image, and flat areas agree
fn hairline_shift_only(a: &tiny_skia::Pixmap, b: &tiny_skia::Pixmap) -> bool {
    let (w, h) = (a.width() as i32, a.height() as i32);
    let px = |d: &[u8], x: i32, y: i32| -> [i32; 4] {
        let i = ((y * w + x) * 4) as usize;
        [d[i] as i32, d[i + 1] as i32, d[i + 2] as i32, d[i + 3] as i32]
    };
    let dist = |p: [i32; 4], q: [i32; 4]| -> i32 { (0..4).map(|k| (p[k] - q[k]).abs()).max().unwrap() };
    let near = |img: &[u8], p: [i32; 4], x: i32, y: i32| -> bool {
        for (rx, ry) in [(12, 1), (1, 12)] {
            for dy in -ry..=ry {
                for dx in -rx..=rx {
                    let (xx, yy) = (x + dx, y + dy);
                    if xx >= 0 && yy >= 0 && xx < w && yy < h && dist(p, px(img, xx, yy)) <= 80 {
                        return true;
                    }
                }
            }
        }
        false
    };
    let (ea, eb) = (crate::rend::edge_mask(a), crate::rend::edge_mask(b));
    let mut flat = 0;
    for y in 0..h {
        for x in 0..w {
            let (pa, pb) = (px(a.data(), x, y), px(b.data(), x, y));
            let d = dist(pa, pb);
            if d > 80 {
                if !(near(b.data(), pa, x, y) && near(a.data(), pb, x, y)) {
                    return false;
                }
            } else if d > 2 && !(ea[(y * w + x) as usize] || eb[(y * w + x) as usize]) {
                flat += 1;
            }
        }
    }
    flat <= 4 + (w * h) as usize / 2000
}

pub fn search(tier: &str, seed: u64, s: &mut Search) {
    // feTile copies pixels: after a primitive of either working space the whole-region tile changes nothing
    {
        let mut rng = Rng::new(seed ^ 0x711EC16);
        let o = crate::corpus::opts_for(None);
        for k in 0..(if tier == "thorough" { 120 } else { 16 }) {
            let (r, g, b) = (rng.below(256), rng.below(256), rng.below(256));
            let ci = if k % 2 == 0 { "linearRGB" } else { "sRGB" };
            let first = *rng.pick(&[r#"<feColorMatrix type="saturate" values="1"/>"#, r#"<feOffset dx="0" dy="0"/>"#, r#"<feComponentTransfer><feFuncR type="identity"/></feComponentTransfer>"#]);
            let doc = |tile: &str| format!(r##"<svg xmlns="http://www.w3.org/2000/svg" width="60" height="60"><filter id="f" filterUnits="userSpaceOnUse" x="5" y="5" width="50" height="50" color-interpolation-filters="{ci}">{first}{tile}</filter><rect x="10" y="10" width="40" height="40" fill="rgb({r},{g},{b})" filter="url(#f)"/></svg>"##);
            let (with, without) = (doc("<feTile/>"), doc(""));
            let render = |svg: &str| -> Option<tiny_skia::Pixmap> {
                let t = crate::pan::catch(|| usvg::Tree::from_str(svg, &o)).ok()?.ok()?;
                crate::pan::catch(|| crate::rend::render(&t, 60, 60, tiny_skia::Transform::identity())).ok()?
            };
            let (Some(a), Some(bm)) = (render(&with), render(&without)) else { continue };
            s.case("tile-keeps-colour-space", &with, true);
            // compared well inside the rect (bicubic sampling may touch the edges)
            let mut worst = 0i32;
            for y in 14..46u32 {
                for x in 14..46u32 {
                    let i = ((y * 60 + x) * 4) as usize;
                    for c in 0..4 {
                        worst = worst.max((a.data()[i + c] as i32 - bm.data()[i + c] as i32).abs());
                    }
                }
            }
            if worst > 2 {
                s.finding(&format!("oracle:document:tile-keeps-colour-space:{}", ci), &format!("a whole-region feTile after {} changes the image by {} levels", first, worst), &with);
            }
        }
    }
    // feDropShadow with no blur: the shadow has exactly the flood colour (times flood-opacity), in either working space
    {
        let mut rng = Rng::new(seed ^ 0x5EA7C16D);
        let o = crate::corpus::opts_for(None);
        for k in 0..(if tier == "thorough" { 200 } else { 24 }) {
            let ci = if k % 2 == 0 { "sRGB" } else { "linearRGB" };
            // the 8-bit linear round trip is coarse for dark channels: only bright ones are compared there
            let (lo, span) = if ci == "sRGB" { (0, 256) } else { (96, 160) };
            let (r, g, b) = ((lo + rng.below(span)) as u8, (lo + rng.below(span)) as u8, (lo + rng.below(span)) as u8);
            let svg = format!(r##"<svg xmlns="http://www.w3.org/2000/svg" width="60" height="60"><filter id="f" filterUnits="userSpaceOnUse" x="0" y="0" width="60" height="60" color-interpolation-filters="{ci}"><feDropShadow dx="20" dy="20" stdDeviation="0" flood-color="rgb({r},{g},{b})"/></filter><rect x="5" y="5" width="25" height="25" fill="white" filter="url(#f)"/></svg>"##);
            let Ok(Ok(t)) = crate::pan::catch(|| usvg::Tree::from_str(&svg, &o)) else { continue };
            let Ok(Some(pm)) = crate::pan::catch(|| crate::rend::render(&t, 60, 60, tiny_skia::Transform::identity())) else { continue };
            s.case("drop-shadow-colour", &svg, true);
            // (40, 40) lies in the shadow only
            let p = &pm.data()[((40 * 60 + 40) * 4) as usize..((40 * 60 + 40) * 4 + 4) as usize];
            let tol = if ci == "sRGB" { 1 } else { 3 };
            if p[3] != 255 || (p[0] as i32 - r as i32).abs() > tol || (p[1] as i32 - g as i32).abs() > tol || (p[2] as i32 - b as i32).abs() > tol {
                s.finding(&format!("oracle:document:drop-shadow-colour:{}", ci), &format!("the unblurred shadow is {:?}, flood-color is rgb({},{},{})", p, r, g, b), &svg);
            }
        }
    }

    document_level(tier, seed, s);
    let mut rng = Rng::new(seed ^ 0x5EA7C16);
    let mult = budget_mult();
    let n = (if tier == "thorough" { 6000 } else { 600 }) * mult;
    // exhaustive 8-bit statements on the real functions
    let mut bad_mul = None;
    let mut bad_id = None;
    let mut bad_cs = None;
    for a in 0..=255u8 {
        let mut d: Vec<RGBA8> = (0..=255u8).map(|c| px(c, c, c, a)).collect();
        vf::multiply_alpha(&mut d);
        for (c, p) in d.iter().enumerate() {
            if !valid(p) && bad_mul.is_none() {
                bad_mul = Some((c, a, p.r));
            }
        }
        let mut d: Vec<RGBA8> = (0..=a).map(|c| px(c, c, c, a)).collect();
        vf::demultiply_alpha(&mut d);
        vf::multiply_alpha(&mut d);
        for (c, p) in d.iter().enumerate() {
            if p.r as usize != c && bad_id.is_none() {
                bad_id = Some((c, a, p.r));
            }
        }
        let mut d: Vec<RGBA8> = (0..=a).map(|c| px(c, c, c, a)).collect();
        vf::pixmap_into_linear_rgb(&mut d);
        let ok1 = d.iter().all(valid);
        vf::pixmap_into_srgb(&mut d);
        if !(ok1 && d.iter().all(valid)) && bad_cs.is_none() {
            bad_cs = Some(a);
        }
        s.case("exhaustive-8bit-row", &format!("a={}", a), true);
    }
    if let Some((c, a, r)) = bad_mul {
        s.finding("oracle:multiply_alpha:channel>alpha", &format!("multiply_alpha(c={}, a={}) = {} > alpha", c, a, r), &format!("c={} a={}", c, a));
    }
    if let Some((c, a, r)) = bad_id {
        s.finding("oracle:demultiply-multiply:not-identity", &format!("multiply(demultiply(c={}, a={})) = {}", c, a, r), &format!("c={} a={}", c, a));
    }
    if let Some(a) = bad_cs {
        s.finding("oracle:colorspace:channel>alpha", &format!("into_linear_rgb/into_srgb produced channel > alpha at a={}", a), &format!("a={}", a));
    }

    let kext: [f32; 12] = [0.0, 1.0, -1.0, 0.5, 2.0, -2.0, 100.0, -100.0, 1e6, -1e6, 1e-6, 0.003921569];
    for i in 0..n {
        let w = 1 + rng.below(6) as u32;
        let h = 1 + rng.below(6) as u32;
        let len = (w * h) as usize;
        match i % 4 {
            0 => {
                // arithmetic composite
                let k: Vec<f32> = (0..4).map(|_| if rng.chance(1, 2) { *rng.pick(&kext) } else { rng.f32_in(-3.0, 3.0) }).collect();
                let a = rand_image(&mut rng, len, true);
                let pm = rng.chance(3, 4);
                let b = rand_image(&mut rng, len, pm);
                let mut d = vec![px(0, 0, 0, 0); len];
                vf::arithmetic(k[0], k[1], k[2], k[3], w, h, &a, &b, &mut d);
                let key = format!("arith k={:?} a={:?} b={:?}", k, a, b);
                let nontrivial = d.iter().any(|p| p.a != 0);
                s.case("arithmetic", &key, nontrivial);
                if let Some(p) = d.iter().find(|p| !valid(p)) {
                    s.finding("oracle:arithmetic:channel>alpha", &format!("composite::arithmetic wrote {:?}", p), &key);
                }
            }
            1 => {
                // convolve matrix through a parsed primitive
                let order = 1 + rng.below(3) as usize;
                let kern: Vec<f32> = (0..order * order).map(|_| rng.f32_in(-2.0, 2.0)).collect();
                let pa = rng.chance(1, 2);
                let bias = if rng.chance(1, 2) { 0.0 } else { rng.f32_in(-0.5, 0.5) };
                let div = if rng.chance(1, 2) { 1.0 } else { rng.f32_in(0.1, 4.0) };
                let edge = *rng.pick(&["none", "duplicate", "wrap"]);
                let svg = format!(
                    r#"<svg xmlns="http://www.w3.org/2000/svg" width="10" height="10"><filter id="f"><feConvolveMatrix order="{o}" kernelMatrix="{k}" preserveAlpha="{pa}" bias="{b}" divisor="{d}" edgeMode="{e}"/></filter><rect width="5" height="5" filter="url(#f)"/></svg>"#,
                    o = order,
                    k = kern.iter().map(|x| x.to_string()).collect::<Vec<_>>().join(" "),
                    pa = pa,
                    b = bias,
                    d = div,
                    e = edge
                );
                let tree = match usvg::Tree::from_str(&svg, &usvg::Options::default()) {
                    Ok(t) => t,
                    Err(_) => continue,
                };
                let Some(f) = tree.filters().first() else { continue };
                let usvg::filter::Kind::ConvolveMatrix(cm) = f.primitives()[0].kind() else { continue };
                let mut d = rand_image(&mut rng, len, true);
                if pa {
                    vf::demultiply_alpha(&mut d);
                }
                let key = format!("convolve {} img={:?}", svg, d);
                vf::convolve_matrix(cm, w, h, &mut d);
                s.case("convolve", &key, d.iter().any(|p| p.a != 0));
                if let Some(p) = d.iter().find(|p| !valid(p)) {
                    s.finding("oracle:convolve:channel>alpha", &format!("convolve_matrix::apply wrote {:?}", p), &key);
                }
            }
            2 => {
                let op = if rng.chance(1, 2) { usvg::filter::MorphologyOperator::Erode } else { usvg::filter::MorphologyOperator::Dilate };
                let rx = rng.f32_in(0.1, 3.0);
                let ry = rng.f32_in(0.1, 3.0);
                let mut d = rand_image(&mut rng, len, true);
                let key = format!("morph {:?} {} {} img={:?}", op, rx, ry, d);
                vf::morphology(op, rx, ry, w, h, &mut d);
                s.case("morphology", &key, d.iter().any(|p| p.a != 0));
                if let Some(p) = d.iter().find(|p| !valid(p)) {
                    s.finding("oracle:morphology:channel>alpha", &format!("morphology::apply wrote {:?}", p), &key);
                }
            }
            _ => {
                // colour matrix wrapper: demultiply, matrix, multiply; identity matrix must be a no-op
                let ident = rng.chance(1, 3);
                let m: Vec<f32> = if ident {
                    vec![1., 0., 0., 0., 0., 0., 1., 0., 0., 0., 0., 0., 1., 0., 0., 0., 0., 0., 1., 0.]
                } else {
                    (0..20).map(|_| rng.f32_in(-1.5, 1.5)).collect()
                };
                let src = rand_image(&mut rng, len, true);
                let mut d = src.clone();
                vf::demultiply_alpha(&mut d);
                vf::color_matrix(&usvg::filter::ColorMatrixKind::Matrix(m.clone()), w, h, &mut d);
                vf::multiply_alpha(&mut d);
                let key = format!("matrix {:?} img={:?}", m, src);
                s.case(if ident { "matrix-identity" } else { "matrix" }, &key, true);
                if let Some(p) = d.iter().find(|p| !valid(p)) {
                    s.finding("oracle:colormatrix:channel>alpha", &format!("apply_color_matrix pipeline wrote {:?}", p), &key);
                }
                if ident {
                    for (x, y) in src.iter().zip(d.iter()) {
                        let near = |a: u8, b: u8| (a as i32 - b as i32).abs() <= 1;
                        if !(near(x.r, y.r) && near(x.g, y.g) && near(x.b, y.b) && near(x.a, y.a)) {
                            s.finding("oracle:colormatrix:identity-not-noop", &format!("identity matrix changed {:?} into {:?}", x, y), &key);
                            break;
                        }
                    }
                }
            }
        }
    }
}
