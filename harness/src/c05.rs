//! C05: references inside a tree are closed, unique and well-founded.
//! search: tree.rs `check_c05` over the shared domain plus documents built around shared / cloned definitions.
use crate::tree::Doc;
use crate::util::*;

const HDR: &str = r#"<svg xmlns="http://www.w3.org/2000/svg" xmlns:xlink="http://www.w3.org/1999/xlink" width="120" height="120">"#;

pub fn targeted(seed: u64, tier: &str) -> Vec<Doc> {
    let mut rng = Rng::new(seed ^ 0x7A46E5);
    let mut v = vec![];
    let n = (if tier == "thorough" { 3000 } else { 300 }) * budget_mult();
    for i in 0..n {
        let units = |rng: &mut Rng| *rng.pick(&["objectBoundingBox", "userSpaceOnUse"]);
        let doc = match i % 10 {
            0 => {
                // chains of clip paths and masks of depth 1..5, shared by several elements
                let depth = 1 + rng.below(5) as usize;
                let mut defs = String::new();
                for k in 0..depth {
                    let link_c = if k + 1 < depth { format!(r##" clip-path="url(#c{})""##, k + 1) } else { String::new() };
                    let link_m = if k + 1 < depth { format!(r##" mask="url(#m{})""##, k + 1) } else { String::new() };
                    defs += &format!(r#"<clipPath id="c{k}" clipPathUnits="{}"{link_c}><rect x="{}" width="{}" height="80"/></clipPath>"#, units(&mut rng), k, 90 - k);
                    defs += &format!(r#"<mask id="m{k}" maskUnits="{}"{link_m} x="0" y="0" width="100" height="100"><rect width="{}" height="80" fill="white"/></mask>"#, units(&mut rng), 90 - k);
                }
                format!(r##"{HDR}<defs>{defs}</defs><rect id="a" width="50" height="50" clip-path="url(#c0)"/><g id="b" mask="url(#m0)"><circle cx="40" cy="40" r="30"/></g><rect id="c" x="60" width="30" height="20" clip-path="url(#c0)" mask="url(#m0)"/></svg>"##)
            }
            1 => {
                // one objectBoundingBox definition of every kind shared by 1..4 elements with different boxes
                let k = 1 + rng.below(4);
                let mut body = String::new();
                for j in 0..k {
                    body += &format!(
                        r##"<rect id="e{j}" x="{}" y="{}" width="{}" height="{}" fill="url(#lg)" stroke="url(#rg)" clip-path="url(#cp)" mask="url(#mk)" filter="url(#fl)"/><circle id="p{j}" cx="{}" cy="60" r="{}" fill="url(#pt)"/>"##,
                        j * 20, j * 7, 10 + j * 5, 12 + j * 3, 20 + j * 15, 5 + j
                    );
                }
                // elements with a zero-width / zero-height box take the fallback paths of the converters
                for j in 0..rng.below(3) {
                    body += &format!(
                        r##"<line id="z{j}" x1="{}" y1="{y}" x2="{}" y2="{y}" stroke="url(#rg)" stroke-width="3" clip-path="url(#cp)" mask="url(#mk)" filter="url(#fl)"/><path id="v{j}" d="M {x} 5 L {x} 40" stroke="url(#pt)" fill="url(#lg)" mask="url(#mk)"/>"##,
                        5 + j * 3, 60 + j * 9, y = 90 + j * 4, x = 100 + j * 3
                    );
                }
                format!(
                    r##"{HDR}<defs><linearGradient id="lg"><stop offset="0" stop-color="red"/><stop offset="1" stop-color="blue"/></linearGradient><radialGradient id="rg" xlink:href="#lg"/><pattern id="pt" {} patternContentUnits="{}"><rect width="0.2" height="0.2" fill="url(#lg)"/></pattern><clipPath id="cp" clipPathUnits="objectBoundingBox"><rect width="0.8" height="0.8"/></clipPath><mask id="mk" {} maskContentUnits="{}"><rect width="1" height="1" fill="white"/></mask><filter id="fl" {} primitiveUnits="{}"><feFlood flood-color="green" result="a"/><feOffset in="a" dx="0.1" result="b"/><feMerge><feMergeNode in="b"/><feMergeNode in="SourceGraphic"/></feMerge></filter></defs>{body}</svg>"##,
                    // the region units vary independently of the content units (a definition is shared between
                    // elements exactly when NEITHER depends on the element's box)
                    if rng.chance(1, 2) { r#"width="0.5" height="0.5""# } else { r#"patternUnits="userSpaceOnUse" width="8" height="8""# },
                    units(&mut rng),
                    if rng.chance(1, 2) { "" } else { r#"maskUnits="userSpaceOnUse" x="0" y="0" width="100" height="100""# },
                    units(&mut rng),
                    if rng.chance(1, 2) { "" } else { r#"filterUnits="userSpaceOnUse" x="0" y="0" width="120" height="120""# },
                    units(&mut rng)
                )
            }
            2 => {
                // use / symbol / marker expansion of elements that carry ids and references
                let k = 1 + rng.below(3);
                let uses: String = (0..k).map(|j| format!(r##"<use id="u{j}" xlink:href="#{}" x="{}" y="{}"/>"##, rng.pick(&["shape", "grp", "sym"]), j * 25, j * 10)).collect();
                format!(
                    r##"{HDR}<defs><linearGradient id="lg"><stop offset="0" stop-color="red"/><stop offset="1"/></linearGradient><clipPath id="cp" clipPathUnits="objectBoundingBox"><rect width="1" height="0.5"/></clipPath><rect id="shape" width="20" height="20" fill="url(#lg)" clip-path="url(#cp)"/><g id="grp"><circle id="inner" cx="10" cy="10" r="8" fill="url(#lg)"/></g><symbol id="sym" viewBox="0 0 10 10"><path id="sp" d="M0 0 L10 10 L0 10 Z" fill="url(#lg)"/></symbol><marker id="mk" markerWidth="6" markerHeight="6" refX="3" refY="3"><circle id="mc" cx="3" cy="3" r="2" fill="context-stroke" stroke="url(#lg)"/></marker></defs>{uses}<path id="line" d="M 10 100 L 60 100 L 110 90" stroke="url(#lg)" stroke-width="2" fill="none" marker-start="url(#mk)" marker-mid="url(#mk)" marker-end="url(#mk)"/></svg>"##
                )
            }
            3 => {
                // context-fill / context-stroke clones through use and markers
                format!(
                    r##"{HDR}<defs><linearGradient id="lg"><stop offset="0" stop-color="red"/><stop offset="1"/></linearGradient><pattern id="pt" width="10" height="10" patternUnits="userSpaceOnUse"><rect width="5" height="5"/></pattern><g id="ctx"><rect width="30" height="30" fill="context-fill" stroke="context-stroke"/><circle cx="50" cy="15" r="{}" fill="context-stroke"/></g></defs><use id="u1" xlink:href="#ctx" fill="url(#lg)" stroke="url(#pt)"/><use id="u2" xlink:href="#ctx" y="40" fill="url(#pt)" stroke="url(#lg)"/><use id="u3" xlink:href="#ctx" y="80" fill="{}" stroke="url(#lg)"/></svg>"##,
                    5 + rng.below(20),
                    rng.pick(&["red", "url(#lg)", "none", "url(#missing) blue"])
                )
            }
            4 => {
                // filters: result names, forward / self / missing references, duplicate result names
                let names = ["a", "b", "a", "zz", "SourceGraphic", ""];
                let mut prims = String::new();
                for _ in 0..(1 + rng.below(5)) {
                    let r = *rng.pick(&names);
                    let i1 = *rng.pick(&["a", "b", "zz", "SourceGraphic", "SourceAlpha", "nope", "BackgroundImage", "FillPaint"]);
                    let i2 = *rng.pick(&["a", "b", "SourceGraphic", "later"]);
                    let res = if r.is_empty() { String::new() } else { format!(r#" result="{}""#, r) };
                    prims += &match rng.below(6) {
                        0 => format!(r#"<feBlend in="{i1}" in2="{i2}"{res}/>"#),
                        1 => format!(r#"<feComposite in="{i1}" in2="{i2}" operator="arithmetic" k2="1"{res}/>"#),
                        2 => format!(r#"<feMerge{res}><feMergeNode in="{i1}"/><feMergeNode in="{i2}"/></feMerge>"#),
                        3 => format!(r#"<feDisplacementMap in="{i1}" in2="{i2}" scale="3"{res}/>"#),
                        4 => format!(r#"<feConvolveMatrix in="{i1}" order="{}" kernelMatrix="{}" targetX="{}" divisor="{}"{res}/>"#, rng.pick(&["3", "2 3", "0", "1", "4", "3 0", "-1"]), rng.pick(&["1 1 1 1 1 1 1 1 1", "1 2 3 4 5 6", "1", "", "1 1 1 1 1 1 1 1 1 1 1 1 1 1 1 1"]), rng.pick(&["0", "1", "2", "5", "-1"]), rng.pick(&["0", "1", "9", "1e-40"])),
                        _ => format!(r#"<feColorMatrix in="{i1}" type="matrix" values="{}"{res}/><feSpecularLighting in="{i2}" specularExponent="{}"><fePointLight x="1" y="1" z="5"/></feSpecularLighting><feComponentTransfer><feFuncR type="table" tableValues="{}"/><feFuncG type="discrete"/></feComponentTransfer><feMorphology radius="{}"/>"#, rng.pick(&["1 0 0 0 0 0 1 0 0 0 0 0 1 0 0 0 0 0 1 0", "1 2 3", ""]), rng.pick(&["1", "0", "128", "129", "0.5", "-3", "1e10"]), rng.pick(&["", "0 1", "1"]), rng.pick(&["1", "0", "-1", "1 0", "1e9"])),
                    };
                }
                format!(r##"{HDR}<defs><filter id="f">{prims}</filter></defs><rect id="r" width="50" height="50" fill="blue" filter="url(#f)"/></svg>"##)
            }
            5 => {
                // generated ids must not collide with author ids of the same shape
                format!(
                    r##"{HDR}<defs><clipPath id="clipPath1" clipPathUnits="objectBoundingBox"><rect width="1" height="1"/></clipPath><mask id="mask1" maskContentUnits="objectBoundingBox"><rect width="1" height="1" fill="white"/></mask><linearGradient id="linearGradient1"><stop offset="0"/><stop offset="1" stop-color="red"/></linearGradient><filter id="filter1" primitiveUnits="objectBoundingBox"><feOffset dx="0.1"/></filter><pattern id="pattern1" width="0.3" height="0.3"><rect width="3" height="3"/></pattern><rect id="clipPath2" width="5" height="5"/><rect id="mask2" width="5" height="5"/></defs><g id="clipPath3"/><g id="mask3"><rect id="filter2" width="3" height="3"/></g><text id="linearGradient2" x="1" y="100" font-size="5">a</text><circle id="pattern2" r="2"/><g id="radialGradient2" opacity="0.5"><rect id="linearGradient3" width="2" height="2"/></g><rect id="x1" width="30" height="30" clip-path="url(#clipPath1)" mask="url(#mask1)" fill="url(#linearGradient1)" filter="url(#filter1)"/><rect id="x2" x="40" width="50" height="20" clip-path="url(#clipPath1)" mask="url(#mask1)" fill="url(#linearGradient1)" stroke="url(#pattern1)" filter="url(#filter1)"/><rect id="x3" y="50" width="20" height="50" clip-path="url(#clipPath1)" mask="url(#mask1)" fill="url(#pattern1)" filter="url(#filter1)"/><use xlink:href="#clipPath2"/><use xlink:href="#mask2" x="{}"/></svg>"##,
                    rng.below(30)
                )
            }
            7 => {
                // definitions that are reachable through exactly ONE route: the content of the fill pattern, of the
                // stroke pattern (same element or another), of a marker, of a mask, of a nested pattern
                let both = rng.chance(2, 3);
                let deep = |tag: &str| format!(
                    r##"<linearGradient id="lg{tag}"><stop offset="0" stop-color="red"/><stop offset="1"/></linearGradient><clipPath id="cp{tag}"><rect width="6" height="6"/></clipPath><mask id="mk{tag}"><rect width="8" height="8" fill="white"/></mask><filter id="fl{tag}"><feOffset dx="1"/></filter><pattern id="in{tag}" width="4" height="4" patternUnits="userSpaceOnUse"><rect width="2" height="2" fill="url(#lg{tag})"/></pattern>"##
                );
                let content = |tag: &str, rng: &mut Rng| {
                    let mut c = String::new();
                    if rng.chance(2, 3) { c += &format!(r##"<rect width="5" height="5" fill="url(#lg{tag})"/>"##); }
                    if rng.chance(1, 2) { c += &format!(r##"<rect x="2" width="5" height="5" clip-path="url(#cp{tag})"/>"##); }
                    if rng.chance(1, 2) { c += &format!(r##"<g mask="url(#mk{tag})"><rect width="9" height="9"/></g>"##); }
                    if rng.chance(1, 2) { c += &format!(r##"<rect y="3" width="5" height="5" filter="url(#fl{tag})"/>"##); }
                    if rng.chance(1, 3) { c += &format!(r##"<rect y="5" width="5" height="5" fill="url(#in{tag})"/>"##); }
                    if c.is_empty() { c = format!(r##"<rect width="5" height="5" fill="url(#lg{tag})"/>"##); }
                    c
                };
                let (ca, cb, cm) = (content("A", &mut rng), content("B", &mut rng), content("M", &mut rng));
                let pu = units(&mut rng);
                let (pw, ph) = if pu == "objectBoundingBox" { ("0.25", "0.25") } else { ("10", "10") };
                let target = if both {
                    r##"<rect id="t" x="5" y="5" width="40" height="40" fill="url(#pa)" stroke="url(#pb)" stroke-width="6"/>"##.to_string()
                } else {
                    r##"<rect id="t" x="5" y="5" width="40" height="40" fill="url(#pa)"/><rect id="t2" x="50" y="5" width="40" height="40" fill="red" stroke="url(#pb)" stroke-width="6"/>"##.to_string()
                };
                format!(
                    r##"{HDR}<defs>{}{}{}<pattern id="pa" width="{pw}" height="{ph}" patternUnits="{pu}">{ca}</pattern><pattern id="pb" width="10" height="10" patternUnits="userSpaceOnUse">{cb}</pattern><marker id="mm" markerWidth="10" markerHeight="10">{cm}</marker></defs>{target}<path id="pm" d="M 10 70 L 50 70 L 80 90" fill="none" stroke="black" marker-mid="url(#mm)"/></svg>"##,
                    deep("A"), deep("B"), deep("M")
                )
            }
            8 => {
                // nodes that are in the tree but not painted (hidden layers, zero opacity, off-canvas) still refer to
                // their definitions: those are reachable and belong to the collections
                let hide = *rng.pick(&[r#" visibility="hidden""#, r#" opacity="0""#, r#" transform="translate(5000 0)""#, r#" visibility="collapse""#]);
                let inner = if rng.chance(1, 2) { r#" visibility="visible""# } else { "" };
                format!(
                    r##"{HDR}<defs><linearGradient id="lgh"><stop offset="0" stop-color="red"/><stop offset="1"/></linearGradient><radialGradient id="rgh"><stop offset="0"/><stop offset="1" stop-color="red"/></radialGradient><pattern id="pth" width="6" height="6" patternUnits="userSpaceOnUse"><rect width="3" height="3"/></pattern><clipPath id="cph"><rect width="30" height="30"/></clipPath><mask id="mkh"><rect width="30" height="30" fill="white"/></mask><filter id="flh"><feOffset dx="1"/></filter></defs><g id="layer"{hide}><rect id="h1" width="20" height="20" fill="url(#lgh)" stroke="url(#pth)"/><circle id="h2" cx="50" cy="50" r="10" fill="url(#rgh)"{inner}/><g id="h3" clip-path="url(#cph)" mask="url(#mkh)" filter="url(#flh)"><rect width="9" height="9"/></g><text id="h4" x="5" y="90" font-size="10" fill="url(#lgh)">t</text></g><rect id="shown" x="80" width="10" height="10"/></svg>"##
                )
            }
            9 => {
                // a definition shared by several elements, where a LATER user has descendants with definitions of
                // their own that nothing else refers to (collections are built by one walk over all users)
                let kind = rng.below(3);
                let (attr, def) = match kind {
                    0 => ("clip-path", r#"<clipPath id="sh"><rect width="100" height="100"/></clipPath>"#),
                    1 => ("mask", r#"<mask id="sh" maskUnits="userSpaceOnUse" maskContentUnits="userSpaceOnUse" x="0" y="0" width="100" height="100"><rect width="100" height="100" fill="white"/></mask>"#),
                    _ => ("filter", r#"<filter id="sh" filterUnits="userSpaceOnUse" x="0" y="0" width="110" height="110"><feOffset dx="1"/></filter>"#),
                };
                let users = 2 + rng.below(3);
                let mut body = String::new();
                for j in 0..users {
                    let own = if j > 0 || rng.chance(1, 3) {
                        format!(r##"<rect x="{}" width="8" height="8" clip-path="url(#in{j}c)" fill="url(#in{j}g)"/><g mask="url(#in{j}m)" filter="url(#in{j}f)"><circle r="4" fill="url(#in{j}p)"/></g>"##, j * 10)
                    } else {
                        String::new()
                    };
                    body += &format!(r##"<g id="u{j}" {attr}="url(#sh)"><rect y="{}" width="12" height="12"/>{own}</g>"##, j * 15);
                }
                let mut defs = String::from(def);
                for j in 0..users {
                    defs += &format!(
                        r##"<clipPath id="in{j}c"><rect width="6" height="6"/></clipPath><linearGradient id="in{j}g"><stop offset="0" stop-color="red"/><stop offset="1"/></linearGradient><mask id="in{j}m" maskUnits="userSpaceOnUse" x="0" y="0" width="50" height="50"><rect width="50" height="50" fill="white"/></mask><filter id="in{j}f" filterUnits="userSpaceOnUse" x="-5" y="-5" width="50" height="50"><feOffset dy="1"/></filter><pattern id="in{j}p" width="4" height="4" patternUnits="userSpaceOnUse"><rect width="2" height="2"/></pattern>"##
                    );
                }
                format!(r##"{HDR}<defs>{defs}</defs>{body}</svg>"##)
            }
            _ => {
                // text with gradients/patterns (flattened clones) and nested SVG images
                // (the nested document has context paint of its own: it is a finished tree when the outer pass meets it)
                let inner = r##"<svg xmlns="http://www.w3.org/2000/svg" xmlns:xlink="http://www.w3.org/1999/xlink" width="20" height="20"><defs><linearGradient id="lg"><stop offset="0" stop-color="red"/><stop offset="1"/></linearGradient><clipPath id="c"><rect width="10" height="10"/></clipPath><path id="pp" d="M 0 0 H 5 V 5 H 0 Z" fill="context-fill" stroke="context-stroke"/><pattern id="pt" width="0.5" height="0.5"><rect width="2" height="2" fill="url(#lg)"/></pattern></defs><rect id="r" width="20" height="20" fill="url(#lg)" clip-path="url(#c)"/><use id="u" xlink:href="#pp" x="10" y="10" fill="url(#lg)" stroke="url(#pt)"/></svg>"##;
                let uri = format!("data:image/svg+xml;base64,{}", crate::c17::b64(inner.as_bytes()));
                format!(
                    r##"{HDR}<defs><linearGradient id="lg"><stop offset="0" stop-color="red"/><stop offset="1"/></linearGradient><pattern id="pt" width="0.2" height="0.2"><rect width="3" height="3"/></pattern></defs><text id="t" x="5" y="30" font-size="{}" fill="url(#lg)" stroke="url(#pt)">ab<tspan id="ts" fill="url(#pt)">cd</tspan></text><text id="t2" x="5" y="70" font-size="20" fill="url(#lg)">xyz</text><image id="im" x="60" y="60" width="30" height="30" xlink:href="{uri}"/><image id="im2" x="10" y="80" width="30" height="30" xlink:href="{uri}"/></svg>"##,
                    10 + rng.below(30)
                )
            }
        };
        v.push(Doc { class: format!("targeted-{}", i % 10), path: None, data: doc.into_bytes(), dpi: 96.0 });
    }
    // one bounding-box definition used by an element WITHOUT a box (a horizontal or vertical line, a zero-size shape)
    // and by ordinary elements, in every order: each conversion still gets an id of its own
    let nz = (if tier == "thorough" { 400 } else { 60 }) * budget_mult();
    for i in 0..nz {
        let def = match i % 3 {
            0 => r#"<mask id="zd"><rect width="200" height="200" fill="white"/></mask>"#,
            1 => r#"<mask id="zd" maskContentUnits="objectBoundingBox"><rect width="1" height="1" fill="white"/></mask>"#,
            _ => r#"<clipPath id="zd" clipPathUnits="objectBoundingBox"><rect width="1" height="1"/></clipPath>"#,
        };
        let attr = if i % 3 == 2 { r##"clip-path="url(#zd)""## } else { r##"mask="url(#zd)""## };
        let flat = match rng.below(3) {
            0 => format!(r#"<line x1="10" y1="{0}" x2="90" y2="{0}" stroke="black" stroke-width="4" {attr}/>"#, rng.range(10, 90)),
            1 => format!(r#"<path d="M {0} 10 V 90" stroke="black" stroke-width="4" {attr}/>"#, rng.range(10, 90)),
            _ => format!(r#"<g {attr}><line x1="10" y1="50" x2="90" y2="50" stroke="black" stroke-width="2"/></g>"#),
        };
        let normal = |rng: &mut Rng| format!(r#"<rect x="{}" y="{}" width="{}" height="{}" fill="green" {attr}/>"#, rng.range(0, 50), rng.range(0, 50), rng.range(5, 40), rng.range(5, 40));
        let body = match (i / 3) % 4 {
            0 => format!("{flat}{}", normal(&mut rng)),
            1 => format!("{}{flat}", normal(&mut rng)),
            2 => format!("{flat}{}{}", normal(&mut rng), normal(&mut rng)),
            _ => format!("{}{flat}{}{flat}", normal(&mut rng), normal(&mut rng)),
        };
        let doc = format!(r#"<svg xmlns="http://www.w3.org/2000/svg" width="100" height="100"><defs>{def}</defs>{body}</svg>"#);
        v.push(Doc { class: "shared-definition-with-a-boxless-user".into(), path: None, data: doc.into_bytes(), dpi: 96.0 });
    }
    for f in std::fs::read_dir("/verif/findings/C05").into_iter().flatten().flatten() {
        if let Ok(data) = std::fs::read(f.path()) {
            v.insert(0, Doc { class: "past-failure".into(), path: None, data, dpi: 96.0 });
        }
    }
    v
}

pub fn search(tier: &str, seed: u64, s: &mut Search) {
    crate::tree::run_contracts("C05", tier, seed, s, targeted(seed, tier));
}

// ------------------------------------------------------------------------------------------
// correspondence: the collectors and the filter-input resolution against the model
// ------------------------------------------------------------------------------------------
use std::collections::HashMap;
use std::sync::Arc;
use usvg::{Group, Node, Paint};

#[derive(Clone, Copy, PartialEq)]
enum Kind {
    Linear,
    Radial,
    Pattern,
    Clip,
    Mask,
    Filter,
}

struct Dump {
    kind: Kind,
    ids: HashMap<usize, usize>,
    out: String,
    nodes: usize,
}

impl Dump {
    fn num(&mut self, addr: usize) -> usize {
        let n = self.ids.len();
        *self.ids.entry(addr).or_insert(n)
    }
    fn csv(&mut self, addrs: &[usize]) -> String {
        if addrs.is_empty() {
            "-".into()
        } else {
            addrs.iter().map(|a| self.num(*a).to_string()).collect::<Vec<_>>().join(",")
        }
    }
    fn paint_addr(&self, p: &Paint) -> Option<usize> {
        match (p, self.kind) {
            (Paint::LinearGradient(a), Kind::Linear) => Some(Arc::as_ptr(a) as usize),
            (Paint::RadialGradient(a), Kind::Radial) => Some(Arc::as_ptr(a) as usize),
            (Paint::Pattern(a), Kind::Pattern) => Some(Arc::as_ptr(a) as usize),
            _ => None,
        }
    }
    /// the children of a group, as a sequence of nodes (no brackets)
    fn children(&mut self, g: &Group, depth: usize) {
        for n in g.children() {
            self.node(n, depth);
        }
    }
    fn node(&mut self, n: &Node, depth: usize) {
        self.nodes += 1;
        if depth > 60 {
            self.out += "n - - [ ] [ ] ";
            return;
        }
        match n {
            Node::Group(g) => {
                let mut refs = vec![];
                match self.kind {
                    Kind::Clip => {
                        let mut c = g.clip_path();
                        while let Some(cc) = c {
                            refs.push(cc as *const _ as usize);
                            c = cc.clip_path();
                        }
                    }
                    Kind::Mask => {
                        let mut c = g.mask();
                        while let Some(cc) = c {
                            refs.push(cc as *const _ as usize);
                            c = cc.mask();
                        }
                    }
                    Kind::Filter => refs.extend(g.filters().iter().map(|f| Arc::as_ptr(f) as usize)),
                    _ => {}
                }
                let r = self.csv(&refs);
                self.out += &format!("n {} - [ ", r);
                // sub-roots in `Group::subroots` order: clip chain, mask chain, feImage roots
                let mut c = g.clip_path();
                while let Some(cc) = c {
                    self.children(cc.root(), depth + 1);
                    c = cc.clip_path();
                }
                let mut m = g.mask();
                while let Some(mm) = m {
                    self.children(mm.root(), depth + 1);
                    m = mm.mask();
                }
                for f in g.filters() {
                    for p in f.primitives() {
                        if let usvg::filter::Kind::Image(im) = p.kind() {
                            self.children(im.root(), depth + 1);
                        }
                    }
                }
                self.out += "] [ ";
                self.children(g, depth + 1);
                self.out += "] ";
            }
            Node::Path(p) => {
                let mut refs = vec![];
                let paints: Vec<&Paint> = p.fill().map(|f| f.paint()).into_iter().chain(p.stroke().map(|s| s.paint())).collect();
                for pt in &paints {
                    if let Some(a) = self.paint_addr(pt) {
                        refs.push(a);
                    }
                }
                let r = self.csv(&refs);
                self.out += &format!("n {} - [ ", r);
                for pt in &paints {
                    if let Paint::Pattern(pat) = pt {
                        self.children(pat.root(), depth + 1);
                    }
                }
                self.out += "] [ ] ";
            }
            Node::Image(_) => self.out += "n - - [ ] [ ] ",
            Node::Text(t) => {
                let mut unseen = vec![];
                for ch in t.chunks() {
                    for sp in ch.spans() {
                        let d = sp.decoration();
                        let decos = [d.underline(), d.overline(), d.line_through()];
                        for f in sp.fill().into_iter().chain(decos.iter().filter_map(|x| x.and_then(|x| x.fill()))) {
                            if let Some(a) = self.paint_addr(f.paint()) {
                                unseen.push(a);
                            }
                        }
                        for s in sp.stroke().into_iter().chain(decos.iter().filter_map(|x| x.and_then(|x| x.stroke()))) {
                            if let Some(a) = self.paint_addr(s.paint()) {
                                unseen.push(a);
                            }
                        }
                    }
                }
                // numbered after everything the collector sees, so the numbering of the answer does not depend on them
                let _ = unseen;
                self.out += "n - - [ ";
                self.children(t.flattened(), depth + 1);
                self.out += "] [ ] ";
            }
        }
    }
}

fn dump_tree(t: &usvg::Tree, kind: Kind) -> Option<(String, String)> {
    let mut d = Dump { kind, ids: HashMap::new(), out: String::from("[ "), nodes: 0 };
    d.children(t.root(), 0);
    d.out += "]";
    if d.nodes > 600 {
        return None;
    }
    let coll: Vec<usize> = match kind {
        Kind::Linear => t.linear_gradients().iter().map(|a| Arc::as_ptr(a) as usize).collect(),
        Kind::Radial => t.radial_gradients().iter().map(|a| Arc::as_ptr(a) as usize).collect(),
        Kind::Pattern => t.patterns().iter().map(|a| Arc::as_ptr(a) as usize).collect(),
        Kind::Clip => t.clip_paths().iter().map(|a| Arc::as_ptr(a) as usize).collect(),
        Kind::Mask => t.masks().iter().map(|a| Arc::as_ptr(a) as usize).collect(),
        Kind::Filter => t.filters().iter().map(|a| Arc::as_ptr(a) as usize).collect(),
    };
    let ans = if coll.is_empty() {
        "-".to_string()
    } else {
        coll.iter().map(|a| d.ids.get(a).map(|n| n.to_string()).unwrap_or_else(|| "unreferenced".into())).collect::<Vec<_>>().join(",")
    };
    let which = if matches!(kind, Kind::Linear | Kind::Radial | Kind::Pattern) { "paint" } else { "defs" };
    Some((format!("collect {} {}", which, d.out), ans))
}

fn hexs(s: &str) -> String {
    s.bytes().map(|b| format!("{:02x}", b)).collect()
}

pub fn corr(tier: &str, seed: u64, c: &mut Corr) {
    let mut rng = Rng::new(seed ^ 0xC05);
    let o = crate::corpus::opts_for(None);
    // ---- collectors: targeted documents and corpus files
    let mut docs: Vec<(Vec<u8>, Option<std::path::PathBuf>)> = targeted(seed, "quick").into_iter().map(|d| (d.data, None)).collect();
    let nc = if tier == "thorough" { 0 } else { 250 };
    for p in crate::corpus::sample(nc, seed ^ 3) {
        if let Ok(data) = std::fs::read(&p) {
            docs.push((data, Some(p)));
        }
    }
    for (data, path) in docs {
        let oo = match &path {
            Some(p) => crate::corpus::opts_for(Some(p)),
            None => crate::corpus::opts_for(None),
        };
        let Ok(Ok(t)) = crate::pan::catch(|| usvg::Tree::from_data(&data, &oo)) else { continue };
        for kind in [Kind::Linear, Kind::Radial, Kind::Pattern, Kind::Clip, Kind::Mask, Kind::Filter] {
            if let Some((req, ans)) = dump_tree(&t, kind) {
                // trees without any definition of the kind say nothing
                if ans != "-" || req.contains(|ch: char| ch.is_ascii_digit()) {
                    c.emit(&req, &ans);
                }
            }
        }
    }
    // ---- filter inputs / results
    let n = if tier == "thorough" { 5000 } else { 500 };
    let names = ["a", "b", "zz", "result1", "result2", "result3", "SourceGraphic", "SourceAlpha", "BackgroundImage", "FillPaint", "x y", "é"];
    for _ in 0..n {
        let k = 1 + rng.below(6) as usize;
        let mut prims = String::new();
        let mut req = vec![];
        for _ in 0..k {
            let opt = |rng: &mut Rng| if rng.chance(1, 3) { None } else { Some(*rng.pick(&names)) };
            let res = opt(&mut rng);
            let res_attr = res.map(|r| format!(r#" result="{}""#, r)).unwrap_or_default();
            let enc = |x: Option<&str>| x.map(|s| format!("={}", hexs(s))).unwrap_or_else(|| "~".into());
            let attr = |name: &str, x: Option<&str>| x.map(|s| format!(r#" {}="{}""#, name, s)).unwrap_or_default();
            let (xml, ins): (String, Vec<Option<&str>>) = match rng.below(6) {
                0 => {
                    let (a, b) = (opt(&mut rng), opt(&mut rng));
                    (format!("<feBlend{}{}{}/>", attr("in", a), attr("in2", b), res_attr), vec![a, b])
                }
                1 => {
                    let (a, b) = (opt(&mut rng), opt(&mut rng));
                    (format!("<feComposite{}{}{}/>", attr("in", a), attr("in2", b), res_attr), vec![a, b])
                }
                2 => {
                    let m = rng.below(4) as usize;
                    let ins: Vec<Option<&str>> = (0..m).map(|_| opt(&mut rng)).collect();
                    let nodes: String = ins.iter().map(|x| format!("<feMergeNode{}/>", attr("in", *x))).collect();
                    (format!("<feMerge{}>{}</feMerge>", res_attr, nodes), ins)
                }
                3 => {
                    let a = opt(&mut rng);
                    (format!(r#"<feOffset dx="1"{}{}/>"#, attr("in", a), res_attr), vec![a])
                }
                4 => (format!(r#"<feFlood flood-color="red"{}/>"#, res_attr), vec![]),
                _ => {
                    let (a, b) = (opt(&mut rng), opt(&mut rng));
                    (format!(r#"<feDisplacementMap scale="2"{}{}{}/>"#, attr("in", a), attr("in2", b), res_attr), vec![a, b])
                }
            };
            prims += &xml;
            req.push(format!("{}|{}", enc(res), ins.iter().map(|x| enc(*x)).collect::<Vec<_>>().join(",")));
        }
        let svg = format!(r##"{HDR}<defs><filter id="f">{prims}</filter></defs><rect width="50" height="50" filter="url(#f)"/></svg>"##);
        let Ok(t) = usvg::Tree::from_str(&svg, &o) else { continue };
        let Some(f) = t.filters().first() else { continue };
        let show = |i: &usvg::filter::Input| match i {
            usvg::filter::Input::SourceGraphic => "SG".to_string(),
            usvg::filter::Input::SourceAlpha => "SA".to_string(),
            usvg::filter::Input::Reference(n) => format!("R:{}", hexs(n)),
        };
        let ans: Vec<String> = f
            .primitives()
            .iter()
            .map(|p| {
                let ins: Vec<String> = match p.kind() {
                    usvg::filter::Kind::Blend(k) => vec![show(k.input1()), show(k.input2())],
                    usvg::filter::Kind::Composite(k) => vec![show(k.input1()), show(k.input2())],
                    usvg::filter::Kind::Merge(k) => k.inputs().iter().map(show).collect(),
                    usvg::filter::Kind::Offset(k) => vec![show(k.input())],
                    usvg::filter::Kind::DisplacementMap(k) => vec![show(k.input1()), show(k.input2())],
                    _ => vec![],
                };
                format!("{}|{}", hexs(p.result()), ins.join(","))
            })
            .collect();
        c.emit(&format!("finputs {}", req.join(" ")), &ans.join(" "));
    }
}
