//! C20: the command-line tool is a faithful, fail-safe wrapper of the library.
//! corr: the size of the written PNG against the model of FitTo / IntSize scaling.
//! search: exit status, stderr, output file and pixels of the built `resvg` / `usvg` binaries against the library.
use crate::pan;
use crate::util::*;
use resvg::tiny_skia;
use std::io::{Read, Write};
use std::path::{Path, PathBuf};
use std::process::{Command, Stdio};
use std::time::{Duration, Instant};

fn cli_dir() -> PathBuf {
    PathBuf::from(std::env::var("VERIF_CLI_DIR").unwrap_or_else(|_| "/verif/harness/target/cli/debug".to_string()))
}

struct Run {
    code: Option<i32>,
    signal: Option<i32>,
    timed_out: bool,
    stdout: Vec<u8>,
    stderr: String,
}

fn run(bin: &str, args: &[String], stdin: Option<&[u8]>, cwd: &Path) -> Run {
    let mut cmd = Command::new(cli_dir().join(bin));
    cmd.args(args).current_dir(cwd).stdin(if stdin.is_some() { Stdio::piped() } else { Stdio::null() }).stdout(Stdio::piped()).stderr(Stdio::piped());
    let mut child = cmd.spawn().expect("spawn cli");
    if let Some(data) = stdin {
        if let Some(mut si) = child.stdin.take() {
            let _ = si.write_all(data);
        }
    }
    let mut so = child.stdout.take().unwrap();
    let mut se = child.stderr.take().unwrap();
    let t1 = std::thread::spawn(move || {
        let mut v = vec![];
        let _ = so.read_to_end(&mut v);
        v
    });
    let t2 = std::thread::spawn(move || {
        let mut v = vec![];
        let _ = se.read_to_end(&mut v);
        String::from_utf8_lossy(&v).to_string()
    });
    let start = Instant::now();
    let mut timed_out = false;
    let status = loop {
        match child.try_wait() {
            Ok(Some(st)) => break Some(st),
            Ok(None) => {
                if start.elapsed() > Duration::from_secs(40) {
                    let _ = child.kill();
                    timed_out = true;
                    break child.wait().ok();
                }
                std::thread::sleep(Duration::from_millis(5));
            }
            Err(_) => break None,
        }
    };
    use std::os::unix::process::ExitStatusExt;
    Run {
        code: status.and_then(|s| s.code()),
        signal: status.and_then(|s| s.signal()),
        timed_out,
        stdout: t1.join().unwrap_or_default(),
        stderr: t2.join().unwrap_or_default(),
    }
}

fn png_dims(data: &[u8]) -> Option<(u32, u32)> {
    if data.len() < 24 || &data[..8] != b"\x89PNG\r\n\x1a\n" {
        return None;
    }
    Some((u32::from_be_bytes(data[16..20].try_into().ok()?), u32::from_be_bytes(data[20..24].try_into().ok()?)))
}

fn scratch() -> PathBuf {
    let d = std::env::temp_dir().join(format!("vh-c20-{}", std::process::id()));
    let _ = std::fs::create_dir_all(&d);
    d
}

/// the same font set-up as the library side (corpus::fontdb)
const FONT_ARGS: [&str; 16] = [
    "--skip-system-fonts", "--use-fonts-dir", "/repo/crates/resvg/tests/fonts", "--font-family", "Noto Sans", "--quiet",
    "--serif-family", "Noto Serif", "--sans-serif-family", "Noto Sans", "--cursive-family", "Yellowtail", "--fantasy-family", "Sedgwick Ave Display", "--monospace-family", "Noto Mono",
];
const NF: usize = 16;

fn lib_options(path: Option<&Path>, dpi: f32, w: Option<u32>, h: Option<u32>) -> usvg::Options<'static> {
    let mut o = crate::corpus::opts_for(path);
    o.dpi = dpi;
    o.default_size = match (w, h) {
        (Some(w), Some(h)) => usvg::Size::from_wh(w as f32, h as f32).unwrap(),
        (Some(w), None) => usvg::Size::from_wh(w as f32, 100.0).unwrap(),
        (None, Some(h)) => usvg::Size::from_wh(100.0, h as f32).unwrap(),
        _ => usvg::Size::from_wh(100.0, 100.0).unwrap(),
    };
    o
}

pub fn corr(tier: &str, seed: u64, c: &mut Corr) {
    let mut rng = Rng::new(seed ^ 0xC20);
    let dir = scratch();
    let n = if tier == "thorough" { 1500 } else { 160 };
    for i in 0..n {
        let (dw, dh) = match rng.below(4) {
            0 => (rng.range(1, 400) as f32, rng.range(1, 400) as f32),
            1 => (rng.range(1, 4000) as f32 / 10.0, rng.range(1, 4000) as f32 / 10.0),
            2 => (*rng.pick(&[0.4f32, 0.5, 1.5, 2.5, 99.5, 100.49]), *rng.pick(&[0.4f32, 0.5, 1.5, 33.3])),
            _ => (rng.range(1, 60) as f32, rng.range(100, 900) as f32),
        };
        let svg = format!(r#"<svg xmlns="http://www.w3.org/2000/svg" width="{}" height="{}"><rect width="100%" height="100%" fill="green"/></svg>"#, dw, dh);
        let inp = dir.join(format!("c{}.svg", i));
        let out = dir.join(format!("c{}.png", i));
        let _ = std::fs::write(&inp, &svg);
        let _ = std::fs::remove_file(&out);
        let (w, h, z): (Option<u32>, Option<u32>, Option<f32>) = match rng.below(6) {
            0 => (None, None, None),
            1 => (Some(rng.range(1, 500) as u32), None, None),
            2 => (None, Some(rng.range(1, 500) as u32), None),
            3 => (Some(rng.range(1, 300) as u32), Some(rng.range(1, 300) as u32), None),
            4 => (None, None, Some(*rng.pick(&[0.5f32, 2.0, 1.5, 0.1, 3.3, 0.01, 0.004]))),
            _ => (Some(rng.range(1, 300) as u32), None, Some(2.0)),
        };
        let mut args: Vec<String> = vec!["--quiet".into()];
        if let Some(w) = w {
            args.extend(["-w".to_string(), w.to_string()]);
        }
        if let Some(h) = h {
            args.extend(["-h".to_string(), h.to_string()]);
        }
        if let Some(z) = z {
            args.extend(["-z".to_string(), format!("{}", z)]);
        }
        args.push(inp.display().to_string());
        args.push(out.display().to_string());
        let r = run("resvg", &args, None, &dir);
        // the document size as the library resolves it with the same options
        let o = lib_options(None, 96.0, w, h);
        let Ok(t) = usvg::Tree::from_str(&svg, &o) else { continue };
        let ans = if r.code == Some(0) {
            match std::fs::read(&out).ok().and_then(|d| png_dims(&d)) {
                Some((pw, ph)) => format!("{} {}", pw, ph),
                None => "no-png".to_string(),
            }
        } else {
            "err".to_string()
        };
        let f = |x: Option<u32>| x.map(|v| v.to_string()).unwrap_or_else(|| "-".into());
        c.emit(&format!("fitto {} {} {} {} {}", hx(t.size().width()), hx(t.size().height()), f(w), f(h), z.map(hx).unwrap_or_else(|| "-".into())), &ans);
        let _ = std::fs::remove_file(&inp);
        let _ = std::fs::remove_file(&out);
    }
    // ---- --export-id: image size and the pixel box the object covers, against the model's export plan.
    // Geometry on a grid of 4 and scales with small denominators, so that the box falls on whole pixels.
    let n2 = if tier == "thorough" { 600 } else { 80 };
    for i in 0..n2 {
        let (pw, ph) = (4 * rng.range(20, 40) as u32, 4 * rng.range(20, 40) as u32);
        let (bw, bh) = (4 * rng.range(1, 8) as u32, 4 * rng.range(1, 8) as u32);
        let (bx, by) = (4 * rng.range(0, 10) as u32, 4 * rng.range(0, 10) as u32);
        let svg = format!(r#"<svg xmlns="http://www.w3.org/2000/svg" width="{pw}" height="{ph}"><rect id="a" x="{bx}" y="{by}" width="{bw}" height="{bh}" fill="green"/></svg>"#);
        let page = rng.chance(1, 2);
        let (aw, ah) = if page { (pw, ph) } else { (bw, bh) };
        let k = *rng.pick(&[(1u32, 2u32), (1, 1), (2, 1), (3, 1), (1, 4), (3, 2), (5, 4)]);
        let (w, h, z): (Option<u32>, Option<u32>, Option<f32>) = match rng.below(5) {
            0 => (None, None, None),
            1 => (Some(aw * k.0 / k.1), None, None),
            2 => (None, Some(ah * k.0 / k.1), None),
            3 => (Some(aw * k.0 / k.1), Some(ah * k.0 / k.1), None),
            _ => (None, None, Some(k.0 as f32 / k.1 as f32)),
        };
        let inp = dir.join(format!("x{}.svg", i));
        let out = dir.join(format!("x{}.png", i));
        let _ = std::fs::write(&inp, &svg);
        let _ = std::fs::remove_file(&out);
        let mut args: Vec<String> = vec!["--quiet".into(), "--export-id".into(), "a".into()];
        if page { args.push("--export-area-page".into()); }
        if let Some(w) = w { args.extend(["-w".to_string(), w.to_string()]); }
        if let Some(h) = h { args.extend(["-h".to_string(), h.to_string()]); }
        if let Some(z) = z { args.extend(["-z".to_string(), format!("{}", z)]); }
        args.push(inp.display().to_string());
        args.push(out.display().to_string());
        let r = run("resvg", &args, None, &dir);
        // the box the command works from
        let o = lib_options(None, 96.0, w, h);
        let Ok(t) = usvg::Tree::from_str(&svg, &o) else { continue };
        let Some(bb) = t.node_by_id("a").and_then(|n| n.abs_layer_bounding_box()) else { continue };
        let ans = if r.code == Some(0) {
            match std::fs::read(&out).ok().and_then(|d| decode_png(&d)) {
                Some((gw, gh, pix)) => {
                    let (mut x0, mut y0, mut x1, mut y1) = (i64::MAX, i64::MAX, i64::MIN, i64::MIN);
                    for (k, p) in pix.chunks(4).enumerate() {
                        if p[3] != 0 {
                            let (x, y) = ((k as u32 % gw) as i64, (k as u32 / gw) as i64);
                            x0 = x0.min(x);
                            y0 = y0.min(y);
                            x1 = x1.max(x + 1);
                            y1 = y1.max(y + 1);
                        }
                    }
                    format!("{} {} {} {} {} {}", gw, gh, x0, y0, x1, y1)
                }
                None => "no-png".to_string(),
            }
        } else {
            "err".to_string()
        };
        let f = |x: Option<u32>| x.map(|v| v.to_string()).unwrap_or_else(|| "-".into());
        c.emit(
            &format!("exportplan {} {} {} {} {} {} {} {} {} {}", t.size().to_int_size().width(), t.size().to_int_size().height(), hx(bb.x()), hx(bb.y()), hx(bb.width()), hx(bb.height()), f(w), f(h), z.map(hx).unwrap_or_else(|| "-".into()), page as u8),
            &ans,
        );
        let _ = std::fs::remove_file(&inp);
        let _ = std::fs::remove_file(&out);
    }
    let _ = std::fs::remove_dir_all(&dir);
}

fn decode_png(data: &[u8]) -> Option<(u32, u32, Vec<u8>)> {
    let pm = tiny_skia::Pixmap::decode_png(data).ok()?;
    Some((pm.width(), pm.height(), pm.data().to_vec()))
}

pub fn search(tier: &str, seed: u64, s: &mut Search) {
    let mut rng = Rng::new(seed ^ 0x5EA7C20);
    let mult = budget_mult() as usize;
    let dir = scratch();
    // ---- inputs
    let mut inputs: Vec<(String, Vec<u8>, Option<PathBuf>)> = vec![];
    for p in crate::corpus::sample(if tier == "thorough" { 600 } else { 60 * mult.min(4) }, seed) {
        if let Ok(d) = std::fs::read(&p) {
            inputs.push(("corpus".into(), d, Some(p)));
        }
    }
    for _ in 0..(if tier == "thorough" { 300 } else { 30 } * mult) {
        let (w, h) = (rng.range(10, 150) as u32, rng.range(10, 150) as u32);
        inputs.push(("generated".into(), crate::gen::random_doc(&mut rng, crate::gen::Cfg::full(w, h)).into_bytes(), None));
    }
    // documents without a size of their own (no viewBox, missing or relative width / height, relative content):
    // their size comes from the fallback viewport the command derives from -w / -h
    for _ in 0..(if tier == "thorough" { 120 } else { 16 } * mult) {
        let attrs = match rng.below(5) {
            0 => String::new(),
            1 => r#" width="50%""#.to_string(),
            2 => r#" height="200%""#.to_string(),
            3 => r#" width="100%" height="100%""#.to_string(),
            _ => format!(r#" width="{}""#, rng.range(20, 90)),
        };
        let doc = format!(
            r##"<svg xmlns="http://www.w3.org/2000/svg"{attrs}><rect width="100%" height="100%" fill="#08f"/><circle cx="50%" cy="50%" r="{}%" fill="#f80"/><rect x="10%" y="60%" width="30%" height="20%"/></svg>"##,
            rng.range(5, 40)
        );
        inputs.push(("sizeless".into(), doc.into_bytes(), None));
    }
    // the same content written with a namespace prefix on every element (with text: the command decides from the
    // document whether fonts are needed), and documents whose content depends on the options (languages, rendering hints)
    for k in 0..(if tier == "thorough" { 60 } else { 12 }) {
        let doc = match k % 3 {
            0 => format!(r##"<svg:svg xmlns:svg="http://www.w3.org/2000/svg" width="120" height="60"><svg:rect x="2" y="2" width="116" height="56" fill="none" stroke="green" stroke-width="2"/><svg:text x="10" y="40" font-family="Noto Sans" font-size="{}" fill="#000">Hello</svg:text></svg:svg>"##, rng.range(14, 30)),
            1 => format!(r##"<s:svg xmlns:s="http://www.w3.org/2000/svg" xmlns:xlink="http://www.w3.org/1999/xlink" width="100" height="80"><s:defs><s:linearGradient id="g"><s:stop offset="0" stop-color="red"/><s:stop offset="1" stop-color="blue"/></s:linearGradient></s:defs><s:g><s:circle cx="50" cy="40" r="{}" fill="url(#g)"/><s:text x="5" y="70" font-size="12">ab</s:text></s:g></s:svg>"##, rng.range(10, 35)),
            _ => format!(r##"<svg xmlns="http://www.w3.org/2000/svg" width="100" height="60"><switch><rect systemLanguage="ru" width="100" height="60" fill="#d00"/><rect systemLanguage="de, fr" width="100" height="60" fill="#0a0"/><rect systemLanguage="en" width="100" height="60" fill="#00d"/><rect width="100" height="60" fill="#888"/></switch><path d="M 5 5 L 95 {} L 5 55" fill="none" stroke="black" stroke-width="3"/><text x="5" y="50" font-size="20">xy</text></svg>"##, rng.range(10, 50)),
        };
        inputs.push(("options-sensitive".into(), doc.into_bytes(), None));
    }
    // a drawing that lies outside of the page, and an empty one (for --export-area-drawing)
    for k in 0..(if tier == "thorough" { 40 } else { 8 }) {
        let doc = match k % 4 {
            0 => r##"<svg xmlns="http://www.w3.org/2000/svg" width="100" height="100"><rect x="300" y="300" width="20" height="20" fill="red"/></svg>"##.to_string(),
            1 => r##"<svg xmlns="http://www.w3.org/2000/svg" width="100" height="100"></svg>"##.to_string(),
            2 => format!(r##"<svg xmlns="http://www.w3.org/2000/svg" width="100" height="100"><circle cx="{}" cy="50" r="10" fill="red"/></svg>"##, -rng.range(30, 300)),
            _ => format!(r##"<svg xmlns="http://www.w3.org/2000/svg" width="100" height="100"><rect x="{}" y="{}" width="30" height="30" fill="red"/></svg>"##, rng.range(80, 99), rng.range(-29, -1)),
        };
        inputs.push(("off-page".into(), doc.into_bytes(), None));
    }
    for i in 0..(if tier == "thorough" { 200 } else { 24 } * mult) {
        let data: Vec<u8> = match i % 6 {
            0 => vec![],
            1 => b"<svg".to_vec(),
            2 => b"<svg xmlns=\"http://www.w3.org/2000/svg\" width=\"0\" height=\"10\"/>".to_vec(),
            3 => (0..rng.below(200)).map(|_| rng.below(256) as u8).collect(),
            4 => vec![0x1f, 0x8b, 0x08, 0, 1, 2, 3],
            _ => b"<html xmlns=\"http://www.w3.org/1999/xhtml\"><body/></html>".to_vec(),
        };
        inputs.push(("malformed".into(), data, None));
    }
    for (k, (class, data, path)) in inputs.iter().enumerate() {
        // the input as a file next to its resources (corpus) or in the scratch directory
        let inp = match path {
            Some(p) => p.clone(),
            None => {
                let p = dir.join(format!("in{}.svg", k));
                let _ = std::fs::write(&p, data);
                p
            }
        };
        let out = dir.join(format!("out{}.png", k));
        let _ = std::fs::remove_file(&out);
        // ---- options
        let (mut w, mut h, mut z): (Option<u32>, Option<u32>, Option<f32>) = (None, None, None);
        let mut huge = None;
        match rng.below(7) {
            6 if k % 3 == 0 => {
                // sizes nobody can allocate: the command has to refuse them, not crash
                huge = Some(*rng.pick(&[["-w", "4000000000"], ["-h", "3000000000"], ["-z", "1e9"], ["-z", "1e30"], ["-z", "100000000"]]));
            }
            0 => w = Some(rng.range(1, 300) as u32),
            1 => h = Some(rng.range(1, 300) as u32),
            2 => {
                w = Some(rng.range(1, 200) as u32);
                h = Some(rng.range(1, 200) as u32);
            }
            3 => z = Some(*rng.pick(&[0.5f32, 2.0, 1.5, 0.25])),
            _ => {}
        }
        let dpi = *rng.pick(&[96u32, 96, 72, 300]);
        let bg = *rng.pick(&[None, None, Some("white"), Some("#0f08")]);
        let mode = rng.below(8); // 0..4 plain file->file; 5 stdout; 6 stdin; 7 query-all
        let mut args: Vec<String> = FONT_ARGS.iter().map(|s| s.to_string()).collect();
        if let Some(w) = w { args.extend(["-w".into(), w.to_string()]); }
        if let Some(h) = h { args.extend(["-h".into(), h.to_string()]); }
        if let Some(z) = z { args.extend(["-z".into(), z.to_string()]); }
        if let Some(hg) = huge { args.extend([hg[0].to_string(), hg[1].to_string()]); }
        if dpi != 96 { args.extend(["--dpi".into(), dpi.to_string()]); }
        if let Some(b) = bg { args.extend(["--background".into(), b.to_string()]); }
        // options that go straight into usvg::Options
        let langs: Option<&str> = if class == "options-sensitive" || rng.chance(1, 6) { Some(*rng.pick(&["ru", "en, ru", "ru,en", "de", "fr , en", "xx"])) } else { None };
        if let Some(l) = langs { args.extend(["--languages".into(), l.to_string()]); }
        let shape_r: Option<&str> = if rng.chance(1, 6) { Some(*rng.pick(&["optimizeSpeed", "crispEdges", "geometricPrecision"])) } else { None };
        if let Some(v) = shape_r { args.extend(["--shape-rendering".into(), v.to_string()]); }
        let text_r: Option<&str> = if rng.chance(1, 8) { Some(*rng.pick(&["optimizeSpeed", "optimizeLegibility", "geometricPrecision"])) } else { None };
        if let Some(v) = text_r { args.extend(["--text-rendering".into(), v.to_string()]); }
        let font_size: Option<u32> = if rng.chance(1, 8) { Some(*rng.pick(&[8u32, 20, 40])) } else { None };
        if let Some(v) = font_size { args.extend(["--font-size".into(), v.to_string()]); }
        let area_drawing = rng.chance(1, 8) || (class == "off-page" && rng.chance(2, 3));
        if area_drawing { args.push("--export-area-drawing".into()); }
        let key = format!("{} {:?} [{}]", class, args[NF..].join(" "), match path { Some(p) => p.display().to_string(), None => String::from_utf8_lossy(data).chars().take(600).collect() });
        let r = match mode {
            7 => {
                let mut a = args.clone();
                a.push("--query-all".into());
                a.push(inp.display().to_string());
                run("resvg", &a, None, &dir)
            }
            6 => {
                let mut a = args.clone();
                a.extend(["--resources-dir".into(), inp.parent().unwrap_or(Path::new("/")).display().to_string(), "-".into(), out.display().to_string()]);
                run("resvg", &a, Some(data), &dir)
            }
            5 => {
                let mut a = args.clone();
                a.extend([inp.display().to_string(), "-c".into()]);
                run("resvg", &a, None, &dir)
            }
            _ => {
                let mut a = args.clone();
                a.extend([inp.display().to_string(), out.display().to_string()]);
                run("resvg", &a, None, &dir)
            }
        };
        s.case(&format!("{}-mode{}", class, mode.min(5).max(4)), &key, r.code == Some(0));
        if r.timed_out {
            s.finding("oracle:C20:hang", "the command did not finish within 40 s", &key);
            continue;
        }
        if let Some(sig) = r.signal {
            s.finding(&format!("oracle:C20:crash:signal-{}", sig), &format!("the command was killed by signal {}: {}", sig, r.stderr.lines().last().unwrap_or("")), &key);
            continue;
        }
        if r.code == Some(101) || r.stderr.contains("panicked at") {
            let site = r.stderr.lines().find(|l| l.contains("panicked at")).unwrap_or("").to_string();
            let site = crate::pan::canonical(r.stderr.lines().skip_while(|l| !l.contains("panicked at")).nth(1).unwrap_or(""), site.split("panicked at ").nth(1).unwrap_or("").split(':').next().unwrap_or(""));
            // the size assertions of the filter primitives are one recorded root cause (C02: un-clamped filter region)
            let site = if site.contains("src/filter/") && site.contains("assertion_failed") && (site.contains("width") || site.contains("height")) { "filter-size-assertion(see-C02)".to_string() } else { site };
            s.finding(&format!("oracle:C20:panic:{}", site), &format!("the command panicked: {}", r.stderr.lines().filter(|l| !l.trim().is_empty()).take(3).collect::<Vec<_>>().join(" | ")), &key);
            continue;
        }
        let png: Option<Vec<u8>> = match mode {
            5 => Some(r.stdout.clone()),
            7 => None,
            _ => std::fs::read(&out).ok(),
        };
        if r.code != Some(0) {
            // failure: a message, and no output image
            if r.stderr.trim().is_empty() {
                s.finding("oracle:C20:silent-failure", &format!("exit code {:?} without a message on stderr", r.code), &key);
            }
            if png.as_ref().map(|p| !p.is_empty()).unwrap_or(false) {
                s.finding("oracle:C20:output-despite-failure", &format!("exit code {:?} but an output image of {} bytes was produced", r.code, png.as_ref().unwrap().len()), &key);
            }
            continue;
        }
        if mode == 7 {
            continue;
        }
        if huge.is_some() {
            s.finding("oracle:C20:impossible-size-accepted", "the command exits 0 for a target size that cannot be allocated", &key);
            continue;
        }
        // success: a PNG with the documented size and the library's pixels
        let Some(png) = png else {
            s.finding("oracle:C20:success-without-output", "exit code 0 but no output file", &key);
            continue;
        };
        let Some((pw, ph, pixels)) = decode_png(&png) else {
            s.finding("oracle:C20:output-not-a-png", "exit code 0 but the output does not decode as PNG", &key);
            continue;
        };
        // the library, same options
        let mut o = lib_options(if mode == 6 { inp.parent().map(|d| d.join("x.svg")) } else { Some(inp.clone()) }.as_deref(), dpi as f32, w, h);
        if let Some(l) = langs { o.languages = l.split(',').map(|x| x.trim().to_string()).collect(); }
        if let Some(v) = shape_r { o.shape_rendering = v.parse().unwrap(); }
        if let Some(v) = text_r { o.text_rendering = v.parse().unwrap(); }
        if let Some(v) = font_size { o.font_size = v as f32; }
        let lib = pan::catch(|| {
            let t = usvg::Tree::from_data(data, &o).ok()?;
            let size = t.size().to_int_size();
            let target = match (w, h, z) {
                (Some(w), Some(h), _) => size.scale_to(tiny_skia::IntSize::from_wh(w, h)?),
                (Some(w), None, _) => size.scale_to_width(w)?,
                (None, Some(h), _) => size.scale_to_height(h)?,
                (None, None, Some(z)) => size.scale_by(z)?,
                _ => size,
            };
            let mut pm = tiny_skia::Pixmap::new(target.width(), target.height())?;
            if let Some(b) = bg {
                let c: svgtypes_color::Color = svgtypes_color::parse(b)?;
                pm.fill(tiny_skia::Color::from_rgba8(c.0, c.1, c.2, c.3));
            }
            let ts = tiny_skia::Transform::from_scale(target.width() as f32 / size.width() as f32, target.height() as f32 / size.height() as f32);
            resvg::render(&t, ts, &mut pm.as_mut());
            Some(pm)
        });
        let Ok(Some(lp)) = lib else {
            s.finding("oracle:C20:success-where-the-library-fails", "the command wrote an image but the library rejects the same input / options", &key);
            continue;
        };
        if area_drawing {
            // the trimmed area is a sub-rectangle: sizes may only shrink
            if pw > lp.width() || ph > lp.height() {
                s.finding("oracle:C20:export-area-drawing-larger-than-page", &format!("{}x{} vs page {}x{}", pw, ph, lp.width(), lp.height()), &key);
            }
            continue;
        }
        if (pw, ph) != (lp.width(), lp.height()) {
            s.finding("oracle:C20:size-differs-from-library", &format!("PNG is {}x{}, the documented rules give {}x{}", pw, ph, lp.width(), lp.height()), &key);
            continue;
        }
        // PNG stores straight alpha: compare through the same encoder
        let lib_png = lp.encode_png().ok().and_then(|d| decode_png(&d));
        if let Some((_, _, lpix)) = lib_png {
            if lpix != pixels {
                let ndiff = lpix.chunks(4).zip(pixels.chunks(4)).filter(|(a, b)| a != b).count();
                s.finding("oracle:C20:pixels-differ-from-library", &format!("{} of {} pixels differ from resvg::render with the same options", ndiff, pw * ph), &key);
            }
        }
        let _ = std::fs::remove_file(&out);
    }
    // ---- --export-id: existing, missing, zero-sized; size, pixels and placement against the library
    for i in 0..(if tier == "thorough" { 400 } else { 60 } * mult) {
        let (pw, ph) = (120u32, 100u32);
        // every third document places the object off the pixel grid (its edges are anti-aliased; the export still
        // has to show exactly what the page rendering shows)
        let off = if i % 3 == 2 { *rng.pick(&[".5", ".25", ".7"]) } else { "" };
        let gts = format!("translate({}{off} 4) scale({})", 4 * rng.range(0, 5), *rng.pick(&["1", "1.5", "0.5"]));
        let rect = format!(r#"<rect id="shape" x="8{off}" y="8" width="{}" height="32{off}" fill="{}" stroke="black" stroke-width="4"/>"#, 4 * rng.range(2, 10), *rng.pick(&["green", "green", "none", "#0a08"]));
        let flat = r#"<path id="flat" d="M 5 5 h 40"/>"#;
        let text = r#"<text id="t" x="4" y="90" font-size="14">Text</text>"#;
        let head = format!(r#"<svg xmlns="http://www.w3.org/2000/svg" width="{}" height="{}">"#, pw, ph);
        let svg = format!(r#"{head}<g id="grp" transform="{gts}">{rect}{flat}<g id="empty"/></g>{text}</svg>"#);
        let id = *rng.pick(&["shape", "shape", "grp", "t", "flat", "empty", "missing", ""]);
        // the document that contains only the exported node under its ancestors' transforms
        let single = match id {
            "shape" => Some(format!(r#"{head}<g transform="{gts}">{rect}</g></svg>"#)),
            "grp" => Some(format!(r#"{head}<g id="grp" transform="{gts}">{rect}{flat}<g id="empty"/></g></svg>"#)),
            "t" => Some(format!(r#"{head}{text}</svg>"#)),
            _ => None,
        };
        let inp = dir.join(format!("e{}.svg", i));
        let out = dir.join(format!("e{}.png", i));
        let _ = std::fs::write(&inp, &svg);
        let _ = std::fs::remove_file(&out);
        let mut args: Vec<String> = FONT_ARGS.iter().map(|s| s.to_string()).collect();
        args.extend(["--export-id".into(), id.to_string()]);
        let page = rng.chance(1, 2);
        if page { args.push("--export-area-page".into()); }
        let (mut w, mut h, mut z): (Option<u32>, Option<u32>, Option<f32>) = (None, None, None);
        match rng.below(7) {
            0 => z = Some(2.0),
            1 => z = Some(0.5),
            2 => w = Some(rng.range(10, 300) as u32),
            3 => h = Some(rng.range(10, 300) as u32),
            4 => { w = Some(rng.range(10, 200) as u32); h = Some(rng.range(10, 200) as u32); }
            _ => {}
        }
        if let Some(w) = w { args.extend(["-w".into(), w.to_string()]); }
        if let Some(h) = h { args.extend(["-h".into(), h.to_string()]); }
        if let Some(z) = z { args.extend(["-z".into(), z.to_string()]); }
        let bg = *rng.pick(&[None, None, Some("white"), Some("#0f08")]);
        if let Some(b) = bg { args.extend(["--background".into(), b.to_string()]); }
        args.extend([inp.display().to_string(), out.display().to_string()]);
        let r = run("resvg", &args, None, &dir);
        let key = format!("export {:?} {}", args[NF..args.len() - 2].join(" "), svg);
        s.case(&format!("export-id-{}{}", if id.is_empty() { "none" } else { id }, if page { "-page" } else { "" }), &key, r.code == Some(0));
        if r.timed_out || r.signal.is_some() || r.code == Some(101) {
            s.finding("oracle:C20:export-id:crash", &format!("code {:?} signal {:?}: {}", r.code, r.signal, r.stderr.lines().last().unwrap_or("")), &key);
            continue;
        }
        let exists = std::fs::metadata(&out).map(|m| m.len() > 0).unwrap_or(false);
        let should_work = matches!(id, "shape" | "t" | "grp");
        if should_work && (r.code != Some(0) || !exists) {
            s.finding("oracle:C20:export-id:existing-id-fails", &format!("--export-id {} failed: code {:?} {}", id, r.code, r.stderr.trim()), &key);
        }
        if matches!(id, "missing" | "") && (r.code == Some(0) || exists) {
            s.finding("oracle:C20:export-id:missing-id-succeeds", &format!("--export-id {:?}: code {:?}, output exists: {}", id, r.code, exists), &key);
        }
        if r.code != Some(0) && (r.stderr.trim().is_empty() || exists) {
            s.finding("oracle:C20:export-id:failure-not-clean", &format!("code {:?}, stderr {:?}, output exists: {}", r.code, r.stderr.trim(), exists), &key);
        }
        if should_work && r.code == Some(0) && exists {
            if let Some((gw, gh, gpix)) = std::fs::read(&out).ok().and_then(|d| decode_png(&d)) {
                export_oracle(s, &key, &svg, single.as_deref().unwrap(), id, page, (w, h, z), bg, (gw, gh, &gpix));
            } else {
                s.finding("oracle:C20:output-not-a-png", "exit code 0 but the output does not decode as PNG", &key);
            }
        }
        let _ = std::fs::remove_file(&inp);
        let _ = std::fs::remove_file(&out);
    }
    // ---- the usvg command: its output is the library serialisation of the same input with the same options
    // a document whose numbers have more digits than any precision keeps
    let digits = r##"<svg xmlns="http://www.w3.org/2000/svg" width="120" height="100"><linearGradient id="lg" gradientTransform="matrix(0.87654321 0.12345678 -0.23456789 0.98765432 0.0123456 0.0654321)"><stop offset="0.123456" stop-color="red"/><stop offset="0.87654321" stop-color="blue"/></linearGradient><g transform="matrix(1.23456789 0.1234567 -0.7654321 0.98765432 10.123456 20.654321)"><path d="M 10.123456 20.654321 L 33.3333333 44.4444444 Q 1.0000001 2.7182818 3.1415926 50.505050 Z" fill="url(#lg)" stroke="black" stroke-width="1.23456789"/></g></svg>"##;
    let digits_path = dir.join("digits.svg");
    let _ = std::fs::write(&digits_path, digits);
    let mut usvg_inputs: Vec<(Vec<u8>, PathBuf)> = vec![];
    for _ in 0..(if tier == "thorough" { 40 } else { 8 }) {
        usvg_inputs.push((digits.as_bytes().to_vec(), digits_path.clone()));
    }
    // content that depends on the parse options of the usvg command
    for k in 0..(if tier == "thorough" { 30 } else { 8 }) {
        let doc = format!(
            r##"<svg xmlns="http://www.w3.org/2000/svg" width="1in" height="{}mm"><switch><rect id="ru" systemLanguage="ru" width="50%" height="60" fill="#d00"/><rect id="defr" systemLanguage="de, fr" width="100" height="60" fill="#0a0"/><rect id="en" systemLanguage="en" width="100" height="60" fill="#00d"/><rect id="fallback" width="100" height="60" fill="#888"/></switch><circle cx="1cm" cy="10pt" r="2mm"/></svg>"##,
            10 + k
        );
        let pth = dir.join(format!("sw{}.svg", k));
        let _ = std::fs::write(&pth, &doc);
        usvg_inputs.push((doc.into_bytes(), pth));
    }
    for (k, (_class, data, path)) in inputs.iter().enumerate() {
        if path.is_none() && _class != "generated" {
            continue;
        }
        usvg_inputs.push((data.clone(), path.clone().unwrap_or_else(|| dir.join(format!("in{}.svg", k)))));
    }
    for (k, (data, p)) in usvg_inputs.iter().enumerate() {
        let Ok(text) = std::str::from_utf8(data) else { continue };
        if text.contains("<text") {
            continue; // fonts: the two sides would need the same database; text is covered through resvg above
        }
        let out = dir.join(format!("u{}.svg", k));
        let mut a: Vec<String> = vec!["--quiet".into()];
        let mut wo = usvg::WriteOptions::default();
        // the defaults of the command (its help text): indent 4, attributes not indented, precision 8
        wo.indent = xmlwriter_indent("4");
        wo.attributes_indent = xmlwriter_indent("none");
        if rng.chance(1, 2) {
            let cp = rng.range(2, 9) as u8;
            a.extend(["--coordinates-precision".into(), cp.to_string()]);
            wo.coordinates_precision = cp;
        }
        if rng.chance(1, 2) {
            // mostly different from the coordinates precision, so that a mix-up of the two shows
            let mut tp = rng.range(2, 9) as u8;
            if tp == wo.coordinates_precision && rng.chance(3, 4) {
                tp = if tp > 4 { tp - 3 } else { tp + 3 };
            }
            a.extend(["--transforms-precision".into(), tp.to_string()]);
            wo.transforms_precision = tp;
        }
        if rng.chance(1, 3) {
            let v = *rng.pick(&["none", "0", "2", "tabs"]);
            a.extend(["--indent".into(), v.into()]);
            wo.indent = xmlwriter_indent(v);
        }
        if rng.chance(1, 3) {
            let v = *rng.pick(&["none", "1", "3", "tabs"]);
            a.extend(["--attrs-indent".into(), v.into()]);
            wo.attributes_indent = xmlwriter_indent(v);
        }
        if rng.chance(1, 3) {
            a.extend(["--id-prefix".into(), "p_".into()]);
            wo.id_prefix = Some("p_".into());
        }
        // parse options of the usvg command
        let mut o = crate::corpus::opts_for(Some(p));
        let mut popt = vec![];
        if rng.chance(1, 3) || text.contains("systemLanguage") {
            let l = *rng.pick(&["ru", "en, ru", "ru,en", "de", "fr , en"]);
            a.extend(["--languages".into(), l.to_string()]);
            o.languages = l.split(',').map(|x| x.trim().to_string()).collect();
            popt.push("languages");
        }
        if rng.chance(1, 4) {
            let d = *rng.pick(&[72u32, 300, 150]);
            a.extend(["--dpi".into(), d.to_string()]);
            o.dpi = d as f32;
            popt.push("dpi");
        }
        if rng.chance(1, 4) {
            let v = *rng.pick(&["optimizeSpeed", "crispEdges", "geometricPrecision"]);
            a.extend(["--shape-rendering".into(), v.to_string()]);
            o.shape_rendering = v.parse().unwrap();
            popt.push("shape-rendering");
        }
        if rng.chance(1, 4) {
            let (dw, dh) = (rng.range(10, 400) as u32, rng.range(10, 400) as u32);
            a.extend(["--default-width".into(), dw.to_string(), "--default-height".into(), dh.to_string()]);
            o.default_size = usvg::Size::from_wh(dw as f32, dh as f32).unwrap();
            popt.push("default-size");
        }
        let optkey = a[1..].join(" ");
        a.extend([p.display().to_string(), out.display().to_string()]);
        let r = run("usvg", &a, None, &dir);
        let lib = pan::catch(|| usvg::Tree::from_data(data, &o).ok().map(|t| t.to_string(&wo)));
        let key = format!("{} [{}]", if p.starts_with(&dir) { text.chars().take(600).collect::<String>() } else { p.display().to_string() }, optkey);
        s.case("usvg", &key, r.code == Some(0));
        match (r.code, lib) {
            (Some(0), Ok(Some(want))) => {
                let got = std::fs::read_to_string(&out).unwrap_or_default();
                if got.trim_end() != want.trim_end() {
                    let mut blamed = vec![];
                    for name in ["--coordinates-precision", "--transforms-precision", "--indent", "--attrs-indent", "--id-prefix", "--languages", "--dpi", "--shape-rendering", "--default-width"] {
                        if optkey.contains(name) {
                            blamed.push(name.trim_start_matches("--"));
                        }
                    }
                    let cause = if blamed.is_empty() { "default-options".to_string() } else { blamed.join("+") };
                    s.finding(&format!("oracle:C20:usvg-output-differs-from-library({})", cause), "the usvg command's output differs from Tree::to_string of the same input with the same options", &key);
                }
            }
            (Some(0), _) => s.finding("oracle:C20:usvg-success-where-library-fails", "usvg exits 0 where the library rejects the input", &key),
            (code, Ok(Some(_))) if r.signal.is_some() || code == Some(101) => s.finding("oracle:C20:usvg-crash", &format!("code {:?} signal {:?}", code, r.signal), &key),
            _ => {}
        }
        let _ = std::fs::remove_file(&out);
    }
    // ---- usvg and the output file: a run that fails leaves no output (and does not destroy an earlier one), and the
    // output may be the input file itself
    {
        let good = r#"<svg xmlns="http://www.w3.org/2000/svg" width="20" height="10"><rect width="10" height="5" fill="green"/></svg>"#;
        let broken = [r#"<svg xmlns="http://www.w3.org/2000/svg" width="20" height="10"><rect"#, "not an svg at all", r#"<svg xmlns="http://www.w3.org/2000/svg" width="0" height="10"/>"#];
        let o = crate::corpus::opts_for(None);
        let want = usvg::Tree::from_str(good, &o).map(|t| t.to_string(&usvg::WriteOptions::default())).unwrap_or_default();
        for (k, b) in broken.iter().enumerate() {
            let inp = dir.join(format!("bad{}.svg", k));
            let out = dir.join(format!("bad{}.out.svg", k));
            let _ = std::fs::write(&inp, b);
            // (a) no earlier output
            let _ = std::fs::remove_file(&out);
            let r = run("usvg", &[inp.display().to_string(), out.display().to_string()], None, &dir);
            let key = format!("usvg on a rejected input #{}: {}", k, b);
            s.case("usvg-failing-run", &key, r.code != Some(0));
            if r.code == Some(0) {
                continue;
            }
            if out.exists() {
                s.finding("oracle:C20:usvg-failure-leaves-an-output-file", &format!("exit code {:?}, but {} exists ({} bytes)", r.code, out.display(), std::fs::metadata(&out).map(|m| m.len()).unwrap_or(0)), &key);
            }
            // (b) an earlier good output stays as it was
            let _ = std::fs::write(&out, &want);
            let _ = run("usvg", &[inp.display().to_string(), out.display().to_string()], None, &dir);
            if std::fs::read_to_string(&out).unwrap_or_default() != want {
                s.finding("oracle:C20:usvg-failure-destroys-an-earlier-output", "a failing run changed the output file of an earlier successful run", &key);
            }
            let _ = std::fs::remove_file(&out);
        }
        // stdout mode with --perf: what arrives on stdout is the image and nothing else
        {
            let inp = dir.join("perf.svg");
            let _ = std::fs::write(&inp, good);
            for extra in [vec!["--perf".to_string()], vec!["--perf".to_string(), "-z".to_string(), "2".to_string()], vec![]] {
                let mut a = extra.clone();
                a.extend([inp.display().to_string(), "-c".to_string()]);
                let r = run("resvg", &a, None, &dir);
                let key = format!("resvg {} <file> -c", extra.join(" "));
                s.case("stdout-with-perf", &key, r.code == Some(0));
                if r.signal.is_some() || r.code == Some(101) {
                    s.finding("oracle:C20:stdout-mode:crash", &format!("code {:?} signal {:?}", r.code, r.signal), &key);
                } else if r.code == Some(0) && decode_png(&r.stdout).is_none() {
                    s.finding("oracle:C20:stdout-mode:output-not-a-png", &format!("exit code 0 but stdout ({} bytes, starts {:?}) does not decode as PNG", r.stdout.len(), String::from_utf8_lossy(&r.stdout[..r.stdout.len().min(24)])), &key);
                }
            }
        }
        // in place
        let f = dir.join("inplace.svg");
        let _ = std::fs::write(&f, good);
        let r = run("usvg", &[f.display().to_string(), f.display().to_string()], None, &dir);
        let key = format!("usvg with the input file as the output file: {}", good);
        s.case("usvg-in-place", &key, r.code == Some(0));
        let got = std::fs::read_to_string(&f).unwrap_or_default();
        if r.code != Some(0) || got.trim_end() != want.trim_end() {
            s.finding("oracle:C20:usvg-in-place-conversion-fails", &format!("exit code {:?}; the file holds {} bytes, the library serialisation has {}", r.code, got.len(), want.len()), &key);
        }
    }
    let _ = std::fs::remove_dir_all(&dir);
}

fn xmlwriter_indent(v: &str) -> usvg::Indent {
    match v {
        "none" => usvg::Indent::None,
        "tabs" => usvg::Indent::Tabs,
        n => usvg::Indent::Spaces(n.parse().unwrap()),
    }
}

fn bg_color(b: &str) -> Option<tiny_skia::Color> {
    let c = svgtypes_color::parse(b)?;
    Some(tiny_skia::Color::from_rgba8(c.0, c.1, c.2, c.3))
}

/// through the PNG encoder, as the command's output went
fn via_png(pm: &tiny_skia::Pixmap) -> Option<Vec<u8>> {
    pm.encode_png().ok().and_then(|d| decode_png(&d)).map(|t| t.2)
}

/// `--export-id`: the written image against the library.
///  * without `--export-area-page`: the size rules applied to the object's box, one background fill, and
///    `resvg::render_node` with the scale that maps the box onto the image — pixel for pixel;
///  * with it: the page-sized rendering of the document that contains only that node (same options):
///    everything away from the object's box pixel for pixel (background), and the whole image when the
///    object's scaled box falls on whole pixels (otherwise the placement is only defined up to a pixel).
#[allow(clippy::too_many_arguments)]
fn export_oracle(s: &mut Search, key: &str, svg: &str, single: &str, id: &str, page: bool, fit: (Option<u32>, Option<u32>, Option<f32>), bg: Option<&str>, got: (u32, u32, &[u8])) {
    let (gw, gh, gpix) = got;
    let o = lib_options(None, 96.0, fit.0, fit.1);
    let lib = pan::catch(|| {
        let t = usvg::Tree::from_str(svg, &o).ok()?;
        let node = t.node_by_id(id)?;
        let bbox = node.abs_layer_bounding_box()?;
        let area = if page { t.size().to_int_size() } else { bbox.size().to_int_size() };
        let target = match fit {
            (Some(w), Some(h), _) => area.scale_to(tiny_skia::IntSize::from_wh(w, h)?),
            (Some(w), None, _) => area.scale_to_width(w)?,
            (None, Some(h), _) => area.scale_to_height(h)?,
            (None, None, Some(z)) => area.scale_by(z)?,
            _ => area,
        };
        let (sx, sy) = (target.width() as f32 / area.width() as f32, target.height() as f32 / area.height() as f32);
        let mut pm = tiny_skia::Pixmap::new(target.width(), target.height())?;
        if let Some(c) = bg.and_then(bg_color) {
            pm.fill(c);
        }
        let ts = tiny_skia::Transform::from_scale(sx, sy);
        if page {
            let t1 = usvg::Tree::from_str(single, &o).ok()?;
            resvg::render(&t1, ts, &mut pm.as_mut());
        } else {
            resvg::render_node(node, ts, &mut pm.as_mut());
        }
        Some((pm, bbox, sx, sy))
    });
    let Ok(Some((want, bbox, sx, sy))) = lib else {
        s.finding("oracle:C20:export-id:success-where-the-library-fails", "the command exported a node the library cannot", key);
        return;
    };
    let mode = if page { "area-page" } else { "object" };
    if (gw, gh) != (want.width(), want.height()) {
        s.finding(&format!("oracle:C20:export-id:{}:size-differs-from-the-documented-rule", mode), &format!("PNG is {}x{}, the size options applied to the exported area give {}x{}", gw, gh, want.width(), want.height()), key);
        return;
    }
    let Some(wpix) = via_png(&want) else { return };
    let w = gw as usize;
    if !page {
        let nd = gpix.chunks(4).zip(wpix.chunks(4)).filter(|(a, b)| a != b).count();
        if nd > 0 {
            s.finding("oracle:C20:export-id:object:pixels-differ-from-library", &format!("{} of {} pixels differ from resvg::render_node on a canvas of the same size with the same background and scale", nd, gw * gh), key);
        }
        return;
    }
    // with --export-area-page the image is the page rendering of the document that contains only the exported node
    // (under its ancestors' transforms), on the same background — the whole image, stroke and anti-aliased edges
    // included (since fix b316a01 the node is rendered in place; before, it was pasted at whole pixels and cut at
    // its layer box)
    let _ = (bbox, sx, sy);
    let mut g = tiny_skia::Pixmap::new(gw, gh).unwrap();
    let mut q = tiny_skia::Pixmap::new(gw, gh).unwrap();
    // straight alpha on both sides: compared as such
    g.data_mut().copy_from_slice(gpix);
    q.data_mut().copy_from_slice(&wpix);
    let _ = w;
    let (ok, why) = crate::rend::similar(&g, &q, 8);
    if !ok {
        s.finding("oracle:C20:export-id:area-page:differs-from-the-page-rendering-of-the-node", &format!("differs from the page rendering of the node-only document: {}", why), key);
    }
}

/// the few colours the search passes to --background
mod svgtypes_color {
    pub struct Color(pub u8, pub u8, pub u8, pub u8);
    pub fn parse(s: &str) -> Option<Color> {
        match s {
            "white" => Some(Color(255, 255, 255, 255)),
            "#0f08" => Some(Color(0, 255, 0, 136)),
            _ => None,
        }
    }
}
