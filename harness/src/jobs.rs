//! Jobs executed inside the worker child (and, for benign inputs, in-process).
use crate::pan;
use crate::worker::{hex_decode, reset_alloc_stats, CAP, MAX_SINGLE, PEAK};
use resvg::tiny_skia;
use std::sync::atomic::Ordering;

pub fn count_nodes(g: &usvg::Group) -> usize {
    let mut n = 0;
    for c in g.children() {
        n += 1;
        if let usvg::Node::Group(ref gg) = c {
            n += count_nodes(gg);
        }
    }
    n
}

pub fn run_job(line: &str) -> String {
    let p: Vec<&str> = line.split(' ').collect();
    match p.first().copied() {
        Some("parse") if p.len() == 3 => {
            let dpi: f32 = p[1].parse().unwrap_or(96.0);
            let data = hex_decode(p[2]);
            let mut o = crate::corpus::opts_for(None);
            o.dpi = dpi;
            match pan::catch(|| usvg::Tree::from_data(&data, &o)) {
                Ok(Ok(t)) => format!("ok {}", count_nodes(t.root())),
                Ok(Err(e)) => format!("err {}", format!("{}", e).replace(' ', "_")),
                Err(ps) => format!("panic {}", ps.site),
            }
        }
        Some("render") if p.len() == 11 || p.len() == 12 => {
            let w: u32 = p[1].parse().unwrap_or(1);
            let h: u32 = p[2].parse().unwrap_or(1);
            let f = |s: &str| f32::from_bits(u32::from_str_radix(s, 16).unwrap_or(0));
            let ts = tiny_skia::Transform::from_row(f(p[3]), f(p[4]), f(p[5]), f(p[6]), f(p[7]), f(p[8]));
            let cap: usize = p[9].parse().unwrap_or(usize::MAX);
            let data = hex_decode(p[10]);
            let o = crate::corpus::opts_for(None);
            let tree = match pan::catch(|| usvg::Tree::from_data(&data, &o)) {
                Ok(Ok(t)) => t,
                Ok(Err(e)) => return format!("err {}", format!("{}", e).replace(' ', "_")),
                Err(ps) => return format!("parse-panic {}", ps.site),
            };
            let Some(mut pm) = tiny_skia::Pixmap::new(w, h) else { return "err canvas".to_string() };
            reset_alloc_stats();
            CAP.store(cap, Ordering::Relaxed);
            // with a 12th field: the node of that id alone, through the node-export entry point
            let r = match p.get(11) {
                None => pan::catch(|| resvg::render(&tree, ts, &mut pm.as_mut())),
                Some(id) => {
                    let Some(node) = tree.node_by_id(id) else {
                        CAP.store(usize::MAX, Ordering::Relaxed);
                        return "err no-such-node".to_string();
                    };
                    pan::catch(|| {
                        let _ = resvg::render_node(node, ts, &mut pm.as_mut());
                    })
                }
            };
            CAP.store(usize::MAX, Ordering::Relaxed);
            match r {
                Ok(()) => format!("ok maxalloc={} peak={}", MAX_SINGLE.load(Ordering::Relaxed), PEAK.load(Ordering::Relaxed)),
                Err(ps) => {
                    if std::env::var("VERIF_RAW").is_ok() {
                        eprintln!("RAW {}", ps.raw);
                    }
                    format!("panic {}", ps.site)
                }
            }
        }
        Some("cycle") if p.len() == 2 => {
            let data = hex_decode(p[1]);
            let o = crate::corpus::opts_for(None);
            let tree = match pan::catch(|| usvg::Tree::from_data(&data, &o)) {
                Ok(Ok(t)) => t,
                Ok(Err(e)) => return format!("err {}", format!("{}", e).replace(' ', "_")),
                Err(ps) => return format!("panic parse {}", ps.site),
            };
            // the independent witness: same id, geometry and paint
            let witness = match tree.node_by_id("witness") {
                Some(usvg::Node::Path(p)) => {
                    let bb = p.bounding_box();
                    let fill_ok = matches!(p.fill().map(|f| f.paint()), Some(usvg::Paint::Color(c)) if c.red == 0 && c.green == 0 && c.blue == 255);
                    fill_ok && (bb.x() - 25.0).abs() < 0.01 && (bb.y() - 25.0).abs() < 0.01 && (bb.width() - 10.0).abs() < 0.01 && (bb.height() - 10.0).abs() < 0.01
                }
                _ => false,
            };
            let Some(mut pm) = tiny_skia::Pixmap::new(40, 40) else { return "err canvas".to_string() };
            match pan::catch(|| resvg::render(&tree, tiny_skia::Transform::identity(), &mut pm.as_mut())) {
                Ok(()) => {
                    // the witness must also be painted
                    let i = ((30 * 40 + 30) * 4) as usize;
                    let d = pm.data();
                    let painted = d[i + 2] == 255 && d[i + 3] == 255;
                    format!("ok witness={}", (witness && painted) as u8)
                }
                Err(ps) => format!("panic render {}", ps.site),
            }
        }
        // det <hex path | -> <hex data>: fingerprints of the written tree and of the pixels
        Some("det") if p.len() == 3 => {
            let path = if p[1] == "-" { None } else { Some(std::path::PathBuf::from(String::from_utf8_lossy(&hex_decode(p[1])).to_string())) };
            let data = hex_decode(p[2]);
            match crate::c06::fingerprint(&data, path.as_deref()) {
                Some((a, b)) => format!("fp {:x} {:x}", a, b),
                None => "none".to_string(),
            }
        }
        // contract <prop> <dpi> <hex path | -> <hex data>: walk the whole tree, check the property's contracts
        Some("contract") if p.len() == 5 => {
            let dpi: f32 = p[2].parse().unwrap_or(96.0);
            let path = if p[3] == "-" { None } else { Some(std::path::PathBuf::from(String::from_utf8_lossy(&hex_decode(p[3])).to_string())) };
            let data = hex_decode(p[4]);
            let mut o = crate::corpus::opts_for(path.as_deref());
            o.dpi = dpi;
            let tree = match pan::catch(|| usvg::Tree::from_data(&data, &o)) {
                Ok(Ok(t)) => t,
                Ok(Err(e)) => return format!("err {}", format!("{}", e).replace(' ', "_")),
                Err(ps) => return format!("parse-panic {}", ps.site),
            };
            let prop = p[1].to_string();
            match pan::catch(|| crate::tree::check(&prop, &tree, &data)) {
                Ok(v) if v.is_empty() => format!("ok {}", count_nodes(tree.root())),
                Ok(v) => {
                    let parts: Vec<String> = v.iter().take(20).map(|x| format!("{}\u{1}{}", x.sig, x.what.replace('\n', " ").replace('\u{1}', " ").replace('\u{2}', " "))).collect();
                    format!("viol {}", parts.join("\u{2}"))
                }
                Err(ps) => format!("check-panic {}", ps.site),
            }
        }
        _ => "bad-job".to_string(),
    }
}
