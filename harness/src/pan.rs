//! Panic capture: run a closure, return either its value or a canonical panic site.
use std::cell::RefCell;
use std::panic::{self, AssertUnwindSafe};
use std::sync::Once;

thread_local! {
    static LAST: RefCell<Option<(String, String, u32)>> = const { RefCell::new(None) };
}
static HOOK: Once = Once::new();

pub fn install_hook() {
    HOOK.call_once(|| {
        panic::set_hook(Box::new(|info| {
            let msg = if let Some(s) = info.payload().downcast_ref::<&str>() {
                s.to_string()
            } else if let Some(s) = info.payload().downcast_ref::<String>() {
                s.clone()
            } else {
                "<non-string panic>".to_string()
            };
            let (mut file, line) = info.location().map(|l| (l.file().to_string(), l.line())).unwrap_or(("?".into(), 0));
            // innermost usvg / resvg function on the stack: tells *which* call site reached a panicking
            // helper of a dependency (several converters unwrap the same tiny-skia constructor)
            // symbolising the backtrace allocates (debug info): lift the allocation cap of the worker
            // first, otherwise the refusal path would try to take the backtrace lock we already hold
            crate::worker::CAP.store(usize::MAX, std::sync::atomic::Ordering::Relaxed);
            let bt = std::backtrace::Backtrace::force_capture().to_string();
            for l in bt.lines() {
                let t = l.trim();
                if let Some(i) = t.find(": ") {
                    let name = &t[i + 2..];
                    if (name.starts_with("usvg::") || name.starts_with("resvg::")) && !name.contains("verif") {
                        let name = name.split("::{{closure}}").next().unwrap_or(name);
                        file = format!("{}@{}", file, name);
                        break;
                    }
                }
            }
            LAST.with(|l| *l.borrow_mut() = Some((msg, file, line)));
        }));
    });
}

#[derive(Debug, Clone)]
pub struct PanicSite {
    pub site: String,
    pub raw: String,
}

/// `crates/resvg/src/render.rs:attempt_to_add_with_overflow` — no line numbers, digits normalised
pub fn canonical(msg: &str, file: &str) -> String {
    let (file, func) = match file.split_once('@') {
        Some((f, g)) => (f, Some(g)),
        None => (file, None),
    };
    let msg_owned;
    let msg = if let Some(g) = func {
        msg_owned = format!("{} @{}", msg.lines().next().unwrap_or(""), g);
        msg_owned.as_str()
    } else {
        msg
    };
    let f = if let Some(i) = file.find("crates/") {
        &file[i..]
    } else if let Some(i) = file.rfind("/src/") {
        // registry crate: keep `<crate-dir>/src/...`
        let head = &file[..i];
        let start = head.rfind('/').map(|j| j + 1).unwrap_or(0);
        &file[start..]
    } else {
        file
    };
    let first_line = msg.lines().next().unwrap_or("");
    let mut out = String::new();
    let mut last_hash = false;
    for c in format!("{}:{}", f, first_line).chars() {
        if c.is_ascii_digit() {
            if !last_hash {
                out.push('#');
            }
            last_hash = true;
        } else {
            last_hash = false;
            out.push(if c == ' ' || c == '\t' { '_' } else { c });
        }
    }
    if out.len() > 160 {
        out.truncate(160);
    }
    out
}

pub fn catch<T, F: FnOnce() -> T>(f: F) -> Result<T, PanicSite> {
    install_hook();
    LAST.with(|l| *l.borrow_mut() = None);
    match panic::catch_unwind(AssertUnwindSafe(f)) {
        Ok(v) => Ok(v),
        Err(_) => {
            let (msg, file, line) = LAST.with(|l| l.borrow_mut().take()).unwrap_or(("?".into(), "?".into(), 0));
            Err(PanicSite { site: canonical(&msg, &file), raw: format!("{} at {}:{}", msg, file, line) })
        }
    }
}
