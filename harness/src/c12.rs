//! C12: reported bounding boxes and transforms agree with what is painted.
//! corr: the box fold of calculate_bounding_boxes, Rect::transform and the abs-transform chain against
//!       the model, bit-exact on real trees.
//! search: painted pixels vs reported absolute boxes on documents with one visible leaf under a chain of
//!       transformed groups; containment / transform relations on every node of corpus and generated trees.
use crate::pan;
use crate::util::*;
use resvg::tiny_skia;
use usvg::{Group, Node};

fn zb(f: f32) -> String {
    if f == 0.0 { "00000000".into() } else { format!("{:08x}", f.to_bits()) }
}
fn rect_csv(r: usvg::Rect) -> String {
    format!("{},{},{},{}", zb(r.left()), zb(r.top()), zb(r.right()), zb(r.bottom()))
}
fn rect_sp(r: usvg::Rect) -> String {
    format!("{} {} {} {}", zb(r.left()), zb(r.top()), zb(r.right()), zb(r.bottom()))
}
fn ts_csv(t: usvg::Transform) -> String {
    format!("{},{},{},{},{},{}", zb(t.sx), zb(t.ky), zb(t.kx), zb(t.sy), zb(t.tx), zb(t.ty))
}
fn ts_sp(t: usvg::Transform) -> String {
    format!("{} {} {} {} {} {}", zb(t.sx), zb(t.ky), zb(t.kx), zb(t.sy), zb(t.tx), zb(t.ty))
}
fn fin(t: usvg::Transform) -> bool {
    [t.sx, t.ky, t.kx, t.sy, t.tx, t.ty].iter().all(|x| x.is_finite() && x.abs() < 1e15)
}

/// the recorded defects of instance groups (see known_findings.json, C12): which one, if any, explains
/// `cg.abs_transform() != parent_abs · cg.transform()`
fn known_abs_defect(parent_abs: usvg::Transform, cg: &Group) -> Option<&'static str> {
    let want = parent_abs.pre_concat(cg.transform());
    if want == cg.abs_transform() || !fin(want) {
        return None;
    }
    let twice = want.pre_concat(cg.transform());
    let close = |a: usvg::Transform, b: usvg::Transform| [a.sx - b.sx, a.kx - b.kx, a.ky - b.ky, a.sy - b.sy, a.tx - b.tx, a.ty - b.ty].iter().all(|d| d.abs() <= 1e-3 * (1.0 + b.tx.abs().max(b.ty.abs())));
    if !cg.transform().is_identity() && close(cg.abs_transform(), twice) {
        Some("oracle:C12:abs-transform-applies-own-transform-twice")
    } else if cg.clip_path().is_some() && cg.abs_transform() == parent_abs {
        Some("oracle:C12:abs-transform-of-viewport-clip-group")
    } else if cg.transform().is_identity() {
        Some("oracle:C12:abs-transform-of-instance-inner-group")
    } else {
        None
    }
}

fn corr_group(g: &Group, chain: &mut Vec<usvg::Transform>, root_ts: usvg::Transform, main: bool, c: &mut Corr, budget: &mut usize) {
    if *budget == 0 {
        return;
    }
    // (1) object / stroke boxes: fold over the children
    let kids = g.children();
    if !kids.is_empty() && kids.len() <= 40 {
        for which in 0..2 {
            let parts: Vec<String> = kids
                .iter()
                .map(|n| {
                    let b = if which == 0 { n.bounding_box() } else { n.stroke_bounding_box() };
                    fn has_content(g: &Group) -> bool {
                        !g.filters().is_empty() || g.children().iter().any(|c| match c { Node::Group(cg) => has_content(cg), _ => true })
                    }
                    match n {
                        Node::Group(cg) if !has_content(cg) => "none".to_string(),
                        Node::Group(cg) if fin(cg.transform()) => format!("{}@{}", rect_csv(b), ts_csv(cg.transform())),
                        _ => rect_csv(b),
                    }
                })
                .collect();
            let own = if which == 0 { g.bounding_box() } else { g.stroke_bounding_box() };
            // an empty group keeps its zero dummy box: nothing to compare
            let any = kids.iter().any(|n| !matches!(n, Node::Group(cg) if !cg.has_children()));
            if any {
                c.emit(&format!("gbox {}", parts.join(" ")), &rect_sp(own));
                *budget -= 1;
            }
        }
    }
    for n in kids {
        match n {
            Node::Group(cg) => {
                // groups of `use` / `symbol` / nested-`svg` instances carry the recorded abs_transform defects
                // (known findings of C12, reported by the search): the chain below them is not compared
                let defect = known_abs_defect(g.abs_transform(), cg).is_some();
                if main && fin(cg.transform()) && !defect {
                    chain.push(cg.transform());
                    c.emit(&format!("abst {} {}", ts_csv(root_ts), chain.iter().map(|t| ts_csv(*t)).collect::<Vec<_>>().join(" ")), &ts_sp(cg.abs_transform()));
                    corr_group(cg, chain, root_ts, main, c, budget);
                    chain.pop();
                } else {
                    corr_group(cg, chain, root_ts, false, c, budget);
                }
            }
            Node::Path(p) => {
                let t = p.abs_transform();
                if fin(t) && !t.has_skew() {
                    c.emit(&format!("rectts {} {}", rect_csv(p.bounding_box()), ts_csv(t)), &rect_sp(p.abs_bounding_box()));
                }
            }
            _ => {}
        }
    }
}

pub fn corr(tier: &str, seed: u64, c: &mut Corr) {
    let mut rng = Rng::new(seed ^ 0xC12);
    let nc = if tier == "thorough" { 0 } else { 200 };
    let mut trees: Vec<usvg::Tree> = vec![];
    for p in crate::corpus::sample(nc, seed) {
        let Ok(data) = std::fs::read(&p) else { continue };
        let o = crate::corpus::opts_for(Some(&p));
        if let Ok(Ok(t)) = pan::catch(|| usvg::Tree::from_data(&data, &o)) {
            trees.push(t);
        }
    }
    let ng = if tier == "thorough" { 1500 } else { 150 };
    let o = crate::corpus::opts_for(None);
    for _ in 0..ng {
        let (w, h) = (rng.range(20, 150) as u32, rng.range(20, 150) as u32);
        let svg = crate::gen::random_doc(&mut rng, crate::gen::Cfg::full(w, h));
        if let Ok(Ok(t)) = pan::catch(|| usvg::Tree::from_str(&svg, &o)) {
            trees.push(t);
        }
    }
    for t in &trees {
        let mut budget = 60usize;
        let root_ts = t.root().abs_transform();
        corr_group(t.root(), &mut vec![], root_ts, true, c, &mut budget);
    }
}

// ------------------------------------------------------------------------------------------------

fn contains(outer: usvg::Rect, inner: usvg::Rect, eps: f32) -> bool {
    outer.left() <= inner.left() + eps && outer.top() <= inner.top() + eps && outer.right() + eps >= inner.right() && outer.bottom() + eps >= inner.bottom()
}

/// structural relations on every node of a tree
fn relations(g: &Group, parent_abs: usvg::Transform, at: &str, key: &str, s: &mut Search) {
    let eps = |r: usvg::Rect| 1e-3f32.max(1e-4 * r.right().abs().max(r.bottom().abs()).max(r.left().abs()).max(r.top().abs()));
    for (i, n) in g.children().iter().enumerate() {
        let here = format!("{}/{}", at, i);
        // the parent's absolute boxes contain the child's
        let (cb, csb) = (n.abs_bounding_box(), n.abs_stroke_bounding_box());
        // a group with nothing in it (no shapes at any depth, no filter) has no box: what it reports is a placeholder
        fn has_content(g: &Group) -> bool {
            !g.filters().is_empty() || g.children().iter().any(|c| match c { Node::Group(cg) => has_content(cg), _ => true })
        }
        let empty_group = matches!(n, Node::Group(cg) if !has_content(cg));
        if !empty_group && g.abs_bounding_box().width() + g.abs_bounding_box().height() > 0.0 {
            if !contains(g.abs_bounding_box(), cb, eps(cb)) {
                s.finding("oracle:C12:parent-abs-box-misses-child", &format!("{}: parent abs box {:?} does not contain child abs box {:?}", here, g.abs_bounding_box(), cb), key);
            }
            if !contains(g.abs_stroke_bounding_box(), csb, eps(csb)) {
                s.finding("oracle:C12:parent-abs-stroke-box-misses-child", &format!("{}: parent abs stroke box {:?} does not contain child's {:?}", here, g.abs_stroke_bounding_box(), csb), key);
            }
        }
        match n {
            Node::Group(cg) => {
                // absolute transform = parent's absolute transform · own transform
                let want = parent_abs.pre_concat(cg.transform());
                // recorded defects of instance groups (use / symbol / nested svg): see `known_abs_defect`
                if let Some(sig) = known_abs_defect(parent_abs, cg) {
                    s.finding(sig, &format!("{}: group {:?} transform {:?}: abs_transform {:?}, product of the ancestors {:?}, parent's {:?}", here, cg.id(), cg.transform(), cg.abs_transform(), want, parent_abs), key);
                } else if want != cg.abs_transform() && fin(want) {
                    s.finding("oracle:C12:abs-transform-not-product", &format!("{}: abs_transform {:?}, product of the ancestors {:?}", here, cg.abs_transform(), want), key);
                }
                relations(cg, cg.abs_transform(), &here, key, s);
            }
            Node::Path(p) => {
                if p.abs_transform() != parent_abs {
                    s.finding("oracle:C12:abs-transform-not-product", &format!("{}: path abs_transform {:?}, parent's {:?}", here, p.abs_transform(), parent_abs), key);
                }
                // the absolute box is the object box mapped by the absolute transform (bounds of the mapped
                // corners contain the bounds of the mapped path; equal without skew)
                if let Some(m) = p.bounding_box().transform(p.abs_transform()) {
                    if !contains(m, p.abs_bounding_box(), eps(m) * 4.0) {
                        s.finding("oracle:C12:abs-box-not-mapped-object-box", &format!("{}: abs box {:?}, object box mapped {:?}", here, p.abs_bounding_box(), m), key);
                    }
                    if !p.abs_transform().has_skew() && !contains(p.abs_bounding_box(), m, eps(m) * 4.0) {
                        s.finding("oracle:C12:abs-box-not-mapped-object-box", &format!("{}: abs box {:?}, object box mapped {:?}", here, p.abs_bounding_box(), m), key);
                    }
                }
            }
            Node::Image(im) => {
                if im.abs_transform() != parent_abs {
                    s.finding("oracle:C12:abs-transform-not-product", &format!("{}: image abs_transform", here), key);
                }
                // the absolute box is the image's own box mapped by the absolute transform
                if let Some(m) = im.bounding_box().transform(im.abs_transform()) {
                    if !contains(m, im.abs_bounding_box(), eps(m) * 4.0) || !contains(im.abs_bounding_box(), m, eps(m) * 4.0) {
                        s.finding("oracle:C12:abs-box-not-mapped-object-box:image", &format!("{}: image abs box {:?}, object box mapped {:?}", here, im.abs_bounding_box(), m), key);
                    }
                }
            }
            Node::Text(t) => {
                if t.abs_transform() != parent_abs {
                    s.finding("oracle:C12:abs-transform-not-product", &format!("{}: text abs_transform", here), key);
                }
                // (bounds of the mapped corners contain the bounds of the mapped outlines; equal without skew)
                if let Some(m) = t.bounding_box().transform(t.abs_transform()) {
                    if !contains(m, t.abs_bounding_box(), eps(m) * 4.0) {
                        s.finding("oracle:C12:abs-box-not-mapped-object-box:text", &format!("{}: text abs box {:?}, object box mapped {:?}", here, t.abs_bounding_box(), m), key);
                    }
                    if !t.abs_transform().has_skew() && !contains(t.abs_bounding_box(), m, eps(m) * 4.0) {
                        s.finding("oracle:C12:abs-box-not-mapped-object-box:text", &format!("{}: text abs box {:?}, object box mapped {:?}", here, t.abs_bounding_box(), m), key);
                    }
                }
            }
        }
    }
}

fn painted_bbox(pm: &tiny_skia::Pixmap, thr: u8) -> Option<(i32, i32, i32, i32)> {
    crate::rend::alpha_bbox(pm, thr).map(|(x0, y0, x1, y1)| (x0 as i32, y0 as i32, x1 as i32, y1 as i32))
}

/// every group on the path from the root to the first leaf, and the leaf
fn spine<'a>(g: &'a Group, out: &mut Vec<&'a Group>) -> Option<&'a Node> {
    out.push(g);
    match g.children().first()? {
        Node::Group(cg) => spine(cg, out),
        n => Some(n),
    }
}

pub fn search(tier: &str, seed: u64, s: &mut Search) {
    let mut rng = Rng::new(seed ^ 0x5EA7C12);
    let mult = budget_mult() as usize;
    // ---- relations on all nodes; painted pixels inside the root's layer box
    let nc = if tier == "thorough" { 0 } else { 150 * mult.min(4) };
    for p in crate::corpus::sample(nc, seed) {
        let Ok(data) = std::fs::read(&p) else { continue };
        let o = crate::corpus::opts_for(Some(&p));
        let Ok(Ok(t)) = pan::catch(|| usvg::Tree::from_data(&data, &o)) else { continue };
        let key = p.display().to_string();
        s.case("corpus-relations", &key, true);
        relations(t.root(), t.root().abs_transform(), "root", &key, s);
    }
    let o = crate::corpus::opts_for(None);
    let ng = (if tier == "thorough" { 1500 } else { 120 }) * mult;
    for _ in 0..ng {
        let (w, h) = (rng.range(20, 150) as u32, rng.range(20, 150) as u32);
        let svg = crate::gen::random_doc(&mut rng, crate::gen::Cfg::full(w, h));
        let Ok(Ok(t)) = pan::catch(|| usvg::Tree::from_str(&svg, &o)) else { continue };
        s.case("generated-relations", &svg, true);
        relations(t.root(), t.root().abs_transform(), "root", &svg, s);
    }
    // ---- instances (use / nested svg / symbol) that the converter drops, with siblings after them: nothing of the
    // dropped element may stay behind in the absolute transforms and boxes of its parent and later siblings
    let nd = (if tier == "thorough" { 600 } else { 80 }) * mult;
    for _ in 0..nd {
        let reason = match rng.below(6) {
            0 => r##" clip-path="url(#empty-clip)""##,
            1 => r##" clip-path="url(#not-a-clip)""##,
            2 => r##" mask="url(#zero-mask)""##,
            3 => r##" filter="url(#missing)""##,
            4 => r##" mask="url(#missing)""##,
            _ => r##" clip-path="url(#missing)""##,
        };
        let (ox, oy) = (rng.range(20, 120), rng.range(20, 120));
        // (placed by x / y only: a transform attribute on an instance runs into the recorded abs_transform defects)
        let place = match rng.below(3) {
            0 => format!(r#" x="{ox}" y="{oy}""#),
            1 => format!(r#" x="{ox}""#),
            _ => format!(r#" y="{oy}""#),
        };
        let inst = match rng.below(4) {
            0 => format!(r##"<use xlink:href="#r"{place}{reason}/>"##),
            1 => format!(r##"<use xlink:href="#sy"{place}{reason} width="30" height="30"/>"##),
            2 => format!(r##"<use xlink:href="#nv"{place}{reason}/>"##),
            _ => format!(r##"<svg{} width="30" height="30"{reason}><rect width="10" height="10"/></svg>"##, place.replace("transform", "data-t")),
        };
        let wrap = rng.chance(1, 2);
        let svg = format!(
            r##"<svg xmlns="http://www.w3.org/2000/svg" xmlns:xlink="http://www.w3.org/1999/xlink" width="200" height="200"><defs><rect id="r" width="20" height="20"/><symbol id="sy" viewBox="0 0 4 4"><rect width="4" height="4"/></symbol><svg id="nv" width="20" height="20"><rect width="10" height="10"/></svg><clipPath id="empty-clip"/><rect id="not-a-clip" width="5" height="5"/><mask id="zero-mask" maskUnits="userSpaceOnUse" x="0" y="0" width="0" height="10"><rect width="10" height="10" fill="white"/></mask></defs>{}<rect id="before" x="5" y="5" width="10" height="10"/>{inst}<rect id="after" x="30" y="5" width="10" height="10" fill="red"/><g id="after-group" opacity="0.5"><rect x="50" y="5" width="10" height="10"/></g>{}<rect id="outside" x="70" y="5" width="10" height="10"/></svg>"##,
            if wrap { r#"<g id="layer" transform="translate(3 4)">"# } else { "" },
            if wrap { "</g>" } else { "" }
        );
        let Ok(Ok(t)) = pan::catch(|| usvg::Tree::from_str(&svg, &o)) else { continue };
        s.case("dropped-instance", &svg, true);
        relations(t.root(), t.root().abs_transform(), "root", &svg, s);
        // the siblings keep their places: absolute boxes of the elements with ids
        for (id, x) in [("before", 5.0f32), ("after", 30.0), ("outside", 70.0)] {
            if let Some(n) = t.node_by_id(id) {
                let bx = n.abs_bounding_box().x();
                let want = x + if wrap && id != "outside" { 3.0 } else { 0.0 };
                if (bx - want).abs() > 0.01 {
                    s.finding("oracle:C12:sibling-of-dropped-instance-displaced", &format!("element {:?}: absolute box starts at x = {}, its place is x = {}", id, bx, want), &svg);
                }
            }
        }
    }
    // ---- one visible leaf under a chain of groups: painted pixels vs the reported absolute boxes
    let png = "data:image/png;base64,iVBORw0KGgoAAAANSUhEUgAAAAIAAAACCAYAAABytg0kAAAAFElEQVR42mP8z8DwnwEIGBmgAAAbBAIA3K0LwQAAAABJRU5ErkJggg==";
    let nl = (if tier == "thorough" { 3000 } else { 300 }) * mult;
    for i in 0..nl {
        let tf = |rng: &mut Rng| -> String {
            match rng.below(7) {
                0 => String::new(),
                1 => format!(r#" transform="translate({} {})""#, rng.range(-20, 40), rng.range(-20, 40)),
                2 => format!(r#" transform="scale({} {})""#, *rng.pick(&["0.5", "1.5", "2", "-1"]), *rng.pick(&["0.5", "1", "1.5"])),
                3 => format!(r#" transform="rotate({} {} {})""#, rng.range(-180, 180), rng.range(0, 100), rng.range(0, 100)),
                4 => format!(r#" transform="skewX({})""#, rng.range(-50, 50)),
                5 => format!(r#" transform="skewY({}) translate({} 3)""#, rng.range(-40, 40), rng.range(0, 20)),
                _ => format!(r#" transform="matrix({} {} {} {} {} {})""#, *rng.pick(&["1", "0.7", "1.2"]), *rng.pick(&["0", "0.3", "-0.4"]), *rng.pick(&["0", "0.5", "-0.2"]), *rng.pick(&["1", "0.8"]), rng.range(0, 40), rng.range(0, 40)),
            }
        };
        let (x, y) = (rng.range(40, 110), rng.range(40, 110));
        let (sw, sh) = (rng.range(5, 50), rng.range(5, 50));
        let stroke = format!(
            r#" stroke="blue" stroke-width="{}" stroke-linecap="{}" stroke-linejoin="{}" stroke-miterlimit="{}""#,
            *rng.pick(&["1", "4", "9.5", "0.3", "22", "40"]), *rng.pick(&["butt", "round", "square", "square"]), *rng.pick(&["miter", "round", "bevel", "miter-clip"]), *rng.pick(&["1", "4", "10", "40"])
        );
        let leaf = match i % 8 {
            0 if i % 16 >= 8 => {
                // an open, slanted polyline with a wide stroke: every cap kind with every join kind (the stroke box has
                // to account for both, whichever shortcut is taken for one of them)
                format!(
                    r#"<path d="M {x} {y} l {} {} l {} -{}" fill="none" stroke="blue" stroke-width="{}" stroke-linecap="{}" stroke-linejoin="{}" stroke-miterlimit="4"/>"#,
                    rng.range(10, 30), rng.range(10, 30), rng.range(10, 30), rng.range(3, 12), *rng.pick(&["22", "30", "40"]), *rng.pick(&["square", "square", "round", "butt"]), *rng.pick(&["round", "bevel", "miter"])
                )
            }
            0 => format!(r#"<rect x="{x}" y="{y}" width="{sw}" height="{sh}" fill="red"{stroke}/>"#),
            1 if i % 16 < 8 => {
                // a sharp "V": the miter tip reaches far beyond the geometry, whatever the caps are
                let join = *rng.pick(&["miter", "miter", "miter-clip"]);
                format!(
                    r#"<path d="M {x} {y} l {} {} l {} -{}" fill="none" stroke="blue" stroke-width="{}" stroke-linecap="{}" stroke-linejoin="{join}" stroke-miterlimit="{}"/>"#,
                    rng.range(4, 10), 30 + sh, rng.range(4, 10), 30 + sh, *rng.pick(&["6", "10", "9.5"]), *rng.pick(&["butt", "round", "square"]), *rng.pick(&["10", "40", "4"])
                )
            }
            1 => format!(r#"<path d="M {x} {y} l {sw} 3 l -{} {sh} l 4 -9" fill="none"{stroke}/>"#, sw / 2),
            2 => format!(r#"<path d="M {x} {y} L {} {} L {} {}" fill="green"{stroke} marker-start="url(#mk)" marker-mid="url(#mk)" marker-end="url(#mk)"/>"#, x + sw, y + 2, x + sw / 3, y + sh),
            3 => format!(r#"<text x="{x}" y="{y}" font-size="{}" fill="black"{}>Ag{}</text>"#, rng.range(8, 30), if rng.chance(1, 2) { stroke.clone() } else { String::new() }, if rng.chance(1, 2) { "jÉ" } else { "" }),
            4 if i % 16 < 8 => {
                // an SVG image whose content reaches far beyond its own size: only the image rectangle may be painted
                let inner = format!(r##"<svg xmlns="http://www.w3.org/2000/svg" width="{sw}" height="{sh}"><rect x="-200" y="{}" width="500" height="4" fill="#d00"/><circle cx="{sw}" cy="{sh}" r="{}" fill="#06c" stroke="black" stroke-width="3"/></svg>"##, sh / 3, sw.max(sh));
                format!(r#"<image x="{x}" y="{y}" width="{sw}" height="{sh}" preserveAspectRatio="{}" xlink:href="data:image/svg+xml;base64,{}"/>"#, *rng.pick(&["none", "xMidYMid meet", "xMinYMax slice"]), crate::c17::b64(inner.as_bytes()))
            }
            4 => format!(r#"<image x="{x}" y="{y}" width="{sw}" height="{sh}" preserveAspectRatio="{}" xlink:href="{png}"/>"#, *rng.pick(&["none", "xMidYMid meet", "xMinYMax slice"])),
            5 => format!(r##"<use xlink:href="#sym" x="{x}" y="{y}" width="{sw}" height="{sh}"/>"##),
            6 => format!(r#"<svg x="{x}" y="{y}" width="{sw}" height="{sh}" viewBox="0 0 10 10" overflow="{}"><circle cx="5" cy="5" r="7" fill="purple"/></svg>"#, *rng.pick(&["hidden", "visible"])),
            _ => format!(r#"<ellipse cx="{x}" cy="{y}" rx="{sw}" ry="{}" fill="orange"{stroke} stroke-dasharray="7 3"/>"#, sh / 2 + 1),
        };
        let effect = |rng: &mut Rng| -> &'static str {
            *rng.pick(&["", "", r#" opacity="0.6""#, r##" filter="url(#blur)""##, r##" filter="url(#small)""##, r##" clip-path="url(#cp)""##, r##" mask="url(#mk1)""##, r##" filter="url(#shadow)""##])
        };
        let depth = rng.below(4);
        let mut open = String::new();
        let mut close = String::new();
        for _ in 0..depth {
            open += &format!("<g{}{}>", tf(&mut rng), effect(&mut rng));
            close += "</g>";
        }
        let vb = if rng.chance(1, 3) { r#" viewBox="10 5 150 150" preserveAspectRatio="xMidYMid meet""# } else { "" };
        let svg = format!(
            r##"<svg xmlns="http://www.w3.org/2000/svg" xmlns:xlink="http://www.w3.org/1999/xlink" width="200" height="200"{vb}><defs><marker id="mk" markerWidth="8" markerHeight="8" refX="4" refY="4" overflow="visible"><circle cx="4" cy="4" r="5" fill="lime"/></marker><symbol id="sym" viewBox="0 0 20 20" overflow="visible"><rect x="-3" y="2" width="26" height="14" fill="teal"/></symbol><filter id="blur"><feGaussianBlur stdDeviation="3"/></filter><filter id="small" x="0.2" y="0.2" width="0.5" height="0.5"><feOffset dx="2"/></filter><filter id="shadow" x="-0.5" y="-0.5" width="2" height="2"><feDropShadow dx="8" dy="8" stdDeviation="2"/></filter><clipPath id="cp"><rect x="30" y="30" width="90" height="90"/></clipPath><mask id="mk1"><rect x="0" y="0" width="200" height="200" fill="white"/></mask></defs>{open}{leaf}{close}</svg>"##
        );
        let Ok(Ok(t)) = pan::catch(|| usvg::Tree::from_str(&svg, &o)) else { continue };
        relations(t.root(), t.root().abs_transform(), "root", &svg, s);
        let Ok(Some(pm)) = pan::catch(|| crate::rend::render(&t, 200, 200, tiny_skia::Transform::identity())) else { continue };
        let Some((px0, py0, px1, py1)) = painted_bbox(&pm, 24) else {
            s.case("single-leaf-nothing-painted", &svg, false);
            continue;
        };
        s.case("single-leaf", &svg, true);
        let mut groups = vec![];
        let leaf_node = spine(t.root(), &mut groups);
        // the canvas crops: compare only the part of a box that is on the canvas
        let check = |s: &mut Search, what: &str, l: f32, tp: f32, r: f32, b: f32| {
            let m = 2.0f32;
            let ok = (px0 as f32) >= l.floor() - m && (py0 as f32) >= tp.floor() - m && (px1 as f32) <= r.ceil() + m && (py1 as f32) <= b.ceil() + m;
            if !ok {
                s.finding(
                    &format!("oracle:C12:painted-outside-{}", what),
                    &format!("painted pixels span x {}..{} y {}..{} but the reported {} is x {}..{} y {}..{}", px0, px1, py0, py1, what, l, r, tp, b),
                    &svg,
                );
            }
        };
        // a group's layer box bounds what the group paints; paint added by a filter of an ancestor is not
        // the inner group's, so the walk stops below the first group that carries a filter
        for g in &groups {
            let b = g.abs_layer_bounding_box();
            check(s, "abs-layer-box-of-group", b.left(), b.top(), b.right(), b.bottom());
            if !g.filters().is_empty() {
                break;
            }
        }
        if let Some(n) = leaf_node {
            let b = n.abs_stroke_bounding_box();
            // only when no ancestor adds paint outside the leaf (filters enlarge, markers are part of the path's group)
            let plain_chain = groups.iter().all(|g| g.filters().is_empty()) && groups.last().map(|g| g.children().len() == 1).unwrap_or(false);
            if plain_chain && !matches!(n, Node::Group(_)) {
                check(s, "abs-stroke-box-of-leaf", b.left(), b.top(), b.right(), b.bottom());
            }
        }
    }
}
