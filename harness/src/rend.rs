//! Rendering helpers shared by the implementation-side oracles.
use resvg::tiny_skia;
use std::sync::Arc;

pub fn base_opts() -> usvg::Options<'static> {
    let mut o = usvg::Options::default();
    o.fontdb = Arc::new(usvg::fontdb::Database::new());
    o
}

pub fn parse(svg: &str, o: &usvg::Options) -> Result<usvg::Tree, usvg::Error> {
    usvg::Tree::from_str(svg, o)
}

pub fn render(tree: &usvg::Tree, w: u32, h: u32, ts: tiny_skia::Transform) -> Option<tiny_skia::Pixmap> {
    let mut pm = tiny_skia::Pixmap::new(w, h)?;
    resvg::render(tree, ts, &mut pm.as_mut());
    Some(pm)
}

/// bounding box (x0, y0, x1, y1) — exclusive upper bounds — of pixels whose alpha exceeds `thr`
pub fn alpha_bbox(pm: &tiny_skia::Pixmap, thr: u8) -> Option<(u32, u32, u32, u32)> {
    let (w, h) = (pm.width(), pm.height());
    let d = pm.data();
    let mut bb: Option<(u32, u32, u32, u32)> = None;
    for y in 0..h {
        for x in 0..w {
            let a = d[((y * w + x) * 4 + 3) as usize];
            if a > thr {
                bb = Some(match bb {
                    None => (x, y, x + 1, y + 1),
                    Some((a0, b0, a1, b1)) => (a0.min(x), b0.min(y), a1.max(x + 1), b1.max(y + 1)),
                });
            }
        }
    }
    bb
}

/// max absolute channel difference and number of pixels that differ by more than `thr`
pub fn diff(a: &tiny_skia::Pixmap, b: &tiny_skia::Pixmap, thr: u8) -> (u8, usize) {
    let mut mx = 0u8;
    let mut cnt = 0usize;
    for (p, q) in a.data().chunks(4).zip(b.data().chunks(4)) {
        let mut m = 0u8;
        for i in 0..4 {
            let d = (p[i] as i32 - q[i] as i32).unsigned_abs() as u8;
            m = m.max(d);
        }
        mx = mx.max(m);
        if m > thr {
            cnt += 1;
        }
    }
    (mx, cnt)
}

pub fn all_valid_premultiplied(pm: &tiny_skia::Pixmap) -> Option<(u32, u32, [u8; 4])> {
    let w = pm.width();
    for (i, p) in pm.data().chunks(4).enumerate() {
        if p[0] > p[3] || p[1] > p[3] || p[2] > p[3] {
            return Some((i as u32 % w, i as u32 / w, [p[0], p[1], p[2], p[3]]));
        }
    }
    None
}
