//! Rendering helpers shared by the implementation-side oracles.
use resvg::tiny_skia;
use std::sync::Arc;

pub fn base_opts() -> usvg::Options<'static> {
    let mut o = usvg::Options::default();
    o.fontdb = Arc::new(usvg::fontdb::Database::new());
    o
}

pub fn parse(svg: &str, o: &usvg::Options) -> Result<usvg::Tree, usvg::Error> {
    usvg::Tree::from_str(svg, o)
}

pub fn render(tree: &usvg::Tree, w: u32, h: u32, ts: tiny_skia::Transform) -> Option<tiny_skia::Pixmap> {
    let mut pm = tiny_skia::Pixmap::new(w, h)?;
    resvg::render(tree, ts, &mut pm.as_mut());
    Some(pm)
}

/// bounding box (x0, y0, x1, y1) — exclusive upper bounds — of pixels whose alpha exceeds `thr`
pub fn alpha_bbox(pm: &tiny_skia::Pixmap, thr: u8) -> Option<(u32, u32, u32, u32)> {
    let (w, h) = (pm.width(), pm.height());
    let d = pm.data();
    let mut bb: Option<(u32, u32, u32, u32)> = None;
    for y in 0..h {
        for x in 0..w {
            let a = d[((y * w + x) * 4 + 3) as usize];
            if a > thr {
                bb = Some(match bb {
                    None => (x, y, x + 1, y + 1),
                    Some((a0, b0, a1, b1)) => (a0.min(x), b0.min(y), a1.max(x + 1), b1.max(y + 1)),
                });
            }
        }
    }
    bb
}

/// max absolute channel difference and number of pixels that differ by more than `thr`
pub fn diff(a: &tiny_skia::Pixmap, b: &tiny_skia::Pixmap, thr: u8) -> (u8, usize) {
    let mut mx = 0u8;
    let mut cnt = 0usize;
    for (p, q) in a.data().chunks(4).zip(b.data().chunks(4)) {
        let mut m = 0u8;
        for i in 0..4 {
            let d = (p[i] as i32 - q[i] as i32).unsigned_abs() as u8;
            m = m.max(d);
        }
        mx = mx.max(m);
        if m > thr {
            cnt += 1;
        }
    }
    (mx, cnt)
}

pub fn all_valid_premultiplied(pm: &tiny_skia::Pixmap) -> Option<(u32, u32, [u8; 4])> {
    let w = pm.width();
    for (i, p) in pm.data().chunks(4).enumerate() {
        if p[0] > p[3] || p[1] > p[3] || p[2] > p[3] {
            return Some((i as u32 % w, i as u32 / w, [p[0], p[1], p[2], p[3]]));
        }
    }
    None
}

/// Noise-tolerant comparison shared by the pixel oracles.
///
/// `tol` is the per-channel tolerance the property statement grants (±1 per composited layer, …).
/// tiny-skia's anti-aliasing is not exactly invariant under integer translation / clipping of a path
/// (4 vertical sub-samples, 1/16 horizontal steps): re-rendering the same geometry in an offscreen
/// layer changes partially covered *edge* pixels by up to a quarter of full coverage.  That is the
/// rasteriser's coordinate rounding, not misplacement, so pixels that lie on an anti-aliased edge
/// (a neighbour differs by more than 6 — edges of translucent content are faint) are exempt up to a difference of 80.  A genuine failure —
/// content clipped, shifted by a pixel, duplicated, wrongly scaled, wrong opacity — changes hard edges
/// by more than 80 or flat areas by more than `tol`, and is counted.
pub fn similar(a: &tiny_skia::Pixmap, b: &tiny_skia::Pixmap, tol: u8) -> (bool, String) {
    similar_ex(a, b, tol, false)
}

/// `classify_border`: report differences confined to row/column 0 as the tiny-skia hairline defect
pub fn similar_ex(a: &tiny_skia::Pixmap, b: &tiny_skia::Pixmap, tol: u8, classify_border: bool) -> (bool, String) {
    if a.width() != b.width() || a.height() != b.height() {
        return (false, format!("sizes differ: {}x{} vs {}x{}", a.width(), a.height(), b.width(), b.height()));
    }
    let (w, h) = (a.width() as i32, a.height() as i32);
    let n = (w * h) as usize;
    let (da, db) = (a.data(), b.data());
    let px = |d: &[u8], x: i32, y: i32| -> [u8; 4] {
        let i = ((y * w + x) * 4) as usize;
        [d[i], d[i + 1], d[i + 2], d[i + 3]]
    };
    let dist = |p: [u8; 4], q: [u8; 4]| -> u8 { (0..4).map(|k| (p[k] as i32 - q[k] as i32).unsigned_abs() as u8).max().unwrap() };
    let is_edge = |d: &[u8], x: i32, y: i32| -> bool {
        let p = px(d, x, y);
        for dy in -1..=1 {
            for dx in -1..=1 {
                let (xx, yy) = (x + dx, y + dy);
                if xx >= 0 && yy >= 0 && xx < w && yy < h && dist(p, px(d, xx, yy)) > 6 {
                    return true;
                }
            }
        }
        false
    };
    let (mut over80, mut flat, mut mx) = (0usize, 0usize, 0u8);
    let (mut border0, mut wobble) = (0usize, 0usize);
    // does `img` have, within one pixel of (x, y), a value close to `p`?
    let near_match = |img: &[u8], p: [u8; 4], x: i32, y: i32| -> bool {
        for dy in -1..=1 {
            for dx in -1..=1 {
                let (xx, yy) = (x + dx, y + dy);
                if xx >= 0 && yy >= 0 && xx < w && yy < h && dist(p, px(img, xx, yy)) <= 80 {
                    return true;
                }
            }
        }
        false
    };
    for y in 0..h {
        for x in 0..w {
            let (pa, pb) = (px(da, x, y), px(db, x, y));
            let d = dist(pa, pb);
            mx = mx.max(d);
            if d > 80 {
                if near_match(db, pa, x, y) && near_match(da, pb, x, y) {
                    // a thin (hairline) stroke that wobbles by one pixel: tiny-skia's hairline
                    // rasteriser is sensitive to how a segment is clipped
                    wobble += 1;
                } else {
                    over80 += 1;
                    if x == 0 || y == 0 {
                        border0 += 1;
                    }
                }
            } else if d > tol && !(is_edge(da, x, y) || is_edge(db, x, y)) {
                flat += 1;
            }
        }
    }
    if classify_border && over80 > 0 && border0 == over80 && flat <= 4 + n / 2000 {
        // everything that differs lies in row 0 / column 0: tiny-skia paints a hairline that runs just
        // outside the left/top canvas edge (x in (-1, 0)) into column/row 0 when it rasterises directly
        return (false, format!("dep:hairline-at-canvas-origin {} px in row/column 0 differ", over80));
    }
    let _ = wobble;
    let ok = over80 <= 16 + n / 1000 && flat <= 4 + n / 2000;
    (ok, format!("{} px differ by more than 80, {} non-edge px by more than {}, max {}", over80, flat, tol, mx))
}

/// pixels that lie on an (anti-aliased) edge: some neighbour differs by more than 6 in a channel
pub fn edge_mask(pm: &tiny_skia::Pixmap) -> Vec<bool> {
    let (w, h) = (pm.width() as i32, pm.height() as i32);
    let d = pm.data();
    let px = |x: i32, y: i32| -> [u8; 4] {
        let i = ((y * w + x) * 4) as usize;
        [d[i], d[i + 1], d[i + 2], d[i + 3]]
    };
    let mut m = vec![false; (w * h) as usize];
    for y in 0..h {
        for x in 0..w {
            let p = px(x, y);
            'n: for dy in -1..=1 {
                for dx in -1..=1 {
                    let (xx, yy) = (x + dx, y + dy);
                    if xx >= 0 && yy >= 0 && xx < w && yy < h {
                        let q = px(xx, yy);
                        if (0..4).any(|k| (p[k] as i32 - q[k] as i32).abs() > 6) {
                            m[(y * w + x) as usize] = true;
                            break 'n;
                        }
                    }
                }
            }
        }
    }
    m
}
