//! C14: offscreen layers are invisible — isolation injection, opacity laws.
use crate::c02::{trace_to_requests, traced_render};
use crate::gen;
use crate::pan;
use crate::util::*;
use resvg::tiny_skia;

/// add `isolation:isolate` to the k-th, … `<g` start tags chosen by `pick`; returns (text, number injected)
pub fn inject_isolation(svg: &str, rng: &mut Rng, all: bool) -> (String, usize) {
    let mut out = String::new();
    let mut rest = svg;
    let mut n = 0;
    while let Some(i) = rest.find("<g") {
        let after = &rest[i + 2..];
        let is_g = after.starts_with(' ') || after.starts_with('>') || after.starts_with('\n');
        out += &rest[..i + 2];
        rest = after;
        if !is_g {
            continue;
        }
        // end of the start tag
        let Some(j) = rest.find('>') else { break };
        let tag = &rest[..j];
        if tag.contains("style=") || tag.contains("isolation") || tag.contains("mix-blend-mode") {
            continue;
        }
        if all || rng.chance(1, 2) {
            out += r#" style="isolation:isolate""#;
            n += 1;
        }
    }
    out += rest;
    (out, n)
}

fn has_non_normal_blend(svg: &str) -> bool {
    svg.contains("mix-blend-mode") || svg.contains("BackgroundImage") || svg.contains("enable-background")
}

fn rand_ts(rng: &mut Rng) -> tiny_skia::Transform {
    let s = *rng.pick(&[0.5f32, 1.0, 1.0, 3.0]);
    let (tx, ty) = if rng.chance(1, 2) { (0.0, 0.0) } else { (rng.f32_in(-30.0, 30.0), rng.f32_in(-30.0, 30.0)) };
    tiny_skia::Transform::from_scale(s, s).post_translate(tx, ty)
}

pub fn corr(tier: &str, seed: u64, c: &mut Corr) {
    let mut rng = Rng::new(seed ^ 0xC14);
    let ndocs = if tier == "thorough" { 1200 } else { 120 };
    for _ in 0..ndocs {
        let (w, h) = (rng.range(20, 100) as u32, rng.range(20, 100) as u32);
        let mut cfg = gen::Cfg::plain(w, h);
        cfg.max_depth = 4;
        let svg = gen::random_doc(&mut rng, cfg);
        let all = rng.chance(1, 2);
        let (iso, _) = inject_isolation(&svg, &mut rng, all);
        let Ok(tree) = usvg::Tree::from_str(&iso, &crate::corpus::opts_for(None)) else { continue };
        let ts = rand_ts(&mut rng);
        let tr = traced_render(&tree, w, h, ts);
        trace_to_requests(&tree, &tr, c);
    }
}

fn max_depth(g: &usvg::Group) -> usize {
    let mut d = 0;
    for c in g.children() {
        if let usvg::Node::Group(ref gg) = c {
            d = d.max(1 + max_depth(gg));
        }
    }
    d
}

/// does isolating every group of `svg` change the picture (same criterion as `compare`)?
pub fn differs_when_isolated(svg: &str, o: &usvg::Options, ts: tiny_skia::Transform) -> bool {
    let mut r = Rng::new(1);
    let (iso, n) = inject_isolation(svg, &mut r, true);
    if n == 0 {
        return false;
    }
    let (Ok(Ok(ta)), Ok(Ok(tb))) = (pan::catch(|| usvg::Tree::from_str(svg, o)), pan::catch(|| usvg::Tree::from_str(&iso, o))) else { return false };
    let size = ta.size().to_int_size();
    let (w, h) = ((size.width()).min(300), (size.height()).min(300));
    let (Ok(Some(pa)), Ok(Some(pb))) = (pan::catch(|| crate::rend::render(&ta, w, h, ts)), pan::catch(|| crate::rend::render(&tb, w, h, ts))) else { return false };
    let tol = 2 + max_depth(tb.root()) as u8;
    !crate::rend::similar(&pa, &pb, tol).0
}

/// tiny-skia 0.11.4 rounds negative integer offsets towards zero (`saturate_round(-5.0) = -4`), so
/// `draw_pixmap` at a negative x/y fills one extra row/column padded with the layer's last pixels.
/// Ordinary layers hide this behind their 2 px transparent inflation; filter layers (no inflation) do
/// not.  That dependency defect is reported by its own fixed witness (`NEG_OFFSET_WITNESS`); here
/// documents with filters are shifted so that no layer starts left of / above the canvas.
pub fn keep_filter_layers_positive(tree: &usvg::Tree, ts: tiny_skia::Transform) -> tiny_skia::Transform {
    let bb = tree.root().abs_layer_bounding_box();
    let (mut minx, mut miny) = (f32::MAX, f32::MAX);
    for (x, y) in [(bb.left(), bb.top()), (bb.right(), bb.top()), (bb.left(), bb.bottom()), (bb.right(), bb.bottom())] {
        let mut p = tiny_skia::Point::from_xy(x, y);
        ts.map_point(&mut p);
        minx = minx.min(p.x);
        miny = miny.min(p.y);
    }
    let dx = if minx < 8.0 { (8.0 - minx).ceil() } else { 0.0 };
    let dy = if miny < 8.0 { (8.0 - miny).ceil() } else { 0.0 };
    ts.post_translate(dx, dy)
}

pub const NEG_OFFSET_WITNESS: &str = r#"<svg xmlns="http://www.w3.org/2000/svg" width="40" height="40"><filter id="f" filterUnits="userSpaceOnUse" x="10" y="-5" width="20" height="20"><feFlood flood-color="red"/></filter><rect x="12" y="0" width="5" height="5" filter="url(#f)"/></svg>"#;

fn compare(s: &mut Search, class: &str, key: &str, a_svg: &str, b_svg: &str, o: &usvg::Options, rng: &mut Rng) {
    if std::env::var("VERIF_TRACE_CASES").is_ok() {
        eprintln!("[{:?}] {} {}", std::time::SystemTime::now().duration_since(std::time::UNIX_EPOCH).map(|d| d.as_secs()).unwrap_or(0), class, &key.chars().take(120).collect::<String>());
    }
    let (Ok(Ok(ta)), Ok(Ok(tb))) = (pan::catch(|| usvg::Tree::from_str(a_svg, o)), pan::catch(|| usvg::Tree::from_str(b_svg, o))) else { return };
    let size = ta.size().to_int_size();
    let mut ts = rand_ts(rng);
    if a_svg.contains("<filter") {
        ts = keep_filter_layers_positive(&ta, ts);
    }
    let (w, h) = ((size.width()).min(300), (size.height()).min(300));
    let (Ok(Some(pa)), Ok(Some(pb))) = (pan::catch(|| crate::rend::render(&ta, w, h, ts)), pan::catch(|| crate::rend::render(&tb, w, h, ts))) else {
        s.case(&format!("{}-render-failed", class), key, false);
        return;
    };
    let depth = max_depth(tb.root()) as u8;
    // ±1 per composited layer (8-bit rounding of draw_pixmap), as the statement allows
    let tol = 2 + depth;
    let (ok, what) = crate::rend::similar_ex(&pa, &pb, tol, true);
    let (mx, cnt) = (what.clone(), if ok { 0 } else { 1 });
    let painted = pa.data().chunks(4).any(|p| p[3] != 0);
    s.case(class, key, painted);
    if cnt > 0 {
        if mx.starts_with("dep:hairline-at-canvas-origin") {
            s.finding("dep:tiny-skia:hairline-just-outside-left-or-top-edge-painted-in-row-col-0", &mx, key);
            return;
        }
        let mut input = key.to_string();
        if class == "generated" && std::env::var("VERIF_SHRINK").is_ok() && differs_when_isolated(a_svg, o, ts) {
            input = crate::shrink::shrink(a_svg, |d| differs_when_isolated(d, o, ts));
        }
        s.finding(&format!("oracle:isolation-invisible:{}", class), &format!("isolation changed the picture: {} (tolerance {}, ts {:?})", mx, tol, (ts.sx, ts.sy, ts.tx, ts.ty)), &input);
    }
}

pub fn search(tier: &str, seed: u64, s: &mut Search) {
    let mut rng = Rng::new(seed ^ 0x5EA7C14);
    // fixed witness of the dependency defect described at `keep_filter_layers_positive`
    if let Ok(t) = usvg::Tree::from_str(NEG_OFFSET_WITNESS, &crate::corpus::opts_for(None)) {
        if let Some(pm) = crate::rend::render(&t, 40, 40, tiny_skia::Transform::identity()) {
            s.case("witness", "filter layer at y=-5, region height 20", true);
            // the region covers rows 0..=14; row 15 must be transparent
            if pm.data()[((15 * 40 + 15) * 4 + 3) as usize] != 0 {
                s.finding("dep:tiny-skia:draw_pixmap-negative-offset-pads-extra-row", "a filter layer composited at a negative offset paints one extra row (tiny-skia saturate_round(-5.0) = -4; SpreadMode::Pad repeats the last row)", NEG_OFFSET_WITNESS);
            }
        }
    }
    let mult = budget_mult() as usize;
    // ---- generated documents (normal blending only), isolation injected at random groups and at all groups
    let ng = (if tier == "thorough" { 3000 } else { 250 }) * mult;
    let o = crate::corpus::opts_for(None);
    for i in 0..ng {
        let (w, h) = (rng.range(20, 120) as u32, rng.range(20, 120) as u32);
        let mut cfg = if i % 3 == 0 { gen::Cfg::full(w, h) } else { gen::Cfg::plain(w, h) };
        cfg.blend = false;
        cfg.max_depth = 4;
        let svg = gen::random_doc(&mut rng, cfg);
        if has_non_normal_blend(&svg) {
            continue;
        }
        let (iso, n) = inject_isolation(&svg, &mut rng, i % 2 == 0);
        if n == 0 {
            continue;
        }
        compare(s, "generated", &svg, &svg, &iso, &o, &mut rng);
    }
    // ---- strokes whose painted extent reaches far beyond the geometry: the layer box has to include it
    let nsx = (if tier == "thorough" { 600 } else { 60 }) * mult;
    for _ in 0..nsx {
        let (w, h) = (rng.range(60, 120) as u32, rng.range(60, 120) as u32);
        let mut body = String::new();
        for _ in 0..1 + rng.below(3) {
            let (x, y) = (rng.range(10, w as i64 - 20), rng.range(5, h as i64 / 2));
            let (dx, dy) = (rng.range(2, 9), rng.range(15, 40));
            let shape = format!(
                r#"<path d="M {x} {y} l {dx} {dy} l {dx} -{dy}" fill="none" stroke="{}" stroke-width="{}" stroke-linejoin="{}" stroke-miterlimit="{}" stroke-linecap="{}"/>"#,
                rng.pick(&["#00f", "#0a0", "#f00"]), rng.pick(&["4", "8", "12", "2.5"]), rng.pick(&["miter", "miter-clip", "miter-clip", "round", "bevel"]), rng.pick(&["4", "6", "10", "40"]), rng.pick(&["butt", "square", "round"])
            );
            // every third shape is a text with a wide stroke (its own route to a stroke box: text/flatten.rs)
            let shape = if rng.chance(1, 3) {
                let content = *rng.pick(&["Ab", "o", "<tspan dy=\"4\">x</tspan>y", "W"]);
                format!(
                    r#"<text x="{x}" y="{}" font-family="Noto Sans" font-size="{}" font-weight="bold" fill="{}" stroke="{}" stroke-width="{}" stroke-linejoin="{}"{}>{content}</text>"#,
                    y + 30, rng.range(24, 50), rng.pick(&["gold", "none"]), rng.pick(&["navy", "#a00"]), rng.pick(&["6", "10", "14"]), rng.pick(&["round", "miter", "bevel"]),
                    if rng.chance(1, 3) { r#" paint-order="stroke""# } else { "" }
                )
            } else {
                shape
            };
            let tf = match rng.below(3) {
                0 => String::new(),
                1 => format!(r#" transform="rotate({} {} {})""#, rng.range(-40, 40), x, y),
                _ => format!(r#" transform="translate({} {}) scale({})""#, rng.range(-5, 5), rng.range(-5, 5), rng.pick(&["0.6", "1.3"])),
            };
            body += &format!("<g{tf}>{shape}</g>");
        }
        let svg = format!(r#"<svg xmlns="http://www.w3.org/2000/svg" width="{w}" height="{h}"><g>{body}</g></svg>"#);
        let (iso, n) = inject_isolation(&svg, &mut rng, true);
        if n == 0 {
            continue;
        }
        compare(s, "stroke-extent", &svg, &svg, &iso, &o, &mut rng);
    }
    // ---- groups that cannot be rendered or have no children of their own next to ordinary siblings: a group whose layer
    // lies wholly outside the 5x5-canvas box (its layer cannot be made) must not take its later siblings with it, and a
    // childless group with a filter that paints (feFlood, feTurbulence) belongs to its ancestors' layer boxes
    let nf = (if tier == "thorough" { 300 } else { 40 }) * mult;
    for i in 0..nf {
        let (w, h) = (rng.range(80, 120) as u32, rng.range(80, 120) as u32);
        let far = rng.range(2000, 6000);
        let special = match i % 3 {
            0 => format!(r#"<g><rect x="-{far}" y="10" width="30" height="30" fill="red"/></g>"#),
            1 => r##"<g filter="url(#fl)"/>"##.to_string(),
            _ => r##"<g><g filter="url(#tb)"/></g>"##.to_string(),
        };
        let sib = format!(r##"<circle cx="{}" cy="{}" r="{}" fill="#06c"/><rect x="{}" y="{}" width="20" height="14" fill="#fc0" fill-opacity="0.7"/>"##, rng.range(20, 60), rng.range(20, 60), rng.range(8, 20), rng.range(10, 60), rng.range(10, 60));
        let order = if rng.chance(1, 2) { format!("{special}{sib}") } else { format!("{sib}{special}") };
        let svg = format!(
            r##"<svg xmlns="http://www.w3.org/2000/svg" width="{w}" height="{h}"><defs><filter id="fl" filterUnits="userSpaceOnUse" x="{}" y="{}" width="40" height="30"><feFlood flood-color="#0a0" flood-opacity="0.8"/></filter><filter id="tb" filterUnits="userSpaceOnUse" x="5" y="{}" width="50" height="20"><feTurbulence baseFrequency="0.08" numOctaves="1"/></filter></defs><g><g transform="translate(3 2)">{order}</g></g></svg>"##,
            rng.range(40, 70), rng.range(40, 70), rng.range(50, 80)
        );
        // (documents without a filter user carry no filter definitions: the comparison moves documents with filters so
        // that their layers start at positive coordinates, which would bring the far-away group onto the canvas)
        let svg = if i % 3 == 0 { format!("{}<defs/>{}", &svg[..svg.find("<defs>").unwrap()], &svg[svg.find("</defs>").unwrap() + 7..]) } else { svg };
        let (iso, n) = inject_isolation(&svg, &mut rng, i % 2 == 0);
        if n == 0 {
            continue;
        }
        compare(s, "unrenderable-or-childless-groups", &svg, &svg, &iso, &o, &mut rng);
    }
    // ---- SVG images whose content reaches beyond their own size: what is visible must not depend on whether an
    // ancestor is rendered through a layer (which is sized by the image's box)
    let nio = (if tier == "thorough" { 300 } else { 40 }) * mult;
    for i in 0..nio {
        let (w, h) = (rng.range(70, 120) as u32, rng.range(70, 120) as u32);
        let (iw, ih) = (rng.range(16, 40), rng.range(16, 40));
        let inner = match i % 4 {
            0 => format!(r##"<svg xmlns="http://www.w3.org/2000/svg" width="{iw}" height="{ih}"><rect x="-100" y="{}" width="300" height="6" fill="#d00"/><circle cx="{}" cy="{}" r="{}" fill="#06c"/></svg>"##, ih / 3, iw / 2, ih / 2, iw / 3),
            1 => format!(r##"<svg xmlns="http://www.w3.org/2000/svg" width="{iw}" height="{ih}"><circle cx="{iw}" cy="{ih}" r="{}" fill="#0a0" stroke="#222" stroke-width="5"/></svg>"##, iw),
            2 => format!(r##"<svg xmlns="http://www.w3.org/2000/svg" width="{iw}" height="{ih}" viewBox="0 0 10 10"><path d="M -20 5 L 30 5" stroke="#909" stroke-width="3"/><rect width="10" height="10" fill="#fc0" fill-opacity="0.5"/></svg>"##),
            _ => format!(r##"<svg xmlns="http://www.w3.org/2000/svg" width="{iw}" height="{ih}"><rect width="{iw}" height="{ih}" fill="#4a8"/><rect x="2" y="2" width="{}" height="{}" fill="none" stroke="#000" stroke-width="2"/></svg>"##, iw - 4, ih - 4),
        };
        let uri = format!("data:image/svg+xml;base64,{}", crate::c17::b64(inner.as_bytes()));
        let (x, y) = (rng.range(15, 40), rng.range(15, 40));
        let tf = match rng.below(3) {
            0 => String::new(),
            1 => format!(r#" transform="rotate({} {} {})""#, rng.range(-30, 30), x, y),
            _ => r#" transform="scale(1.4)""#.to_string(),
        };
        let svg = format!(
            r##"<svg xmlns="http://www.w3.org/2000/svg" xmlns:xlink="http://www.w3.org/1999/xlink" width="{w}" height="{h}"><g><g{tf}><image x="{x}" y="{y}" width="{iw}" height="{ih}" xlink:href="{uri}"/></g></g></svg>"##
        );
        let (iso, n) = inject_isolation(&svg, &mut rng, true);
        if n == 0 {
            continue;
        }
        compare(s, "image-overflow", &svg, &svg, &iso, &o, &mut rng);
    }
    // ---- corpus files in their Micro-SVG form
    let nc = if tier == "thorough" { 0 } else { 80 * mult.min(3) };
    for p in crate::corpus::sample(nc, seed) {
        // a performance test of the corpus (a 9999-px morphology window): quadratic in the layer area, minutes in
        // this build when the random transform enlarges it; it says nothing about layers
        if p.ends_with("filters/feMorphology/huge-radius.svg") {
            continue;
        }
        let Ok(data) = std::fs::read(&p) else { continue };
        let oo = crate::corpus::opts_for(Some(&p));
        let Ok(Ok(tree)) = pan::catch(|| usvg::Tree::from_data(&data, &oo)) else { continue };
        let Ok(micro) = pan::catch(|| tree.to_string(&usvg::WriteOptions::default())) else { continue };
        if has_non_normal_blend(&micro) {
            continue;
        }
        let all = rng.chance(1, 2);
        let (iso, n) = inject_isolation(&micro, &mut rng, all);
        if n == 0 {
            continue;
        }
        let key = p.strip_prefix(crate::corpus::repo()).unwrap_or(&p).display().to_string();
        compare(s, "corpus", &key, &micro, &iso, &oo, &mut rng);
    }
    // ---- opacity laws on flat colours: nested opacities multiply, 0 erases, 1 is a no-op
    let no = (if tier == "thorough" { 2000 } else { 200 }) * mult;
    for _ in 0..no {
        let (o1, o2) = (rng.below(11) as f32 / 10.0, rng.below(11) as f32 / 10.0);
        let c = format!("rgb({},{},{})", rng.below(256), rng.below(256), rng.below(256));
        let nested = format!(r#"<svg xmlns="http://www.w3.org/2000/svg" width="8" height="8"><g opacity="{o1}"><g opacity="{o2}"><rect width="8" height="8" fill="{c}"/></g></g></svg>"#);
        let flat = format!(r#"<svg xmlns="http://www.w3.org/2000/svg" width="8" height="8"><g opacity="{}"><rect width="8" height="8" fill="{c}"/></g></svg>"#, o1 * o2);
        let (Ok(ta), Ok(tb)) = (usvg::Tree::from_str(&nested, &o), usvg::Tree::from_str(&flat, &o)) else { continue };
        let (Some(pa), Some(pb)) = (crate::rend::render(&ta, 8, 8, tiny_skia::Transform::identity()), crate::rend::render(&tb, 8, 8, tiny_skia::Transform::identity())) else { continue };
        let (mx, cnt) = crate::rend::diff(&pa, &pb, 3);
        s.case("opacity-mul", &format!("{} {} {}", o1, o2, c), o1 * o2 > 0.0);
        if cnt > 0 {
            s.finding("oracle:opacity-multiplies", &format!("opacity {o1} of opacity {o2} differs from opacity {} by {mx} levels", o1 * o2), &nested);
        }
        let a = pa.data()[3];
        if (o1 == 0.0 || o2 == 0.0) && a != 0 {
            s.finding("oracle:opacity-zero-erases", &format!("opacity 0 left alpha {a}"), &nested);
        }
    }
}

pub fn debug(svg: &str, ts: tiny_skia::Transform, extra: u32) {
    let o = crate::corpus::opts_for(None);
    let mut r = Rng::new(1);
    let (iso, n) = inject_isolation(svg, &mut r, true);
    println!("injected {}", n);
    let ta = usvg::Tree::from_str(svg, &o).unwrap();
    let tb = usvg::Tree::from_str(&iso, &o).unwrap();
    let size = ta.size().to_int_size();
    let (w, h) = (size.width().min(300) + extra, size.height().min(300) + extra);
    let tra = traced_render(&ta, w, h, ts);
    for l in &tra.lines {
        println!("A {}", l);
    }
    let pa = tra.pixmap.unwrap();
    let trb = traced_render(&tb, w, h, ts);
    for l in &trb.lines {
        println!("  {}", l);
    }
    let pb = trb.pixmap.unwrap();
    println!("{:?}", crate::rend::similar(&pa, &pb, 3));
    println!("bbox a {:?} bbox b {:?}", crate::rend::alpha_bbox(&pa, 0), crate::rend::alpha_bbox(&pb, 0));
    for y in 50..60u32.min(h) {
        let row = |pm: &tiny_skia::Pixmap| (18..52u32.min(w)).map(|x| format!("{:3}", pm.data()[((y * w + x) * 4 + 3) as usize])).collect::<Vec<_>>().join(" ");
        println!("y={} A {}", y, row(&pa));
        println!("y={} B {}", y, row(&pb));
    }
    let _ = pa.save_png("/tmp/probe/dbg_a.png");
    let _ = pb.save_png("/tmp/probe/dbg_b.png");
}
