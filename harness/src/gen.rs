//! Structured random SVG documents (one PRNG; everything derives from the seed).
use crate::util::Rng;

#[derive(Clone)]
pub struct Cfg {
    pub w: u32,
    pub h: u32,
    pub filters: bool,
    pub clips: bool,
    pub masks: bool,
    pub patterns: bool,
    pub gradients: bool,
    pub text: bool,
    pub uses: bool,
    pub markers: bool,
    pub blend: bool,
    pub max_depth: u32,
    pub max_children: u32,
    /// give every element an id
    pub ids: bool,
}

impl Cfg {
    pub fn full(w: u32, h: u32) -> Self {
        Cfg { w, h, filters: true, clips: true, masks: true, patterns: true, gradients: true, text: false, uses: true, markers: true, blend: true, max_depth: 3, max_children: 4, ids: true }
    }
    pub fn plain(w: u32, h: u32) -> Self {
        Cfg { w, h, filters: false, clips: false, masks: false, patterns: false, gradients: true, text: false, uses: false, markers: false, blend: false, max_depth: 2, max_children: 4, ids: true }
    }
}

pub struct Gen<'a> {
    pub rng: &'a mut Rng,
    pub cfg: Cfg,
    next_id: u32,
    pub gradients: Vec<String>,
    pub patterns: Vec<String>,
    pub clips: Vec<String>,
    pub masks: Vec<String>,
    pub filters: Vec<String>,
    pub markers: Vec<String>,
    pub shapes_with_id: Vec<String>,
}

pub fn num(x: f32) -> String {
    // short decimal
    let s = format!("{:.2}", x);
    let s = s.trim_end_matches('0').trim_end_matches('.').to_string();
    if s == "-0" { "0".into() } else { s }
}

const COLORS: [&str; 12] = ["#f00", "#0f0", "#00f", "#ff0", "#0ff", "#f0f", "#000", "#fff", "#888", "#f80", "#08f", "#4a2"];

impl<'a> Gen<'a> {
    pub fn new(rng: &'a mut Rng, cfg: Cfg) -> Self {
        Gen { rng, cfg, next_id: 0, gradients: vec![], patterns: vec![], clips: vec![], masks: vec![], filters: vec![], markers: vec![], shapes_with_id: vec![] }
    }

    fn id(&mut self, p: &str) -> String {
        self.next_id += 1;
        format!("{}{}", p, self.next_id)
    }

    pub fn color(&mut self) -> String {
        if self.rng.chance(1, 6) {
            format!("rgb({},{},{})", self.rng.below(256), self.rng.below(256), self.rng.below(256))
        } else {
            self.rng.pick(&COLORS).to_string()
        }
    }

    fn coord(&mut self, span: u32) -> f32 {
        let s = span as f32;
        match self.rng.below(6) {
            0 => self.rng.range(0, span as i64) as f32,
            1 => self.rng.f32_in(-0.3 * s, 1.3 * s),
            _ => self.rng.f32_in(0.0, s),
        }
    }

    fn len(&mut self, span: u32) -> f32 {
        let s = span as f32;
        match self.rng.below(5) {
            0 => self.rng.range(1, span.max(2) as i64) as f32,
            _ => self.rng.f32_in(0.05 * s, 0.8 * s),
        }
    }

    pub fn transform(&mut self) -> String {
        let (w, h) = (self.cfg.w as f32, self.cfg.h as f32);
        let n = 1 + self.rng.below(2);
        let mut parts = vec![];
        for _ in 0..n {
            let p = match self.rng.below(7) {
                0 => format!("translate({} {})", num(self.rng.f32_in(-0.3 * w, 0.3 * w)), num(self.rng.f32_in(-0.3 * h, 0.3 * h))),
                1 => format!("translate({} {})", self.rng.range(-20, 20), self.rng.range(-20, 20)),
                2 => format!("scale({})", num(self.rng.f32_in(0.3, 2.5))),
                3 => format!("scale({} {})", num(self.rng.f32_in(0.3, 2.0)), num(self.rng.f32_in(0.3, 2.0))),
                4 => format!("rotate({} {} {})", num(self.rng.f32_in(-180.0, 180.0)), num(w / 2.0), num(h / 2.0)),
                5 => format!("skewX({})", num(self.rng.f32_in(-40.0, 40.0))),
                _ => format!("matrix({} {} {} {} {} {})", num(self.rng.f32_in(0.5, 1.5)), num(self.rng.f32_in(-0.5, 0.5)), num(self.rng.f32_in(-0.5, 0.5)), num(self.rng.f32_in(0.5, 1.5)), num(self.rng.f32_in(-10.0, 10.0)), num(self.rng.f32_in(-10.0, 10.0))),
            };
            parts.push(p);
        }
        parts.join(" ")
    }

    fn units(&mut self) -> &'static str {
        if self.rng.chance(1, 2) { "userSpaceOnUse" } else { "objectBoundingBox" }
    }

    fn gradient(&mut self) -> String {
        let id = self.id("lg");
        let radial = self.rng.chance(1, 2);
        let obb = self.rng.chance(1, 2);
        let n = 2 + self.rng.below(3);
        let mut stops = String::new();
        for i in 0..n {
            let off = i as f32 / (n - 1) as f32;
            let c = self.color();
            let so = if self.rng.chance(1, 4) { format!(r#" stop-opacity="{}""#, num(self.rng.f32_in(0.1, 1.0))) } else { String::new() };
            stops += &format!(r#"<stop offset="{}" stop-color="{}"{}/>"#, num(off), c, so);
        }
        let spread = *self.rng.pick(&["pad", "reflect", "repeat"]);
        let gt = if self.rng.chance(1, 4) { format!(r#" gradientTransform="{}""#, if obb { "rotate(30 0.5 0.5)".to_string() } else { self.transform() }) } else { String::new() };
        let (w, h) = (self.cfg.w, self.cfg.h);
        let s = if radial {
            if obb {
                format!(r#"<radialGradient id="{id}" cx="0.5" cy="0.5" r="{}" fx="{}" spreadMethod="{spread}"{gt}>{stops}</radialGradient>"#, num(self.rng.f32_in(0.2, 0.8)), num(self.rng.f32_in(0.3, 0.7)))
            } else {
                format!(r#"<radialGradient id="{id}" gradientUnits="userSpaceOnUse" cx="{}" cy="{}" r="{}" spreadMethod="{spread}"{gt}>{stops}</radialGradient>"#, num(self.coord(w)), num(self.coord(h)), num(self.len(w)))
            }
        } else if obb {
            format!(r#"<linearGradient id="{id}" x1="{}" y1="{}" x2="{}" y2="{}" spreadMethod="{spread}"{gt}>{stops}</linearGradient>"#, num(self.rng.f32_in(0.0, 0.5)), num(self.rng.f32_in(0.0, 0.5)), num(self.rng.f32_in(0.5, 1.0)), num(self.rng.f32_in(0.0, 1.0)))
        } else {
            format!(r#"<linearGradient id="{id}" gradientUnits="userSpaceOnUse" x1="{}" y1="{}" x2="{}" y2="{}" spreadMethod="{spread}"{gt}>{stops}</linearGradient>"#, num(self.coord(w)), num(self.coord(h)), num(self.coord(w)), num(self.coord(h)))
        };
        self.gradients.push(id);
        s
    }

    fn pattern(&mut self) -> String {
        let id = self.id("pat");
        let (w, h) = (self.cfg.w, self.cfg.h);
        let obb = self.rng.chance(1, 3);
        let c1 = self.color();
        let c2 = self.color();
        let pt = if self.rng.chance(1, 3) { format!(r#" patternTransform="rotate({})""#, self.rng.range(-45, 45)) } else { String::new() };
        let s = if obb {
            format!(r#"<pattern id="{id}" width="0.25" height="0.25" patternContentUnits="objectBoundingBox"{pt}><rect width="0.125" height="0.125" fill="{c1}"/><circle cx="0.18" cy="0.18" r="0.05" fill="{c2}"/></pattern>"#)
        } else {
            let tw = self.rng.range(4, (w / 3).max(5) as i64);
            let th = self.rng.range(4, (h / 3).max(5) as i64);
            format!(r#"<pattern id="{id}" patternUnits="userSpaceOnUse" width="{tw}" height="{th}"{pt}><rect width="{}" height="{}" fill="{c1}"/><circle cx="{}" cy="{}" r="{}" fill="{c2}"/></pattern>"#, tw / 2, th / 2, tw * 3 / 4, th * 3 / 4, (tw.min(th) / 5).max(1))
        };
        self.patterns.push(id);
        s
    }

    fn clip(&mut self) -> String {
        let id = self.id("clip");
        let (w, h) = (self.cfg.w, self.cfg.h);
        let obb = self.rng.chance(1, 3);
        let nested = if !self.clips.is_empty() && self.rng.chance(1, 4) { format!(r#" clip-path="url(#{})""#, self.rng.pick(&self.clips).clone()) } else { String::new() };
        let body = if obb {
            format!(r#"<circle cx="0.5" cy="0.5" r="{}"/><rect x="0.1" y="0.1" width="{}" height="0.3"/>"#, num(self.rng.f32_in(0.2, 0.5)), num(self.rng.f32_in(0.2, 0.8)))
        } else {
            let ts = if self.rng.chance(1, 3) { format!(r#" transform="{}""#, self.transform()) } else { String::new() };
            let rule = if self.rng.chance(1, 3) { r#" clip-rule="evenodd""# } else { "" };
            format!(
                r#"<rect x="{}" y="{}" width="{}" height="{}"{ts}/><path d="M {} {} L {} {} L {} {} Z"{rule}/>"#,
                num(self.coord(w)), num(self.coord(h)), num(self.len(w)), num(self.len(h)),
                num(self.coord(w)), num(self.coord(h)), num(self.coord(w)), num(self.coord(h)), num(self.coord(w)), num(self.coord(h))
            )
        };
        let u = if obb { r#" clipPathUnits="objectBoundingBox""# } else { "" };
        self.clips.push(id.clone());
        format!(r#"<clipPath id="{id}"{u}{nested}>{body}</clipPath>"#)
    }

    fn mask(&mut self) -> String {
        let id = self.id("mask");
        let (w, h) = (self.cfg.w, self.cfg.h);
        let obb_content = self.rng.chance(1, 3);
        let kind = if self.rng.chance(1, 3) { r#" mask-type="alpha""# } else { "" };
        let nested = if !self.masks.is_empty() && self.rng.chance(1, 4) { format!(r#" mask="url(#{})""#, self.rng.pick(&self.masks).clone()) } else { String::new() };
        let c = self.color();
        let s = if obb_content {
            format!(r#"<mask id="{id}" maskContentUnits="objectBoundingBox"{kind}{nested}><rect x="0.1" y="0.1" width="0.8" height="0.8" fill="{c}" fill-opacity="{}"/></mask>"#, num(self.rng.f32_in(0.3, 1.0)))
        } else {
            format!(
                r#"<mask id="{id}" maskUnits="userSpaceOnUse" x="{}" y="{}" width="{}" height="{}"{kind}{nested}><circle cx="{}" cy="{}" r="{}" fill="{c}"/><rect width="{}" height="{}" fill="white" opacity="0.5"/></mask>"#,
                num(self.rng.f32_in(-5.0, 10.0)), num(self.rng.f32_in(-5.0, 10.0)), num(w as f32 * self.rng.f32_in(0.5, 1.2)), num(h as f32 * self.rng.f32_in(0.5, 1.2)),
                num(self.coord(w)), num(self.coord(h)), num(self.len(w)), num(self.len(w)), num(self.len(h))
            )
        };
        self.masks.push(id);
        s
    }

    pub fn filter_input(&mut self, results: &[String]) -> String {
        match self.rng.below(6) {
            0 => r#" in="SourceGraphic""#.to_string(),
            1 => r#" in="SourceAlpha""#.to_string(),
            2 if !results.is_empty() => format!(r#" in="{}""#, self.rng.pick(results)),
            3 => r#" in="missing""#.to_string(),
            _ => String::new(),
        }
    }

    pub fn primitive(&mut self, results: &mut Vec<String>) -> String {
        let (w, h) = (self.cfg.w, self.cfg.h);
        let inp = self.filter_input(results);
        let in2 = self.filter_input(results).replace(" in=", " in2=");
        let res = if self.rng.chance(1, 2) {
            let r = format!("r{}", results.len());
            results.push(r.clone());
            format!(r#" result="{}""#, r)
        } else {
            String::new()
        };
        let sub = if self.rng.chance(1, 4) {
            format!(r#" x="{}" y="{}" width="{}" height="{}""#, num(self.coord(w)), num(self.coord(h)), num(self.len(w)), num(self.len(h)))
        } else {
            String::new()
        };
        let cif = if self.rng.chance(1, 3) { r#" color-interpolation-filters="sRGB""# } else { "" };
        let a = format!("{inp}{res}{sub}{cif}");
        match self.rng.below(17) {
            0 => format!(r#"<feGaussianBlur{a} stdDeviation="{}"/>"#, match self.rng.below(4) { 0 => "0".to_string(), 1 => format!("{} {}", num(self.rng.f32_in(0.0, 3.0)), num(self.rng.f32_in(0.0, 3.0))), _ => num(self.rng.f32_in(0.1, 4.0)) }),
            1 => format!(r#"<feOffset{a} dx="{}" dy="{}"/>"#, num(self.rng.f32_in(-8.0, 8.0)), num(self.rng.f32_in(-8.0, 8.0))),
            2 => { let c = self.color(); format!(r#"<feFlood{res}{sub}{cif} flood-color="{c}" flood-opacity="{}"/>"#, num(self.rng.f32_in(0.2, 1.0))) }
            3 => format!(r#"<feBlend{a}{in2} mode="{}"/>"#, self.rng.pick(&["normal", "multiply", "screen", "darken", "lighten", "overlay", "difference"])),
            4 => {
                let op = *self.rng.pick(&["over", "in", "out", "atop", "xor", "arithmetic"]);
                format!(r#"<feComposite{a}{in2} operator="{op}" k1="{}" k2="{}" k3="{}" k4="{}"/>"#, num(self.rng.f32_in(-1.0, 1.0)), num(self.rng.f32_in(0.0, 1.0)), num(self.rng.f32_in(0.0, 1.0)), num(self.rng.f32_in(-0.2, 0.5)))
            }
            5 => {
                let n = 1 + self.rng.below(3);
                let mut nodes = String::new();
                for _ in 0..n {
                    nodes += &format!("<feMergeNode{}/>", self.filter_input(results));
                }
                format!(r#"<feMerge{res}{sub}{cif}>{nodes}</feMerge>"#)
            }
            6 => format!(r#"<feTile{a}/>"#),
            7 => {
                let f = |g: &mut Self| match g.rng.below(7) {
                    // (an empty or missing list of table values is legal and means identity)
                    5 => format!(r#"type="{}" tableValues="""#, g.rng.pick(&["table", "discrete"])),
                    6 => format!(r#"type="{}""#, g.rng.pick(&["table", "discrete"])),
                    0 => r#"type="identity""#.to_string(),
                    1 => format!(r#"type="linear" slope="{}" intercept="{}""#, num(g.rng.f32_in(0.2, 2.0)), num(g.rng.f32_in(-0.2, 0.4))),
                    2 => format!(r#"type="gamma" amplitude="{}" exponent="{}" offset="0""#, num(g.rng.f32_in(0.5, 1.5)), num(g.rng.f32_in(0.5, 3.0))),
                    3 => r#"type="table" tableValues="0 0.7 1""#.to_string(),
                    _ => r#"type="discrete" tableValues="0 0.5 1""#.to_string(),
                };
                let (r, g, b, al) = (f(self), f(self), f(self), if self.rng.chance(1, 3) { f(self) } else { r#"type="identity""#.to_string() });
                format!(r#"<feComponentTransfer{a}><feFuncR {r}/><feFuncG {g}/><feFuncB {b}/><feFuncA {al}/></feComponentTransfer>"#)
            }
            8 => match self.rng.below(4) {
                0 => format!(r#"<feColorMatrix{a} type="saturate" values="{}"/>"#, num(self.rng.f32_in(0.0, 2.0))),
                1 => format!(r#"<feColorMatrix{a} type="hueRotate" values="{}"/>"#, self.rng.range(0, 360)),
                2 => format!(r#"<feColorMatrix{a} type="luminanceToAlpha"/>"#),
                _ => format!(r#"<feColorMatrix{a} type="matrix" values="{}"/>"#, (0..20).map(|_| num(self.rng.f32_in(-0.5, 1.2))).collect::<Vec<_>>().join(" ")),
            },
            9 => {
                let o = 2 + self.rng.below(2);
                format!(r#"<feConvolveMatrix{a} order="{o}" kernelMatrix="{}" preserveAlpha="{}" edgeMode="{}"/>"#, (0..o * o).map(|_| num(self.rng.f32_in(-1.0, 2.0))).collect::<Vec<_>>().join(" "), self.rng.chance(1, 2), self.rng.pick(&["none", "duplicate", "wrap"]))
            }
            10 => format!(r#"<feMorphology{a} operator="{}" radius="{}"/>"#, self.rng.pick(&["erode", "dilate"]), num(self.rng.f32_in(0.3, 3.0))),
            11 => format!(r#"<feDisplacementMap{a}{in2} scale="{}" xChannelSelector="R" yChannelSelector="G"/>"#, num(self.rng.f32_in(-10.0, 10.0))),
            12 => format!(r#"<feTurbulence{res}{sub}{cif} type="{}" baseFrequency="{}" numOctaves="{}" seed="{}"/>"#, self.rng.pick(&["turbulence", "fractalNoise"]), num(self.rng.f32_in(0.01, 0.2)), 1 + self.rng.below(2), if self.rng.chance(1, 6) { self.rng.pick(&["-2147483648", "2147483647", "-1", "-2147483647", "4294967296", "-0.5", "1e300"]).to_string() } else { self.rng.below(20).to_string() }),
            13 | 14 => {
                let light = match self.rng.below(3) {
                    0 => format!(r#"<feDistantLight azimuth="{}" elevation="{}"/>"#, self.rng.range(0, 360), self.rng.range(10, 80)),
                    1 => format!(r#"<fePointLight x="{}" y="{}" z="{}"/>"#, num(self.coord(w)), num(self.coord(h)), self.rng.range(5, 60)),
                    _ => format!(r#"<feSpotLight x="{}" y="{}" z="{}" pointsAtX="{}" pointsAtY="{}" pointsAtZ="0" specularExponent="{}" limitingConeAngle="{}"/>"#, num(self.coord(w)), num(self.coord(h)), self.rng.range(5, 60), num(self.coord(w)), num(self.coord(h)), self.rng.range(1, 10), self.rng.range(10, 80)),
                };
                let c = self.color();
                if self.rng.chance(1, 2) {
                    format!(r#"<feDiffuseLighting{a} surfaceScale="{}" diffuseConstant="{}" lighting-color="{c}">{light}</feDiffuseLighting>"#, self.rng.range(1, 8), num(self.rng.f32_in(0.5, 2.0)))
                } else {
                    format!(r#"<feSpecularLighting{a} surfaceScale="{}" specularConstant="{}" specularExponent="{}" lighting-color="{c}">{light}</feSpecularLighting>"#, self.rng.range(1, 8), num(self.rng.f32_in(0.5, 2.0)), self.rng.range(1, 20))
                }
            }
            15 => { let c = self.color(); format!(r#"<feDropShadow{a} dx="{}" dy="{}" stdDeviation="{}" flood-color="{c}"/>"#, self.rng.range(-5, 5), self.rng.range(-5, 5), num(self.rng.f32_in(0.0, 3.0))) }
            _ => format!(r#"<feOffset{a} dx="0" dy="0"/>"#),
        }
    }

    fn filter(&mut self) -> String {
        let id = self.id("filt");
        let (w, h) = (self.cfg.w, self.cfg.h);
        let n = 1 + self.rng.below(4);
        let mut results = vec![];
        let mut prims = String::new();
        for _ in 0..n {
            prims += &self.primitive(&mut results);
        }
        let region = match self.rng.below(4) {
            0 => format!(r#" filterUnits="userSpaceOnUse" x="{}" y="{}" width="{}" height="{}""#, num(self.coord(w) - 5.0), num(self.coord(h) - 5.0), num(self.len(w) + 5.0), num(self.len(h) + 5.0)),
            1 => format!(r#" x="{}" y="{}" width="{}" height="{}""#, num(self.rng.f32_in(-0.3, 0.2)), num(self.rng.f32_in(-0.3, 0.2)), num(self.rng.f32_in(0.6, 1.6)), num(self.rng.f32_in(0.6, 1.6))),
            _ => String::new(),
        };
        let pu = if self.rng.chance(1, 5) { r#" primitiveUnits="objectBoundingBox""# } else { "" };
        self.filters.push(id.clone());
        // primitiveUnits=objectBoundingBox needs fractional subregions: drop absolute ones in that case
        let prims = if pu.is_empty() { prims } else { shrink_obb_lengths(&strip_subregions(&prims)) };
        format!(r#"<filter id="{id}"{region}{pu}>{prims}</filter>"#)
    }

    fn marker(&mut self) -> String {
        let id = self.id("mk");
        let c = self.color();
        self.markers.push(id.clone());
        format!(r#"<marker id="{id}" markerWidth="{}" markerHeight="{}" refX="2" refY="2" orient="{}"><circle cx="2" cy="2" r="2" fill="{c}"/></marker>"#, self.rng.range(2, 6), self.rng.range(2, 6), self.rng.pick(&["auto", "0", "45"]))
    }

    pub fn paint(&mut self) -> String {
        let r = self.rng.below(10);
        if r < 2 && !self.gradients.is_empty() {
            format!("url(#{})", self.rng.pick(&self.gradients).clone())
        } else if r == 2 && !self.patterns.is_empty() {
            format!("url(#{})", self.rng.pick(&self.patterns).clone())
        } else if r == 3 {
            "none".to_string()
        } else {
            self.color()
        }
    }

    pub fn style_attrs(&mut self) -> String {
        let mut s = String::new();
        s += &format!(r#" fill="{}""#, self.paint());
        if self.rng.chance(1, 2) {
            s += &format!(r#" stroke="{}" stroke-width="{}""#, self.paint(), num(self.rng.f32_in(0.5, 8.0)));
            if self.rng.chance(1, 3) {
                s += &format!(r#" stroke-linejoin="{}" stroke-linecap="{}""#, self.rng.pick(&["miter", "round", "bevel", "miter-clip"]), self.rng.pick(&["butt", "round", "square"]));
            }
            if self.rng.chance(1, 5) {
                s += &format!(r#" stroke-dasharray="{} {}""#, self.rng.range(1, 8), self.rng.range(1, 8));
            }
        }
        if self.rng.chance(1, 5) {
            s += &format!(r#" fill-opacity="{}""#, num(self.rng.f32_in(0.2, 0.9)));
        }
        if self.rng.chance(1, 8) {
            s += r#" fill-rule="evenodd""#;
        }
        s
    }

    pub fn shape(&mut self) -> String {
        let (w, h) = (self.cfg.w, self.cfg.h);
        let id = if self.cfg.ids {
            let i = self.id("s");
            self.shapes_with_id.push(i.clone());
            format!(r#" id="{}""#, i)
        } else {
            String::new()
        };
        let st = self.style_attrs();
        let ts = if self.rng.chance(1, 5) { format!(r#" transform="{}""#, self.transform()) } else { String::new() };
        let mk = if !self.markers.is_empty() && self.rng.chance(1, 4) { format!(r#" marker-start="url(#{0})" marker-end="url(#{0})""#, self.rng.pick(&self.markers).clone()) } else { String::new() };
        match self.rng.below(7) {
            0 => format!(r#"<rect{id} x="{}" y="{}" width="{}" height="{}"{}{st}{ts}/>"#, num(self.coord(w)), num(self.coord(h)), num(self.len(w)), num(self.len(h)), if self.rng.chance(1, 4) { format!(r#" rx="{}""#, self.rng.range(1, 10)) } else { String::new() }),
            1 => format!(r#"<circle{id} cx="{}" cy="{}" r="{}"{st}{ts}/>"#, num(self.coord(w)), num(self.coord(h)), num(self.len(w) / 2.0)),
            2 => format!(r#"<ellipse{id} cx="{}" cy="{}" rx="{}" ry="{}"{st}{ts}/>"#, num(self.coord(w)), num(self.coord(h)), num(self.len(w) / 2.0), num(self.len(h) / 2.0)),
            3 => format!(r#"<line{id} x1="{}" y1="{}" x2="{}" y2="{}"{st}{ts}{mk}/>"#, num(self.coord(w)), num(self.coord(h)), num(self.coord(w)), num(self.coord(h))),
            4 => format!(r#"<polygon{id} points="{}"{st}{ts}/>"#, (0..3 + self.rng.below(3)).map(|_| format!("{},{}", num(self.coord(w)), num(self.coord(h)))).collect::<Vec<_>>().join(" ")),
            5 => format!(r#"<polyline{id} points="{}"{st}{ts}{mk}/>"#, (0..3 + self.rng.below(3)).map(|_| format!("{},{}", num(self.coord(w)), num(self.coord(h)))).collect::<Vec<_>>().join(" ")),
            _ => format!(
                r#"<path{id} d="M {} {} C {} {} {} {} {} {} L {} {} Z"{st}{ts}{mk}/>"#,
                num(self.coord(w)), num(self.coord(h)), num(self.coord(w)), num(self.coord(h)), num(self.coord(w)), num(self.coord(h)), num(self.coord(w)), num(self.coord(h)), num(self.coord(w)), num(self.coord(h))
            ),
        }
    }

    pub fn group_attrs(&mut self) -> String {
        let mut s = String::new();
        if self.rng.chance(1, 3) {
            s += &format!(r#" transform="{}""#, self.transform());
        }
        if self.rng.chance(1, 3) {
            s += &format!(r#" opacity="{}""#, num(self.rng.f32_in(0.1, 1.0)));
        }
        if !self.clips.is_empty() && self.rng.chance(1, 4) {
            s += &format!(r#" clip-path="url(#{})""#, self.rng.pick(&self.clips).clone());
        }
        if !self.masks.is_empty() && self.rng.chance(1, 5) {
            s += &format!(r#" mask="url(#{})""#, self.rng.pick(&self.masks).clone());
        }
        if !self.filters.is_empty() && self.rng.chance(1, 3) {
            if self.rng.chance(1, 6) && self.filters.len() > 1 {
                let a = self.rng.pick(&self.filters).clone();
                let b = self.rng.pick(&self.filters).clone();
                s += &format!(r#" filter="url(#{}) url(#{})""#, a, b);
            } else {
                s += &format!(r#" filter="url(#{})""#, self.rng.pick(&self.filters).clone());
            }
        }
        let mut style = vec![];
        if self.cfg.blend && self.rng.chance(1, 8) {
            style.push(format!("mix-blend-mode:{}", self.rng.pick(&["multiply", "screen", "difference", "darken"])));
        }
        if self.rng.chance(1, 8) {
            style.push("isolation:isolate".to_string());
        }
        if !style.is_empty() {
            s += &format!(r#" style="{}""#, style.join(";"));
        }
        s
    }

    pub fn node(&mut self, depth: u32) -> String {
        if depth >= self.cfg.max_depth || self.rng.chance(2, 3) {
            if self.cfg.uses && !self.shapes_with_id.is_empty() && self.rng.chance(1, 8) {
                let t = self.rng.pick(&self.shapes_with_id).clone();
                return format!(r##"<use xlink:href="#{}" x="{}" y="{}"/>"##, t, self.rng.range(-10, 10), self.rng.range(-10, 10));
            }
            return self.shape();
        }
        let id = if self.cfg.ids { format!(r#" id="{}""#, self.id("g")) } else { String::new() };
        let attrs = self.group_attrs();
        let n = 1 + self.rng.below(self.cfg.max_children as u64);
        let mut body = String::new();
        for _ in 0..n {
            body += &self.node(depth + 1);
        }
        format!("<g{id}{attrs}>{body}</g>")
    }

    pub fn defs(&mut self) -> String {
        let mut d = String::new();
        if self.cfg.gradients {
            for _ in 0..self.rng.below(3) {
                d += &self.gradient();
            }
        }
        if self.cfg.patterns {
            for _ in 0..self.rng.below(2) {
                d += &self.pattern();
            }
        }
        if self.cfg.clips {
            for _ in 0..self.rng.below(3) {
                d += &self.clip();
            }
        }
        if self.cfg.masks {
            for _ in 0..self.rng.below(3) {
                d += &self.mask();
            }
        }
        if self.cfg.filters {
            for _ in 0..self.rng.below(3) {
                d += &self.filter();
            }
        }
        if self.cfg.markers {
            for _ in 0..self.rng.below(2) {
                d += &self.marker();
            }
        }
        d
    }

    pub fn doc_with(&mut self, root_attrs: &str, body_prefix: &str) -> String {
        let defs = self.defs();
        let n = 1 + self.rng.below(self.cfg.max_children as u64 + 1);
        let mut body = String::new();
        for _ in 0..n {
            body += &self.node(0);
        }
        format!(
            r#"<svg xmlns="http://www.w3.org/2000/svg" xmlns:xlink="http://www.w3.org/1999/xlink" width="{}" height="{}"{}><defs>{}</defs>{}{}</svg>"#,
            self.cfg.w, self.cfg.h, root_attrs, defs, body_prefix, body
        )
    }

    pub fn doc(&mut self) -> String {
        self.doc_with("", "")
    }
}

/// with primitiveUnits=objectBoundingBox lengths are fractions of the box: keep radii / deviations small
fn shrink_obb_lengths(prims: &str) -> String {
    let mut out = String::new();
    let mut rest = prims;
    for key in [" radius=\"", " stdDeviation=\"", " dx=\"", " dy=\"", " scale=\""] {
        out.clear();
        loop {
            match rest.find(key) {
                Some(i) => {
                    let after = &rest[i + key.len()..];
                    let k = after.find('"').unwrap_or(0);
                    out += &rest[..i + key.len()];
                    out += "0.02";
                    rest = &after[k..];
                }
                None => {
                    out += rest;
                    break;
                }
            }
        }
        rest = Box::leak(out.clone().into_boxed_str());
    }
    rest.to_string()
}

fn strip_subregions(prims: &str) -> String {
    // remove ` x=".." y=".." width=".." height=".."` groups produced by `primitive`
    let mut out = String::new();
    let mut rest = prims;
    while let Some(i) = rest.find(" x=\"") {
        // only strip when followed by y/width/height in our fixed order
        let tail = &rest[i..];
        if let Some(j) = tail.find(" height=\"") {
            let after = &tail[j + 9..];
            if let Some(k) = after.find('"') {
                let candidate = &tail[..j + 9 + k + 1];
                if candidate.contains(" y=\"") && candidate.contains(" width=\"") && !candidate.contains('<') && !candidate.contains('>') {
                    out += &rest[..i];
                    rest = &after[k + 1..];
                    continue;
                }
            }
        }
        out += &rest[..i + 4];
        rest = &rest[i + 4..];
    }
    out += rest;
    out
}

/// convenience: one random document
pub fn random_doc(rng: &mut Rng, cfg: Cfg) -> String {
    let mut g = Gen::new(rng, cfg);
    g.doc()
}
