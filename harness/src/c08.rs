//! C08: write then parse preserves the rendering.
//! corr: the value of every written number (`write_num`) against the model, bit-exact.
//! search: render(parse(write(T))) vs render(T), and a second round trip, noise-tolerant.
use crate::pan;
use crate::util::*;
use resvg::tiny_skia;

pub fn corr(tier: &str, seed: u64, c: &mut Corr) {
    let mut rng = Rng::new(seed ^ 0xC08);
    let n = if tier == "thorough" { 20000 } else { 2500 };
    let o = crate::corpus::opts_for(None);
    for i in 0..n {
        // a coordinate: integers, halves, values at rounding boundaries, tiny, huge
        let x: f32 = match rng.below(10) {
            0 => rng.range(-3000, 3000) as f32,
            1 => rng.range(-3000, 3000) as f32 + 0.5,
            2 => (rng.range(-100000, 100000) as f32) / 1000.0,
            3 => rng.f32_in(-1.0, 1.0) * 1e-6,
            4 => rng.f32_in(-1.0, 1.0) * 1e9,
            5 => f32::from_bits((rng.next() as u32) & 0x7fff_ffff).min(3.0e38) * if rng.chance(1, 2) { -1.0 } else { 1.0 },
            6 => *rng.pick(&[2147483648.0f32, -2147483648.0, 2147483520.0, 3.0e9, 16777216.0, 16777217.0, 0.1, 0.30000001, 1e-45, 4e-45, 7e-45]),
            7 => (rng.range(-99999, 99999) as f32 + 0.5) / 100000.0,
            _ => rng.f32_in(-500.0, 500.0),
        };
        if !x.is_finite() {
            continue;
        }
        let p = *rng.pick(&[0u8, 1, 2, 3, 4, 5, 6, 7, 8, 8, 8, 9, 11, 12, 13, 200]);
        let mut w = usvg::WriteOptions::default();
        w.indent = usvg::Indent::None;
        let text_x = format!("{:e}", x as f64);
        // alternate between a path coordinate and a transform entry
        if i % 2 == 0 {
            w.coordinates_precision = p;
            let svg = format!(r#"<svg xmlns="http://www.w3.org/2000/svg" width="10" height="10"><path d="M {} 1 L 5 7 L 1 9" stroke="black"/></svg>"#, text_x);
            let Ok(Ok(t)) = pan::catch(|| usvg::Tree::from_str(&svg, &o)) else { continue };
            // the tree's own value (the parser may have produced something else than x: use what the tree holds)
            let Some(usvg::Node::Path(pt)) = t.root().children().first() else { continue };
            let held = pt.data().points()[0].x;
            let Ok(text) = pan::catch(|| t.to_string(&w)) else { continue };
            let Some(i0) = text.find(" d=\"M ") else { continue };
            let tok = text[i0 + 6..].split(' ').next().unwrap_or("");
            let Ok(v) = tok.parse::<f32>() else { continue };
            c.emit(&format!("writenum {} {}", p, hx(held)), &hx(if v == 0.0 { 0.0 } else { v }));
        } else {
            w.transforms_precision = p;
            if x == 0.0 {
                continue;
            }
            let svg = format!(r#"<svg xmlns="http://www.w3.org/2000/svg" width="10" height="10"><g transform="matrix(1 0 0 1 {} 3)"><rect width="1" height="1"/></g></svg>"#, text_x);
            let Ok(Ok(t)) = pan::catch(|| usvg::Tree::from_str(&svg, &o)) else { continue };
            let Some(usvg::Node::Group(g)) = t.root().children().first() else { continue };
            let held = g.transform().tx;
            let Ok(text) = pan::catch(|| t.to_string(&w)) else { continue };
            let Some(i0) = text.find("transform=\"") else { continue };
            let inner = &text[i0 + 11..];
            let inner = &inner[..inner.find('"').unwrap_or(inner.len())];
            // translate(tx ty) or matrix(a b c d e f)
            let nums: Vec<&str> = inner.trim_end_matches(')').split(|ch| ch == '(' || ch == ' ').collect();
            let tok = if inner.starts_with("translate(") { nums.get(1) } else if inner.starts_with("matrix(") { nums.get(5) } else { None };
            let Some(Ok(v)) = tok.map(|t| t.parse::<f32>()) else { continue };
            c.emit(&format!("writenum {} {}", p, hx(held)), &hx(if v == 0.0 { 0.0 } else { v }));
        }
    }
}

/// the shared noise-tolerant comparison, with the flat-area budget widened to 0.2 % of the image:
/// position-dependent primitives (turbulence, lighting) flip isolated interior pixels when a region
/// coordinate moves by one unit of the 8th decimal
fn same_image(a: &tiny_skia::Pixmap, b: &tiny_skia::Pixmap, tol: u8) -> (bool, String) {
    let (ok, why) = crate::rend::similar(a, b, tol);
    if ok {
        return (true, why);
    }
    let nums: Vec<usize> = why.split(|c: char| !c.is_ascii_digit()).filter_map(|t| t.parse().ok()).collect();
    let n = (a.width() * a.height()) as usize;
    if nums.len() >= 3 && nums[0] <= 16 + n / 1000 && nums[2] <= 4 + n / 500 {
        return (true, why);
    }
    (false, why)
}

fn render_at(t: &usvg::Tree, scale: f32) -> Option<tiny_skia::Pixmap> {
    let size = t.size();
    let (w, h) = ((size.width() * scale).ceil().min(400.0).max(1.0) as u32, (size.height() * scale).ceil().min(400.0).max(1.0) as u32);
    pan::catch(|| crate::rend::render(t, w, h, tiny_skia::Transform::from_scale(scale, scale))).ok().flatten()
}

pub fn search(tier: &str, seed: u64, s: &mut Search) {
    let mut rng = Rng::new(seed ^ 0x5EA7C08);
    let mult = budget_mult() as usize;
    let mut one = |s: &mut Search, class: &str, key: &str, data: &[u8], o: &usvg::Options, rng: &mut Rng| {
        let Ok(Ok(t)) = pan::catch(|| usvg::Tree::from_data(data, o)) else { return };
        let mut w = usvg::WriteOptions::default();
        let variant = rng.below(4);
        match variant {
            1 => w.id_prefix = Some("rt_".into()),
            2 => w.preserve_text = true,
            3 => {
                w.preserve_text = true;
                w.id_prefix = Some("p-".into());
                w.use_single_quote = true;
            }
            _ => {}
        }
        let vname = ["default", "id-prefix", "preserve-text", "preserve-text+prefix+single-quote"][variant as usize];
        // signature class: text written as outlines, or preserved as text
        let vclass = if w.preserve_text { "preserve-text" } else { "outlines" };
        let Ok(text) = pan::catch(|| t.to_string(&w)) else {
            s.finding(&format!("oracle:C08:writer-panic:{}", vname), "Tree::to_string panicked", key);
            return;
        };
        let mut o2 = crate::corpus::opts_for(None);
        o2.fontdb = t.fontdb().clone();
        let t2 = match pan::catch(|| usvg::Tree::from_str(&text, &o2)) {
            Ok(Ok(t2)) => t2,
            _ => {
                // well-formedness / re-parsability is C07's clause
                s.case(&format!("{}-unparsable", class), key, false);
                return;
            }
        };
        // the construct most likely involved, for call-site level signatures
        let feature = ["<feImage", "<textPath", "<text", "<image", "<filter", "<pattern", "<mask", "<clipPath", "Gradient", "<path"]
            .iter()
            .find(|f| text.contains(**f))
            .map(|f| f.trim_start_matches('<'))
            .unwrap_or("other");
        // known causes get their own call-site level signature
        let feature = if feature == "filter" || feature == "feImage" {
            let kw = ["SourceGraphic", "SourceAlpha", "BackgroundImage", "BackgroundAlpha", "FillPaint", "StrokePaint"];
            if kw.iter().any(|k| text.contains(&format!("result=\"{}\"", k)) || text.contains(&format!("result='{}'", k))) {
                "filter(result-named-like-an-input-keyword)"
            } else if text.split("type=\"saturate\" values=\"").skip(1).any(|r| r.split('"').next().and_then(|v| v.parse::<f32>().ok()).map(|v| v > 1.0).unwrap_or(false)) {
                "filter(saturate-above-1)"
            } else {
                feature
            }
        } else {
            feature
        };
        // a written text whose references do not resolve to exactly one element (C07's clause) cannot
        // round-trip: name that cause instead of the construct
        let mut cv = vec![];
        crate::tree::check_written(&text, "", &mut cv);
        let broken: Option<String> = cv.iter().find(|x| x.sig.contains("-reference:")).map(|x| x.sig.trim_start_matches("C07:").to_string());
        let feature_owned;
        let feature = match &broken {
            Some(b) => {
                feature_owned = format!("written-reference-broken({})", b);
                feature_owned.as_str()
            }
            None => feature,
        };
        let scale = if rng.chance(1, 3) { 2.0 } else { 1.0 };
        let (Some(a), Some(b)) = (render_at(&t, scale), render_at(&t2, scale)) else { return };
        let painted = a.data().chunks(4).any(|p| p[3] != 0);
        s.case(class, key, painted);
        let (ok, why) = same_image(&a, &b, 8);
        if !ok {
            s.finding(&format!("oracle:C08:round-trip-changes-image:{}:{}", vclass, feature), &format!("[{}] render(parse(write(T))) differs from render(T) at scale {}: {}", vname, scale, why), key);
            return;
        }
        // second round trip
        let Ok(text2) = pan::catch(|| t2.to_string(&w)) else { return };
        let Ok(Ok(t3)) = pan::catch(|| usvg::Tree::from_str(&text2, &o2)) else { return };
        if let Some(c3) = render_at(&t3, scale) {
            let (ok, why) = same_image(&b, &c3, 4);
            if !ok {
                s.finding(&format!("oracle:C08:second-round-trip-changes-image:{}:{}", vclass, feature), &format!("[{}] the second write/parse changes the image again: {}", vname, why), key);
            }
        }
    };
    let nc = if tier == "thorough" { 0 } else { 120 * mult.min(4) };
    for p in crate::corpus::sample(nc, seed) {
        let Ok(data) = std::fs::read(&p) else { continue };
        let o = crate::corpus::opts_for(Some(&p));
        let key = p.display().to_string();
        one(s, "corpus", &key, &data, &o, &mut rng);
    }
    let ng = (if tier == "thorough" { 2000 } else { 60 }) * mult;
    let o = crate::corpus::opts_for(None);
    for _ in 0..ng {
        let (w, h) = (rng.range(20, 150) as u32, rng.range(20, 150) as u32);
        let svg = crate::gen::random_doc(&mut rng, crate::gen::Cfg::full(w, h));
        one(s, "generated", &svg.clone(), svg.as_bytes(), &o, &mut rng);
    }
    for d in crate::c05::targeted(seed, "quick").into_iter().take(if tier == "thorough" { 300 } else { 30 }) {
        let key = String::from_utf8_lossy(&d.data).to_string();
        one(s, "shared-definitions", &key, &d.data, &o, &mut rng);
    }
}
