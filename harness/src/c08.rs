//! C08: write then parse preserves the rendering.
//! corr: the value of every written number (`write_num`) against the model, bit-exact.
//! search: render(parse(write(T))) vs render(T), and a second round trip, noise-tolerant.
use crate::pan;
use crate::util::*;
use resvg::tiny_skia;

pub fn corr(tier: &str, seed: u64, c: &mut Corr) {
    let mut rng = Rng::new(seed ^ 0xC08);
    let n = if tier == "thorough" { 20000 } else { 2500 };
    let o = crate::corpus::opts_for(None);
    for i in 0..n {
        // a coordinate: integers, halves, values at rounding boundaries, tiny, huge
        let x: f32 = match rng.below(10) {
            0 => rng.range(-3000, 3000) as f32,
            1 => rng.range(-3000, 3000) as f32 + 0.5,
            2 => (rng.range(-100000, 100000) as f32) / 1000.0,
            3 => rng.f32_in(-1.0, 1.0) * 1e-6,
            4 => rng.f32_in(-1.0, 1.0) * 1e9,
            5 => f32::from_bits((rng.next() as u32) & 0x7fff_ffff).min(3.0e38) * if rng.chance(1, 2) { -1.0 } else { 1.0 },
            6 => *rng.pick(&[2147483648.0f32, -2147483648.0, 2147483520.0, 3.0e9, 16777216.0, 16777217.0, 0.1, 0.30000001, 1e-45, 4e-45, 7e-45]),
            7 => (rng.range(-99999, 99999) as f32 + 0.5) / 100000.0,
            _ => rng.f32_in(-500.0, 500.0),
        };
        if !x.is_finite() {
            continue;
        }
        let p = *rng.pick(&[0u8, 1, 2, 3, 4, 5, 6, 7, 8, 8, 8, 9, 11, 12, 13, 200]);
        let mut w = usvg::WriteOptions::default();
        w.indent = usvg::Indent::None;
        let text_x = format!("{:e}", x as f64);
        // alternate between a path coordinate and a transform entry
        if i % 2 == 0 {
            w.coordinates_precision = p;
            let svg = format!(r#"<svg xmlns="http://www.w3.org/2000/svg" width="10" height="10"><path d="M {} 1 L 5 7 L 1 9" stroke="black"/></svg>"#, text_x);
            let Ok(Ok(t)) = pan::catch(|| usvg::Tree::from_str(&svg, &o)) else { continue };
            // the tree's own value (the parser may have produced something else than x: use what the tree holds)
            let Some(usvg::Node::Path(pt)) = t.root().children().first() else { continue };
            let held = pt.data().points()[0].x;
            let Ok(text) = pan::catch(|| t.to_string(&w)) else { continue };
            let Some(i0) = text.find(" d=\"M ") else { continue };
            let tok = text[i0 + 6..].split(' ').next().unwrap_or("");
            let Ok(v) = tok.parse::<f32>() else { continue };
            c.emit(&format!("writenum {} {}", p, hx(held)), &hx(if v == 0.0 { 0.0 } else { v }));
        } else {
            w.transforms_precision = p;
            if x == 0.0 {
                continue;
            }
            let svg = format!(r#"<svg xmlns="http://www.w3.org/2000/svg" width="10" height="10"><g transform="matrix(1 0 0 1 {} 3)"><rect width="1" height="1"/></g></svg>"#, text_x);
            let Ok(Ok(t)) = pan::catch(|| usvg::Tree::from_str(&svg, &o)) else { continue };
            let Some(usvg::Node::Group(g)) = t.root().children().first() else { continue };
            let held = g.transform().tx;
            let Ok(text) = pan::catch(|| t.to_string(&w)) else { continue };
            let Some(i0) = text.find("transform=\"") else { continue };
            let inner = &text[i0 + 11..];
            let inner = &inner[..inner.find('"').unwrap_or(inner.len())];
            // translate(tx ty) or matrix(a b c d e f)
            let nums: Vec<&str> = inner.trim_end_matches(')').split(|ch| ch == '(' || ch == ' ').collect();
            let tok = if inner.starts_with("translate(") { nums.get(1) } else if inner.starts_with("matrix(") { nums.get(5) } else { None };
            let Some(Ok(v)) = tok.map(|t| t.parse::<f32>()) else { continue };
            c.emit(&format!("writenum {} {}", p, hx(held)), &hx(if v == 0.0 { 0.0 } else { v }));
        }
    }
    // ---- colours: what write_color writes for a tree colour, and what the parser reads from a #-token
    let nc = if tier == "thorough" { 3000 } else { 400 };
    let hexs = |s: &str| s.bytes().map(|b| format!("{:02x}", b)).collect::<String>();
    for i in 0..nc {
        let (r, g, b) = if i < 48 { ([0u8, 1, 15, 16, 17, 127, 128, 254, 255, 9, 10, 160][i % 12], [0u8, 255, 16, 10][i / 12], [0u8, 15, 255, 171][(i / 3) % 4]) } else { (rng.below(256) as u8, rng.below(256) as u8, rng.below(256) as u8) };
        // (1) writer: fill (paint), stop-color and flood-color go through write_color
        let svg = format!(
            r##"<svg xmlns="http://www.w3.org/2000/svg" width="10" height="10"><filter id="f"><feFlood flood-color="rgb({r},{g},{b})"/></filter><linearGradient id="l"><stop offset="0" stop-color="rgb({r},{g},{b})"/><stop offset="1"/></linearGradient><rect width="5" height="5" fill="rgb({r},{g},{b})" stroke="url(#l)" filter="url(#f)"/></svg>"##
        );
        let Ok(Ok(t)) = pan::catch(|| usvg::Tree::from_str(&svg, &o)) else { continue };
        let Ok(text) = pan::catch(|| t.to_string(&usvg::WriteOptions::default())) else { continue };
        for attr in [" fill=\"", " stop-color=\"", " flood-color=\""] {
            if let Some(i0) = text.find(attr) {
                let v = &text[i0 + attr.len()..];
                let v = &v[..v.find('"').unwrap_or(v.len())];
                c.emit(&format!("writecolor {} {} {}", r, g, b), v);
            }
        }
        // (2) parser: a #-token as a stroke paint (an invalid paint leaves the stroke unset)
        let tok: String = match i % 6 {
            0 => format!("#{:02x}{:02x}{:02x}", r, g, b),
            1 => format!("#{:02X}{:02x}{:02X}", r, g, b),
            2 => format!("#{:x}{:x}{:x}", r % 16, g % 16, b % 16),
            3 => {
                // wrong length or a non-hex character
                let mut s = format!("#{:02x}{:02x}{:02x}", r, g, b);
                match rng.below(4) {
                    0 => { s.pop(); }
                    1 => s.push('0'),
                    2 => s.replace_range(3..4, "g"),
                    _ => s.truncate(3),
                }
                s
            }
            4 => format!("#{:X}{:X}{:X}", r % 16, g % 16, b % 16),
            _ => format!("#{:02x}{:02x}{:02x}", b, r, g),
        };
        let svg = format!(r##"<svg xmlns="http://www.w3.org/2000/svg" width="10" height="10"><path d="M 1 1 L 9 9" stroke="{}"/><rect width="2" height="2"/></svg>"##, tok);
        let Ok(Ok(t)) = pan::catch(|| usvg::Tree::from_str(&svg, &o)) else { continue };
        let ans = match t.root().children().first() {
            Some(usvg::Node::Path(p)) if p.data().len() == 2 => match p.stroke().map(|s| s.paint()) {
                Some(usvg::Paint::Color(c)) => format!("{} {} {}", c.red, c.green, c.blue),
                _ => "none".to_string(),
            },
            // the line was dropped: no stroke
            _ => "none".to_string(),
        };
        c.emit(&format!("parsecolor {}", hexs(&tok)), &ans);
    }
}

/// the shared noise-tolerant comparison, with the flat-area budget widened to 0.2 % of the image:
/// position-dependent primitives (turbulence, lighting) flip isolated interior pixels when a region
/// coordinate moves by one unit of the 8th decimal
pub fn same_image(a: &tiny_skia::Pixmap, b: &tiny_skia::Pixmap, tol: u8) -> (bool, String) {
    let (ok, why) = crate::rend::similar(a, b, tol);
    if ok {
        return (true, why);
    }
    let nums: Vec<usize> = why.split(|c: char| !c.is_ascii_digit()).filter_map(|t| t.parse().ok()).collect();
    let n = (a.width() * a.height()) as usize;
    if nums.len() >= 3 && nums[0] <= 16 + n / 1000 && nums[2] <= 4 + n / 500 {
        return (true, why);
    }
    (false, why)
}

/// feature probes (content placed over a sand-coloured backdrop)
const PROBES: [&str; 50] = [
    // a clip path child that is a `use` (with and without its own clip path) of a shape with a clip path
    r###"<clipPath id="nk1"><rect x="10" y="10" width="70" height="70"/></clipPath><clipPath id="nk2"><circle cx="60" cy="50" r="45"/></clipPath><rect id="nt" x="20" y="20" width="80" height="60" clip-path="url(#nk1)"/><clipPath id="nc"><use xlink:href="#nt" clip-path="url(#nk2)"/></clipPath><rect width="120" height="100" fill="purple" clip-path="url(#nc)"/>"###,
    r###"<clipPath id="mk1"><rect x="10" y="10" width="70" height="70"/></clipPath><rect id="mt" x="20" y="20" width="80" height="60" clip-path="url(#mk1)"/><clipPath id="mc"><use xlink:href="#mt"/><circle cx="100" cy="80" r="10"/></clipPath><rect width="120" height="100" fill="navy" clip-path="url(#mc)"/>"###,
    r###"<pattern id="pv1" viewBox="0 0 4 4" width="0.25" height="0.25" patternContentUnits="objectBoundingBox"><rect width="2" height="2" fill="#d00"/><rect x="2" y="2" width="2" height="2" fill="#00d"/></pattern><rect x="15" y="15" width="80" height="60" fill="url(#pv1)"/>"###,
    r###"<pattern id="pv2" viewBox="0 0 4 4" width="20" height="16" patternUnits="userSpaceOnUse" patternContentUnits="objectBoundingBox" preserveAspectRatio="none"><rect width="2" height="2" fill="#d00"/><rect x="2" y="2" width="2" height="2" fill="#00d"/></pattern><rect x="15" y="15" width="80" height="60" fill="none" stroke="url(#pv2)" stroke-width="14"/>"###,
    r###"<clipPath id="shc"><rect width="120" height="100"/></clipPath><clipPath id="inc"><circle cx="70" cy="60" r="18"/></clipPath><g clip-path="url(#shc)"><rect x="5" y="5" width="20" height="20" fill="#080"/></g><g clip-path="url(#shc)"><rect x="40" y="30" width="70" height="60" fill="#c0c" clip-path="url(#inc)"/></g>"###,
    r###"<mask id="shm" maskUnits="userSpaceOnUse" x="0" y="0" width="120" height="100" maskContentUnits="userSpaceOnUse"><rect width="120" height="100" fill="white"/></mask><linearGradient id="ing" x2="0" y2="1"><stop offset="0" stop-color="#f00"/><stop offset="1" stop-color="#00f"/></linearGradient><g mask="url(#shm)"><rect x="5" y="5" width="20" height="20" fill="#080"/></g><g mask="url(#shm)"><g visibility="hidden"><rect x="40" y="30" width="70" height="60" fill="url(#ing)" visibility="visible"/></g></g>"###,
    r###"<g style="isolation:isolate"><rect x="20" y="20" width="60" height="50" fill="#08f" style="mix-blend-mode:multiply"/></g>"###,
    r###"<g style="mix-blend-mode:difference"><rect x="20" y="20" width="60" height="50" fill="#08f"/></g>"###,
    r###"<g style="mix-blend-mode:screen;isolation:isolate" opacity="0.8"><circle cx="60" cy="50" r="30" fill="#f40"/></g>"###,
    r###"<g opacity="0.35"><rect x="10" y="10" width="50" height="50" fill="black"/><rect x="35" y="35" width="50" height="50" fill="black"/></g>"###,
    r###"<path d="M 20 20 h 80 v 60 h -80 z M 40 35 h 40 v 30 h -40 z M 50 42 h 20 v 16 h -20 z" fill="purple" fill-rule="evenodd"/>"###,
    r###"<path d="M 20 20 h 80 v 60 h -80 z M 40 35 v 30 h 40 v -30 z" fill="purple" fill-rule="nonzero"/>"###,
    r###"<path d="M 20 80 L 60 15 L 100 80" fill="none" stroke="black" stroke-width="12" stroke-linejoin="miter" stroke-miterlimit="1.2"/>"###,
    r###"<path d="M 20 80 L 60 15 L 100 80" fill="none" stroke="black" stroke-width="12" stroke-linejoin="round" stroke-linecap="round"/>"###,
    r###"<path d="M 20 80 L 60 15 L 100 80" fill="none" stroke="black" stroke-width="12" stroke-linejoin="bevel" stroke-linecap="square"/>"###,
    r###"<path d="M 10 50 H 110" stroke="black" stroke-width="8" stroke-dasharray="14 6 3 6" stroke-dashoffset="9"/>"###,
    r###"<rect x="20" y="20" width="70" height="50" fill="green" fill-opacity="0.3" stroke="navy" stroke-opacity="0.5" stroke-width="10"/>"###,
    r###"<rect x="20" y="20" width="70" height="50" fill="green" stroke="navy" stroke-width="14" paint-order="stroke"/>"###,
    r###"<g visibility="hidden"><rect x="20" y="20" width="70" height="50" fill="red"/><rect x="40" y="40" width="30" height="20" fill="blue" visibility="visible"/></g>"###,
    r###"<path d="M 10 10 L 110 37 L 15 64 Z" fill="black" shape-rendering="crispEdges"/>"###,
    r###"<rect x="10" y="10" width="100" height="80" fill="url(#lg)"/>"###,
    r###"<defs><radialGradient id="rg" cx="0.3" cy="0.3" r="0.5" fx="0.2" fy="0.25" spreadMethod="repeat"><stop offset="0" stop-color="white"/><stop offset="1" stop-color="black"/></radialGradient></defs><circle cx="60" cy="50" r="40" fill="url(#rg)" stroke="url(#lg)" stroke-width="8"/>"###,
    r###"<defs><pattern id="pt" x="3" y="4" width="18" height="14" patternUnits="userSpaceOnUse" patternTransform="rotate(15) scale(1.2)" viewBox="0 0 9 7" preserveAspectRatio="xMaxYMid slice"><rect width="5" height="4" fill="crimson"/><circle cx="7" cy="5" r="2"/></pattern></defs><rect x="10" y="10" width="100" height="80" fill="url(#pt)"/>"###,
    r###"<defs><pattern id="po" width="0.25" height="0.3" patternContentUnits="objectBoundingBox"><rect width="0.12" height="0.15" fill="navy"/></pattern></defs><rect x="10" y="10" width="100" height="80" fill="url(#po)"/><circle cx="30" cy="70" r="25" fill="url(#po)"/>"###,
    r###"<defs><clipPath id="cp"><circle cx="50" cy="50" r="35"/><path d="M 60 10 h 50 v 50 h -50 z M 75 25 v 20 h 20 v -20 z" clip-rule="evenodd"/></clipPath></defs><rect width="120" height="100" fill="teal" clip-path="url(#cp)"/>"###,
    r###"<defs><clipPath id="c1" clip-path="url(#c2)"><rect x="10" y="10" width="80" height="70"/></clipPath><clipPath id="c2" clipPathUnits="objectBoundingBox" transform="translate(0.1 0)"><circle cx="0.5" cy="0.5" r="0.45"/></clipPath></defs><rect width="120" height="100" fill="olive" clip-path="url(#c1)"/>"###,
    r###"<defs><mask id="ml"><rect width="120" height="100" fill="url(#lg)"/></mask></defs><rect width="120" height="100" fill="black" mask="url(#ml)"/>"###,
    r###"<defs><mask id="ma" mask-type="alpha" maskUnits="userSpaceOnUse" x="20" y="10" width="70" height="70"><rect width="120" height="100" fill="url(#lg)"/></mask><mask id="mb" mask="url(#ma)"><circle cx="60" cy="50" r="40" fill="white"/></mask></defs><rect width="120" height="100" fill="black" mask="url(#mb)"/>"###,
    r###"<defs><filter id="f" x="-0.2" y="-0.2" width="1.4" height="1.4"><feGaussianBlur stdDeviation="3 0.5"/></filter></defs><rect x="30" y="30" width="50" height="40" fill="black" filter="url(#f)"/>"###,
    r###"<defs><filter id="f"><feOffset dx="7" dy="-4" result="o"/><feFlood flood-color="gold" flood-opacity="0.6" x="20" y="20" width="40" height="30" result="fl"/><feBlend in="o" in2="fl" mode="multiply"/></filter></defs><rect x="30" y="30" width="50" height="40" fill="#07a" filter="url(#f)"/>"###,
    r###"<defs><filter id="f" color-interpolation-filters="sRGB"><feColorMatrix type="hueRotate" values="120"/><feComponentTransfer><feFuncR type="table" tableValues="0 0.2 1"/><feFuncG type="discrete" tableValues="0 1"/><feFuncB type="gamma" amplitude="0.9" exponent="2" offset="0.1"/><feFuncA type="linear" slope="0.8"/></feComponentTransfer></filter></defs><rect x="20" y="20" width="80" height="60" fill="url(#lg)" filter="url(#f)"/>"###,
    r###"<defs><filter id="f"><feComposite in="SourceGraphic" in2="SourceAlpha" operator="arithmetic" k1="0.2" k2="0.7" k3="-0.3" k4="0.1"/></filter></defs><circle cx="60" cy="50" r="35" fill="orange" filter="url(#f)"/>"###,
    r###"<defs><filter id="f"><feMorphology operator="dilate" radius="3 1"/><feConvolveMatrix order="3" kernelMatrix="0 -1 0 -1 5 -1 0 -1 0" edgeMode="wrap" preserveAlpha="true" targetX="2" bias="0.05"/></filter></defs><path d="M 30 30 h 60 v 40 h -60 z M 45 40 v 20 h 30 v -20 z" fill="navy" fill-rule="evenodd" filter="url(#f)"/>"###,
    r###"<defs><filter id="f" primitiveUnits="objectBoundingBox"><feDropShadow dx="0.1" dy="0.08" stdDeviation="0.02" flood-color="purple" flood-opacity="0.7"/></filter></defs><rect x="25" y="25" width="60" height="45" fill="white" filter="url(#f)"/>"###,
    r###"<defs><filter id="f"><feTurbulence type="fractalNoise" baseFrequency="0.04 0.09" numOctaves="2" seed="7" stitchTiles="stitch"/><feDisplacementMap in="SourceGraphic" scale="12" xChannelSelector="G" yChannelSelector="A"/></filter></defs><rect x="25" y="25" width="60" height="45" fill="black" filter="url(#f)"/>"###,
    r###"<defs><filter id="f"><feDiffuseLighting in="SourceAlpha" surfaceScale="3" diffuseConstant="1.2" lighting-color="#fc8"><feSpotLight x="30" y="20" z="40" pointsAtX="70" pointsAtY="60" pointsAtZ="0" specularExponent="4" limitingConeAngle="35"/></feDiffuseLighting><feSpecularLighting in="SourceAlpha" specularExponent="8" specularConstant="1.5" lighting-color="white" result="s"><feDistantLight azimuth="45" elevation="50"/></feSpecularLighting><feMerge><feMergeNode in="s"/><feMergeNode in="SourceGraphic"/></feMerge></filter></defs><circle cx="60" cy="50" r="30" fill="gray" filter="url(#f)"/>"###,
    r###"<defs><filter id="f" x="0" y="0" width="1" height="1"><feImage xlink:href="#stamp" result="im"/><feTile in="im"/></filter></defs><rect x="20" y="20" width="80" height="60" fill="white" filter="url(#f)"/>"###,
    r###"<defs><filter id="f" x="0" y="0" width="1" height="1"><feImage xlink:href="#stamp" x="30" y="30" width="40" height="30"/></filter><filter id="g"><feOffset dx="3"/></filter></defs><rect x="20" y="20" width="80" height="60" fill="white" filter="url(#g) url(#f)"/>"###,
    r###"<g filter="blur(2) drop-shadow(4 4 1 red) hue-rotate(40deg) opacity(70%)"><rect x="30" y="30" width="50" height="35" fill="#2a2"/></g>"###,
    r###"<use xlink:href="#stamp" x="30" y="40" transform="rotate(20 60 50)"/><use xlink:href="#stamp" x="70" y="10" opacity="0.5"/>"###,
    r###"<defs><symbol id="sy" viewBox="0 0 10 10" preserveAspectRatio="xMinYMax meet"><circle cx="5" cy="5" r="6" fill="maroon"/></symbol></defs><use xlink:href="#sy" x="20" y="20" width="70" height="40"/><svg x="60" y="50" width="40" height="40" viewBox="0 0 4 8" preserveAspectRatio="none"><rect width="4" height="8" fill="#084"/></svg>"###,
    r###"<defs><marker id="mk" markerWidth="6" markerHeight="6" refX="3" refY="3" orient="auto" markerUnits="strokeWidth"><path d="M 0 0 L 6 3 L 0 6 z" fill="context-stroke"/></marker></defs><path d="M 20 70 L 50 30 L 90 60" fill="none" stroke="url(#lg)" stroke-width="4" marker-start="url(#mk)" marker-mid="url(#mk)" marker-end="url(#mk)"/>"###,
    r###"<text x="10" y="40" font-size="22" fill="url(#lg)" stroke="black" stroke-width="0.6" text-decoration="underline" letter-spacing="2">Round</text><text x="10" y="80" font-size="18" font-weight="bold" font-style="italic" text-anchor="middle" dx="40" rotate="10 -10">trip</text>"###,
    r###"<text font-size="14" fill="navy"><textPath xlink:href="#tp" startOffset="20">along a path</textPath></text>"###,
    r###"<text x="60" y="50" font-size="16" writing-mode="tb" fill="black">TB</text><text x="10" y="30" font-size="16" xml:space="preserve">  a  b<tspan dy="12" fill="red" font-size="24" baseline-shift="super">c</tspan></text>"###,
    r###"<image x="20" y="20" width="70" height="50" preserveAspectRatio="xMaxYMin slice" image-rendering="pixelated" xlink:href="data:image/png;base64,iVBORw0KGgoAAAANSUhEUgAAAAIAAAACCAYAAABytg0kAAAAFElEQVR42mP8z8DwnwEIGBmgAAAbBAIA3K0LwQAAAABJRU5ErkJggg=="/>"###,
    r###"<g transform="skewX(20) translate(10 5) scale(0.8 1.1)"><rect x="20" y="20" width="60" height="40" fill="#a0a" stroke="black" stroke-width="3"/></g>"###,
    r###"<svg x="10" y="10" width="60" height="50" viewBox="0 0 30 30" preserveAspectRatio="xMidYMid slice"><circle cx="15" cy="15" r="18" fill="#36c"/></svg>"###,
    r###"<g clip-path="url(#nope)" mask="url(#nope2)"><rect x="20" y="20" width="50" height="40" fill="brown"/></g><rect x="60" y="50" width="40" height="30" fill="url(#missing) green"/>"###,
    r###"<a xlink:href="http://example.org"><rect x="20" y="20" width="50" height="40" fill="black"/></a><switch><rect requiredFeatures="http://www.w3.org/TR/SVG11/feature#Bogus" width="100" height="90" fill="red"/><circle cx="80" cy="60" r="15" fill="blue"/></switch>"###,
];

pub fn render_at(t: &usvg::Tree, scale: f32) -> Option<tiny_skia::Pixmap> {
    let size = t.size();
    let (w, h) = ((size.width() * scale).ceil().min(400.0).max(1.0) as u32, (size.height() * scale).ceil().min(400.0).max(1.0) as u32);
    pan::catch(|| crate::rend::render(t, w, h, tiny_skia::Transform::from_scale(scale, scale))).ok().flatten()
}

pub fn search(tier: &str, seed: u64, s: &mut Search) {
    let mut rng = Rng::new(seed ^ 0x5EA7C08);
    let mult = budget_mult() as usize;
    let mut one_v = |s: &mut Search, class: &str, key: &str, data: &[u8], o: &usvg::Options, rng: &mut Rng, forced: Option<u64>| {
        let Ok(Ok(t)) = pan::catch(|| usvg::Tree::from_data(data, o)) else { return };
        let mut w = usvg::WriteOptions::default();
        let variant = forced.unwrap_or_else(|| rng.below(4));
        match variant {
            1 => w.id_prefix = Some("rt_".into()),
            2 => w.preserve_text = true,
            3 => {
                w.preserve_text = true;
                w.id_prefix = Some("p-".into());
                w.use_single_quote = true;
            }
            _ => {}
        }
        let vname = ["default", "id-prefix", "preserve-text", "preserve-text+prefix+single-quote"][variant as usize];
        // signature class: text written as outlines, or preserved as text
        let vclass = if w.preserve_text { "preserve-text" } else { "outlines" };
        let Ok(text) = pan::catch(|| t.to_string(&w)) else {
            s.finding(&format!("oracle:C08:writer-panic:{}", vname), "Tree::to_string panicked", key);
            return;
        };
        let mut o2 = crate::corpus::opts_for(None);
        o2.fontdb = t.fontdb().clone();
        let t2 = match pan::catch(|| usvg::Tree::from_str(&text, &o2)) {
            Ok(Ok(t2)) => t2,
            _ => {
                // well-formedness / re-parsability is C07's clause
                s.case(&format!("{}-unparsable", class), key, false);
                return;
            }
        };
        // the construct most likely involved, for call-site level signatures
        let feature = ["<feImage", "<textPath", "<text", "<image", "<filter", "<pattern", "<mask", "<clipPath", "Gradient", "<path"]
            .iter()
            .find(|f| text.contains(**f))
            .map(|f| f.trim_start_matches('<'))
            .unwrap_or("other");
        // diagnosed causes get their own signature, whatever the write variant; anything else is named by
        // the variant and the construct most likely involved
        let kw = ["SourceGraphic", "SourceAlpha", "BackgroundImage", "BackgroundAlpha", "FillPaint", "StrokePaint"];
        let saturate_above_1 = ['"', '\'']
            .iter()
            .any(|q| text.split(&format!("type={q}saturate{q} values={q}")).skip(1).any(|r| r.split(*q).next().and_then(|v| v.parse::<f32>().ok()).map(|v| v > 1.0).unwrap_or(false)));
        // a written text whose references do not resolve to exactly one element (C07's clause) cannot
        // round-trip: name that cause instead of the construct
        let mut cv = vec![];
        crate::tree::check_written(&text, "", &mut cv);
        let broken: Option<String> = cv.iter().find(|x| x.sig.contains("-reference:")).map(|x| x.sig.trim_start_matches("C07:").to_string());
        // the writer puts only the paths of a clip-path child group into a clipPath element: a group inside such a
        // group (a `use` of a shape that has a clip path of its own) is not written
        fn group_in_group(g: &usvg::Group, depth: u32) -> bool {
            g.children().iter().any(|n| match n {
                usvg::Node::Group(c) => depth >= 1 || group_in_group(c, depth + 1),
                _ => false,
            })
        }
        let nested_clip_groups = t.clip_paths().iter().any(|cp| group_in_group(cp.root(), 0));
        let label: String = if let Some(b) = &broken {
            format!("written-reference-broken({})", b)
        } else if kw.iter().any(|k| text.contains(&format!("result=\"{}\"", k)) || text.contains(&format!("result='{}'", k))) {
            "filter(result-named-like-an-input-keyword)".to_string()
        } else if saturate_above_1 {
            "filter(saturate-above-1)".to_string()
        } else if nested_clip_groups {
            "clip-path(group-inside-a-clip-child-group-not-written)".to_string()
        } else {
            format!("{}:{}", vclass, feature)
        };
        let scale = if rng.chance(1, 3) { 2.0 } else { 1.0 };
        let (Some(a), Some(b)) = (render_at(&t, scale), render_at(&t2, scale)) else { return };
        let painted = a.data().chunks(4).any(|p| p[3] != 0);
        s.case(class, key, painted);
        let (ok, why) = same_image(&a, &b, 8);
        // the renderer rounds a pattern tile to whole pixels (path.rs render_pattern_pixmap): a tile whose
        // size in pixels sits on x.5 changes by a whole pixel with the last bit of the written transform
        let label = if !ok && broken.is_none() && on_rounding_boundary(&t, scale) { "pattern(tile-size-on-a-rounding-boundary)".to_string() } else { label };
        if !ok {
            s.finding(&format!("oracle:C08:round-trip-changes-image:{}", label), &format!("[{}] render(parse(write(T))) differs from render(T) at scale {}: {}", vname, scale, why), key);
            return;
        }
        // second round trip
        let Ok(text2) = pan::catch(|| t2.to_string(&w)) else { return };
        let Ok(Ok(t3)) = pan::catch(|| usvg::Tree::from_str(&text2, &o2)) else { return };
        if let Some(c3) = render_at(&t3, scale) {
            let (ok, why) = same_image(&b, &c3, 4);
            if !ok {
                s.finding(&format!("oracle:C08:second-round-trip-changes-image:{}", label), &format!("[{}] the second write/parse changes the image again: {}", vname, why), key);
            }
        }
    };
    // ---- feature probes: one small document per thing the writer must serialise, made so that the feature
    // decides the picture; every probe under all four write variants
    for (k, probe) in PROBES.iter().enumerate() {
        let svg = format!(r##"<svg xmlns="http://www.w3.org/2000/svg" xmlns:xlink="http://www.w3.org/1999/xlink" width="120" height="100"><defs><linearGradient id="lg" x2="0.6" spreadMethod="reflect" gradientTransform="rotate(20)"><stop offset="0" stop-color="red"/><stop offset="1" stop-color="blue" stop-opacity="0.4"/></linearGradient><rect id="stamp" x="2" y="2" width="16" height="12" fill="teal"/><path id="tp" d="M 10 60 Q 60 20 110 60"/></defs><rect width="120" height="100" fill="#ddb"/>{}</svg>"##, probe);
        for v in 0..4u64 {
            one_v(s, "probe", &format!("probe#{} variant#{}: {}", k, v, svg), svg.as_bytes(), &crate::corpus::opts_for(None), &mut rng, Some(v));
        }
    }
    let mut one = |s: &mut Search, class: &str, key: &str, data: &[u8], o: &usvg::Options, rng: &mut Rng| one_v(s, class, key, data, o, rng, None);
    let nc = if tier == "thorough" { 0 } else { 120 * mult.min(4) };
    for p in crate::corpus::sample(nc, seed) {
        let Ok(data) = std::fs::read(&p) else { continue };
        let o = crate::corpus::opts_for(Some(&p));
        let key = p.display().to_string();
        one(s, "corpus", &key, &data, &o, &mut rng);
    }
    let ng = (if tier == "thorough" { 2000 } else { 60 }) * mult;
    let o = crate::corpus::opts_for(None);
    for _ in 0..ng {
        let (w, h) = (rng.range(20, 150) as u32, rng.range(20, 150) as u32);
        let svg = crate::gen::random_doc(&mut rng, crate::gen::Cfg::full(w, h));
        one(s, "generated", &svg.clone(), svg.as_bytes(), &o, &mut rng);
    }
    for d in crate::c05::targeted(seed, "quick").into_iter().take(if tier == "thorough" { 300 } else { 30 }) {
        let key = String::from_utf8_lossy(&d.data).to_string();
        one(s, "shared-definitions", &key, &d.data, &o, &mut rng);
    }
}

/// does rendering `t` at `scale` size a pattern tile within 0.002 px of a rounding boundary? (hook trace)
fn on_rounding_boundary(t: &usvg::Tree, scale: f32) -> bool {
    resvg::verif::trace_start();
    let _ = render_at(t, scale);
    let lines = resvg::verif::trace_take();
    lines.iter().filter(|l| l.starts_with("pattern_in ")).any(|l| {
        l.split(' ').skip(1).filter_map(|h| u32::from_str_radix(h, 16).ok()).map(f32::from_bits).any(|v| v.is_finite() && ((v - v.floor()) - 0.5).abs() < 0.002)
    })
}

/// `vh rt <file> <variant 0-3> <scale>`: one round trip, with the two images written next to the file
pub fn debug(path: &str, variant: u64, scale: f32) {
    let data = std::fs::read(path).unwrap();
    let o = crate::corpus::opts_for(Some(std::path::Path::new(path)));
    let t = usvg::Tree::from_data(&data, &o).unwrap();
    let mut w = usvg::WriteOptions::default();
    match variant {
        1 => w.id_prefix = Some("rt_".into()),
        2 => w.preserve_text = true,
        3 => {
            w.preserve_text = true;
            w.id_prefix = Some("p-".into());
            w.use_single_quote = true;
        }
        _ => {}
    }
    let text = t.to_string(&w);
    let mut o2 = crate::corpus::opts_for(None);
    o2.fontdb = t.fontdb().clone();
    let t2 = usvg::Tree::from_str(&text, &o2).unwrap();
    let (a, b) = (render_at(&t, scale).unwrap(), render_at(&t2, scale).unwrap());
    println!("{:?}", same_image(&a, &b, 8));
    let (w_, mut x0, mut y0, mut x1, mut y1, mut n) = (a.width() as usize, usize::MAX, usize::MAX, 0, 0, 0);
    for (k, (p, q)) in a.data().chunks(4).zip(b.data().chunks(4)).enumerate() {
        if (0..4).any(|c| (p[c] as i32 - q[c] as i32).abs() > 80) {
            let (x, y) = (k % w_, k / w_);
            x0 = x0.min(x);
            y0 = y0.min(y);
            x1 = x1.max(x);
            y1 = y1.max(y);
            n += 1;
            if n < 12 {
                println!("({}, {}): {:?} vs {:?}", x, y, p, q);
            }
        }
    }
    println!("{} px differ by more than 80; box ({}, {})-({}, {}) of {}x{}", n, x0, y0, x1, y1, a.width(), a.height());
    let _ = a.save_png(format!("{}.a.png", path));
    let _ = b.save_png(format!("{}.b.png", path));
    let _ = std::fs::write(format!("{}.written.svg", path), text);
}
