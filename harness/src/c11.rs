//! C11: non-rendered content is invisible — junk insertion vs the original (tree text and pixels).
use crate::pan;
use crate::util::*;
use resvg::tiny_skia;

pub const JUNK: [&str; 16] = [
    "<!-- comment -->",
    "<?pi data?>",
    "  \n\t ",
    r#"<x:bar xmlns:x="urn:x" fill="red" x:attr="1"><x:baz/>text</x:bar>"#,
    r#"<foo bar="1"><rect width="50" height="50" fill="red"/></foo>"#,
    r#"<g display="none"><rect width="500" height="500" fill="red"/></g>"#,
    r#"<rect display="none" width="500" height="500" fill="red"/>"#,
    r#"<linearGradient id="vz1"><stop offset="0" stop-color="red"/></linearGradient>"#,
    r#"<pattern id="vz2" width="5" height="5"><rect width="5" height="5" fill="red"/></pattern>"#,
    r#"<clipPath id="vz3"><rect width="5" height="5"/></clipPath>"#,
    r#"<mask id="vz4"><rect width="5" height="5" fill="white"/></mask>"#,
    r#"<filter id="vz5"><feFlood flood-color="red"/></filter>"#,
    r#"<marker id="vz6"><rect width="5" height="5"/></marker><symbol id="vz7"><rect width="5" height="5"/></symbol>"#,
    r#"<switch><rect requiredExtensions="none" width="500" height="500" fill="red"/></switch>"#,
    r#"<rect width="0" height="10" fill="red"/><circle r="0" fill="red"/><path d="" fill="red"/>"#,
    r#"<rect transform="scale(0)" width="500" height="500" fill="red"/><g transform="matrix(0 0 0 0 0 0)"><rect width="9" height="9"/></g>"#,
];

/// positions where a structural container's content starts (right after its start tag) or ends
fn positions(svg: &str) -> Vec<usize> {
    let mut v = vec![];
    for tag in ["svg", "g", "defs", "symbol", "a"] {
        let open = format!("<{}", tag);
        let mut from = 0;
        while let Some(i) = svg[from..].find(&open) {
            let st = from + i;
            let after = svg[st + open.len()..].chars().next();
            if matches!(after, Some(' ') | Some('>') | Some('\n') | Some('\t') | Some('\r')) {
                if let Some(j) = svg[st..].find('>') {
                    let end = st + j;
                    if !svg[..end].ends_with('/') && svg.as_bytes()[end - 1] != b'/' {
                        v.push(end + 1);
                    }
                }
            }
            from = st + open.len();
        }
        let close = format!("</{}>", tag);
        let mut from = 0;
        while let Some(i) = svg[from..].find(&close) {
            v.push(from + i);
            from = from + i + close.len();
        }
    }
    v.sort();
    v.dedup();
    v
}

/// text regions where nothing may be inserted (text content, switch, and containers whose children are content)
fn forbidden(svg: &str) -> Vec<(usize, usize)> {
    let mut v = vec![];
    for tag in ["text", "switch", "pattern", "feMerge", "linearGradient", "radialGradient", "style", "clipPath", "mask", "marker", "filter", "feComponentTransfer", "feDiffuseLighting", "feSpecularLighting", "title", "desc"] {
        let open = format!("<{}", tag);
        let close = format!("</{}>", tag);
        let mut from = 0;
        while let Some(i) = svg[from..].find(&open) {
            let st = from + i;
            match svg[st..].find(&close) {
                Some(j) => {
                    v.push((st, st + j + close.len()));
                    from = st + j + close.len();
                }
                None => break,
            }
        }
    }
    v
}

pub fn insert_junk(svg: &str, rng: &mut Rng, count: usize) -> Option<String> {
    if svg.contains("first-child") || svg.contains("<!DOCTYPE") || svg.contains("<![CDATA[") {
        return None;
    }
    let forb = forbidden(svg);
    let pos: Vec<usize> = positions(svg).into_iter().filter(|p| !forb.iter().any(|(a, b)| p > a && p < b)).collect();
    if pos.is_empty() {
        return None;
    }
    let mut ins: Vec<(usize, &str)> = (0..count).map(|_| (*rng.pick(&pos), *rng.pick(&JUNK))).collect();
    ins.sort_by(|a, b| b.0.cmp(&a.0));
    let mut out = svg.to_string();
    for (p, j) in ins {
        out.insert_str(p, j);
    }
    Some(out)
}

fn tree_and_pixels(svg: &str, o: &usvg::Options) -> Option<(String, Option<tiny_skia::Pixmap>)> {
    let t = match pan::catch(|| usvg::Tree::from_str(svg, o)) {
        Ok(Ok(t)) => t,
        _ => return None,
    };
    let text = pan::catch(|| t.to_string(&usvg::WriteOptions::default())).ok()?;
    let size = t.size().to_int_size();
    let pm = pan::catch(|| crate::rend::render(&t, size.width().min(300), size.height().min(300), tiny_skia::Transform::identity())).ok().flatten();
    Some((text, pm))
}

pub fn corr(tier: &str, seed: u64, c: &mut Corr) {
    // the builder model on skeletons that contain every junk kind (shared generator with C01)
    crate::c01::corr(tier, seed ^ 0x11, c);
}

pub fn search(tier: &str, seed: u64, s: &mut Search) {
    let mut rng = Rng::new(seed ^ 0x5EA7C11);
    let mult = budget_mult() as usize;
    let mut check = |s: &mut Search, class: &str, key: &str, svg: &str, o: &usvg::Options, rng: &mut Rng| {
        let k = 1 + rng.below(8) as usize;
        let Some(j) = insert_junk(svg, rng, k) else { return };
        let Some((ta, pa)) = tree_and_pixels(svg, o) else { return };
        let Some((tb, pb)) = tree_and_pixels(&j, o) else {
            s.case(class, key, false);
            s.finding(&format!("oracle:junk:{}:rejected-or-panicked", class), "the document with inserted non-rendered content no longer parses", &j);
            return;
        };
        s.case(class, key, ta.len() > 120);
        if ta != tb {
            s.finding(&format!("oracle:junk:{}:tree-changed", class), "inserting non-rendered content changed the written tree", &j);
            return;
        }
        if let (Some(pa), Some(pb)) = (pa, pb) {
            if pa.data() != pb.data() {
                s.finding(&format!("oracle:junk:{}:pixels-changed", class), "inserting non-rendered content changed the rendering", &j);
            }
        }
    };
    let nc = if tier == "thorough" { 0 } else { 200 * mult.min(3) };
    for p in crate::corpus::sample(nc, seed) {
        let Ok(text) = std::fs::read_to_string(&p) else { continue };
        let o = crate::corpus::opts_for(Some(&p));
        let key = p.strip_prefix(crate::corpus::repo()).unwrap_or(&p).display().to_string();
        check(s, "corpus", &key, &text, &o, &mut rng);
    }
    let ng = (if tier == "thorough" { 3000 } else { 300 }) * mult;
    let o = crate::corpus::opts_for(None);
    for _ in 0..ng {
        let (w, h) = (rng.range(20, 120) as u32, rng.range(20, 120) as u32);
        let svg = crate::gen::random_doc(&mut rng, crate::gen::Cfg::full(w, h));
        check(s, "generated", &svg.clone(), &svg, &o, &mut rng);
    }
}
