//! C11: non-rendered content is invisible — junk insertion vs the original (tree text and pixels).
use crate::pan;
use crate::util::*;
use resvg::tiny_skia;

pub const JUNK: [&str; 16] = [
    "<!-- comment -->",
    "<?pi data?>",
    "  \n\t ",
    r#"<x:bar xmlns:x="urn:x" fill="red" x:attr="1"><x:baz/>text</x:bar>"#,
    r#"<foo bar="1"><rect width="50" height="50" fill="red"/></foo>"#,
    r#"<g display="none"><rect width="500" height="500" fill="red"/></g>"#,
    r#"<rect display="none" width="500" height="500" fill="red"/>"#,
    r#"<linearGradient id="vz1"><stop offset="0" stop-color="red"/></linearGradient>"#,
    r#"<pattern id="vz2" width="5" height="5"><rect width="5" height="5" fill="red"/></pattern>"#,
    r#"<clipPath id="vz3"><rect width="5" height="5"/></clipPath>"#,
    r#"<mask id="vz4"><rect width="5" height="5" fill="white"/></mask>"#,
    r#"<filter id="vz5"><feFlood flood-color="red"/></filter>"#,
    r#"<marker id="vz6"><rect width="5" height="5"/></marker><symbol id="vz7"><rect width="5" height="5"/></symbol>"#,
    r#"<switch><rect requiredExtensions="none" width="500" height="500" fill="red"/></switch>"#,
    r#"<rect width="0" height="10" fill="red"/><circle r="0" fill="red"/><path d="" fill="red"/>"#,
    r#"<rect transform="scale(0)" width="500" height="500" fill="red"/><g transform="matrix(0 0 0 0 0 0)"><rect width="9" height="9"/></g>"#,
];

/// one piece of content that must not render, drawn from every kind the statement lists
pub fn junk_item(rng: &mut Rng, serial: usize) -> (&'static str, String) {
    let kind = rng.below(13);
    let names = ["comment-pi-space", "unknown-element", "display-none", "unreferenced-def", "failing-condition", "zero-size-shape", "empty-geometry", "invalid-transform", "dangling-use-empty-containers", "never-rendered-elements", "shape-without-size", "undecodable-image", "fixed-list"];
    (names[kind as usize], junk_item_of(rng, serial, kind))
}

fn junk_item_of(rng: &mut Rng, serial: usize, kind: u64) -> String {
    let paint = *rng.pick(&[r#"fill="red""#, r#"fill="none" stroke="red" stroke-width="6""#, r#"fill="red" stroke="blue" stroke-width="3" stroke-linecap="round" stroke-linejoin="round""#]);
    let big = |rng: &mut Rng| *rng.pick(&["30", "500", "7.5", "1e3"]);
    match kind {
        0 => JUNK[rng.below(3) as usize].to_string(),
        1 => {
            // unknown / foreign elements and attributes
            let name = *rng.pick(&["foo", "x:bar", "sodipodi:namedview", "metadata", "foreignObject", "animate", "set", "script", "view", "cursor", "font", "glyph"]);
            let ns = if name.contains(':') { format!(r#" xmlns:{}="urn:junk""#, name.split(':').next().unwrap()) } else { String::new() };
            format!(r#"<{name}{ns} bogus="1" width="50" height="50" {paint}><rect width="{}" height="50" {paint}/>text</{name}>"#, big(rng))
        }
        2 => {
            // display:none in all spellings
            let how = *rng.pick(&[r#"display="none""#, r#"style="display:none""#, r#"style="display: none !important" display="inline""#]);
            if rng.chance(1, 2) {
                format!(r#"<g {how}><rect width="{}" height="500" {paint}/><circle r="40" {paint}/></g>"#, big(rng))
            } else {
                format!(r#"<rect {how} width="{}" height="500" {paint}/>"#, big(rng))
            }
        }
        3 => {
            // unreferenced definitions of every kind, ids from a reserved namespace
            let k = serial * 16 + rng.below(16) as usize;
            match rng.below(7) {
                0 => format!(r#"<linearGradient id="vz{k}a"><stop offset="0" stop-color="red"/><stop offset="1"/></linearGradient>"#),
                1 => format!(r#"<radialGradient id="vz{k}b" r="5"><stop offset="0" stop-color="red"/></radialGradient>"#),
                2 => format!(r#"<pattern id="vz{k}c" width="5" height="5" patternUnits="userSpaceOnUse"><rect width="5" height="5" {paint}/></pattern>"#),
                3 => format!(r#"<clipPath id="vz{k}d"><rect width="5" height="5"/></clipPath>"#),
                4 => format!(r#"<mask id="vz{k}e"><rect width="5" height="5" fill="white"/></mask>"#),
                5 => format!(r#"<filter id="vz{k}f"><feFlood flood-color="red"/><feOffset dx="3"/></filter>"#),
                _ => format!(r#"<marker id="vz{k}g" markerWidth="9" markerHeight="9"><rect width="5" height="5" {paint}/></marker><symbol id="vz{k}h"><rect width="50" height="50" {paint}/></symbol>"#),
            }
        }
        4 => {
            // switch whose branches all fail; conditional attributes on plain elements
            // one failing test is enough, whatever passing tests stand next to it (in either order)
            let pass = [r#"requiredFeatures="http://www.w3.org/TR/SVG11/feature#Shape""#, r#"systemLanguage="en""#, r#"requiredFeatures="http://www.w3.org/TR/SVG11/feature#BasicStructure http://www.w3.org/TR/SVG11/feature#Shape""#, r#"systemLanguage="xx, en""#];
            let single = *rng.pick(&[r#"requiredExtensions="none""#, r#"requiredExtensions="http://example.org/ext""#, r#"requiredFeatures="""#, r#"requiredFeatures="  ""#, r#"requiredFeatures="http://www.w3.org/TR/SVG11/feature#Bogus""#, r#"systemLanguage="xx""#, r#"systemLanguage="""#, r#"requiredFeatures="http://www.w3.org/TR/SVG11/feature#Shape http://www.w3.org/TR/SVG11/feature#Bogus""#]);
            let combined;
            let fail: &str = if rng.chance(1, 2) {
                single
            } else {
                let p = *rng.pick(&pass);
                // the two tests must be different attributes
                let f = if p.starts_with("requiredFeatures") { *rng.pick(&[r#"systemLanguage="xx""#, r#"requiredExtensions="none""#, r#"systemLanguage="""#]) } else { *rng.pick(&[r#"requiredFeatures="http://www.w3.org/TR/SVG11/feature#Bogus""#, r#"requiredExtensions="none""#, r#"requiredFeatures="""#]) };
                combined = if rng.chance(1, 2) { format!("{p} {f}") } else { format!("{f} {p}") };
                combined.as_str()
            };
            match rng.below(3) {
                0 => format!(r#"<switch><rect {fail} width="{}" height="500" {paint}/><g {fail}><circle r="30" {paint}/></g></switch>"#, big(rng)),
                1 => format!(r#"<rect {fail} width="{}" height="500" {paint}/>"#, big(rng)),
                _ => format!(r#"<g {fail}><rect width="{}" height="40" {paint}/></g>"#, big(rng)),
            }
        }
        5 => {
            // zero-sized basic shapes, each with the other dimension given explicitly
            // (negative radii are "invalid, use auto" for ellipses, and -0 takes that road: not in the statement's list)
            let z = *rng.pick(&["0", "0.0", "0px", "0%", "0e5", "0mm"]);
            let n = big(rng);
            match rng.below(8) {
                0 => format!(r#"<rect x="5" y="5" width="{z}" height="{n}" {paint}/>"#),
                1 => format!(r#"<rect x="5" y="5" width="{n}" height="{z}" {paint}/>"#),
                2 => format!(r#"<circle cx="20" cy="20" r="{z}" {paint}/>"#),
                3 => format!(r#"<ellipse cx="20" cy="20" rx="{z}" ry="{n}" {paint}/>"#),
                4 => format!(r#"<ellipse cx="20" cy="20" rx="{n}" ry="{z}" {paint}/>"#),
                5 => format!(r#"<ellipse cx="20" cy="20" rx="{z}" ry="{z}" {paint}/>"#),
                6 => format!(r#"<rect x="5" y="5" width="{z}" height="{z}" rx="{n}" {paint}/>"#),
                _ => format!(r#"<image x="5" y="5" width="{z}" height="{n}"/>"#),
            }
        }
        6 => {
            // paths / polylines without geometry
            // (a closed or zero-length sub-path may paint a cap, so `M x y Z` is not in this list)
            let d = *rng.pick(&["", "M 10 10", "L 10 10 20 20", "10 10", "M", "M 10 10 M 20 20", "Z", "  "]);
            match rng.below(3) {
                0 => format!(r#"<path d="{d}" {paint}/>"#),
                1 => format!(r#"<polyline points="{}" {paint}/>"#, rng.pick(&["", "10", "10 10", "10,10,", "a b"])),
                _ => format!(r#"<polygon points="{}" {paint}/>"#, rng.pick(&["", "10", "10 10", "10,10,"])),
            }
        }
        7 => {
            // invalid (non-invertible / unparsable-as-valid) transforms
            let t = *rng.pick(&["scale(0)", "matrix(0 0 0 0 0 0)", "scale(0 1)", "scale(1 0)", "matrix(0 0 0 0 10 10)", "scale(0) translate(5 5)", "rotate(30) scale(0 0)"]);
            if rng.chance(1, 2) {
                format!(r#"<rect transform="{t}" width="{}" height="500" {paint}/>"#, big(rng))
            } else {
                format!(r#"<g transform="{t}"><rect width="{}" height="90" {paint}/><circle r="9" {paint}/></g>"#, big(rng))
            }
        }
        8 => {
            // references to nothing / to non-renderable targets
            match rng.below(4) {
                0 => r##"<use xlink:href="#vz-missing" xmlns:xlink="http://www.w3.org/1999/xlink"/>"##.to_string(),
                1 => r##"<use href="#vz-missing" x="5"/>"##.to_string(),
                2 => format!(r#"<text></text><text x="5" y="5" {paint}>   </text>"#),
                // (empty containers are kept as empty groups by usvg; the statement does not list them)
                _ => format!(r#"<defs><rect width="{}" height="50" {paint}/><g><circle r="5" {paint}/></g></defs>"#, big(rng)),
            }
        }
        9 => {
            // elements that never render directly
            format!(r#"<symbol><rect width="{}" height="50" {paint}/></symbol><title>t</title><desc>d</desc><style>.vz {{ fill: red }}</style>"#, big(rng))
        }
        // (a `line` without coordinates is a zero-length line, which may paint caps: not listed)
        10 => format!(r#"<circle cx="10" cy="10" {paint}/><ellipse cx="10" cy="10" {paint}/><rect x="3" y="3" {paint}/>"#),
        11 => format!(r#"<image x="1" y="1" width="20" height="20" xlink:href="data:image/png;base64,AAAA" xmlns:xlink="http://www.w3.org/1999/xlink"/><image width="20" height="20"/>"#),
        _ => (*rng.pick(&JUNK)).to_string(),
    }
}

/// positions where a structural container's content starts (right after its start tag) or ends
fn positions(svg: &str) -> Vec<usize> {
    let mut v = vec![];
    for tag in ["svg", "g", "defs", "symbol", "a"] {
        let open = format!("<{}", tag);
        let mut from = 0;
        while let Some(i) = svg[from..].find(&open) {
            let st = from + i;
            let after = svg[st + open.len()..].chars().next();
            if matches!(after, Some(' ') | Some('>') | Some('\n') | Some('\t') | Some('\r')) {
                if let Some(j) = svg[st..].find('>') {
                    let end = st + j;
                    if !svg[..end].ends_with('/') && svg.as_bytes()[end - 1] != b'/' {
                        v.push(end + 1);
                    }
                }
            }
            from = st + open.len();
        }
        let close = format!("</{}>", tag);
        let mut from = 0;
        while let Some(i) = svg[from..].find(&close) {
            v.push(from + i);
            from = from + i + close.len();
        }
    }
    v.sort();
    v.dedup();
    v
}

/// text regions where nothing may be inserted (text content, switch, and containers whose children are content)
fn forbidden(svg: &str) -> Vec<(usize, usize)> {
    let mut v = vec![];
    for tag in ["text", "switch", "pattern", "feMerge", "linearGradient", "radialGradient", "style", "clipPath", "mask", "marker", "filter", "feComponentTransfer", "feDiffuseLighting", "feSpecularLighting", "title", "desc"] {
        let open = format!("<{}", tag);
        let close = format!("</{}>", tag);
        let mut from = 0;
        while let Some(i) = svg[from..].find(&open) {
            let st = from + i;
            match svg[st..].find(&close) {
                Some(j) => {
                    v.push((st, st + j + close.len()));
                    from = st + j + close.len();
                }
                None => break,
            }
        }
    }
    v
}

pub fn insert_junk(svg: &str, rng: &mut Rng, count: usize) -> Option<String> {
    insert_junk_items(svg, rng, count).map(|(doc, _)| doc)
}

/// the document with `count` insertions, and each insertion on its own (kind, document)
pub fn insert_junk_items(svg: &str, rng: &mut Rng, count: usize) -> Option<(String, Vec<(&'static str, String)>)> {
    if svg.contains("first-child") || svg.contains("<!DOCTYPE") || svg.contains("<![CDATA[") {
        return None;
    }
    let forb = forbidden(svg);
    let pos: Vec<usize> = positions(svg).into_iter().filter(|p| !forb.iter().any(|(a, b)| p > a && p < b)).collect();
    if pos.is_empty() {
        return None;
    }
    let mut ins: Vec<(usize, &'static str, String)> = (0..count)
        .map(|i| {
            let p = *rng.pick(&pos);
            let (k, j) = junk_item(rng, i);
            (p, k, j)
        })
        .collect();
    ins.sort_by(|a, b| b.0.cmp(&a.0));
    let mut out = svg.to_string();
    let mut singles = vec![];
    for (p, k, j) in &ins {
        out.insert_str(*p, j);
        let mut one = svg.to_string();
        one.insert_str(*p, j);
        singles.push((*k, one));
    }
    Some((out, singles))
}

fn tree_and_pixels(svg: &str, o: &usvg::Options) -> Option<(String, Option<tiny_skia::Pixmap>)> {
    let t = match pan::catch(|| usvg::Tree::from_str(svg, o)) {
        Ok(Ok(t)) => t,
        _ => return None,
    };
    let text = pan::catch(|| t.to_string(&usvg::WriteOptions::default())).ok()?;
    let size = t.size().to_int_size();
    let pm = pan::catch(|| crate::rend::render(&t, size.width().min(300), size.height().min(300), tiny_skia::Transform::identity())).ok().flatten();
    Some((text, pm))
}

pub fn corr(tier: &str, seed: u64, c: &mut Corr) {
    // the builder model on skeletons that contain every junk kind (shared generator with C01)
    crate::c01::corr(tier, seed ^ 0x11, c);
}

pub fn search(tier: &str, seed: u64, s: &mut Search) {
    let mut rng = Rng::new(seed ^ 0x5EA7C11);
    let mult = budget_mult() as usize;
    let mut check = |s: &mut Search, class: &str, key: &str, svg: &str, o: &usvg::Options, rng: &mut Rng| {
        let k = 1 + rng.below(8) as usize;
        let Some((j, singles)) = insert_junk_items(svg, rng, k) else { return };
        let Some((ta, pa)) = tree_and_pixels(svg, o) else { return };
        // compare one candidate against the original; Some((what, effect)) when it differs
        let differs = |doc: &str| -> Option<&'static str> {
            match tree_and_pixels(doc, o) {
                None => Some("rejected-or-panicked"),
                Some((tb, pb)) => {
                    if ta != tb {
                        Some("tree-changed")
                    } else if let (Some(pa), Some(pb)) = (&pa, &pb) {
                        if pa.data() != pb.data() { Some("pixels-changed") } else { None }
                    } else {
                        None
                    }
                }
            }
        };
        s.case(class, key, ta.len() > 120);
        if let Some(effect) = differs(&j) {
            // which single insertion is responsible?
            let mut blamed = false;
            for (kind, one) in &singles {
                if let Some(e1) = differs(one) {
                    s.finding(&format!("oracle:junk:{}:{}", kind, e1), &format!("inserting non-rendered content ({}) into a {} document: {}", kind, class, e1), one);
                    blamed = true;
                }
            }
            if !blamed {
                s.finding(&format!("oracle:junk:combination:{}", effect), "several insertions together change the result although none does alone", &j);
            }
        }
    };
    let nc = if tier == "thorough" { 0 } else { 200 * mult.min(3) };
    for p in crate::corpus::sample(nc, seed) {
        let Ok(text) = std::fs::read_to_string(&p) else { continue };
        let o = crate::corpus::opts_for(Some(&p));
        let key = p.strip_prefix(crate::corpus::repo()).unwrap_or(&p).display().to_string();
        check(s, "corpus", &key, &text, &o, &mut rng);
    }
    let ng = (if tier == "thorough" { 3000 } else { 300 }) * mult;
    let o = crate::corpus::opts_for(None);
    for _ in 0..ng {
        let (w, h) = (rng.range(20, 120) as u32, rng.range(20, 120) as u32);
        let svg = crate::gen::random_doc(&mut rng, crate::gen::Cfg::full(w, h));
        check(s, "generated", &svg.clone(), &svg, &o, &mut rng);
    }
    // ---- empty containers: a group, symbol instance, switch, clip path or mask that renders nothing keeps
    // rendering nothing - and keeps its place in (or absence from) the tree - when non-rendered content is put
    // inside it
    let ne = (if tier == "thorough" { 1200 } else { 150 }) * mult;
    for _ in 0..ne {
        let slot = "@@";
        let container = match rng.below(6) {
            0 => format!(r#"<g id="layer1">{slot}</g>"#),
            1 => format!(r#"<g>{slot}<g id="inner">{slot}</g></g>"#),
            2 => format!(r#"<switch>{slot}</switch>"#),
            3 => format!(r##"<g id="layer2" class="x">{slot}</g><use xlink:href="#layer2" x="5"/>"##),
            4 => format!(r#"<svg x="3" y="3" width="20" height="20">{slot}</svg>"#),
            _ => format!(r#"<a>{slot}</a>"#),
        };
        let around = match rng.below(4) {
            0 => ("<g>".to_string(), "</g>".to_string()),
            1 => (r##"<g filter="url(#hf)">"##.to_string(), "</g>".to_string()),
            2 => (r##"<g opacity="0.5" clip-path="url(#hc)">"##.to_string(), "</g>".to_string()),
            _ => (String::new(), String::new()),
        };
        let host = format!(
            r##"<svg xmlns="http://www.w3.org/2000/svg" xmlns:xlink="http://www.w3.org/1999/xlink" width="120" height="120"><defs><filter id="hf" x="-0.1" y="-0.1" width="1.2" height="1.2"><feFlood flood-color="#0a0" flood-opacity="0.4"/><feComposite in="SourceGraphic" operator="over"/></filter><clipPath id="hc"><rect width="110" height="110"/></clipPath></defs>{}<rect x="{}" y="{}" width="30" height="30" fill="#08f"/>{container}<circle cx="90" cy="90" r="12" fill="#f80"/>{}</svg>"##,
            around.0, rng.range(30, 70), rng.range(30, 70), around.1
        );
        let empty = host.replace(slot, "");
        let Some((ta, pa)) = tree_and_pixels(&empty, &o) else { continue };
        // element-shaped, non-rendered content only (kinds 2..)
        let kind = 2 + rng.below(11);
        let junk = junk_item_of(&mut rng, 0, kind);
        let filled = host.replace(slot, &junk);
        s.case("empty-container", &empty, ta.len() > 120);
        match tree_and_pixels(&filled, &o) {
            None => s.finding("oracle:junk:in-empty-container:rejected-or-panicked", "non-rendered content inside an empty container makes the document unparsable", &filled),
            Some((tb, pb)) => {
                if ta != tb {
                    s.finding("oracle:junk:in-empty-container:tree-changed", "non-rendered content inside a container that renders nothing changes the tree", &filled);
                } else if let (Some(pa), Some(pb)) = (&pa, &pb) {
                    if pa.data() != pb.data() {
                        s.finding("oracle:junk:in-empty-container:pixels-changed", "non-rendered content inside a container that renders nothing changes the pixels", &filled);
                    }
                }
            }
        }
    }
    // ---- the content of referenced definitions (clip path, mask, pattern, marker, symbol): a non-rendered graphics
    // element put before, between or after the rendered children changes nothing
    let nd = (if tier == "thorough" { 1200 } else { 160 }) * mult;
    for i in 0..nd {
        let slot = ["@0@", "@1@", "@2@"];
        let host = format!(
            r##"<svg xmlns="http://www.w3.org/2000/svg" xmlns:xlink="http://www.w3.org/1999/xlink" width="120" height="100"><defs><clipPath id="dc">{0}<rect x="10" y="10" width="60" height="50"/>{1}<circle cx="80" cy="60" r="25"/>{2}</clipPath><mask id="dm">{0}<rect x="5" y="5" width="80" height="60" fill="white"/>{1}<circle cx="90" cy="70" r="20" fill="#888"/>{2}</mask><pattern id="dp" width="20" height="20" patternUnits="userSpaceOnUse">{0}<rect width="10" height="10" fill="teal"/>{1}<circle cx="15" cy="15" r="4" fill="gold"/>{2}</pattern><marker id="dk" markerWidth="8" markerHeight="8" refX="4" refY="4">{0}<circle cx="4" cy="4" r="3" fill="red"/>{1}<rect width="3" height="3"/>{2}</marker><symbol id="ds">{0}<rect width="30" height="20" fill="purple"/>{1}<circle cx="30" cy="20" r="8"/>{2}</symbol></defs>{3}</svg>"##,
            slot[0], slot[1], slot[2],
            match i % 5 {
                0 => r##"<rect width="120" height="100" fill="green" clip-path="url(#dc)"/>"##,
                1 => r##"<rect width="120" height="100" fill="green" mask="url(#dm)"/>"##,
                2 => r##"<rect width="120" height="100" fill="url(#dp)" stroke="url(#dp)" stroke-width="8"/>"##,
                3 => r##"<path d="M 20 20 L 60 70 L 100 30" fill="none" stroke="black" stroke-width="2" marker-start="url(#dk)" marker-mid="url(#dk)" marker-end="url(#dk)"/>"##,
                _ => r##"<use xlink:href="#ds" x="20" y="20"/><use xlink:href="#ds" x="60" y="50" opacity="0.5"/>"##,
            }
        );
        let base = host.replace(slot[0], "").replace(slot[1], "").replace(slot[2], "");
        let Some((ta, pa)) = tree_and_pixels(&base, &o) else { continue };
        // non-rendered *graphics* content: display none, zero size, empty geometry, invalid transform, failing condition
        let junk = match rng.below(6) {
            0 => r#"<rect display="none" width="500" height="500" fill="white"/>"#.to_string(),
            1 => r#"<rect width="0" height="40" fill="white"/>"#.to_string(),
            2 => r#"<rect x="10" y="10" width="30" height="30" fill="white" transform="matrix(0 0 0 0 0 0)"/>"#.to_string(),
            3 => r#"<path d="" fill="white"/><circle r="0" fill="white"/>"#.to_string(),
            4 => r#"<rect requiredExtensions="http://example.org/none" width="500" height="500" fill="white"/>"#.to_string(),
            _ => r#"<rect style="display:none" width="500" height="500" fill="white"/><polygon points="" fill="white"/>"#.to_string(),
        };
        let at = rng.below(3) as usize;
        let mut filled = host.clone();
        for (k, sl) in slot.iter().enumerate() {
            filled = filled.replace(sl, if k == at { &junk } else { "" });
        }
        s.case("definition-content", &filled, true);
        match tree_and_pixels(&filled, &o) {
            None => s.finding("oracle:junk:in-definition-content:rejected-or-panicked", "non-rendered content inside a referenced definition makes the document unparsable", &filled),
            Some((tb, pb)) => {
                if ta != tb {
                    s.finding("oracle:junk:in-definition-content:tree-changed", "a non-rendered graphics element inside a referenced definition changes the tree", &filled);
                } else if let (Some(pa), Some(pb)) = (&pa, &pb) {
                    if pa.data() != pb.data() {
                        s.finding("oracle:junk:in-definition-content:pixels-changed", "a non-rendered graphics element inside a referenced definition changes the pixels", &filled);
                    }
                }
            }
        }
    }
    // ---- style sheets with structural selectors (:first-child, a + b, a > b, descendant): comments, processing
    // instructions and white space are not elements and must not change what the selectors match
    // (element-shaped junk is left out here: an unknown element IS a sibling for CSS)
    let ns = (if tier == "thorough" { 1500 } else { 150 }) * mult;
    for _ in 0..ns {
        let sel = |rng: &mut Rng| -> String {
            match rng.below(6) {
                0 => "rect:first-child".to_string(),
                1 => "g > circle:first-child".to_string(),
                2 => "rect + circle".to_string(),
                3 => "circle + rect".to_string(),
                4 => "g g > rect:first-child".to_string(),
                _ => "g:first-child + g > *:first-child".to_string(),
            }
        };
        let rules: String = (0..2 + rng.below(3)).map(|_| format!("{} {{ fill: {}; stroke: {} }} ", sel(&mut rng), rng.pick(&["#f00", "#00f", "#0a0"]), rng.pick(&["none", "#000"]))).collect();
        let child = |rng: &mut Rng, k: usize| -> String {
            if rng.chance(1, 2) { format!(r#"<rect x="{}" y="{}" width="12" height="10"/>"#, 5 + 14 * k, 5 + 3 * k) } else { format!(r#"<circle cx="{}" cy="{}" r="6"/>"#, 10 + 14 * k, 30 + 3 * k) }
        };
        let group = |rng: &mut Rng, off: usize| -> String {
            let kids: String = (0..2 + rng.below(3) as usize).map(|k| child(rng, k)).collect();
            format!(r#"<g transform="translate(0 {off})">{kids}</g>"#)
        };
        let host = format!(
            r#"<svg xmlns="http://www.w3.org/2000/svg" width="100" height="120"><style>{rules}</style><g>{}{}</g>{}{}</svg>"#,
            group(&mut rng, 0), group(&mut rng, 40), child(&mut rng, 5), child(&mut rng, 6)
        );
        // positions between elements; only non-element junk
        let pos: Vec<usize> = host.match_indices('<').map(|(i, _)| i).filter(|&i| i > host.find("</style>").unwrap() && !host[i..].starts_with("</style")).collect();
        let Some((ta, pa)) = tree_and_pixels(&host, &o) else { continue };
        let mut doc = host.clone();
        let mut at: Vec<usize> = (0..1 + rng.below(4)).map(|_| *rng.pick(&pos)).collect();
        at.sort_unstable_by(|a, b| b.cmp(a));
        for p in at {
            let j = *rng.pick(&["<!-- c -->", "<?pi data?>", "\n   ", "<!---->", "<!-- a --><?x?> \t"]);
            doc.insert_str(p, j);
        }
        s.case("css-structural", &host, ta.len() > 120);
        match tree_and_pixels(&doc, &o) {
            None => s.finding("oracle:junk:comment-pi-space:rejected-or-panicked", "comments / processing instructions / white space make a styled document unparsable", &doc),
            Some((tb, pb)) => {
                if ta != tb {
                    s.finding("oracle:junk:comment-pi-space:css-selector-matching-changed", "comments / processing instructions / white space between elements change what :first-child / + / > selectors match", &doc);
                } else if let (Some(pa), Some(pb)) = (&pa, &pb) {
                    if pa.data() != pb.data() {
                        s.finding("oracle:junk:comment-pi-space:pixels-changed", "comments / processing instructions / white space change the pixels of a styled document", &doc);
                    }
                }
            }
        }
    }
}
