//! C18: objectBoundingBox definitions resolve to the equivalent user-space definitions.
//! corr: rewritten gradient / clip transforms and pattern / mask / filter rectangles against the model, bit-exact.
//! search: the objectBoundingBox document vs the hand-mapped userSpaceOnUse document (tree text and pixels),
//!         shared definitions, zero-sized boxes.
use crate::pan;
use crate::util::*;
use resvg::tiny_skia;

fn zb(f: f32) -> String {
    if f == 0.0 { "00000000".into() } else { format!("{:08x}", f.to_bits()) }
}
fn ts_csv(t: usvg::Transform) -> String {
    format!("{},{},{},{},{},{}", zb(t.sx), zb(t.ky), zb(t.kx), zb(t.sy), zb(t.tx), zb(t.ty))
}
fn ts_sp(t: usvg::Transform) -> String {
    format!("{} {} {} {} {} {}", zb(t.sx), zb(t.ky), zb(t.kx), zb(t.sy), zb(t.tx), zb(t.ty))
}
fn nz_csv(r: usvg::NonZeroRect) -> String {
    format!("{},{},{},{}", zb(r.left()), zb(r.top()), zb(r.right()), zb(r.bottom()))
}

const HDR: &str = r#"<svg xmlns="http://www.w3.org/2000/svg" xmlns:xlink="http://www.w3.org/1999/xlink" width="200" height="160">"#;

fn rand_tf(rng: &mut Rng) -> (String, usvg::Transform) {
    match rng.below(5) {
        0 => (String::new(), usvg::Transform::identity()),
        1 => {
            let (a, b) = (rng.range(-5, 5) as f32 / 10.0, rng.range(-5, 5) as f32 / 10.0);
            (format!("translate({} {})", a, b), usvg::Transform::from_translate(a, b))
        }
        2 => {
            let a = *rng.pick(&[0.5f32, 2.0, 1.5, 0.25]);
            (format!("scale({})", a), usvg::Transform::from_scale(a, a))
        }
        3 => {
            let m = [*rng.pick(&[1.0f32, 0.5, 0.8]), *rng.pick(&[0.0f32, 0.25, -0.5]), *rng.pick(&[0.0f32, 0.5]), *rng.pick(&[1.0f32, 1.25]), rng.range(-3, 3) as f32 / 10.0, rng.range(-3, 3) as f32 / 10.0];
            (format!("matrix({} {} {} {} {} {})", m[0], m[1], m[2], m[3], m[4], m[5]), usvg::Transform::from_row(m[0], m[1], m[2], m[3], m[4], m[5]))
        }
        _ => (format!("skewX(30)"), usvg::Transform::from_skew(30f32.to_radians().tan(), 0.0)),
    }
}

pub fn corr(tier: &str, seed: u64, c: &mut Corr) {
    let mut rng = Rng::new(seed ^ 0xC18);
    let n = if tier == "thorough" { 4000 } else { 400 };
    let o = crate::corpus::opts_for(None);
    for _ in 0..n {
        let (x, y) = (crate::c17::gen_len(&mut rng, false), crate::c17::gen_len(&mut rng, false));
        let (w, h) = (crate::c17::gen_len(&mut rng, true), crate::c17::gen_len(&mut rng, true));
        let (tf_text, _) = rand_tf(&mut rng);
        let tf_attr = |name: &str| if tf_text.is_empty() { String::new() } else { format!(r#" {}="{}""#, name, tf_text) };
        let frac = |rng: &mut Rng| crate::c17::num(format!("{}", *rng.pick(&["0", "0.1", "0.25", "0.5", "1", "-0.1", "1.2", "0.3333"])));
        let (px, py, pw, ph) = (frac(&mut rng), frac(&mut rng), crate::c17::num("0.4".into()), crate::c17::num("0.3".into()));
        let svg = format!(
            r##"{HDR}<defs><linearGradient id="lg"{}><stop offset="0" stop-color="red"/><stop offset="1"/></linearGradient><pattern id="pt" x="{}" y="{}" width="{}" height="{}"><rect width="3" height="3"/></pattern><clipPath id="cp" clipPathUnits="objectBoundingBox"{}><rect width="0.9" height="0.9"/></clipPath><mask id="mk" x="{}" y="{}" width="{}" height="{}"><rect width="500" height="500" fill="white"/></mask></defs><rect x="{}" y="{}" width="{}" height="{}" fill="url(#lg)" stroke="url(#pt)" clip-path="url(#cp)" mask="url(#mk)"/></svg>"##,
            tf_attr("gradientTransform"), px.text, py.text, pw.text, ph.text, tf_attr("transform"), px.text, py.text, pw.text, ph.text, x.text, y.text, w.text, h.text
        );
        let Ok(Ok(t)) = pan::catch(|| usvg::Tree::from_str(&svg, &o)) else { continue };
        // the element and its box as the converter used it
        fn first_path(g: &usvg::Group) -> Option<&usvg::Path> {
            for n in g.children() {
                match n {
                    usvg::Node::Path(p) => return Some(p),
                    usvg::Node::Group(g) => {
                        if let Some(p) = first_path(g) {
                            return Some(p);
                        }
                    }
                    _ => {}
                }
            }
            None
        }
        let Some(p) = first_path(t.root()) else { continue };
        let Some(bb) = p.bounding_box().to_non_zero_rect() else { continue };
        // the source transforms as the parser holds them: parse them the same way (a second document)
        let tsrc = {
            let probe = format!(r#"{HDR}<g transform="{}"><rect width="1" height="1"/></g></svg>"#, if tf_text.is_empty() { "translate(0)".to_string() } else { tf_text.clone() });
            match usvg::Tree::from_str(&probe, &o).ok().and_then(|t| match t.root().children().first() { Some(usvg::Node::Group(g)) => Some(g.transform()), _ => None }) {
                Some(t) => t,
                None => usvg::Transform::identity(),
            }
        };
        if let Some(usvg::Paint::LinearGradient(lg)) = p.fill().map(|f| f.paint()) {
            c.emit(&format!("obbgrad {} {}", ts_csv(tsrc), nz_csv(bb)), &ts_sp(lg.transform()));
        }
        if let Some(usvg::Paint::Pattern(pt)) = p.stroke().map(|s| s.paint()) {
            let r = pt.rect();
            c.emit(
                &format!("obbrect {} {} {} {} {}", hx(px.f32v), hx(py.f32v), hx(pw.f32v), hx(ph.f32v), nz_csv(bb)),
                &format!("{} {} {} {}", zb(r.x()), zb(r.y()), zb(r.width()), zb(r.height())),
            );
        }
        // clip path and mask sit on the wrapping group
        fn first_group_with_clip(g: &usvg::Group) -> Option<&usvg::Group> {
            for n in g.children() {
                if let usvg::Node::Group(cg) = n {
                    if cg.clip_path().is_some() || cg.mask().is_some() {
                        return Some(cg);
                    }
                    if let Some(x) = first_group_with_clip(cg) {
                        return Some(x);
                    }
                }
            }
            None
        }
        if let Some(g) = first_group_with_clip(t.root()) {
            if let Some(cp) = g.clip_path() {
                c.emit(&format!("obbclip {} {}", ts_csv(tsrc), nz_csv(bb)), &ts_sp(cp.transform()));
            }
            if let Some(m) = g.mask() {
                let r = m.rect();
                c.emit(
                    &format!("obbrect {} {} {} {} {}", hx(px.f32v), hx(py.f32v), hx(pw.f32v), hx(ph.f32v), nz_csv(bb)),
                    &format!("{} {} {} {}", zb(r.x()), zb(r.y()), zb(r.width()), zb(r.height())),
                );
            }
        }
    }
}

fn render(svg: &str, o: &usvg::Options) -> Option<(usvg::Tree, tiny_skia::Pixmap)> {
    let t = pan::catch(|| usvg::Tree::from_str(svg, o)).ok()?.ok()?;
    let pm = pan::catch(|| crate::rend::render(&t, 200, 160, tiny_skia::Transform::identity())).ok()??;
    Some((t, pm))
}

pub fn search(tier: &str, seed: u64, s: &mut Search) {
    let mut rng = Rng::new(seed ^ 0x5EA7C18);
    let n = (if tier == "thorough" { 3000 } else { 300 }) * budget_mult();
    let o = crate::corpus::opts_for(None);
    for i in 0..n {
        // 1..4 elements of different kinds and boxes sharing one definition
        let k = 1 + rng.below(4) as usize;
        let mut boxes: Vec<(f64, f64, f64, f64)> = vec![];
        let mut shapes_a = String::new(); // objectBoundingBox document
        let mut shapes_b = String::new(); // hand-mapped document
        let mut defs_b = String::new();
        let kind = i % 6;
        let (tf_text, _) = rand_tf(&mut rng);
        let (fx, fy, fw, fh) = (*rng.pick(&[0.0, 0.1, -0.1, 0.25]), *rng.pick(&[0.0, 0.2, -0.05]), *rng.pick(&[1.0, 0.5, 1.2, 0.35]), *rng.pick(&[1.0, 0.6, 1.3]));
        // mixed unit systems: region in user space, content in bounding-box units
        let mixed = (i / 6) % 2 == 1;
        let def_a = match kind {
            0 => format!(r#"<linearGradient id="d" x1="0.1" y1="0" x2="0.9" y2="0.7" gradientTransform="{tf_text}" spreadMethod="reflect"><stop offset="0" stop-color="red"/><stop offset="0.5" stop-color="lime"/><stop offset="1" stop-color="blue"/></linearGradient>"#),
            1 => format!(r#"<radialGradient id="d" cx="0.4" cy="0.5" r="0.45" fx="0.3" fy="0.4" gradientTransform="{tf_text}"><stop offset="0" stop-color="yellow"/><stop offset="1" stop-color="purple"/></radialGradient>"#),
            2 => format!(r#"<pattern id="d" x="{fx}" y="{fy}" width="{}" height="{}" patternContentUnits="objectBoundingBox" patternTransform="{tf_text}"><rect x="0.02" y="0.02" width="0.1" height="0.08" fill="teal"/><circle cx="0.2" cy="0.1" r="0.04" fill="orange"/></pattern>"#, fw * 0.3, fh * 0.25),
            3 => format!(r#"<clipPath id="d" clipPathUnits="objectBoundingBox" transform="{tf_text}"><circle cx="0.5" cy="0.5" r="0.45"/><rect x="{fx}" y="{fy}" width="0.3" height="0.3"/></clipPath>"#),
            4 if mixed => r#"<mask id="d" maskUnits="userSpaceOnUse" x="0" y="0" width="200" height="160" maskContentUnits="objectBoundingBox"><rect x="0.1" y="0.1" width="0.8" height="0.8" fill="white"/><circle cx="0.5" cy="0.5" r="0.3" fill="gray"/></mask>"#.to_string(),
            4 => format!(r#"<mask id="d" maskUnits="objectBoundingBox" x="{fx}" y="{fy}" width="{fw}" height="{fh}" maskContentUnits="objectBoundingBox"><rect x="0.1" y="0.1" width="0.8" height="0.8" fill="white"/><circle cx="0.5" cy="0.5" r="0.3" fill="gray"/></mask>"#),
            _ => format!(r#"<filter id="d" filterUnits="objectBoundingBox" x="{fx}" y="{fy}" width="{fw}" height="{fh}" primitiveUnits="objectBoundingBox" color-interpolation-filters="sRGB"><feFlood flood-color="gold" x="0.1" y="0.2" width="0.5" height="0.4" result="fl"/><feOffset in="SourceGraphic" dx="0.1" dy="0.05" result="of"/><feGaussianBlur in="of" stdDeviation="0.02 0.01" result="bl"/><feMerge><feMergeNode in="fl"/><feMergeNode in="bl"/></feMerge></filter>"#),
        };
        let attr = match kind { 0 | 1 | 2 => "fill", 3 => "clip-path", 4 => "mask", _ => "filter" };
        for j in 0..k {
            let (x, y) = (rng.range(5, 120) as f64, rng.range(5, 90) as f64);
            let (w, h) = (rng.range(10, 70) as f64, rng.range(10, 60) as f64);
            boxes.push((x, y, w, h));
            let own_fill = if attr == "fill" { String::new() } else { r#" fill="crimson""#.to_string() };
            let shape = |refattr: &str| match j % 3 {
                0 => format!(r#"<rect x="{x}" y="{y}" width="{w}" height="{h}"{own_fill} {refattr}/>"#),
                1 => format!(r#"<path d="M {x} {y} h {w} v {h} h -{w} z"{own_fill} {refattr}/>"#),
                _ => format!(r#"<g {refattr}{}><rect x="{x}" y="{y}" width="{}" height="{h}"{own_fill}/><rect x="{}" y="{y}" width="{}" height="{h}"{own_fill}/></g>"#, if attr == "fill" { "" } else { "" }, w / 2.0, x + w / 2.0, w / 2.0),
            };
            // `fill` on a group is inherited by its children, whose own boxes are the halves: use the reference on
            // the children instead so that both documents say the same thing
            let (sa, sb) = if attr == "fill" && j % 3 == 2 {
                (format!(r##"<rect x="{x}" y="{y}" width="{w}" height="{h}" fill="url(#d)"/>"##), format!(r##"<rect x="{x}" y="{y}" width="{w}" height="{h}" fill="url(#d{j})"/>"##))
            } else {
                (shape(&format!(r##"{attr}="url(#d)""##)), shape(&format!(r##"{attr}="url(#d{j})""##)))
            };
            shapes_a += &sa;
            shapes_b += &sb;
            // the hand-mapped definition for this box: user-space units, the box folded into transforms / numbers
            let bm = format!("matrix({w} 0 0 {h} {x} {y})");
            defs_b += &match kind {
                0 => format!(r#"<linearGradient id="d{j}" gradientUnits="userSpaceOnUse" x1="0.1" y1="0" x2="0.9" y2="0.7" gradientTransform="{bm} {tf_text}" spreadMethod="reflect"><stop offset="0" stop-color="red"/><stop offset="0.5" stop-color="lime"/><stop offset="1" stop-color="blue"/></linearGradient>"#),
                1 => format!(r#"<radialGradient id="d{j}" gradientUnits="userSpaceOnUse" cx="0.4" cy="0.5" r="0.45" fx="0.3" fy="0.4" gradientTransform="{bm} {tf_text}"><stop offset="0" stop-color="yellow"/><stop offset="1" stop-color="purple"/></radialGradient>"#),
                2 => format!(
                    r#"<pattern id="d{j}" patternUnits="userSpaceOnUse" x="{}" y="{}" width="{}" height="{}" patternTransform="{tf_text}"><g transform="scale({w} {h})"><rect x="0.02" y="0.02" width="0.1" height="0.08" fill="teal"/><circle cx="0.2" cy="0.1" r="0.04" fill="orange"/></g></pattern>"#,
                    x + fx * w, y + fy * h, fw * 0.3 * w, fh * 0.25 * h
                ),
                3 => format!(r#"<clipPath id="d{j}" transform="{tf_text} {bm}"><circle cx="0.5" cy="0.5" r="0.45"/><rect x="{fx}" y="{fy}" width="0.3" height="0.3"/></clipPath>"#),
                4 if mixed => format!(
                    r#"<mask id="d{j}" maskUnits="userSpaceOnUse" x="0" y="0" width="200" height="160"><g transform="{bm}"><rect x="0.1" y="0.1" width="0.8" height="0.8" fill="white"/><circle cx="0.5" cy="0.5" r="0.3" fill="gray"/></g></mask>"#
                ),
                4 => format!(
                    r#"<mask id="d{j}" maskUnits="userSpaceOnUse" x="{}" y="{}" width="{}" height="{}"><g transform="{bm}"><rect x="0.1" y="0.1" width="0.8" height="0.8" fill="white"/><circle cx="0.5" cy="0.5" r="0.3" fill="gray"/></g></mask>"#,
                    x + fx * w, y + fy * h, fw * w, fh * h
                ),
                _ => format!(
                    r#"<filter id="d{j}" filterUnits="userSpaceOnUse" x="{}" y="{}" width="{}" height="{}" color-interpolation-filters="sRGB"><feFlood flood-color="gold" x="{}" y="{}" width="{}" height="{}" result="fl"/><feOffset in="SourceGraphic" dx="{}" dy="{}" result="of"/><feGaussianBlur in="of" stdDeviation="{} {}" result="bl"/><feMerge><feMergeNode in="fl"/><feMergeNode in="bl"/></feMerge></filter>"#,
                    x + fx * w, y + fy * h, fw * w, fh * h, x + 0.1 * w, y + 0.2 * h, 0.5 * w, 0.4 * h, 0.1 * w, 0.05 * h, 0.02 * w, 0.01 * h
                ),
            };
        }
        let doc_a = format!("{HDR}<defs>{def_a}</defs>{shapes_a}</svg>");
        let doc_b = format!("{HDR}<defs>{defs_b}</defs>{shapes_b}</svg>");
        let (Some((ta, pa)), Some((_tb, pb))) = (render(&doc_a, &o), render(&doc_b, &o)) else { continue };
        let kname = ["linear-gradient", "radial-gradient", "pattern", "clip-path", "mask", "filter"][kind as usize];
        s.case(kname, &doc_a, pa.data().chunks(4).any(|p| p[3] != 0));
        // the two trees must agree up to float rounding once ids are put aside; the pictures must agree too
        // (tiny pattern tiles amplify a last-digit difference of the tile size, so the pixel comparison is
        // the secondary check for patterns)
        let norm = |t: &usvg::Tree| -> String {
            let text = crate::c09::canon(&t.to_string(&usvg::WriteOptions::default()));
            let mut out = String::new();
            let mut rest = text.as_str();
            loop {
                let a = rest.find(" id=\"");
                let b = rest.find("url(#");
                let (i, skip_to) = match (a, b) {
                    (None, None) => break,
                    (Some(a), Some(b)) if a < b => (a, '"'),
                    (Some(a), None) => (a, '"'),
                    (_, Some(b)) => (b, ')'),
                };
                out += &rest[..i];
                let after = if skip_to == '"' { &rest[i + 5..] } else { &rest[i + 5..] };
                match after.find(skip_to) {
                    Some(j) => rest = &after[j + 1..],
                    None => {
                        rest = "";
                        break;
                    }
                }
                out += if skip_to == '"' { "" } else { "url()" };
            }
            out += rest;
            out
        };
        let (na, nb) = (norm(&ta), norm(&_tb));
        let trees_agree = crate::c09::near(&na, &nb);
        let (ok, why) = crate::rend::similar(&pa, &pb, 6);
        if !trees_agree && !ok {
            s.finding(&format!("oracle:C18:{}:differs-from-user-space-equivalent", kname), &format!("{} element(s); trees differ and {}; hand-mapped document: {}", k, why, doc_b), &doc_a);
        } else if !ok && kind != 2 {
            s.finding(&format!("oracle:C18:{}:differs-from-user-space-equivalent", kname), &format!("{} element(s); {}; hand-mapped document: {}", k, why, doc_b), &doc_a);
        } else if !trees_agree && kind <= 4 && kind != 2 {
            // gradients, clip paths and masks are rewritten into exactly the hand-mapped form
            s.finding(&format!("oracle:C18:{}:tree-differs-from-user-space-equivalent", kname), &format!("{} element(s); the written trees differ beyond rounding; hand-mapped document: {}", k, doc_b), &doc_a);
        }
        // each element gets its own resolution under a distinct id (when the boxes differ)
        let distinct_boxes = boxes.iter().enumerate().all(|(a, x)| boxes.iter().skip(a + 1).all(|y| x != y));
        if distinct_boxes && k > 1 {
            let ids: Vec<String> = match kind {
                0 => ta.linear_gradients().iter().map(|g| g.id().to_string()).collect(),
                1 => ta.radial_gradients().iter().map(|g| g.id().to_string()).collect(),
                2 => ta.patterns().iter().map(|g| g.id().to_string()).collect(),
                3 => ta.clip_paths().iter().map(|g| g.id().to_string()).collect(),
                4 => ta.masks().iter().map(|g| g.id().to_string()).collect(),
                _ => ta.filters().iter().map(|g| g.id().to_string()).collect(),
            };
            let mut u = ids.clone();
            u.sort();
            u.dedup();
            if u.len() != ids.len() || ids.len() < k {
                s.finding(&format!("oracle:C18:{}:shared-definition-not-resolved-per-element", kname), &format!("{} elements with different boxes, definitions in the tree: {:?}", k, ids), &doc_a);
            }
        }
        // context-fill / context-stroke: marker content and use instances take the referencing element's paint,
        // resolved against THAT element's object bounding box (curved paths: the box of the geometry, not of
        // the control points)
        if i % 3 == 0 && kind <= 2 {
            let (cx, cy) = (rng.range(20, 60) as f64, rng.range(90, 140) as f64);
            let (cw, chh) = (rng.range(60, 120) as f64, rng.range(60, 150) as f64);
            // a cubic whose control points lie far above the curve
            let d = format!("M {cx} {cy} C {cx} {} {} {} {} {cy}", cy - chh, cx + cw, cy - chh, cx + cw);
            let probe = format!(r#"{HDR}<path d="{d}" fill="none" stroke="black" stroke-width="1"/></svg>"#);
            if let Ok(Ok(tp)) = pan::catch(|| usvg::Tree::from_str(&probe, &o)) {
                if let Some(usvg::Node::Path(pp)) = tp.root().children().first() {
                    let bb = pp.bounding_box();
                    let (bx, by, bw, bh) = (bb.x() as f64, bb.y() as f64, bb.width() as f64, bb.height() as f64);
                    let bm = format!("matrix({bw} 0 0 {bh} {bx} {by})");
                    // a tall marker standing on the start / end points, spanning the whole box vertically
                    let mh = chh + 10.0;
                    let marker = format!(r#"<marker id="mk" markerWidth="36" markerHeight="{mh}" refX="18" refY="{mh}" markerUnits="userSpaceOnUse" orient="0"><rect x="0" y="0" width="16" height="{mh}" fill="context-fill"/><rect x="20" y="0" width="16" height="{mh}" fill="context-stroke"/></marker>"#);
                    let (da, db) = match kind {
                        0 => (
                            r#"<linearGradient id="d" x1="0" y1="0" x2="0" y2="1"><stop offset="0.5" stop-color="red"/><stop offset="0.5" stop-color="blue"/></linearGradient>"#.to_string(),
                            format!(r#"<linearGradient id="d" gradientUnits="userSpaceOnUse" x1="0" y1="0" x2="0" y2="1" gradientTransform="{bm}"><stop offset="0.5" stop-color="red"/><stop offset="0.5" stop-color="blue"/></linearGradient>"#),
                        ),
                        1 => (
                            r#"<radialGradient id="d" cx="0.5" cy="0.5" r="0.5"><stop offset="0.4" stop-color="yellow"/><stop offset="0.4" stop-color="purple"/></radialGradient>"#.to_string(),
                            format!(r#"<radialGradient id="d" gradientUnits="userSpaceOnUse" cx="0.5" cy="0.5" r="0.5" gradientTransform="{bm}"><stop offset="0.4" stop-color="yellow"/><stop offset="0.4" stop-color="purple"/></radialGradient>"#),
                        ),
                        _ => (
                            r#"<pattern id="d" width="0.5" height="0.5" patternContentUnits="objectBoundingBox"><rect width="0.25" height="0.25" fill="teal"/></pattern>"#.to_string(),
                            format!(r#"<pattern id="d" patternUnits="userSpaceOnUse" x="{bx}" y="{by}" width="{}" height="{}"><g transform="scale({bw} {bh})"><rect width="0.25" height="0.25" fill="teal"/></g></pattern>"#, bw * 0.5, bh * 0.5),
                        ),
                    };
                    let body = format!(r##"<path d="{d}" fill="url(#d)" stroke="url(#d)" stroke-width="4" marker-start="url(#mk)" marker-end="url(#mk)"/>"##);
                    let (ca, cb) = (format!("{HDR}<defs>{da}{marker}</defs>{body}</svg>"), format!("{HDR}<defs>{db}{marker}</defs>{body}</svg>"));
                    if let (Some((_, qa)), Some((_, qb))) = (render(&ca, &o), render(&cb, &o)) {
                        s.case("context-paint-on-markers", &ca, true);
                        let (ok, why) = crate::rend::similar(&qa, &qb, 6);
                        if !ok {
                            s.finding(&format!("oracle:C18:{}:context-paint-differs-from-user-space-equivalent", kname), &format!("marker content painted with context-stroke / context-fill: {}; hand-mapped document: {}", why, cb), &ca);
                        }
                    }
                }
            }
        }
        // zero-sized boxes: the SVG fallback applies
        if i % 4 == 0 {
            let (x, y, len) = (rng.range(10, 100), rng.range(10, 100), rng.range(20, 80));
            let zero = match rng.below(2) {
                0 => format!(r#"M {x} {y} h {len}"#),
                _ => format!(r#"M {x} {y} v {len}"#),
            };
            let (za, zb_) = match kind {
                0 | 1 | 2 => (
                    format!(r##"{HDR}<defs>{def_a}</defs><path d="{zero}" stroke="url(#d) blue" stroke-width="6" fill="none"/></svg>"##),
                    format!(r#"{HDR}<path d="{zero}" stroke="blue" stroke-width="6" fill="none"/></svg>"#),
                ),
                3 | _ => (
                    // a clip path / mask in bounding-box units on an element without a box: the element is not rendered
                    format!(r##"{HDR}<defs>{def_a}</defs><path d="{zero}" stroke="green" stroke-width="6" fill="none" {attr}="url(#d)"/><rect x="150" y="120" width="20" height="20" fill="gray"/></svg>"##),
                    format!(r#"{HDR}<rect x="150" y="120" width="20" height="20" fill="gray"/></svg>"#),
                ),
            };
            if let (Some((_, qa)), Some((_, qb))) = (render(&za, &o), render(&zb_, &o)) {
                s.case(&format!("{}-zero-box", kname), &za, true);
                let (ok, why) = crate::rend::similar(&qa, &qb, 4);
                if !ok {
                    s.finding(&format!("oracle:C18:{}:zero-box-fallback", kname), &format!("element with an empty box: expected the fallback rendering; {}", why), &za);
                }
            }
        }
        // a user-space definition shared by several elements, with bounding-box paint INSIDE it, against one copy of
        // the definition per element: sharing must not change how the inner paint is resolved
        if i % 5 == 3 {
            let k = 2 + rng.below(2) as usize;
            let which = rng.below(3);
            let inner = r##"<linearGradient id="ig"><stop offset="0" stop-color="red"/><stop offset="1" stop-color="blue"/></linearGradient><radialGradient id="iw"><stop offset="0" stop-color="white"/><stop offset="1" stop-color="#444"/></radialGradient>"##;
            let def = |id: &str| match which {
                0 => format!(r##"<pattern id="{id}" width="24" height="18" patternUnits="userSpaceOnUse"><rect width="14" height="10" fill="url(#ig)"/><circle cx="18" cy="12" r="5" fill="url(#ig)"/></pattern>"##),
                1 => format!(r##"<mask id="{id}" maskUnits="userSpaceOnUse" x="0" y="0" width="200" height="160"><rect width="200" height="160" fill="url(#iw)"/></mask>"##),
                _ => format!(r##"<filter id="{id}" filterUnits="userSpaceOnUse" x="0" y="0" width="200" height="160"><feImage xlink:href="#src"/><feComposite in2="SourceAlpha" operator="in"/></filter>"##),
            };
            let attr = ["fill", "mask", "filter"][which as usize];
            let mut shared = String::new();
            let mut copies = String::new();
            let mut defs_copies = String::new();
            for j in 0..k {
                let (x, y, w, h) = (5 + 60 * j, 10 + 20 * j, rng.range(30, 55), rng.range(25, 50));
                let own = if attr == "fill" { "" } else { r#" fill="green""# };
                shared += &format!(r##"<rect x="{x}" y="{y}" width="{w}" height="{h}"{own} {attr}="url(#d)"/>"##);
                copies += &format!(r##"<rect x="{x}" y="{y}" width="{w}" height="{h}"{own} {attr}="url(#d{j})"/>"##);
                defs_copies += &def(&format!("d{j}"));
            }
            let src = r#"<rect id="src" width="120" height="100" fill="url(#ig)"/>"#;
            let sa = format!("{HDR}<defs>{inner}{src}{}</defs>{shared}</svg>", def("d"));
            let sb = format!("{HDR}<defs>{inner}{src}{defs_copies}</defs>{copies}</svg>");
            if let (Some((_, qa)), Some((_, qb))) = (render(&sa, &o), render(&sb, &o)) {
                s.case("shared-user-space-definition", &sa, qa.data().chunks(4).any(|p| p[3] != 0));
                let (ok, why) = crate::rend::similar(&qa, &qb, 4);
                if !ok {
                    s.finding(&format!("oracle:C18:{}:shared-definition-resolves-inner-paint-differently", ["pattern", "mask", "filter"][which as usize]), &format!("{} elements sharing one user-space definition differ from the same elements with a copy each: {}", k, why), &sa);
                }
            }
        }
        // the bounding box of a group is the union of the boxes of its children THAT HAVE ONE: an empty group (kept for
        // its id), alone or nested, and a group of such groups contribute nothing - a bounding-box definition on the
        // parent resolves exactly as without them
        if i % 5 == 3 {
            let (cx, cy, r) = (rng.range(60, 140), rng.range(50, 110), rng.range(10, 30));
            let empties = *rng.pick(&[r#"<g id="e"/>"#, r#"<g id="e1"><g id="e2"/></g>"#, r#"<g id="e" transform="translate(7 9)"/>"#, r#"<g id="e" opacity="0.5"/>"#]);
            let (def, attr) = match rng.below(4) {
                0 => (r#"<clipPath id="d" clipPathUnits="objectBoundingBox"><rect x="0" y="0" width="0.5" height="1"/></clipPath>"#.to_string(), r#"clip-path="url(#d)""#),
                1 => (r#"<mask id="d" maskContentUnits="objectBoundingBox" x="0" y="0" width="1" height="0.6"><rect width="1" height="1" fill="white"/></mask>"#.to_string(), r#"mask="url(#d)""#),
                2 => (r#"<filter id="d" x="0" y="0" width="0.7" height="1"><feOffset dx="0"/></filter>"#.to_string(), r#"filter="url(#d)""#),
                _ => (r#"<linearGradient id="d"><stop offset="0" stop-color="red"/><stop offset="1" stop-color="blue"/></linearGradient>"#.to_string(), r#"fill="url(#d)""#),
            };
            let pos = rng.below(2);
            let shape = format!(r#"<circle cx="{cx}" cy="{cy}" r="{r}"/><rect x="{}" y="{}" width="{r}" height="{r}"/>"#, cx + 5, cy - 5);
            let with = if pos == 0 { format!("{empties}{shape}") } else { format!("{shape}{empties}") };
            let ea = format!("{HDR}<defs>{def}</defs><g {attr}>{with}</g></svg>");
            let eb = format!("{HDR}<defs>{def}</defs><g {attr}>{shape}</g></svg>");
            if let (Some((_, qa)), Some((_, qb))) = (render(&ea, &o), render(&eb, &o)) {
                s.case("empty-group-sibling", &ea, qa.data().chunks(4).any(|p| p[3] != 0));
                let (ok, why) = crate::rend::similar(&qa, &qb, 4);
                if !ok {
                    s.finding("oracle:C18:empty-group-changes-the-bounding-box", &format!("an empty group next to the shapes changes how the bounding-box definition on their parent resolves: {}", why), &ea);
                }
            }
        }
        // a mask linked from a mask (a clip path from a clip path), both in bounding-box units: every member of the chain
        // is resolved against the box of the ELEMENT, exactly as after rewriting each member in user space
        if i % 5 == 4 {
            let (x, y, w, h) = (rng.range(20, 60) as f64, rng.range(20, 50) as f64, rng.range(40, 100) as f64, rng.range(40, 80) as f64);
            let mask = rng.chance(1, 2);
            let (a, b) = if mask {
                (
                    format!(r##"<mask id="m2" maskContentUnits="objectBoundingBox" x="0.1" y="0.1" width="0.8" height="0.7"><rect x="0.2" y="0.1" width="0.7" height="0.8" fill="white"/></mask><mask id="m1" mask="url(#m2)"><rect x="-500" y="-500" width="2000" height="2000" fill="white"/></mask>"##),
                    format!(
                        r##"<mask id="m2" maskUnits="userSpaceOnUse" x="{}" y="{}" width="{}" height="{}"><rect x="{}" y="{}" width="{}" height="{}" fill="white"/></mask><mask id="m1" mask="url(#m2)"><rect x="-500" y="-500" width="2000" height="2000" fill="white"/></mask>"##,
                        x + 0.1 * w, y + 0.1 * h, 0.8 * w, 0.7 * h, x + 0.2 * w, y + 0.1 * h, 0.7 * w, 0.8 * h
                    ),
                )
            } else {
                (
                    r##"<clipPath id="m2" clipPathUnits="objectBoundingBox"><rect x="0.2" y="0.1" width="0.7" height="0.6"/></clipPath><clipPath id="m1" clip-path="url(#m2)"><rect x="-500" y="-500" width="2000" height="2000"/></clipPath>"##.to_string(),
                    format!(
                        r##"<clipPath id="m2"><rect x="{}" y="{}" width="{}" height="{}"/></clipPath><clipPath id="m1" clip-path="url(#m2)"><rect x="-500" y="-500" width="2000" height="2000"/></clipPath>"##,
                        x + 0.2 * w, y + 0.1 * h, 0.7 * w, 0.6 * h
                    ),
                )
            };
            let attr = if mask { r##"mask="url(#m1)""## } else { r##"clip-path="url(#m1)""## };
            let user = format!(r##"<rect x="{x}" y="{y}" width="{w}" height="{h}" fill="green" {attr}/>"##);
            let ca = format!("{HDR}<defs>{a}</defs>{user}</svg>");
            let cb = format!("{HDR}<defs>{b}</defs>{user}</svg>");
            if let (Some((_, qa)), Some((_, qb))) = (render(&ca, &o), render(&cb, &o)) {
                s.case("linked-definition-chain", &ca, qa.data().chunks(4).any(|p| p[3] != 0));
                let (ok, why) = crate::rend::similar(&qa, &qb, 4);
                if !ok {
                    s.finding(&format!("oracle:C18:{}:linked-member-resolved-against-another-box", if mask { "mask" } else { "clip-path" }), &format!("a bounding-box definition linked from another one resolves differently from its user-space rewriting: {}", why), &ca);
                }
            }
        }
        // a pattern with a viewBox: its content lives in viewBox coordinates whatever patternContentUnits says,
        // so the objectBoundingBox spelling must resolve exactly like the userSpaceOnUse spelling
        if i % 5 == 2 {
            let pu = *rng.pick(&["userSpaceOnUse", "objectBoundingBox"]);
            let (pw, ph) = if pu == "objectBoundingBox" { ("0.5".to_string(), "0.4".to_string()) } else { (rng.range(12, 40).to_string(), rng.range(12, 40).to_string()) };
            let (vw, vh) = (rng.range(4, 24), rng.range(4, 24));
            let par = *rng.pick(&["xMidYMid meet", "none", "xMinYMax slice", "xMaxYMid meet"]);
            let inherit = rng.chance(1, 3);
            let pat = |cu: &str| {
                let content = format!(r#"<rect width="{}" height="{}" fill="teal"/><circle cx="{}" cy="{}" r="{}" fill="orange"/>"#, vw / 2, vh / 2, vw * 3 / 4, vh * 3 / 4, (vw.min(vh) / 5).max(1));
                if inherit {
                    // the content units come from a referenced pattern
                    format!(r##"<pattern id="base" patternContentUnits="{cu}"/><pattern id="d" xlink:href="#base" patternUnits="{pu}" width="{pw}" height="{ph}" viewBox="0 0 {vw} {vh}" preserveAspectRatio="{par}">{content}</pattern>"##)
                } else {
                    format!(r##"<pattern id="d" patternUnits="{pu}" patternContentUnits="{cu}" width="{pw}" height="{ph}" viewBox="0 0 {vw} {vh}" preserveAspectRatio="{par}">{content}</pattern>"##)
                }
            };
            let users = format!(
                r##"<rect x="{}" y="{}" width="{}" height="{}" fill="url(#d)"/><circle cx="140" cy="100" r="{}" fill="url(#d)" stroke="black"/>"##,
                rng.range(5, 40), rng.range(5, 40), rng.range(30, 80), rng.range(30, 70), rng.range(15, 45)
            );
            let va = format!("{HDR}<defs>{}</defs>{users}</svg>", pat("objectBoundingBox"));
            let vb = format!("{HDR}<defs>{}</defs>{users}</svg>", pat("userSpaceOnUse"));
            if let (Some((_, qa)), Some((_, qb))) = (render(&va, &o), render(&vb, &o)) {
                s.case("pattern-viewbox", &va, qa.data().chunks(4).any(|p| p[3] != 0));
                let (ok, why) = crate::rend::similar(&qa, &qb, 4);
                if !ok {
                    s.finding("oracle:C18:pattern:viewbox-content-units-not-ignored", &format!("a pattern with a viewBox renders differently with patternContentUnits=objectBoundingBox and =userSpaceOnUse: {}", why), &va);
                }
            }
        }
    }
}
