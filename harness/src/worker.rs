//! Isolated child process for cases that may overflow the stack, hang, or allocate without bound.
//! Protocol: parent writes one job per line, child answers one line per job.
use std::alloc::{GlobalAlloc, Layout, System};
use std::io::{BufRead, BufReader, Write};
use std::process::{Child, Command, Stdio};
use std::sync::atomic::{AtomicUsize, Ordering};
use std::sync::mpsc::{channel, Receiver};
use std::time::Duration;

pub struct CapAlloc;
pub static MAX_SINGLE: AtomicUsize = AtomicUsize::new(0);
pub static CUR: AtomicUsize = AtomicUsize::new(0);
pub static PEAK: AtomicUsize = AtomicUsize::new(0);
pub static CAP: AtomicUsize = AtomicUsize::new(usize::MAX);

/// Report a refused allocation on stderr: size and the innermost resvg/usvg function on the stack.
fn refuse(n: usize) {
    // lift the cap so that capturing the backtrace may allocate
    CAP.store(usize::MAX, Ordering::Relaxed);
    static IN_REFUSE: std::sync::atomic::AtomicBool = std::sync::atomic::AtomicBool::new(false);
    if IN_REFUSE.swap(true, Ordering::SeqCst) {
        // re-entered (a backtrace is being taken already): no second backtrace
        return;
    }
    let bt = std::backtrace::Backtrace::force_capture().to_string();
    let mut func = "?".to_string();
    for l in bt.lines() {
        let t = l.trim();
        if let Some(i) = t.find(": ") {
            let name = &t[i + 2..];
            if (name.starts_with("resvg::") || name.starts_with("usvg::")) && !name.contains("{{closure}}") {
                func = name.to_string();
                break;
            }
        }
    }
    let msg = format!("ALLOC-CAP {} in {}\n", n, func);
    unsafe {
        libc::write(2, msg.as_ptr() as *const libc::c_void, msg.len());
    }
}

unsafe impl GlobalAlloc for CapAlloc {
    unsafe fn alloc(&self, l: Layout) -> *mut u8 {
        let n = l.size();
        if n > MAX_SINGLE.load(Ordering::Relaxed) {
            MAX_SINGLE.store(n, Ordering::Relaxed);
        }
        if n > CAP.load(Ordering::Relaxed) {
            // make the refusal observable, then let Rust's alloc-error path abort the process
            refuse(n);
            return std::ptr::null_mut();
        }
        let p = System.alloc(l);
        if !p.is_null() {
            let c = CUR.fetch_add(n, Ordering::Relaxed) + n;
            if c > PEAK.load(Ordering::Relaxed) {
                PEAK.store(c, Ordering::Relaxed);
            }
        }
        p
    }
    unsafe fn dealloc(&self, p: *mut u8, l: Layout) {
        CUR.fetch_sub(l.size(), Ordering::Relaxed);
        System.dealloc(p, l)
    }
    unsafe fn alloc_zeroed(&self, l: Layout) -> *mut u8 {
        let n = l.size();
        if n > MAX_SINGLE.load(Ordering::Relaxed) {
            MAX_SINGLE.store(n, Ordering::Relaxed);
        }
        if n > CAP.load(Ordering::Relaxed) {
            refuse(n);
            return std::ptr::null_mut();
        }
        let p = System.alloc_zeroed(l);
        if !p.is_null() {
            let c = CUR.fetch_add(n, Ordering::Relaxed) + n;
            if c > PEAK.load(Ordering::Relaxed) {
                PEAK.store(c, Ordering::Relaxed);
            }
        }
        p
    }
    unsafe fn realloc(&self, p: *mut u8, l: Layout, new_size: usize) -> *mut u8 {
        if new_size > MAX_SINGLE.load(Ordering::Relaxed) {
            MAX_SINGLE.store(new_size, Ordering::Relaxed);
        }
        if new_size > CAP.load(Ordering::Relaxed) {
            refuse(new_size);
            return std::ptr::null_mut();
        }
        let q = System.realloc(p, l, new_size);
        if !q.is_null() {
            if new_size >= l.size() {
                let c = CUR.fetch_add(new_size - l.size(), Ordering::Relaxed) + (new_size - l.size());
                if c > PEAK.load(Ordering::Relaxed) {
                    PEAK.store(c, Ordering::Relaxed);
                }
            } else {
                CUR.fetch_sub(l.size() - new_size, Ordering::Relaxed);
            }
        }
        q
    }
}

pub fn reset_alloc_stats() {
    MAX_SINGLE.store(0, Ordering::Relaxed);
    PEAK.store(CUR.load(Ordering::Relaxed), Ordering::Relaxed);
}

#[derive(Debug, Clone, PartialEq)]
pub enum Outcome {
    /// the child's answer line
    Answer(String),
    /// child died: signal or exit code, plus the stderr tail (ALLOC-CAP marker, stack overflow message)
    Crash { how: String, stderr: String },
    Timeout,
}

pub struct Worker {
    child: Child,
    rx: Receiver<String>,
    err_rx: Receiver<String>,
    /// where the last job that ran out of time was executing: the innermost usvg/resvg function on its stack
    pub last_hang: Option<String>,
}

impl Worker {
    pub fn spawn() -> Worker {
        let exe = std::env::current_exe().unwrap();
        let mut child = Command::new(exe)
            .arg("worker")
            .stdin(Stdio::piped())
            .stdout(Stdio::piped())
            .stderr(Stdio::piped())
            .spawn()
            .expect("spawn worker");
        let out = child.stdout.take().unwrap();
        let err = child.stderr.take().unwrap();
        let (tx, rx) = channel();
        std::thread::spawn(move || {
            for l in BufReader::new(out).lines().map_while(Result::ok) {
                if tx.send(l).is_err() {
                    break;
                }
            }
        });
        let (etx, err_rx) = channel();
        std::thread::spawn(move || {
            for l in BufReader::new(err).lines().map_while(Result::ok) {
                if etx.send(l).is_err() {
                    break;
                }
            }
        });
        Worker { child, rx, err_rx, last_hang: None }
    }

    fn drain_err(&self) -> String {
        let mut v = vec![];
        std::thread::sleep(Duration::from_millis(30));
        while let Ok(l) = self.err_rx.try_recv() {
            v.push(l);
        }
        // an overflow report: resolve the innermost return addresses to the recursion they belong to
        if let Some(st) = v.iter().position(|l| l == "SEGV-BT") {
            let offs: Vec<String> = v[st + 1..]
                .iter()
                .filter_map(|l| {
                    let i = l.find("(+0x")?;
                    let j = l[i..].find(')')? + i;
                    Some(l[i + 2..j].to_string())
                })
                .collect();
            let site = resolve_overflow_site(&offs);
            v.truncate(st);
            v.push(format!("stack overflow OVERFLOW-AT {}", site));
        }
        let n = v.len();
        let mut keep: Vec<String> = v.iter().filter(|l| l.contains("ALLOC-CAP") || l.contains("stack overflow") || l.contains("panicked at")).cloned().collect();
        keep.extend(v[n.saturating_sub(3)..].iter().cloned());
        keep.join(" | ")
    }

    /// run one job; on crash/timeout the worker is dead and must be respawned
    pub fn run(&mut self, job: &str, timeout: Duration) -> Outcome {
        debug_assert!(!job.contains('\n'));
        let stdin = self.child.stdin.as_mut().unwrap();
        if writeln!(stdin, "{}", job).is_err() || stdin.flush().is_err() {
            let st = self.child.wait().ok();
            return Outcome::Crash { how: format!("{:?}", st), stderr: self.drain_err() };
        }
        match self.rx.recv_timeout(timeout) {
            Ok(l) => {
                // discard stderr noise of successful jobs
                while self.err_rx.try_recv().is_ok() {}
                Outcome::Answer(l)
            }
            Err(std::sync::mpsc::RecvTimeoutError::Timeout) => {
                // ask the child where it is (SIGUSR1: it prints HANG-AT and exits), then make sure it is gone
                unsafe {
                    libc::kill(self.child.id() as i32, libc::SIGUSR1);
                }
                for _ in 0..100 {
                    if let Ok(Some(_)) = self.child.try_wait() {
                        break;
                    }
                    std::thread::sleep(Duration::from_millis(50));
                }
                let _ = self.child.kill();
                let _ = self.child.wait();
                std::thread::sleep(Duration::from_millis(30));
                let mut site = None;
                while let Ok(l) = self.err_rx.try_recv() {
                    if let Some(r) = l.strip_prefix("HANG-AT ") {
                        site = Some(r.trim().to_string());
                    }
                }
                self.last_hang = site;
                Outcome::Timeout
            }
            Err(_) => {
                let st = self.child.wait().ok();
                use std::os::unix::process::ExitStatusExt;
                let how = match st {
                    Some(s) => match s.signal() {
                        Some(sig) => format!("signal {}", sig),
                        None => format!("exit {:?}", s.code()),
                    },
                    None => "unknown".to_string(),
                };
                Outcome::Crash { how, stderr: self.drain_err() }
            }
        }
    }
}

impl Drop for Worker {
    fn drop(&mut self) {
        let _ = self.child.kill();
        let _ = self.child.wait();
    }
}

/// The recursion an overflow happened in: the usvg/resvg function that occurs most often among the innermost
/// frames; when there is none, `dep:<crate>` of the most frequent foreign crate.
fn resolve_overflow_site(offs: &[String]) -> String {
    let exe = std::env::current_exe().unwrap();
    let out = Command::new("addr2line").arg("-f").arg("-C").arg("-e").arg(&exe).args(offs).output();
    let Ok(out) = out else { return "?".into() };
    let text = String::from_utf8_lossy(&out.stdout).to_string();
    let mut own: std::collections::BTreeMap<String, usize> = Default::default();
    let mut dep: std::collections::BTreeMap<String, usize> = Default::default();
    for (i, l) in text.lines().enumerate() {
        if i % 2 != 0 {
            continue;
        }
        let name = l.trim().trim_start_matches('<');
        let krate = name.split("::").next().unwrap_or("").to_string();
        if (name.starts_with("resvg::") || name.starts_with("usvg::")) && !name.contains("{{closure}}") && !name.contains("{closure") {
            *own.entry(name.split('<').next().unwrap_or(name).trim_end_matches("::").to_string()).or_default() += 1;
        } else if !["std", "core", "alloc", "vh", "libc", "", "??"].contains(&krate.as_str()) && krate.chars().all(|c| c.is_ascii_alphanumeric() || c == '_') {
            *dep.entry(krate).or_default() += 1;
        }
    }
    // most frequent (ties: alphabetical, for a stable signature)
    let best = |m: &std::collections::BTreeMap<String, usize>| m.iter().max_by(|a, b| a.1.cmp(b.1).then(b.0.cmp(a.0))).map(|(k, _)| k.clone());
    if let Some(f) = best(&own) {
        f
    } else if let Some(k) = best(&dep) {
        format!("dep:{}", k)
    } else {
        "?".into()
    }
}

pub fn hex_encode(b: &[u8]) -> String {
    let mut s = String::with_capacity(b.len() * 2);
    for x in b {
        s.push_str(&format!("{:02x}", x));
    }
    s
}

pub fn hex_decode(s: &str) -> Vec<u8> {
    (0..s.len() / 2).map(|i| u8::from_str_radix(&s[2 * i..2 * i + 2], 16).unwrap_or(0)).collect()
}

/// child side: `job` lines →  answers.  Jobs:
///   parse <dpi> <hexsvg>                 → ok <nodes> | err <kind> | panic <site>
///   render <w> <h> <6 ts bits> <cap> <hexsvg> → ok maxalloc=<n> peak=<n> | err .. | panic <site>
extern "C" fn on_usr1(_: i32) {
    // the job is over budget: say where it is and leave (the process is discarded anyway, so the
    // allocation a backtrace needs is acceptable here)
    CAP.store(usize::MAX, Ordering::Relaxed);
    let bt = std::backtrace::Backtrace::force_capture().to_string();
    let mut inner_crate: Option<String> = None;
    let mut func: Option<String> = None;
    // a job that is busy in a deep recursion through definition converters (a reference graph expanded again
    // for every user) is named after the converters that recur, which does not depend on the instant of the sample
    let mut counts: std::collections::BTreeMap<String, usize> = Default::default();
    for l in bt.lines() {
        let t = l.trim();
        let Some(i) = t.find(": ") else { continue };
        if !t[..i].chars().all(|c| c.is_ascii_digit()) {
            continue;
        }
        let name = t[i + 2..].trim_start_matches('<');
        if (name.starts_with("resvg::") || name.starts_with("usvg::")) && !name.contains("{{closure}}") && !name.starts_with("usvg::parser::converter::") && !name.starts_with("usvg::parser::svgtree::") {
            *counts.entry(name.split("::h").next().unwrap_or(name).to_string()).or_default() += 1;
        }
    }
    let recurring: Vec<String> = counts.iter().filter(|(_, n)| **n >= 3).map(|(k, _)| k.clone()).collect();
    for l in bt.lines() {
        let t = l.trim();
        let Some(i) = t.find(": ") else { continue };
        if !t[..i].chars().all(|c| c.is_ascii_digit()) {
            continue;
        }
        let name = t[i + 2..].trim_start_matches('<');
        let krate = name.split("::").next().unwrap_or("").to_string();
        let foreign = ["std", "core", "alloc", "vh", "__rustc", "libc", "backtrace", "rustc_demangle", "_", ""].contains(&krate.as_str()) || krate.starts_with("__") || !krate.chars().all(|c| c.is_ascii_alphanumeric() || c == '_');
        if inner_crate.is_none() && !foreign {
            inner_crate = Some(krate.clone());
        }
        if (name.starts_with("resvg::") || name.starts_with("usvg::")) && !name.contains("{{closure}}") {
            func = Some(name.split("::h").next().unwrap_or(name).to_string());
            break;
        }
    }
    // (the crate of the innermost frame goes to the log only: it varies with the instant of the sample)
    if !recurring.is_empty() {
        func = Some(format!("recursion[{}]", recurring.join("+")));
    }
    let msg = format!("HANG-IN {}\nHANG-AT {}\n", inner_crate.unwrap_or_else(|| "?".into()), func.unwrap_or_else(|| "?".into()));
    unsafe {
        libc::write(2, msg.as_ptr() as *const libc::c_void, msg.len());
        libc::_exit(98);
    }
}

/// The job ran off its stack (or touched unmapped memory): print the innermost return addresses, which the
/// parent resolves to function names, and leave.  Runs on the alternate stack set up in `child_main`.
extern "C" {
    fn backtrace_symbols_fd(buffer: *const *mut libc::c_void, size: libc::c_int, fd: libc::c_int);
}

extern "C" fn on_segv(_: i32) {
    let mut buf = [std::ptr::null_mut::<libc::c_void>(); 160];
    unsafe {
        let n = libc::backtrace(buf.as_mut_ptr(), 160);
        let m = b"SEGV-BT\n";
        libc::write(2, m.as_ptr() as *const libc::c_void, m.len());
        backtrace_symbols_fd(buf.as_ptr(), n, 2);
        let m = b"SEGV-END stack overflow\n";
        libc::write(2, m.as_ptr() as *const libc::c_void, m.len());
        libc::_exit(97);
    }
}

pub fn child_main() {
    crate::pan::install_hook();
    unsafe {
        libc::signal(libc::SIGUSR1, on_usr1 as usize);
        // an alternate stack for the overflow report (the one std installs is too small for an unwinder)
        let size = 1 << 20;
        let mem = libc::mmap(std::ptr::null_mut(), size, libc::PROT_READ | libc::PROT_WRITE, libc::MAP_PRIVATE | libc::MAP_ANONYMOUS, -1, 0);
        let ss = libc::stack_t { ss_sp: mem, ss_flags: 0, ss_size: size };
        libc::sigaltstack(&ss, std::ptr::null_mut());
        let mut sa: libc::sigaction = std::mem::zeroed();
        sa.sa_sigaction = on_segv as usize;
        sa.sa_flags = libc::SA_ONSTACK;
        libc::sigaction(libc::SIGSEGV, &sa, std::ptr::null_mut());
        libc::sigaction(libc::SIGBUS, &sa, std::ptr::null_mut());
    }
    let stdin = std::io::stdin();
    let mut out = std::io::stdout();
    for line in stdin.lock().lines().map_while(Result::ok) {
        let ans = crate::jobs::run_job(&line);
        let _ = writeln!(out, "{}", ans);
        let _ = out.flush();
    }
}
