//! Isolated child process for cases that may overflow the stack, hang, or allocate without bound.
//! Protocol: parent writes one job per line, child answers one line per job.
use std::alloc::{GlobalAlloc, Layout, System};
use std::io::{BufRead, BufReader, Write};
use std::process::{Child, Command, Stdio};
use std::sync::atomic::{AtomicUsize, Ordering};
use std::sync::mpsc::{channel, Receiver};
use std::time::Duration;

pub struct CapAlloc;
pub static MAX_SINGLE: AtomicUsize = AtomicUsize::new(0);
pub static CUR: AtomicUsize = AtomicUsize::new(0);
pub static PEAK: AtomicUsize = AtomicUsize::new(0);
pub static CAP: AtomicUsize = AtomicUsize::new(usize::MAX);

/// Report a refused allocation on stderr: size and the innermost resvg/usvg function on the stack.
fn refuse(n: usize) {
    // lift the cap so that capturing the backtrace may allocate
    CAP.store(usize::MAX, Ordering::Relaxed);
    static IN_REFUSE: std::sync::atomic::AtomicBool = std::sync::atomic::AtomicBool::new(false);
    if IN_REFUSE.swap(true, Ordering::SeqCst) {
        // re-entered (a backtrace is being taken already): no second backtrace
        return;
    }
    let bt = std::backtrace::Backtrace::force_capture().to_string();
    let mut func = "?".to_string();
    for l in bt.lines() {
        let t = l.trim();
        if let Some(i) = t.find(": ") {
            let name = &t[i + 2..];
            if (name.starts_with("resvg::") || name.starts_with("usvg::")) && !name.contains("{{closure}}") {
                func = name.to_string();
                break;
            }
        }
    }
    let msg = format!("ALLOC-CAP {} in {}\n", n, func);
    unsafe {
        libc::write(2, msg.as_ptr() as *const libc::c_void, msg.len());
    }
}

unsafe impl GlobalAlloc for CapAlloc {
    unsafe fn alloc(&self, l: Layout) -> *mut u8 {
        let n = l.size();
        if n > MAX_SINGLE.load(Ordering::Relaxed) {
            MAX_SINGLE.store(n, Ordering::Relaxed);
        }
        if n > CAP.load(Ordering::Relaxed) {
            // make the refusal observable, then let Rust's alloc-error path abort the process
            refuse(n);
            return std::ptr::null_mut();
        }
        let p = System.alloc(l);
        if !p.is_null() {
            let c = CUR.fetch_add(n, Ordering::Relaxed) + n;
            if c > PEAK.load(Ordering::Relaxed) {
                PEAK.store(c, Ordering::Relaxed);
            }
        }
        p
    }
    unsafe fn dealloc(&self, p: *mut u8, l: Layout) {
        CUR.fetch_sub(l.size(), Ordering::Relaxed);
        System.dealloc(p, l)
    }
    unsafe fn alloc_zeroed(&self, l: Layout) -> *mut u8 {
        let n = l.size();
        if n > MAX_SINGLE.load(Ordering::Relaxed) {
            MAX_SINGLE.store(n, Ordering::Relaxed);
        }
        if n > CAP.load(Ordering::Relaxed) {
            refuse(n);
            return std::ptr::null_mut();
        }
        let p = System.alloc_zeroed(l);
        if !p.is_null() {
            let c = CUR.fetch_add(n, Ordering::Relaxed) + n;
            if c > PEAK.load(Ordering::Relaxed) {
                PEAK.store(c, Ordering::Relaxed);
            }
        }
        p
    }
    unsafe fn realloc(&self, p: *mut u8, l: Layout, new_size: usize) -> *mut u8 {
        if new_size > MAX_SINGLE.load(Ordering::Relaxed) {
            MAX_SINGLE.store(new_size, Ordering::Relaxed);
        }
        if new_size > CAP.load(Ordering::Relaxed) {
            refuse(new_size);
            return std::ptr::null_mut();
        }
        let q = System.realloc(p, l, new_size);
        if !q.is_null() {
            if new_size >= l.size() {
                let c = CUR.fetch_add(new_size - l.size(), Ordering::Relaxed) + (new_size - l.size());
                if c > PEAK.load(Ordering::Relaxed) {
                    PEAK.store(c, Ordering::Relaxed);
                }
            } else {
                CUR.fetch_sub(l.size() - new_size, Ordering::Relaxed);
            }
        }
        q
    }
}

pub fn reset_alloc_stats() {
    MAX_SINGLE.store(0, Ordering::Relaxed);
    PEAK.store(CUR.load(Ordering::Relaxed), Ordering::Relaxed);
}

#[derive(Debug, Clone, PartialEq)]
pub enum Outcome {
    /// the child's answer line
    Answer(String),
    /// child died: signal or exit code, plus the stderr tail (ALLOC-CAP marker, stack overflow message)
    Crash { how: String, stderr: String },
    Timeout,
}

pub struct Worker {
    child: Child,
    rx: Receiver<String>,
    err_rx: Receiver<String>,
    /// where the last job that ran out of time was executing: the innermost usvg/resvg function on its stack
    pub last_hang: Option<String>,
}

impl Worker {
    pub fn spawn() -> Worker {
        let exe = std::env::current_exe().unwrap();
        let mut child = Command::new(exe)
            .arg("worker")
            .stdin(Stdio::piped())
            .stdout(Stdio::piped())
            .stderr(Stdio::piped())
            .spawn()
            .expect("spawn worker");
        let out = child.stdout.take().unwrap();
        let err = child.stderr.take().unwrap();
        let (tx, rx) = channel();
        std::thread::spawn(move || {
            for l in BufReader::new(out).lines().map_while(Result::ok) {
                if tx.send(l).is_err() {
                    break;
                }
            }
        });
        let (etx, err_rx) = channel();
        std::thread::spawn(move || {
            for l in BufReader::new(err).lines().map_while(Result::ok) {
                if etx.send(l).is_err() {
                    break;
                }
            }
        });
        Worker { child, rx, err_rx, last_hang: None }
    }

    fn drain_err(&self) -> String {
        let mut v = vec![];
        std::thread::sleep(Duration::from_millis(30));
        while let Ok(l) = self.err_rx.try_recv() {
            v.push(l);
        }
        let n = v.len();
        let mut keep: Vec<String> = v.iter().filter(|l| l.contains("ALLOC-CAP") || l.contains("stack overflow") || l.contains("panicked at")).cloned().collect();
        keep.extend(v[n.saturating_sub(3)..].iter().cloned());
        keep.join(" | ")
    }

    /// run one job; on crash/timeout the worker is dead and must be respawned
    pub fn run(&mut self, job: &str, timeout: Duration) -> Outcome {
        debug_assert!(!job.contains('\n'));
        let stdin = self.child.stdin.as_mut().unwrap();
        if writeln!(stdin, "{}", job).is_err() || stdin.flush().is_err() {
            let st = self.child.wait().ok();
            return Outcome::Crash { how: format!("{:?}", st), stderr: self.drain_err() };
        }
        match self.rx.recv_timeout(timeout) {
            Ok(l) => {
                // discard stderr noise of successful jobs
                while self.err_rx.try_recv().is_ok() {}
                Outcome::Answer(l)
            }
            Err(std::sync::mpsc::RecvTimeoutError::Timeout) => {
                // ask the child where it is (SIGUSR1: it prints HANG-AT and exits), then make sure it is gone
                unsafe {
                    libc::kill(self.child.id() as i32, libc::SIGUSR1);
                }
                for _ in 0..100 {
                    if let Ok(Some(_)) = self.child.try_wait() {
                        break;
                    }
                    std::thread::sleep(Duration::from_millis(50));
                }
                let _ = self.child.kill();
                let _ = self.child.wait();
                std::thread::sleep(Duration::from_millis(30));
                let mut site = None;
                while let Ok(l) = self.err_rx.try_recv() {
                    if let Some(r) = l.strip_prefix("HANG-AT ") {
                        site = Some(r.trim().to_string());
                    }
                }
                self.last_hang = site;
                Outcome::Timeout
            }
            Err(_) => {
                let st = self.child.wait().ok();
                use std::os::unix::process::ExitStatusExt;
                let how = match st {
                    Some(s) => match s.signal() {
                        Some(sig) => format!("signal {}", sig),
                        None => format!("exit {:?}", s.code()),
                    },
                    None => "unknown".to_string(),
                };
                Outcome::Crash { how, stderr: self.drain_err() }
            }
        }
    }
}

impl Drop for Worker {
    fn drop(&mut self) {
        let _ = self.child.kill();
        let _ = self.child.wait();
    }
}

pub fn hex_encode(b: &[u8]) -> String {
    let mut s = String::with_capacity(b.len() * 2);
    for x in b {
        s.push_str(&format!("{:02x}", x));
    }
    s
}

pub fn hex_decode(s: &str) -> Vec<u8> {
    (0..s.len() / 2).map(|i| u8::from_str_radix(&s[2 * i..2 * i + 2], 16).unwrap_or(0)).collect()
}

/// child side: `job` lines →  answers.  Jobs:
///   parse <dpi> <hexsvg>                 → ok <nodes> | err <kind> | panic <site>
///   render <w> <h> <6 ts bits> <cap> <hexsvg> → ok maxalloc=<n> peak=<n> | err .. | panic <site>
extern "C" fn on_usr1(_: i32) {
    // the job is over budget: say where it is and leave (the process is discarded anyway, so the
    // allocation a backtrace needs is acceptable here)
    CAP.store(usize::MAX, Ordering::Relaxed);
    let bt = std::backtrace::Backtrace::force_capture().to_string();
    let mut inner_crate: Option<String> = None;
    let mut func: Option<String> = None;
    for l in bt.lines() {
        let t = l.trim();
        let Some(i) = t.find(": ") else { continue };
        if !t[..i].chars().all(|c| c.is_ascii_digit()) {
            continue;
        }
        let name = t[i + 2..].trim_start_matches('<');
        let krate = name.split("::").next().unwrap_or("").to_string();
        let foreign = ["std", "core", "alloc", "vh", "__rustc", "libc", "backtrace", "rustc_demangle", "_", ""].contains(&krate.as_str()) || krate.starts_with("__") || !krate.chars().all(|c| c.is_ascii_alphanumeric() || c == '_');
        if inner_crate.is_none() && !foreign {
            inner_crate = Some(krate.clone());
        }
        if (name.starts_with("resvg::") || name.starts_with("usvg::")) && !name.contains("{{closure}}") {
            func = Some(name.split("::h").next().unwrap_or(name).to_string());
            break;
        }
    }
    // (the crate of the innermost frame goes to the log only: it varies with the instant of the sample)
    let msg = format!("HANG-IN {}\nHANG-AT {}\n", inner_crate.unwrap_or_else(|| "?".into()), func.unwrap_or_else(|| "?".into()));
    unsafe {
        libc::write(2, msg.as_ptr() as *const libc::c_void, msg.len());
        libc::_exit(98);
    }
}

pub fn child_main() {
    crate::pan::install_hook();
    unsafe {
        libc::signal(libc::SIGUSR1, on_usr1 as usize);
    }
    let stdin = std::io::stdin();
    let mut out = std::io::stdout();
    for line in stdin.lock().lines().map_while(Result::ok) {
        let ans = crate::jobs::run_job(&line);
        let _ = writeln!(out, "{}", ans);
        let _ = out.flush();
    }
}
