//! C09: attribute cascade (XML attributes, CSS, style, !important, inherit) — trace correspondence,
//! classification tables, spelling-rewrite oracle.
use crate::pan;
use crate::util::*;

fn verif_root() -> std::path::PathBuf {
    if let Ok(r) = std::env::var("VERIF_ROOT") {
        return r.into();
    }
    // …/harness/target/debug/vh
    let exe = std::env::current_exe().unwrap();
    exe.ancestors().nth(4).map(|p| p.to_path_buf()).unwrap_or_else(|| "/verif".into())
}

/// names listed by the translator (lean/Resvg/Generated/Names.lean)
pub fn translator_names() -> (Vec<String>, Vec<String>) {
    let text = std::fs::read_to_string(verif_root().join("lean/Resvg/Generated/Names.lean")).unwrap_or_default();
    let mut elems = vec![];
    let mut attrs = vec![];
    let mut cur: Option<&mut Vec<String>> = None;
    for line in text.lines() {
        if line.starts_with("def elementNames") {
            cur = Some(&mut elems);
        } else if line.starts_with("def attributeNames") {
            cur = Some(&mut attrs);
        }
        if let Some(v) = cur.as_mut() {
            let mut rest = line;
            while let Some(i) = rest.find('"') {
                let r2 = &rest[i + 1..];
                if let Some(j) = r2.find('"') {
                    v.push(r2[..j].to_string());
                    rest = &r2[j + 1..];
                } else {
                    break;
                }
            }
        }
    }
    (elems, attrs)
}

/// one element block of the cascade trace → `casc` request
fn emit_block(tag: &str, ancs: &[&str], xml: &[(String, String)], decls: &[(String, String, String)], end: &str, c: &mut Corr) {
    let mut req = format!("casc {} {}", tag, ancs.len());
    for a in ancs {
        req += " ";
        req += a;
    }
    req += &format!(" {}", xml.len());
    for (n, v) in xml {
        req += &format!(" {}={}", n, v);
    }
    req += &format!(" {}", decls.len());
    for (n, v, i) in decls {
        req += &format!(" {}={}:{}", n, v, i);
    }
    c.emit(&req, end);
}

pub fn trace_requests(lines: &[String], c: &mut Corr) {
    let mut tag = String::new();
    let mut ancs: Vec<String> = vec![];
    let mut xml: Vec<(String, String)> = vec![];
    let mut decls: Vec<(String, String, String)> = vec![];
    // raw declaration currently being expanded: (name hex, value hex, imp, expansion so far)
    let mut raw: Option<(String, String, String, Vec<String>)> = None;
    let flush_raw = |raw: &mut Option<(String, String, String, Vec<String>)>, c: &mut Corr| {
        if let Some((n, v, i, exp)) = raw.take() {
            // the `font` shorthand needs svgtypes' parser: not modelled
            if n != "666f6e74" {
                c.emit(&format!("expand {} {} {}", n, v, i), &exp.join(" "));
            }
        }
    };
    let mut open = false;
    for l in lines {
        let t: Vec<&str> = l.split(' ').collect();
        match t[0] {
            "elem_begin" => {
                flush_raw(&mut raw, c);
                tag = t.get(1).unwrap_or(&"").to_string();
                ancs = t[2..].iter().filter(|s| !s.is_empty()).map(|s| s.to_string()).collect();
                xml.clear();
                decls.clear();
                open = true;
            }
            "xml" if t.len() == 3 => xml.push((t[1].to_string(), t[2].to_string())),
            "rawdecl" if t.len() == 4 => {
                flush_raw(&mut raw, c);
                raw = Some((t[1].to_string(), t[2].to_string(), t[3].to_string(), vec![]));
            }
            "decl" if t.len() == 4 => {
                decls.push((t[1].to_string(), t[2].to_string(), t[3].to_string()));
                if let Some(r) = raw.as_mut() {
                    r.3.push(format!("{}={}:{}", t[1], t[2], t[3]));
                }
            }
            "elem_end" if t.len() == 2 => {
                flush_raw(&mut raw, c);
                if open {
                    let a: Vec<&str> = ancs.iter().map(|s| s.as_str()).collect();
                    emit_block(&tag, &a, &xml, &decls, t[1], c);
                }
                open = false;
            }
            _ => {}
        }
    }
}

pub struct Prop {
    pub name: &'static str,
    pub values: &'static [&'static str],
    pub inheritable: bool,
    /// usvg's default (what an absent attribute means), if spelling it out must not change the tree
    pub default: Option<&'static str>,
}

pub const PROPS: &[Prop] = &[
    Prop { name: "fill", values: &["#f00", "blue", "rgb(10,200,30)", "none", "#abcdef"], inheritable: true, default: Some("black") },
    Prop { name: "fill-opacity", values: &["0.5", "0.25", "1", "0.8"], inheritable: true, default: Some("1") },
    Prop { name: "fill-rule", values: &["evenodd", "nonzero"], inheritable: true, default: Some("nonzero") },
    Prop { name: "stroke", values: &["#0f0", "black", "none", "rgb(1,2,3)"], inheritable: true, default: Some("none") },
    Prop { name: "stroke-width", values: &["2", "0.5", "3.5", "10"], inheritable: true, default: Some("1") },
    Prop { name: "stroke-opacity", values: &["0.5", "0.3", "1"], inheritable: true, default: Some("1") },
    Prop { name: "stroke-linecap", values: &["round", "square", "butt"], inheritable: true, default: Some("butt") },
    Prop { name: "stroke-linejoin", values: &["round", "bevel", "miter"], inheritable: true, default: Some("miter") },
    Prop { name: "stroke-miterlimit", values: &["2", "8", "4"], inheritable: true, default: Some("4") },
    Prop { name: "stroke-dasharray", values: &["4 2", "1 1 3", "none"], inheritable: true, default: Some("none") },
    Prop { name: "stroke-dashoffset", values: &["1", "2.5", "0"], inheritable: true, default: Some("0") },
    Prop { name: "opacity", values: &["0.5", "0.2", "0.9"], inheritable: false, default: Some("1") },
    Prop { name: "visibility", values: &["hidden", "visible"], inheritable: true, default: Some("visible") },
    Prop { name: "paint-order", values: &["stroke", "normal", "markers stroke"], inheritable: true, default: None },
    Prop { name: "shape-rendering", values: &["crispEdges", "optimizeSpeed", "geometricPrecision"], inheritable: true, default: None },
    Prop { name: "color", values: &["#123456", "red"], inheritable: true, default: None },
];

fn pick_props(rng: &mut Rng, k: usize) -> Vec<(usize, &'static str)> {
    let mut v: Vec<(usize, &'static str)> = vec![];
    for _ in 0..k {
        let i = rng.below(PROPS.len() as u64) as usize;
        if v.iter().any(|x| x.0 == i) {
            continue;
        }
        v.push((i, *rng.pick(PROPS[i].values)));
    }
    v
}

fn attrs_text(ps: &[(usize, &str)]) -> String {
    ps.iter().map(|(i, v)| format!(r#" {}="{}""#, PROPS[*i].name, v)).collect()
}

fn style_text(ps: &[(usize, &str)]) -> String {
    ps.iter().map(|(i, v)| format!("{}:{}", PROPS[*i].name, v)).collect::<Vec<_>>().join(";")
}

const SHAPE: &str = r#"x="10" y="10" width="40" height="30""#;

fn doc(css: &str, g_attrs: &str, rect_attrs: &str) -> String {
    let style = if css.is_empty() { String::new() } else { format!("<style>{}</style>", css) };
    format!(
        r#"<svg xmlns="http://www.w3.org/2000/svg" width="80" height="60">{}<g id="g"{}><rect id="r" {}{}/></g></svg>"#,
        style, g_attrs, SHAPE, rect_attrs
    )
}

/// canonical form of a written tree: numbers rounded to 4 significant decimals
pub fn canon(s: &str) -> String {
    let mut out = String::new();
    let b: Vec<char> = s.chars().collect();
    let mut i = 0;
    while i < b.len() {
        let ch = b[i];
        let starts_num = ch.is_ascii_digit() || ((ch == '-' || ch == '.') && i + 1 < b.len() && (b[i + 1].is_ascii_digit() || b[i + 1] == '.'));
        let prev_alnum = i > 0 && (b[i - 1].is_ascii_alphanumeric() || b[i - 1] == '#' || b[i - 1] == '_');
        if starts_num && !prev_alnum {
            let st = i;
            i += 1;
            while i < b.len() && (b[i].is_ascii_digit() || b[i] == '.' || ((b[i] == 'e' || b[i] == 'E') && i + 1 < b.len() && (b[i + 1].is_ascii_digit() || b[i + 1] == '-'))) {
                i += 1;
            }
            let tok: String = b[st..i].iter().collect();
            match tok.parse::<f64>() {
                Ok(v) => out += &format!("{:.3}", (v * 1000.0).round() / 1000.0 + 0.0),
                Err(_) => out += &tok,
            }
        } else {
            out.push(ch);
            i += 1;
        }
    }
    out
}

/// canonical texts equal up to float rounding: same skeleton, numbers within 2e-3 absolute or 1e-4 relative
pub fn near(a: &str, b: &str) -> bool {
    fn split(s: &str) -> (String, Vec<f64>) {
        let (mut skel, mut nums) = (String::new(), vec![]);
        let b: Vec<char> = s.chars().collect();
        let mut i = 0;
        while i < b.len() {
            let ch = b[i];
            let starts = ch.is_ascii_digit() || (ch == '-' && i + 1 < b.len() && b[i + 1].is_ascii_digit());
            let prev_alnum = i > 0 && (b[i - 1].is_ascii_alphanumeric() || b[i - 1] == '#' || b[i - 1] == '_');
            if starts && !prev_alnum {
                let st = i;
                i += 1;
                while i < b.len() && (b[i].is_ascii_digit() || b[i] == '.') {
                    i += 1;
                }
                let tok: String = b[st..i].iter().collect();
                if let Ok(v) = tok.parse::<f64>() {
                    nums.push(v);
                    skel.push('#');
                    continue;
                }
                skel += &tok;
            } else {
                skel.push(ch);
                i += 1;
            }
        }
        (skel, nums)
    }
    if a == b {
        return true;
    }
    let ((sa, na), (sb, nb)) = (split(a), split(b));
    sa == sb && na.len() == nb.len() && na.iter().zip(nb.iter()).all(|(x, y)| (x - y).abs() <= 2e-3f64.max(1e-4 * x.abs().max(y.abs())))
}

fn tree_text(svg: &str, o: &usvg::Options) -> Option<String> {
    match pan::catch(|| usvg::Tree::from_str(svg, o).map(|t| t.to_string(&usvg::WriteOptions::default()))) {
        Ok(Ok(s)) => Some(canon(&s)),
        _ => None,
    }
}

/// the same document seen through an `image` element (a data URL): the text of the nested tree
fn nested_tree_text(svg: &str, o: &usvg::Options) -> Option<String> {
    let outer = format!(
        r#"<svg xmlns="http://www.w3.org/2000/svg" xmlns:xlink="http://www.w3.org/1999/xlink" width="80" height="60"><image id="im" width="80" height="60" xlink:href="data:image/svg+xml;base64,{}"/></svg>"#,
        crate::c17::b64(svg.as_bytes())
    );
    fn find(g: &usvg::Group) -> Option<String> {
        for n in g.children() {
            match n {
                usvg::Node::Image(im) => {
                    if let usvg::ImageKind::SVG(t) = im.kind() {
                        return Some(t.to_string(&usvg::WriteOptions::default()));
                    }
                }
                usvg::Node::Group(g) => {
                    if let Some(t) = find(g) {
                        return Some(t);
                    }
                }
                _ => {}
            }
        }
        None
    }
    match pan::catch(|| usvg::Tree::from_str(&outer, o).ok().and_then(|t| find(t.root()))) {
        Ok(Some(s)) => Some(canon(&s)),
        _ => None,
    }
}

pub fn corr(tier: &str, seed: u64, c: &mut Corr) {
    let mut rng = Rng::new(seed ^ 0xC09);
    // ---- classification tables: translator output vs the real predicates
    let (elems, attrs) = translator_names();
    let mut cand_a = attrs.clone();
    cand_a.extend(["bogus", "Fill", "xlink:href", "fill ", "data-x"].iter().map(|s| s.to_string()));
    let mut cand_e = elems.clone();
    cand_e.extend(["bogus", "SVG", "foreignObject", "title"].iter().map(|s| s.to_string()));
    usvg::verif_svgtree::set_candidates(cand_a.clone(), cand_e.clone());
    let tbl = usvg::verif_svgtree::tables();
    for n in &cand_a {
        if n.contains(' ') {
            continue;
        }
        let known = usvg::verif_svgtree::knows_attr(n);
        let line = tbl.iter().find(|l| l.starts_with(&format!("attr {} ", n)));
        let ans = match line {
            Some(l) => format!("known=1 {}", l.splitn(3, ' ').nth(2).unwrap_or("")),
            None => format!("known={} pres=0 inh=0 allows=0", known as u8),
        };
        c.emit(&format!("attrclass {}", n), &ans);
    }
    for n in &cand_e {
        let known = usvg::verif_svgtree::knows_elem(n);
        let line = tbl.iter().find(|l| l.starts_with(&format!("elem {} ", n)));
        let graphic = line.map(|l| l.contains("graphic=1")).unwrap_or(false);
        c.emit(&format!("elemclass {}", n), &format!("known={} graphic={}", known as u8, graphic as u8));
    }
    // ---- cascade traces: generated documents mixing attributes, style, CSS, !important, inherit
    let n = if tier == "thorough" { 3000 } else { 300 };
    for _ in 0..n {
        let svg = gen_cascade_doc(&mut rng);
        usvg::verif_svgtree::trace_start();
        let inj = if rng.chance(1, 4) { Some("rect { fill: teal; stroke-width: 9 } * { opacity: 0.7 !important }") } else { None };
        let _ = pan::catch(|| usvg::verif_svgtree::dump_svgtree(&svg, inj));
        let lines = usvg::verif_svgtree::trace_take();
        trace_requests(&lines, c);
    }
    font_size_corr(tier, &mut rng, c);
    // ---- corpus files (all of structure/style, painting, text: whatever the sample picks)
    let nc = if tier == "thorough" { 0 } else { 150 };
    for p in crate::corpus::sample(nc, seed) {
        let Ok(text) = std::fs::read_to_string(&p) else { continue };
        usvg::verif_svgtree::trace_start();
        let _ = pan::catch(|| usvg::verif_svgtree::dump_svgtree(&text, None));
        let lines = usvg::verif_svgtree::trace_take();
        trace_requests(&lines, c);
    }
}

const FS_UNITS: [(&str, &str); 10] = [("", "none"), ("px", "px"), ("em", "em"), ("ex", "ex"), ("in", "in"), ("cm", "cm"), ("mm", "mm"), ("pt", "pt"), ("pc", "pc"), ("%", "percent")];

/// font-size chains: `resolve_font_size` against the model, bit-exact
fn font_size_corr(tier: &str, rng: &mut Rng, c: &mut Corr) {
    let n = if tier == "thorough" { 3000 } else { 400 };
    for _ in 0..n {
        let dpi = *rng.pick(&[72.0f32, 96.0, 300.0, 90.0, 1.0, 133.7]);
        let k = 1 + rng.below(3) as usize;
        let chain: Vec<(crate::c17::Num, usize)> = (0..k)
            .map(|_| {
                let u = rng.below(FS_UNITS.len() as u64) as usize;
                // keep relative steps moderate so the size stays a sane positive number
                let nmb = if matches!(FS_UNITS[u].0, "em" | "ex") { crate::c17::num(format!("{}", (rng.range(1, 40) as f64) / 10.0)) } else if FS_UNITS[u].0 == "%" { crate::c17::num(format!("{}", rng.range(10, 300))) } else { crate::c17::gen_len(rng, true) };
                (nmb, u)
            })
            .collect();
        let mut open = String::new();
        let mut close = String::new();
        for (i, (nm, u)) in chain.iter().enumerate() {
            let attr = format!(r#" font-size="{}{}""#, nm.text, FS_UNITS[*u].0);
            if i + 1 == chain.len() {
                open += &format!(r#"<text x="1" y="20"{}>x</text>"#, attr);
            } else {
                open += &format!("<g{}>", attr);
                close += "</g>";
            }
        }
        let svg = format!(r#"<svg xmlns="http://www.w3.org/2000/svg" width="100" height="100">{}{}</svg>"#, open, close);
        let mut o = crate::corpus::opts_for(None);
        o.dpi = dpi;
        let dflt = o.font_size;
        let Ok(Ok(t)) = pan::catch(|| usvg::Tree::from_str(&svg, &o)) else { continue };
        fn first_text(g: &usvg::Group) -> Option<&usvg::Text> {
            for n in g.children() {
                match n {
                    usvg::Node::Text(t) => return Some(t),
                    usvg::Node::Group(g) => {
                        if let Some(t) = first_text(g) {
                            return Some(t);
                        }
                    }
                    _ => {}
                }
            }
            None
        }
        let Some(tx) = first_text(t.root()) else { continue };
        let Some(sp) = tx.chunks().first().and_then(|ch| ch.spans().first()) else { continue };
        let req: Vec<String> = chain.iter().map(|(nm, u)| format!("{}:{}", FS_UNITS[*u].1, hx(nm.f32v))).collect();
        c.emit(&format!("fontsize {} {} {}", hx(dpi), hx(dflt), req.join(" ")), &hx(sp.font_size().get()));
    }
}

/// documents exercising every branch of insert_attribute / append_attribute / resolve_inherit
pub fn gen_cascade_doc(rng: &mut Rng) -> String {
    let mut css = String::new();
    let sel = ["rect", "#r", ".c", "*", "g", "#g", "g rect", "rect:first-child", "[id=r]"];
    for _ in 0..rng.below(4) {
        let k = 1 + rng.below(3) as usize;
        let ps = pick_props(rng, k);
        let body: Vec<String> = ps
            .iter()
            .map(|(i, v)| format!("{}:{}{}", PROPS[*i].name, if rng.chance(1, 6) { "inherit" } else { v }, if rng.chance(1, 4) { " !important" } else { "" }))
            .collect();
        css += &format!("{} {{ {} }} ", rng.pick(&sel), body.join("; "));
    }
    if rng.chance(1, 6) {
        css += "rect { marker: url(#m); font: italic bold 12px serif; bogus: 1; x: 5; transform: rotate(3) } ";
    }
    let mk = |rng: &mut Rng| -> String {
        let mut s = String::new();
        let k = rng.below(5) as usize;
        let ps = pick_props(rng, k);
        for (i, v) in &ps {
            let v = if rng.chance(1, 5) { "inherit" } else { v };
            s += &format!(r#" {}="{}""#, PROPS[*i].name, v);
        }
        if rng.chance(1, 2) {
            let k = 1 + rng.below(3) as usize;
            let ps = pick_props(rng, k);
            let body: Vec<String> = ps
                .iter()
                .map(|(i, v)| format!("{}:{}{}", PROPS[*i].name, if rng.chance(1, 6) { "inherit" } else { v }, if rng.chance(1, 4) { " !important" } else { "" }))
                .collect();
            s += &format!(r#" style="{}""#, body.join(";"));
        }
        if rng.chance(1, 3) {
            s += r#" class="c""#;
        }
        if rng.chance(1, 8) {
            s += r#" mix-blend-mode="multiply" isolation="isolate" image-rendering="pixelated""#;
        }
        s
    };
    let ga = mk(rng);
    let ra = mk(rng);
    let extra = if rng.chance(1, 3) {
        let ta = mk(rng);
        format!(r##"<text id="t"{}>a<tspan xlink:href="#r"{}>b</tspan></text>"##, ta, mk(rng))
    } else {
        String::new()
    };
    format!(
        r#"<svg xmlns="http://www.w3.org/2000/svg" xmlns:xlink="http://www.w3.org/1999/xlink" width="80" height="60"><style>{}</style><g id="g"{}><rect id="r" {}{}/>{}</g></svg>"#,
        css, ga, SHAPE, ra, extra
    )
}

// ------------------------------------------------------------------------------------------
// implementation-side oracle: spelling rewrites must not change the tree

pub fn search(tier: &str, seed: u64, s: &mut Search) {
    let mut rng = Rng::new(seed ^ 0x5EA7C09);
    let n = (if tier == "thorough" { 4000 } else { 400 }) * budget_mult();
    for i in 0..n {
        let dpi = *rng.pick(&[72.0f32, 96.0, 300.0]);
        let mut o = crate::corpus::opts_for(None);
        o.dpi = dpi;
        let k1 = rng.below(4) as usize;
        let gp = pick_props(&mut rng, k1);
        let k2 = 1 + rng.below(4) as usize;
        let rp = pick_props(&mut rng, k2);
        let base = doc("", &attrs_text(&gp), &attrs_text(&rp));
        let Some(base_t) = tree_text(&base, &o) else { continue };
        let mut variants: Vec<(&str, String, Option<String>)> = vec![];
        // attribute → style attribute
        variants.push(("attr->style", doc("", &attrs_text(&gp), &format!(r#" style="{}""#, style_text(&rp))), None));
        // attribute → CSS rule with id / class / type / universal-on-rect selector
        variants.push(("attr->css-id", doc(&format!("#r {{ {} }}", style_text(&rp)), &attrs_text(&gp), ""), None));
        variants.push(("attr->css-class", doc(&format!(".k {{ {} }}", style_text(&rp)), &attrs_text(&gp), r#" class="k""#), None));
        variants.push(("attr->css-type", doc(&format!("rect {{ {} }}", style_text(&rp)), &attrs_text(&gp), ""), None));
        // injected user style sheet
        variants.push(("attr->injected-css", doc("", &attrs_text(&gp), ""), Some(format!("#r {{ {} }}", style_text(&rp)))));
        // !important on every declaration changes nothing when there is one source
        variants.push(("style-important", doc("", &attrs_text(&gp), &format!(r#" style="{}""#, rp.iter().map(|(i, v)| format!("{}:{} !important", PROPS[*i].name, v)).collect::<Vec<_>>().join(";"))), None));
        // attribute order
        let mut rev = rp.clone();
        rev.reverse();
        variants.push(("attr-order", doc("", &attrs_text(&gp), &attrs_text(&rev)), None));
        // style beats attribute: a conflicting attribute under a style declaration is irrelevant
        let conflicting: Vec<(usize, &str)> = rp.iter().map(|(i, _)| (*i, PROPS[*i].values[0])).collect();
        variants.push(("style-over-attr", doc("", &attrs_text(&gp), &format!(r#"{} style="{}""#, attrs_text(&conflicting), style_text(&rp))), None));
        // explicit `inherit` for a property the parent sets and the child does not
        for (gi, gv) in &gp {
            if rp.iter().any(|(ri, _)| ri == gi) {
                continue;
            }
            let p = &PROPS[*gi];
            if p.inheritable {
                variants.push(("inherit==ancestor", doc("", &attrs_text(&gp), &format!(r#"{} {}="inherit""#, attrs_text(&rp), p.name)), None));
            } else {
                // non-inheritable: `inherit` means the parent's value — equal to writing that value
                let a = doc("", &attrs_text(&gp), &format!(r#"{} {}="{}""#, attrs_text(&rp), p.name, gv));
                let b = doc("", &attrs_text(&gp), &format!(r#"{} {}="inherit""#, attrs_text(&rp), p.name));
                if let (Some(ta), Some(tb)) = (tree_text(&a, &o), tree_text(&b, &o)) {
                    s.case("inherit==parent-value", &b, true);
                    if ta != tb {
                        s.finding("oracle:spelling:inherit==parent-value", &format!("{}=inherit differs from writing the parent's value", p.name), &b);
                    }
                }
            }
        }
        // explicitly written default for a property nobody sets
        for (pi, p) in PROPS.iter().enumerate() {
            if let Some(d) = p.default {
                if !gp.iter().any(|(i, _)| *i == pi) && !rp.iter().any(|(i, _)| *i == pi) && rng.chance(1, 3) {
                    variants.push(("explicit-default", doc("", &attrs_text(&gp), &format!(r#"{} {}="{}""#, attrs_text(&rp), p.name, d)), None));
                }
            }
        }
        // style-only, non-inherited properties: `inherit` is the parent's value
        if i % 5 == 0 {
            for (prop, val) in [("mix-blend-mode", "multiply"), ("isolation", "isolate"), ("mix-blend-mode", "screen")] {
                let g = format!(r#" style="{}:{}""#, prop, val);
                let a = doc("", &g, &format!(r#" style="{}:{}""#, prop, val));
                let b = doc("", &g, &format!(r#" style="{}:inherit""#, prop));
                if let (Some(ta), Some(tb)) = (tree_text(&a, &o), tree_text(&b, &o)) {
                    s.case("inherit==parent-value", &b, true);
                    if ta != tb {
                        s.finding("oracle:spelling:inherit==parent-value", &format!("{}:inherit differs from writing the parent's value", prop), &b);
                    }
                }
            }
        }
        // explicit `inherit` when the direct parent is silent and a further ancestor sets the property
        for (gi, _) in &gp {
            let p = &PROPS[*gi];
            if !p.inheritable || rp.iter().any(|(ri, _)| ri == gi) {
                continue;
            }
            let deep = |rect_attrs: &str| {
                format!(
                    r#"<svg xmlns="http://www.w3.org/2000/svg" width="80" height="60"><g id="g"{}><g id="mid"><g id="mid2" opacity="0.5"><rect id="r" {}{}/></g></g></g></svg>"#,
                    attrs_text(&gp), SHAPE, rect_attrs
                )
            };
            let a = deep(&attrs_text(&rp));
            let b = deep(&format!(r#"{} {}="inherit""#, attrs_text(&rp), p.name));
            let cc = deep(&format!(r#"{} style="{}:inherit""#, attrs_text(&rp), p.name));
            if let (Some(ta), Some(tb), Some(tc)) = (tree_text(&a, &o), tree_text(&b, &o), tree_text(&cc, &o)) {
                s.case("inherit==far-ancestor", &b, true);
                if ta != tb || ta != tc {
                    s.finding("oracle:spelling:inherit==far-ancestor", &format!("{}=inherit under a parent that does not set it differs from plain inheritance", p.name), &b);
                }
            }
        }
        // equivalent units at the configured DPI for every length-valued property, font-size included
        if i % 2 == 0 {
            let d = dpi as f64;
            // (unit, pixels per unit)
            let units: [(&str, f64); 5] = [("in", d), ("pt", d / 72.0), ("pc", d / 6.0), ("mm", d / 25.4), ("cm", d / 2.54)];
            let (u, ppu) = *rng.pick(&units);
            let nmb = *rng.pick(&[1.0f64, 2.0, 0.5, 12.0, 7.5]);
            let px = nmb * ppu;
            let prop = *rng.pick(&["stroke-width", "stroke-dashoffset", "stroke-dasharray", "font-size", "letter-spacing", "word-spacing"]);
            let mk = |val: &str| match prop {
                "font-size" | "letter-spacing" | "word-spacing" => format!(
                    r#"<svg xmlns="http://www.w3.org/2000/svg" width="80" height="60"><g font-size="10"><g {}="{}"><text x="5" y="40" stroke="black" stroke-width="0.25em">ab cd</text><rect {} stroke="black" stroke-width="0.5ex"/></g></g></svg>"#,
                    prop, val, SHAPE
                ),
                _ => format!(r#"<svg xmlns="http://www.w3.org/2000/svg" width="80" height="60"><rect {} stroke="black" stroke-width="3" stroke-dasharray="5 2" {}="{}"/></svg>"#, SHAPE, prop, val),
            };
            let a = mk(&format!("{}{}", nmb, u));
            let b = mk(&format!("{}px", px));
            let cc = mk(&format!("{}", px));
            if let (Some(ta), Some(tb), Some(tc)) = (tree_text(&a, &o), tree_text(&b, &o), tree_text(&cc, &o)) {
                s.case("unit==pixels", &a, true);
                if !near(&ta, &tb) || !near(&ta, &tc) {
                    s.finding(&format!("oracle:spelling:unit==pixels:{}", prop), &format!("{}={}{} differs from {}px at dpi {}", prop, nmb, u, px, dpi), &a);
                }
            }
            // the same two spellings inside an SVG referenced as an image: the configured options apply there too
            if let (Some(ta), Some(tb)) = (nested_tree_text(&a, &o), nested_tree_text(&b, &o)) {
                s.case("unit==pixels-in-nested-image", &a, true);
                if !near(&ta, &tb) {
                    s.finding(&format!("oracle:spelling:unit==pixels-in-nested-image:{}", prop), &format!("inside an SVG image {}={}{} differs from {}px at dpi {}", prop, nmb, u, px, dpi), &a);
                }
            }
        }
        // equivalent units and colour notations
        if i % 3 == 0 {
            let a = doc("", "", r##" stroke="#000" stroke-width="0.25in" fill="#ff0000""##);
            let b = doc("", "", &format!(r#" stroke="black" stroke-width="{}px" fill="red""#, 0.25 * dpi));
            let cc = doc("", "", &format!(r#" stroke="rgb(0,0,0)" stroke-width="{}pt" fill="rgb(100%,0%,0%)""#, 18.0));
            if let (Some(ta), Some(tb), Some(tc)) = (tree_text(&a, &o), tree_text(&b, &o), tree_text(&cc, &o)) {
                s.case("units-colours", &a, true);
                if ta != tb || ta != tc {
                    s.finding("oracle:spelling:units-colours", &format!("0.25in / {}px / 18pt or colour notations give different trees at dpi {}", 0.25 * dpi, dpi), &a);
                }
            }
        }
        for (kind, v, inj) in variants {
            let mut oo = crate::corpus::opts_for(None);
            oo.dpi = dpi;
            oo.style_sheet = inj.clone();
            let Some(t) = tree_text(&v, &oo) else { continue };
            s.case(kind, &v, true);
            if t != base_t {
                s.finding(&format!("oracle:spelling:{}", kind), &format!("rewrite `{}` changed the tree; base: {}", kind, base), &v);
            }
        }
    }
}
