//! The repository's own test corpus and fonts.
use std::path::{Path, PathBuf};
use std::sync::Arc;

pub fn repo() -> PathBuf {
    PathBuf::from(std::env::var("VERIF_REPO").unwrap_or_else(|_| "/repo".to_string()))
}

pub fn svg_files() -> Vec<PathBuf> {
    let mut v = vec![];
    fn walk(d: &Path, v: &mut Vec<PathBuf>) {
        if let Ok(rd) = std::fs::read_dir(d) {
            let mut es: Vec<_> = rd.flatten().map(|e| e.path()).collect();
            es.sort();
            for p in es {
                if p.is_dir() {
                    walk(&p, v);
                } else if p.extension().map(|e| e == "svg").unwrap_or(false) {
                    v.push(p);
                }
            }
        }
    }
    walk(&repo().join("crates/resvg/tests/tests"), &mut v);
    v
}

pub fn fontdb() -> Arc<usvg::fontdb::Database> {
    use std::sync::OnceLock;
    static DB: OnceLock<Arc<usvg::fontdb::Database>> = OnceLock::new();
    DB.get_or_init(|| {
        let mut db = usvg::fontdb::Database::new();
        db.load_fonts_dir(repo().join("crates/resvg/tests/fonts"));
        db.set_serif_family("Noto Serif");
        db.set_sans_serif_family("Noto Sans");
        db.set_cursive_family("Yellowtail");
        db.set_fantasy_family("Sedgwick Ave Display");
        db.set_monospace_family("Noto Mono");
        Arc::new(db)
    })
    .clone()
}

pub fn opts_for(path: Option<&Path>) -> usvg::Options<'static> {
    let mut o = usvg::Options::default();
    o.fontdb = fontdb();
    o.font_family = "Noto Sans".to_string();
    if let Some(p) = path {
        o.resources_dir = p.parent().map(|d| d.to_path_buf());
    }
    o
}

/// deterministic sample of `n` corpus files (all when n == 0)
pub fn sample(n: usize, seed: u64) -> Vec<PathBuf> {
    let all = svg_files();
    if n == 0 || n >= all.len() {
        return all;
    }
    let mut rng = crate::util::Rng::new(seed ^ 0xC0A9);
    let mut idx: Vec<usize> = (0..all.len()).collect();
    for i in 0..n {
        let j = i + rng.below((idx.len() - i) as u64) as usize;
        idx.swap(i, j);
    }
    idx[..n].iter().map(|&i| all[i].clone()).collect()
}
