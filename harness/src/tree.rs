//! Exhaustive walk over a `usvg::Tree` (main tree, pattern / mask / clip-path / feImage sub-trees,
//! flattened text, nested SVG images) and the per-property contracts checked on every item.
use usvg::{filter, ClipPath, Group, Image, ImageKind, LinearGradient, Mask, Node, Paint, Path, Pattern, RadialGradient, Text};

pub enum Item<'a> {
    Group(&'a Group),
    Path(&'a Path),
    Image(&'a Image),
    Text(&'a Text),
    Clip(&'a ClipPath),
    Mask(&'a Mask),
    Filter(&'a filter::Filter),
    Pattern(&'a Pattern),
    Linear(&'a LinearGradient),
    Radial(&'a RadialGradient),
    /// a nested tree (SVG image); items of it follow
    SubTree(&'a usvg::Tree),
    /// the walk was cut (reference chain deeper than any well-founded tree of this size)
    TooDeep,
}

const MAX_DEPTH: usize = 400;

thread_local! {
    /// whether the walk enters nested SVG images (separate `Tree`s with their own collections)
    static DESCEND_IMAGES: std::cell::Cell<bool> = std::cell::Cell::new(true);
}

/// walk one `Tree` only; nested SVG images are reported as `Item::SubTree` but not entered
pub fn walk_tree_shallow<'a>(t: &'a usvg::Tree, f: &mut dyn FnMut(Item<'a>, &str)) {
    DESCEND_IMAGES.with(|d| d.set(false));
    walk_group(t.root(), 0, "root", f);
    DESCEND_IMAGES.with(|d| d.set(true));
}

pub fn walk_tree<'a>(t: &'a usvg::Tree, f: &mut dyn FnMut(Item<'a>, &str)) {
    walk_group(t.root(), 0, "root", f);
}

fn walk_paint<'a>(p: &'a Paint, depth: usize, at: &str, f: &mut dyn FnMut(Item<'a>, &str)) {
    match p {
        Paint::Color(_) => {}
        Paint::LinearGradient(lg) => f(Item::Linear(lg), at),
        Paint::RadialGradient(rg) => f(Item::Radial(rg), at),
        Paint::Pattern(p) => {
            f(Item::Pattern(p), at);
            walk_group(p.root(), depth + 1, &format!("{}/pattern({})", at, p.id()), f);
        }
    }
}

fn walk_clip<'a>(c: &'a ClipPath, depth: usize, at: &str, f: &mut dyn FnMut(Item<'a>, &str)) {
    if depth > MAX_DEPTH {
        f(Item::TooDeep, at);
        return;
    }
    f(Item::Clip(c), at);
    let here = format!("{}/clip({})", at, c.id());
    if let Some(cc) = c.clip_path() {
        walk_clip(cc, depth + 1, &here, f);
    }
    walk_group(c.root(), depth + 1, &here, f);
}

fn walk_mask<'a>(m: &'a Mask, depth: usize, at: &str, f: &mut dyn FnMut(Item<'a>, &str)) {
    if depth > MAX_DEPTH {
        f(Item::TooDeep, at);
        return;
    }
    f(Item::Mask(m), at);
    let here = format!("{}/mask({})", at, m.id());
    if let Some(mm) = m.mask() {
        walk_mask(mm, depth + 1, &here, f);
    }
    walk_group(m.root(), depth + 1, &here, f);
}

pub fn walk_group<'a>(g: &'a Group, depth: usize, at: &str, f: &mut dyn FnMut(Item<'a>, &str)) {
    if depth > MAX_DEPTH {
        f(Item::TooDeep, at);
        return;
    }
    f(Item::Group(g), at);
    if let Some(c) = g.clip_path() {
        walk_clip(c, depth + 1, at, f);
    }
    if let Some(m) = g.mask() {
        walk_mask(m, depth + 1, at, f);
    }
    for flt in g.filters() {
        f(Item::Filter(flt), at);
        for p in flt.primitives() {
            if let filter::Kind::Image(im) = p.kind() {
                walk_group(im.root(), depth + 1, &format!("{}/filter({})/feImage", at, flt.id()), f);
            }
        }
    }
    for (i, n) in g.children().iter().enumerate() {
        let here = format!("{}/{}", at, i);
        match n {
            Node::Group(gg) => walk_group(gg, depth + 1, &here, f),
            Node::Path(p) => {
                f(Item::Path(p), &here);
                if let Some(fill) = p.fill() {
                    walk_paint(fill.paint(), depth, &here, f);
                }
                if let Some(st) = p.stroke() {
                    walk_paint(st.paint(), depth, &here, f);
                }
            }
            Node::Image(im) => {
                f(Item::Image(im), &here);
                if let ImageKind::SVG(t) = im.kind() {
                    f(Item::SubTree(t), &here);
                    if DESCEND_IMAGES.with(|d| d.get()) {
                        walk_group(t.root(), depth + 1, &format!("{}/svg-image", here), f);
                    }
                }
            }
            Node::Text(t) => {
                f(Item::Text(t), &here);
                let span_at = format!("{}/text-span", here);
                for ch in t.chunks() {
                    for sp in ch.spans() {
                        let d = sp.decoration();
                        let decos = [d.underline(), d.overline(), d.line_through()];
                        for fill in sp.fill().into_iter().chain(decos.iter().filter_map(|x| x.and_then(|x| x.fill()))) {
                            walk_paint(fill.paint(), depth, &span_at, f);
                        }
                        for st in sp.stroke().into_iter().chain(decos.iter().filter_map(|x| x.and_then(|x| x.stroke()))) {
                            walk_paint(st.paint(), depth, &span_at, f);
                        }
                    }
                }
                walk_group(t.flattened(), depth + 1, &format!("{}/flattened", here), f);
            }
        }
    }
}

pub struct Viol {
    pub sig: String,
    pub what: String,
}

fn fin_ts(t: usvg::Transform) -> bool {
    t.sx.is_finite() && t.kx.is_finite() && t.ky.is_finite() && t.sy.is_finite() && t.tx.is_finite() && t.ty.is_finite()
}

fn pos_rect(r: usvg::NonZeroRect) -> bool {
    r.x().is_finite() && r.y().is_finite() && r.width().is_finite() && r.height().is_finite() && r.width() > 0.0 && r.height() > 0.0
}

fn check_stroke(st: &usvg::Stroke, at: &str, v: &mut Vec<Viol>) {
    let w = st.width().get();
    if !(w.is_finite() && w > 0.0) {
        v.push(Viol { sig: "C04:stroke-width".into(), what: format!("{}: stroke width {}", at, w) });
    }
    let m = st.miterlimit().get();
    if !(m >= 1.0) {
        v.push(Viol { sig: "C04:miterlimit".into(), what: format!("{}: miter limit {}", at, m) });
    }
    if let Some(d) = st.dasharray() {
        if d.is_empty() || d.len() % 2 != 0 {
            v.push(Viol { sig: "C04:dash-length".into(), what: format!("{}: dash list of length {}", at, d.len()) });
        }
        if d.iter().any(|x| !(*x >= 0.0)) {
            v.push(Viol { sig: "C04:dash-negative".into(), what: format!("{}: dash list {:?}", at, d) });
        }
        if d.iter().all(|x| *x == 0.0) {
            v.push(Viol { sig: "C04:dash-all-zero".into(), what: format!("{}: dash list {:?}", at, d) });
        }
    }
}

fn check_stops(stops: &[usvg::Stop], at: &str, v: &mut Vec<Viol>) {
    if stops.len() < 2 {
        v.push(Viol { sig: "C04:stops-count".into(), what: format!("{}: gradient with {} stop(s)", at, stops.len()) });
    }
    let mut prev = f32::NEG_INFINITY;
    for s in stops {
        let o = s.offset().get();
        if !(0.0..=1.0).contains(&o) {
            v.push(Viol { sig: "C04:stop-range".into(), what: format!("{}: stop offset {}", at, o) });
        }
        if o < prev {
            let all: Vec<f32> = stops.iter().map(|s| s.offset().get()).collect();
            v.push(Viol { sig: "C04:stops-descending".into(), what: format!("{}: stop offsets {:?}", at, all) });
            break;
        }
        prev = o;
    }
}

/// C04: every value is resolved and valid
pub fn check_c04(t: &usvg::Tree, v: &mut Vec<Viol>) {
    walk_tree(t, &mut |it, at| match it {
        Item::Group(g) => {
            if !fin_ts(g.transform()) {
                v.push(Viol { sig: "C04:transform-nonfinite:group-own".into(), what: format!("{}: group transform {:?}", at, g.transform()) });
            } else if !fin_ts(g.abs_transform()) {
                v.push(Viol { sig: "C04:transform-nonfinite:group-abs-product-overflow".into(), what: format!("{}: group transform {:?} abs {:?}", at, g.transform(), g.abs_transform()) });
            }
        }
        Item::Path(p) => {
            let d = p.data();
            let segs: Vec<_> = d.segments().collect();
            if segs.len() < 2 {
                v.push(Viol { sig: "C04:path-segments".into(), what: format!("{}: path with {} segment(s)", at, segs.len()) });
            }
            if !matches!(segs.first(), Some(usvg::tiny_skia_path::PathSegment::MoveTo(_))) {
                v.push(Viol { sig: "C04:path-start".into(), what: format!("{}: path does not start with a move", at) });
            }
            if d.points().iter().any(|p| !p.x.is_finite() || !p.y.is_finite()) {
                v.push(Viol { sig: "C04:path-nonfinite".into(), what: format!("{}: non-finite path coordinate", at) });
            }
            if !fin_ts(p.abs_transform()) {
                v.push(Viol { sig: "C04:transform-nonfinite:path-abs".into(), what: format!("{}: path abs transform {:?}", at, p.abs_transform()) });
            }
            if let Some(st) = p.stroke() {
                check_stroke(st, at, v);
            }
        }
        Item::Image(im) => {
            if !fin_ts(im.abs_transform()) {
                v.push(Viol { sig: "C04:transform-nonfinite:image-abs".into(), what: format!("{}: image abs transform", at) });
            }
        }
        Item::Text(tx) => {
            if !fin_ts(tx.abs_transform()) {
                v.push(Viol { sig: "C04:transform-nonfinite:text-abs".into(), what: format!("{}: text abs transform", at) });
            }
            for (ci, ch) in tx.chunks().iter().enumerate() {
                let s = ch.text();
                for sp in ch.spans() {
                    let ok = sp.start() <= sp.end() && sp.end() <= s.len() && s.is_char_boundary(sp.start()) && s.is_char_boundary(sp.end());
                    if !ok {
                        v.push(Viol { sig: "C04:text-span".into(), what: format!("{}: chunk {} span {}..{} of {:?} (len {})", at, ci, sp.start(), sp.end(), s, s.len()) });
                    }
                    if let Some(st) = sp.stroke() {
                        check_stroke(st, at, v);
                    }
                    let fs = sp.font_size().get();
                    if !(fs.is_finite() && fs > 0.0) {
                        v.push(Viol { sig: "C04:font-size".into(), what: format!("{}: font size {}", at, fs) });
                    }
                }
            }
        }
        Item::Clip(c) => {
            if !fin_ts(c.transform()) {
                v.push(Viol { sig: "C04:transform-nonfinite:clip-path".into(), what: format!("{}: clip path {} transform {:?}", at, c.id(), c.transform()) });
            }
        }
        Item::Mask(m) => {
            if !pos_rect(m.rect()) {
                v.push(Viol { sig: "C04:mask-region".into(), what: format!("{}: mask {} region {:?}", at, m.id(), m.rect()) });
            }
        }
        Item::Filter(fl) => {
            if !pos_rect(fl.rect()) {
                v.push(Viol { sig: "C04:filter-region".into(), what: format!("{}: filter {} region {:?}", at, fl.id(), fl.rect()) });
            }
            for p in fl.primitives() {
                if !pos_rect(p.rect()) {
                    v.push(Viol { sig: "C04:primitive-region".into(), what: format!("{}: filter {} primitive region {:?}", at, fl.id(), p.rect()) });
                }
            }
        }
        Item::Pattern(p) => {
            if !pos_rect(p.rect()) {
                v.push(Viol { sig: "C04:pattern-region".into(), what: format!("{}: pattern {} region {:?}", at, p.id(), p.rect()) });
            }
            if !fin_ts(p.transform()) {
                v.push(Viol { sig: "C04:transform-nonfinite:pattern".into(), what: format!("{}: pattern {} transform {:?}", at, p.id(), p.transform()) });
            }
        }
        Item::Linear(lg) => {
            check_stops(lg.stops(), at, v);
            if !fin_ts(lg.transform()) {
                v.push(Viol { sig: "C04:transform-nonfinite:gradient".into(), what: format!("{}: linear gradient {} transform {:?}", at, lg.id(), lg.transform()) });
            }
        }
        Item::Radial(rg) => {
            check_stops(rg.stops(), at, v);
            if !(rg.r().get() > 0.0 && rg.r().get().is_finite()) {
                v.push(Viol { sig: "C04:radial-radius".into(), what: format!("{}: radial gradient {} radius {}", at, rg.id(), rg.r().get()) });
            }
            if !fin_ts(rg.transform()) {
                v.push(Viol { sig: "C04:transform-nonfinite:gradient".into(), what: format!("{}: radial gradient {} transform {:?}", at, rg.id(), rg.transform()) });
            }
        }
        Item::SubTree(_) | Item::TooDeep => {}
    });
    check_written_units(t, v);
}

/// attributes whose value must be a plain number / number list in the written form
const NUMERIC_ATTRS: [&str; 48] = [
    "x", "y", "width", "height", "cx", "cy", "r", "rx", "ry", "fx", "fy", "x1", "y1", "x2", "y2", "offset", "stroke-width", "stroke-dasharray",
    "stroke-dashoffset", "stroke-miterlimit", "font-size", "opacity", "fill-opacity", "stroke-opacity", "stop-opacity", "flood-opacity", "stdDeviation",
    "dx", "dy", "k1", "k2", "k3", "k4", "scale", "surfaceScale", "diffuseConstant", "specularConstant", "specularExponent", "baseFrequency", "seed",
    "bias", "divisor", "slope", "intercept", "amplitude", "exponent", "letter-spacing", "word-spacing",
];

fn plain_numbers(s: &str) -> bool {
    !s.is_empty()
        && s.split(|c: char| c == ' ' || c == ',').filter(|p| !p.is_empty()).all(|p| {
            // `inf` / `NaN` tokens are numbers without a unit: their finiteness is C07's clause, not this one
            p.parse::<f64>().is_ok()
        })
}

/// the written form carries only absolute user-space numbers
pub fn check_written_units(t: &usvg::Tree, v: &mut Vec<Viol>) {
    let text = t.to_string(&usvg::WriteOptions::default());
    let Ok(doc) = usvg::roxmltree::Document::parse_with_options(&text, usvg::roxmltree::ParsingOptions { allow_dtd: true, nodes_limit: u32::MAX }) else {
        // well-formedness is C07's business
        return;
    };
    for n in doc.descendants().filter(|n| n.is_element()) {
        let tag = n.tag_name().name();
        if tag == "text" || tag == "tspan" || tag == "textPath" {
            // preserved text keeps the author's positioning lists; numbers there are still checked below
        }
        // the writer leaves a units attribute out when it has the SVG default: for these two the default is
        // objectBoundingBox, so a definition written WITHOUT the attribute still is in bounding-box units
        for (el, at) in [("linearGradient", "gradientUnits"), ("radialGradient", "gradientUnits"), ("pattern", "patternUnits")] {
            if tag == el && n.attribute(at).is_none() {
                v.push(Viol { sig: format!("C04:written-units:{}-defaults-to-objectBoundingBox", el), what: format!("<{} id=\"{}\"> is written without {} (default objectBoundingBox)", tag, n.attribute("id").unwrap_or(""), at) });
            }
        }
        for a in n.attributes() {
            let (name, val) = (a.name(), a.value());
            if name.ends_with("Units") && val != "userSpaceOnUse" {
                v.push(Viol { sig: "C04:written-units".into(), what: format!("<{} {}=\"{}\">", tag, name, val) });
            }
            if val == "inherit" {
                v.push(Viol { sig: "C04:written-inherit".into(), what: format!("<{} {}=\"inherit\">", tag, name) });
            }
            if NUMERIC_ATTRS.contains(&name) && !(tag == "feFuncR" && name == "type") {
                // `x`/`y`/`dx`/`dy` lists of text elements are number lists too
                if !plain_numbers(val) {
                    v.push(Viol { sig: format!("C04:written-number:{}", name), what: format!("<{} {}=\"{}\">", tag, name, &val[..val.len().min(80)]) });
                }
            }
            if name == "transform" || name.ends_with("Transform") {
                let inner = val.trim();
                let ok = inner.strip_prefix("matrix(").and_then(|r| r.strip_suffix(')')).map(plain_numbers).unwrap_or(false)
                    || inner.strip_prefix("translate(").and_then(|r| r.strip_suffix(')')).map(plain_numbers).unwrap_or(false)
                    || inner.strip_prefix("scale(").and_then(|r| r.strip_suffix(')')).map(plain_numbers).unwrap_or(false);
                if !ok {
                    v.push(Viol { sig: "C04:written-transform".into(), what: format!("<{} {}=\"{}\">", tag, name, &val[..val.len().min(80)]) });
                }
            }
        }
    }
}

// ---------------------------------------------------------------------------------------------
// C05: references are closed, unique and well-founded
// ---------------------------------------------------------------------------------------------

fn input_ids_unique(data: &[u8]) -> bool {
    let Ok(text) = std::str::from_utf8(data) else { return false };
    let Ok(doc) = usvg::roxmltree::Document::parse_with_options(text, usvg::roxmltree::ParsingOptions { allow_dtd: true, nodes_limit: u32::MAX }) else {
        return false;
    };
    let mut seen = std::collections::HashSet::new();
    for n in doc.descendants().filter(|n| n.is_element()) {
        if let Some(id) = n.attribute("id") {
            if !seen.insert(id.to_string()) {
                return false;
            }
        }
    }
    true
}

fn check_filter_params(fl: &filter::Filter, at: &str, v: &mut Vec<Viol>) {
    let mut results: Vec<&str> = vec![];
    for (i, p) in fl.primitives().iter().enumerate() {
        let mut inputs: Vec<&filter::Input> = vec![];
        match p.kind() {
            filter::Kind::Blend(k) => inputs.extend([k.input1(), k.input2()]),
            filter::Kind::ColorMatrix(k) => {
                inputs.push(k.input());
                if let filter::ColorMatrixKind::Matrix(m) = k.kind() {
                    if m.len() != 20 {
                        v.push(Viol { sig: "C05:color-matrix-size".into(), what: format!("{}: filter {} feColorMatrix with {} values", at, fl.id(), m.len()) });
                    }
                }
            }
            filter::Kind::ComponentTransfer(k) => inputs.push(k.input()),
            filter::Kind::Composite(k) => inputs.extend([k.input1(), k.input2()]),
            filter::Kind::ConvolveMatrix(k) => {
                inputs.push(k.input());
                let m = k.matrix();
                let ok = m.columns() > 0 && m.rows() > 0 && m.data().len() == (m.columns() * m.rows()) as usize && m.target_x() < m.columns() && m.target_y() < m.rows() && k.divisor().get() != 0.0;
                if !ok {
                    v.push(Viol { sig: "C05:convolve-matrix-shape".into(), what: format!("{}: filter {} feConvolveMatrix {}x{} data {} target {},{} divisor {}", at, fl.id(), m.columns(), m.rows(), m.data().len(), m.target_x(), m.target_y(), k.divisor().get()) });
                }
            }
            filter::Kind::DiffuseLighting(k) => inputs.push(k.input()),
            filter::Kind::DisplacementMap(k) => inputs.extend([k.input1(), k.input2()]),
            filter::Kind::DropShadow(k) => inputs.push(k.input()),
            filter::Kind::GaussianBlur(k) => inputs.push(k.input()),
            filter::Kind::Merge(k) => inputs.extend(k.inputs().iter()),
            filter::Kind::Morphology(k) => {
                inputs.push(k.input());
                if !(k.radius_x().get() >= 0.0 && k.radius_y().get() >= 0.0) {
                    v.push(Viol { sig: "C05:morphology-radius".into(), what: format!("{}: filter {} radius {} {}", at, fl.id(), k.radius_x().get(), k.radius_y().get()) });
                }
            }
            filter::Kind::Offset(k) => inputs.push(k.input()),
            filter::Kind::SpecularLighting(k) => {
                inputs.push(k.input());
                let e = k.specular_exponent();
                if !(1.0..=128.0).contains(&e) {
                    v.push(Viol { sig: "C05:specular-exponent".into(), what: format!("{}: filter {} specularExponent {}", at, fl.id(), e) });
                }
            }
            filter::Kind::Tile(k) => inputs.push(k.input()),
            filter::Kind::Flood(_) | filter::Kind::Image(_) | filter::Kind::Turbulence(_) => {}
        }
        for inp in inputs {
            if let filter::Input::Reference(name) = inp {
                if !results.contains(&name.as_str()) {
                    v.push(Viol { sig: "C05:filter-input-dangling".into(), what: format!("{}: filter {} primitive {} reads result {:?}; earlier results: {:?}", at, fl.id(), i, name, results) });
                }
            }
        }
        results.push(p.result());
    }
}

pub fn check_c05(t: &usvg::Tree, ids_unique_in_input: bool, where_: &str, v: &mut Vec<Viol>) {
    use std::collections::{HashMap, HashSet};
    use std::sync::Arc;
    // reachable definitions by address, with the place they were first met
    let mut reach: [HashMap<usize, (String, String)>; 6] = Default::default();
    let names = ["linear-gradient", "radial-gradient", "pattern", "clip-path", "mask", "filter"];
    let mut node_ids: Vec<(String, usize, bool, &'static str)> = vec![]; // id, address, in main tree (not a sub-root)
    let mut subtrees: Vec<(&usvg::Tree, String)> = vec![];
    walk_tree_shallow(t, &mut |it, at| {
        let in_main = !at.contains('(') && !at.contains("feImage") && !at.contains("flattened");
        let flattened = at.contains("/flattened");
        let cat: &'static str = if at.contains("feImage") { "feImage-content" } else if at.contains("/pattern(") { "pattern-content" } else if at.contains("/clip(") { "clip-content" } else if at.contains("/mask(") { "mask-content" } else if flattened { "flattened-text" } else { "main" };
        let mut def = |k: usize, addr: usize, id: &str| {
            if id.is_empty() {
                v.push(Viol { sig: format!("C05:empty-id:{}", names[k]), what: format!("{}{}: {} without id", where_, at, names[k]) });
            }
            reach[k].entry(addr).or_insert((at.to_string(), id.to_string()));
        };
        match it {
            Item::Linear(x) => def(0, x as *const _ as usize, x.id()),
            Item::Radial(x) => def(1, x as *const _ as usize, x.id()),
            Item::Pattern(x) => def(2, x as *const _ as usize, x.id()),
            Item::Clip(x) => def(3, x as *const _ as usize, x.id()),
            Item::Mask(x) => def(4, x as *const _ as usize, x.id()),
            Item::Filter(x) => {
                def(5, x as *const _ as usize, x.id());
                check_filter_params(x, at, v);
            }
            Item::Group(g) => {
                if !g.id().is_empty() && !(flattened && at.ends_with("/flattened")) {
                    node_ids.push((g.id().to_string(), g as *const _ as usize, in_main, cat));
                }
            }
            Item::Path(p) => {
                if !p.id().is_empty() {
                    node_ids.push((p.id().to_string(), p as *const _ as usize, in_main, cat));
                }
            }
            Item::Image(p) => {
                if !p.id().is_empty() {
                    node_ids.push((p.id().to_string(), p as *const _ as usize, in_main, cat));
                }
            }
            Item::Text(p) => {
                if !p.id().is_empty() {
                    node_ids.push((p.id().to_string(), p as *const _ as usize, in_main, cat));
                }
            }
            Item::SubTree(st) => subtrees.push((st, format!("{}{}/svg-image:", where_, at))),
            Item::TooDeep => v.push(Viol { sig: "C05:chain-not-finite".into(), what: format!("{}{}: reference chain deeper than {}", where_, at, MAX_DEPTH) }),
        }
    });
    // collections
    let coll: [Vec<(usize, String)>; 6] = [
        t.linear_gradients().iter().map(|a| (Arc::as_ptr(a) as usize, a.id().to_string())).collect(),
        t.radial_gradients().iter().map(|a| (Arc::as_ptr(a) as usize, a.id().to_string())).collect(),
        t.patterns().iter().map(|a| (Arc::as_ptr(a) as usize, a.id().to_string())).collect(),
        t.clip_paths().iter().map(|a| (Arc::as_ptr(a) as usize, a.id().to_string())).collect(),
        t.masks().iter().map(|a| (Arc::as_ptr(a) as usize, a.id().to_string())).collect(),
        t.filters().iter().map(|a| (Arc::as_ptr(a) as usize, a.id().to_string())).collect(),
    ];
    for k in 0..6 {
        let mut seen = HashSet::new();
        for (addr, id) in &coll[k] {
            if !seen.insert(*addr) {
                v.push(Viol { sig: format!("C05:collection-duplicate:{}", names[k]), what: format!("{}{} {} listed twice", where_, names[k], id) });
            }
            if id.is_empty() {
                v.push(Viol { sig: format!("C05:empty-id:{}", names[k]), what: format!("{}{} in collection without id", where_, names[k]) });
            }
        }
        for (addr, (at, id)) in &reach[k] {
            if !seen.contains(addr) {
                let how = if at.contains("/text-span") { "text-span" } else if at.contains("/clip(") && k == 3 { "nested-chain" } else if at.contains("/mask(") && k == 4 { "nested-chain" } else { "missing" };
                v.push(Viol { sig: format!("C05:not-in-collection:{}:{}", names[k], how), what: format!("{}{} {:?} reachable at {} is not in the tree's collection {:?}", where_, names[k], id, at, coll[k].iter().map(|c| c.1.clone()).collect::<Vec<_>>()) });
            }
        }
    }
    // id uniqueness across all definitions and renderable nodes
    if ids_unique_in_input {
        let mut all: HashMap<String, String> = HashMap::new();
        for k in 0..6 {
            for (addr, id) in &coll[k] {
                // where the definition is used: colour-font glyph sub-trees live in flattened text
                let origin = match reach[k].get(addr) {
                    Some((at, _)) if at.contains("/flattened") => "(in-flattened-text)",
                    _ => "",
                };
                let me = format!("{}{}", names[k], origin);
                if let Some(prev) = all.insert(id.clone(), me.clone()) {
                    v.push(Viol { sig: format!("C05:duplicate-id:{}+{}", prev, me), what: format!("{}id {:?} carried by a {} and a {}", where_, id, prev, me) });
                }
            }
        }
        let mut seen_nodes: HashMap<String, (usize, &'static str)> = HashMap::new();
        for (id, addr, _, cat) in &node_ids {
            if let Some((prev, pcat)) = seen_nodes.get(id) {
                if prev != addr {
                    let (a, b) = if pcat <= cat { (pcat, cat) } else { (cat, pcat) };
                    v.push(Viol { sig: format!("C05:duplicate-id:node({})+node({})", a, b), what: format!("{}id {:?} carried by two renderable nodes ({} and {})", where_, id, a, b) });
                }
            } else {
                seen_nodes.insert(id.clone(), (*addr, cat));
                if let Some(prev) = all.get(id) {
                    v.push(Viol { sig: format!("C05:duplicate-id:{}+node", prev), what: format!("{}id {:?} carried by a {} and a renderable node", where_, id, prev) });
                }
            }
        }
    }
    // lookup by id
    for (id, addr, in_main, _) in &node_ids {
        if !*in_main {
            continue;
        }
        let got = t.node_by_id(id).map(|n| match n {
            Node::Group(g) => &**g as *const _ as usize,
            Node::Path(p) => &**p as *const _ as usize,
            Node::Image(p) => &**p as *const _ as usize,
            Node::Text(p) => &**p as *const _ as usize,
        });
        match got {
            None => v.push(Viol { sig: "C05:node-by-id:none".into(), what: format!("{}node_by_id({:?}) found nothing although a node carries the id", where_, id) }),
            Some(a) if a != *addr && ids_unique_in_input => {
                // with unique ids the node found must be the one carrying the id
                if t.node_by_id(id).map(|n| n.id() != id).unwrap_or(true) {
                    v.push(Viol { sig: "C05:node-by-id:wrong".into(), what: format!("{}node_by_id({:?}) returned a node with another id", where_, id) });
                }
            }
            _ => {}
        }
    }
    for (st, w) in subtrees {
        // nested documents are parsed on their own; their ids are unique within themselves only if checked there
        check_c05(st, false, &w, v);
    }
}

// ---------------------------------------------------------------------------------------------
// C07: written SVG is well-formed, self-contained and re-parsable
// ---------------------------------------------------------------------------------------------

pub fn write_options(k: u64) -> (usvg::WriteOptions, String) {
    use usvg::Indent;
    let mut rng = Rng::new(k);
    let mut w = usvg::WriteOptions::default();
    let prefixes: [Option<&str>; 4] = [None, Some("pre_"), Some("p&<\"'>\u{e9} "), Some("-1.")];
    let pi = rng.below(4) as usize;
    w.id_prefix = prefixes[pi].map(|s| s.to_string());
    w.preserve_text = rng.chance(1, 2);
    w.use_single_quote = rng.chance(1, 2);
    let indents = [Indent::None, Indent::Spaces(0), Indent::Spaces(2), Indent::Spaces(4), Indent::Tabs];
    let ii = rng.below(5) as usize;
    let ai = rng.below(5) as usize;
    w.indent = indents[ii];
    w.attributes_indent = indents[ai];
    let precs = [0u8, 1, 2, 3, 5, 8, 8, 8, 12, 13, 100, 255];
    w.coordinates_precision = *rng.pick(&precs);
    w.transforms_precision = *rng.pick(&precs);
    let desc = format!(
        "prefix={:?} preserve_text={} single_quote={} indent#{} attr_indent#{} cprec={} tprec={}",
        w.id_prefix, w.preserve_text, w.use_single_quote, ii, ai, w.coordinates_precision, w.transforms_precision
    );
    (w, desc)
}

fn plain_decimal(tok: &str) -> bool {
    let t = tok.strip_prefix('-').unwrap_or(tok);
    let mut parts = t.splitn(2, '.');
    let (a, b) = (parts.next().unwrap_or(""), parts.next());
    !a.is_empty() && a.bytes().all(|c| c.is_ascii_digit()) && b.map(|b| !b.is_empty() && b.bytes().all(|c| c.is_ascii_digit())).unwrap_or(true)
}

fn number_list_ok(s: &str) -> bool {
    s.split(|c: char| c == ' ' || c == ',').filter(|p| !p.is_empty()).all(plain_decimal)
}

pub fn check_written(text: &str, desc: &str, v: &mut Vec<Viol>) -> bool {
    let doc = match usvg::roxmltree::Document::parse_with_options(text, usvg::roxmltree::ParsingOptions { allow_dtd: true, nodes_limit: u32::MAX }) {
        Ok(d) => d,
        Err(e) => {
            let kind = format!("{:?}", e);
            let kind = kind.split('(').next().unwrap_or("?").to_string();
            let pos = e.pos();
            let line = text.lines().nth(pos.row.saturating_sub(1) as usize).unwrap_or("");
            let col = (pos.col as usize).saturating_sub(1).min(line.len());
            let mut lo = col.saturating_sub(60);
            while !line.is_char_boundary(lo) { lo -= 1; }
            let mut hi = (col + 40).min(line.len());
            while !line.is_char_boundary(hi) { hi += 1; }
            v.push(Viol { sig: format!("C07:ill-formed:{}", kind), what: format!("[{}] {} near: {}", desc, e, &line[lo..hi]) });
            return false;
        }
    };
    let root = doc.root_element();
    if root.tag_name().name() != "svg" || root.tag_name().namespace() != Some("http://www.w3.org/2000/svg") {
        v.push(Viol { sig: "C07:root".into(), what: format!("[{}] root element {:?}", desc, root.tag_name()) });
    }
    let mut ids: std::collections::HashMap<&str, usize> = Default::default();
    // how many of the carriers of an id sit under <defs>, how many in the body
    let mut ids_where: std::collections::HashMap<&str, (usize, usize)> = Default::default();
    for n in doc.descendants().filter(|n| n.is_element()) {
        if let Some(id) = n.attribute("id") {
            *ids.entry(id).or_insert(0) += 1;
            let in_defs = n.ancestors().any(|a| a.is_element() && a.tag_name().name() == "defs");
            let e = ids_where.entry(id).or_insert((0, 0));
            if in_defs { e.0 += 1 } else { e.1 += 1 }
        }
    }
    for n in doc.descendants().filter(|n| n.is_element()) {
        let tag = n.tag_name().name();
        for a in n.attributes() {
            let (name, val) = (a.name(), a.value());
            let mut refs: Vec<&str> = vec![];
            let mut rest = val;
            while let Some(i) = rest.find("url(#") {
                let after = &rest[i + 5..];
                // ids may contain ')' only in hostile input; the writer closes with the last ')'
                let end = after.find(')').unwrap_or(after.len());
                refs.push(&after[..end]);
                rest = &after[end..];
            }
            if name == "href" && val.starts_with('#') {
                refs.push(&val[1..]);
            }
            for r in refs {
                match ids.get(r).copied().unwrap_or(0) {
                    1 => {}
                    0 => v.push(Viol { sig: format!("C07:dangling-reference:{}@{}", name, tag), what: format!("[{}] <{} {}=\"{}\"> refers to no element of the written text", desc, tag, name, val) }),
                    k => {
                        let (d, b) = ids_where.get(r).copied().unwrap_or((0, 0));
                        v.push(Viol { sig: format!("C07:ambiguous-reference:{}@{}:defs{}+body{}", name, tag, d.min(3), b.min(3)), what: format!("[{}] <{} {}=\"{}\"> refers to {} elements with that id ({} under defs, {} in the body)", desc, tag, name, val, k, d, b) })
                    }
                }
            }
            let numeric = NUMERIC_ATTRS.contains(&name) || matches!(name, "points" | "tableValues" | "kernelMatrix" | "values" | "order" | "targetX" | "targetY" | "numOctaves" | "radius" | "azimuth" | "elevation" | "z" | "pointsAtX" | "pointsAtY" | "pointsAtZ" | "limitingConeAngle" | "kernelUnitLength" | "startOffset" | "textLength" | "rotate");
            if numeric && !(name == "values" && tag != "feColorMatrix") && !(name == "rotate" && !val.chars().next().map(|c| c.is_ascii_digit() || c == '-').unwrap_or(false)) {
                if !number_list_ok(val) {
                    v.push(Viol { sig: format!("C07:number:{}", name), what: format!("[{}] <{} {}=\"{}\">", desc, tag, name, &val[..val.len().min(100)]) });
                }
            }
            if name == "transform" || name.ends_with("Transform") {
                let inner = val.trim();
                let ok = ["matrix(", "translate(", "scale("].iter().any(|p| inner.strip_prefix(p).and_then(|r| r.strip_suffix(')')).map(number_list_ok).unwrap_or(false));
                if !ok {
                    v.push(Viol { sig: "C07:number:transform".into(), what: format!("[{}] <{} {}=\"{}\">", desc, tag, name, &val[..val.len().min(100)]) });
                }
            }
            if name == "d" && tag == "path" {
                let ok = val.split(' ').filter(|t| !t.is_empty()).all(|t| matches!(t, "M" | "L" | "Q" | "C" | "Z") || plain_decimal(t));
                if !ok {
                    let bad = val.split(' ').find(|t| !t.is_empty() && !matches!(*t, "M" | "L" | "Q" | "C" | "Z") && !plain_decimal(t)).unwrap_or("");
                    v.push(Viol { sig: "C07:number:path-data".into(), what: format!("[{}] path data token {:?}", desc, bad) });
                }
            }
        }
    }
    true
}

pub fn check_c07(t: &usvg::Tree, data: &[u8], v: &mut Vec<Viol>) {
    let h = crate::util::hash64(&String::from_utf8_lossy(data));
    let mut variants = vec![(usvg::WriteOptions::default(), "default".to_string())];
    for k in 0..3 {
        variants.push(write_options(h.wrapping_add(k)));
    }
    let n0 = crate::jobs::count_nodes(t.root());
    for (w, desc) in variants {
        let text = match crate::pan::catch(|| t.to_string(&w)) {
            Ok(s) => s,
            Err(ps) => {
                v.push(Viol { sig: format!("C07:writer-panic:{}", ps.site), what: format!("[{}] Tree::to_string panicked", desc) });
                continue;
            }
        };
        if !check_written(&text, &desc, v) {
            continue;
        }
        let mut o = crate::corpus::opts_for(None);
        o.fontdb = t.fontdb().clone();
        match crate::pan::catch(|| usvg::Tree::from_str(&text, &o)) {
            Ok(Ok(t2)) => {
                let n2 = crate::jobs::count_nodes(t2.root());
                let (s1, s2) = (t.size(), t2.size());
                if (s1.width() - s2.width()).abs() > 1e-3 * s1.width().max(1.0) || (s1.height() - s2.height()).abs() > 1e-3 * s1.height().max(1.0) {
                    v.push(Viol { sig: "C07:reparse-size".into(), what: format!("[{}] size {:?} became {:?}", desc, s1, s2) });
                }
                // "a tree of the same size": the canvas size above.  The node count legitimately differs (text is
                // written as outlines, groups are re-simplified, sub-precision transforms vanish); whether the
                // content survives is C08's question (the rendering is compared there).
                let _ = (n0, n2);
            }
            Ok(Err(e)) => v.push(Viol { sig: "C07:reparse-rejected".into(), what: format!("[{}] usvg rejects its own output: {}", desc, e) }),
            Err(ps) => v.push(Viol { sig: format!("C07:reparse-panic:{}", ps.site), what: format!("[{}] usvg panics on its own output", desc) }),
        }
    }
}

/// run all contracts of `prop` on a tree
pub fn check(prop: &str, t: &usvg::Tree, data: &[u8]) -> Vec<Viol> {
    let mut v = vec![];
    match prop {
        "C04" => check_c04(t, &mut v),
        "C05" => check_c05(t, input_ids_unique(data), "", &mut v),
        "C07" => check_c07(t, data, &mut v),
        _ => {}
    }
    v
}

// ---------------------------------------------------------------------------------------------
// the shared input domain of the tree-contract properties and the worker-isolated runner
// ---------------------------------------------------------------------------------------------
use crate::util::{budget_mult, Rng, Search};
use crate::worker::{hex_encode, Outcome, Worker};
use std::time::Duration;

pub struct Doc {
    pub class: String,
    pub path: Option<std::path::PathBuf>,
    pub data: Vec<u8>,
    pub dpi: f32,
}

/// corpus files (all of them in the thorough tier), grammar-generated documents, and the systematic
/// attribute sweep of the two rich base documents (a deterministic slice of it in the quick tier)
pub fn domain(tier: &str, seed: u64, f: &mut dyn FnMut(Doc)) {
    let mut rng = Rng::new(seed ^ 0xD0_4A1);
    let mult = budget_mult() as usize;
    let thorough = tier == "thorough";
    let nc = if thorough { 0 } else { 400 * mult.min(4) };
    for p in crate::corpus::sample(nc, seed) {
        let Ok(data) = std::fs::read(&p) else { continue };
        f(Doc { class: "corpus".into(), path: Some(p), data, dpi: 96.0 });
    }
    let ng = (if thorough { 3000 } else { 250 }) * mult;
    for _ in 0..ng {
        let (w, h) = (rng.range(10, 200) as u32, rng.range(10, 200) as u32);
        let svg = crate::gen::random_doc(&mut rng, crate::gen::Cfg::full(w, h));
        f(Doc { class: "generated".into(), path: None, data: svg.into_bytes(), dpi: *rng.pick(&[96.0, 96.0, 72.0, 300.0]) });
    }
    // attribute sweep: every attribute of the base documents × every pool value
    let stride = if thorough { 1 } else { (7 / mult.min(7)).max(1) };
    let mut k = (seed % stride as u64) as usize;
    for (name, base) in [("base1", include_str!("../data/base1.svg")), ("base2", include_str!("../data/base2.svg"))] {
        let b = base.as_bytes();
        let mut i = 0;
        while i + 1 < b.len() {
            if b[i] == b'=' && b[i + 1] == b'"' {
                let st = i + 2;
                if let Some(len) = base[st..].find('"') {
                    let an = base[..i].rsplit(|c: char| c == ' ' || c == '\n' || c == '<').next().unwrap_or("");
                    if !an.starts_with("xmlns") {
                        for v in crate::c01::POOL.iter().chain(EXTRA_POOL.iter()) {
                            k += 1;
                            if k % stride != 0 {
                                continue;
                            }
                            let doc = format!("{}{}{}", &base[..st], v, &base[st + len..]);
                            f(Doc { class: format!("attr-sweep-{}", name), path: None, data: doc.into_bytes(), dpi: 96.0 });
                        }
                    }
                    i = st + len;
                }
            }
            i += 1;
        }
    }
}

/// values that are valid but sit on the edges the converters normalise
pub const EXTRA_POOL: [&str; 14] = ["0.5", "1", "1e-7", "0.1 0.2", "5 0", "0 0", "3", "1 2 3", "-0.5", "200%", "2em", "1mm", "1e-3", "0.99999994"];

/// run `prop`'s contracts on every document of the domain plus `extra`, in the worker child
pub fn run_contracts(prop: &str, tier: &str, seed: u64, s: &mut Search, extra: Vec<Doc>) {
    let mut wk = Worker::spawn();
    let timeout = Duration::from_secs(20);
    let mut one = |d: Doc, s: &mut Search| {
        let path = d.path.as_ref().map(|p| hex_encode(p.to_string_lossy().as_bytes())).unwrap_or_else(|| "-".into());
        let out = wk.run(&format!("contract {} {} {} {}", prop, d.dpi, path, hex_encode(&d.data)), timeout);
        let key = match &d.path {
            Some(p) => p.to_string_lossy().to_string(),
            None => String::from_utf8_lossy(&d.data).to_string(),
        };
        match &out {
            Outcome::Answer(a) if a.starts_with("ok") => s.case(&d.class, &key, true),
            Outcome::Answer(a) if a.starts_with("viol ") => {
                s.case(&d.class, &key, true);
                for part in a[5..].split('\u{2}') {
                    let mut it = part.splitn(2, '\u{1}');
                    let (sig, what) = (it.next().unwrap_or("?"), it.next().unwrap_or(""));
                    s.finding(&format!("oracle:{}", sig), what, &key);
                }
            }
            Outcome::Answer(a) if a.starts_with("check-panic") => {
                s.case(&d.class, &key, true);
                s.finding(&format!("panic-in-accessor:{}", a), "walking the tree through its public accessors panicked", &key);
            }
            // unparsable input / parser panics and crashes: outside this property's quantifier (C01 decides them)
            Outcome::Answer(_) => s.case(&format!("{}-rejected", d.class), &key, false),
            _ => {
                s.case(&format!("{}-crashed", d.class), &key, false);
                wk = Worker::spawn();
            }
        }
    };
    for d in extra {
        one(d, s);
    }
    domain(tier, seed, &mut |d| one(d, s));
}
