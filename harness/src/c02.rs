//! C02: layer rectangles, fit_to_rect, filter size bookkeeping, pattern tiles; render totality.
use crate::gen;
use crate::pan::{self, PanicSite};
use crate::util::*;
use crate::worker::{hex_encode, Outcome, Worker};
use resvg::tiny_skia;
use std::time::Duration;

pub struct Traced {
    pub lines: Vec<String>,
    pub panic: Option<PanicSite>,
    pub pixmap: Option<tiny_skia::Pixmap>,
}

pub fn traced_render(tree: &usvg::Tree, w: u32, h: u32, ts: tiny_skia::Transform) -> Traced {
    let Some(mut pm) = tiny_skia::Pixmap::new(w, h) else {
        return Traced { lines: vec![], panic: None, pixmap: None };
    };
    resvg::verif::trace_start();
    let r = pan::catch(|| resvg::render(tree, ts, &mut pm.as_mut()));
    let lines = resvg::verif::trace_take();
    Traced { lines, panic: r.err(), pixmap: Some(pm) }
}

pub fn find_filter<'a>(tree: &'a usvg::Tree, id: &str) -> Option<&'a usvg::filter::Filter> {
    tree.filters().iter().find(|f| f.id() == id).map(|f| &**f)
}

fn fin(input: &usvg::filter::Input, prims: &[usvg::filter::Primitive], i: usize) -> String {
    match input {
        usvg::filter::Input::SourceGraphic | usvg::filter::Input::SourceAlpha => "s".to_string(),
        usvg::filter::Input::Reference(name) => {
            for j in (0..i).rev() {
                if prims[j].result() == name {
                    return format!("r{}", j);
                }
            }
            "s".to_string()
        }
    }
}

/// line-protocol description of a filter's primitives (kind + resolved inputs)
pub fn prim_tokens(f: &usvg::filter::Filter) -> Vec<String> {
    use usvg::filter::Kind as K;
    let ps = f.primitives();
    let mut v = vec![];
    for (i, p) in ps.iter().enumerate() {
        let t = match p.kind() {
            K::Blend(fe) => format!("blend:{}:{}", fin(fe.input1(), ps, i), fin(fe.input2(), ps, i)),
            K::DropShadow(fe) => format!("dropshadow:{}", fin(fe.input(), ps, i)),
            K::Flood(_) => "flood".to_string(),
            K::GaussianBlur(fe) => format!("gaussianblur:{}", fin(fe.input(), ps, i)),
            K::Offset(fe) => format!("offset:{}", fin(fe.input(), ps, i)),
            K::Composite(fe) => {
                let arith = matches!(fe.operator(), usvg::filter::CompositeOperator::Arithmetic { .. });
                format!("{}:{}:{}", if arith { "arithmetic" } else { "composite" }, fin(fe.input1(), ps, i), fin(fe.input2(), ps, i))
            }
            K::Merge(fe) => {
                if fe.inputs().is_empty() {
                    "merge".to_string()
                } else {
                    format!("merge:{}", fe.inputs().iter().map(|x| fin(x, ps, i)).collect::<Vec<_>>().join(","))
                }
            }
            K::Tile(fe) => format!("tile:{}", fin(fe.input(), ps, i)),
            K::Image(_) => "image".to_string(),
            K::ComponentTransfer(fe) => format!("componenttransfer:{}", fin(fe.input(), ps, i)),
            K::ColorMatrix(fe) => format!("colormatrix:{}", fin(fe.input(), ps, i)),
            K::ConvolveMatrix(fe) => format!("convolvematrix:{}", fin(fe.input(), ps, i)),
            K::Morphology(fe) => format!("morphology:{}", fin(fe.input(), ps, i)),
            K::DisplacementMap(fe) => format!("displacementmap:{}:{}", fin(fe.input1(), ps, i), fin(fe.input2(), ps, i)),
            K::Turbulence(_) => "turbulence".to_string(),
            K::DiffuseLighting(fe) => format!("diffuselighting:{}", fin(fe.input(), ps, i)),
            K::SpecularLighting(fe) => format!("specularlighting:{}", fin(fe.input(), ps, i)),
        };
        v.push(t);
    }
    v
}

/// Turn a render trace into correspondence requests. Returns the number of requests emitted.
pub fn trace_to_requests(tree: &usvg::Tree, tr: &Traced, c: &mut Corr) -> usize {
    let lines = &tr.lines;
    let n0 = c.n;
    let panic_in = |file_part: &str| tr.panic.as_ref().map(|p| p.site.contains(file_part)).unwrap_or(false);
    // nesting of layers: (max box, layer rectangle) of the enclosing layers; feImage subtrees use
    // their own context and are skipped for the child-box check
    let mut stack: Vec<Option<(String, String)>> = vec![];
    for (k, l) in lines.iter().enumerate() {
        let t: Vec<&str> = l.split(' ').collect();
        match t[0] {
            "layer_in" if t.len() == 10 => {
                if let Some(Some((pmb, pib))) = stack.last() {
                    c.emit(&format!("childmax {} {}", pmb, pib), &format!("{} {} {} {}", t[6], t[7], t[8], t[9]));
                }
                // does this layer get rendered? (its layer_out follows immediately)
                let next = lines.get(k + 1).map(|s| s.as_str()).unwrap_or("");
                if let Some(rest) = next.strip_prefix("layer_out ") {
                    let o: Vec<&str> = rest.split(' ').collect();
                    stack.push(Some((format!("{} {} {} {}", t[6], t[7], t[8], t[9]), format!("{} {} {} {}", o[0], o[1], o[2], o[3]))));
                }
            }
            "layer_end" => {
                stack.pop();
            }
            "filter_prim" if t.get(1) == Some(&"image") => stack.push(None),
            "filter_res" => {
                if let Some(None) = stack.last() {
                    stack.pop();
                }
            }
            _ => {}
        }
    }
    let mut i = 0;
    while i < lines.len() {
        let l = &lines[i];
        let t: Vec<&str> = l.split(' ').collect();
        if t[0] == "layer_in" && t.len() == 10 {
            let req = format!("layer {} {} {} {} {} {} {} {} {}", t[1], t[2], t[3], t[4], t[5], t[6], t[7], t[8], t[9]);
            let next = lines.get(i + 1).map(|s| s.as_str()).unwrap_or("");
            if next.starts_with("layer_out ") {
                let o: Vec<&str> = next.split(' ').collect();
                c.emit(&req, &format!("ok {} {} {} {}", o[1], o[2], o[3], o[4]));
                // shift_ts
                if o.len() == 19 {
                    let outer = o[6..12].join(" ");
                    let local = o[13..19].join(" ");
                    c.emit(&format!("layerts {} {} {} {} {}", t[1], t[2], o[1], o[2], outer), &canon_zero(&local));
                }
                i += 2;
                continue;
            } else if i + 1 == lines.len() && (panic_in("src/render.rs") || panic_in("/src/rect.rs")) {
                c.emit(&req, &format!("panic:{}", tr.panic.as_ref().unwrap().site.split("_@").next().unwrap_or("")));
            } else {
                c.emit(&req, "none");
            }
        } else if t[0] == "filter_region" && t.len() == 10 {
            i = parse_filter(tree, tr, lines, i, c);
            continue;
        } else if t[0] == "pattern_in" && t.len() == 3 {
            let next = lines.get(i + 1).map(|s| s.as_str()).unwrap_or("");
            if let Some(rest) = next.strip_prefix("pattern_out ") {
                c.emit(&format!("tile {} {}", t[1], t[2]), &format!("some {}", rest));
                i += 2;
                continue;
            } else {
                c.emit(&format!("tile {} {}", t[1], t[2]), "none");
            }
        }
        i += 1;
    }
    c.n - n0
}

fn canon_zero(bits: &str) -> String {
    bits.split(' ').map(|b| if b == "80000000" { "00000000" } else { b }).collect::<Vec<_>>().join(" ")
}

/// parse one `filter_region` block starting at `i`; returns the index after it
fn parse_filter(tree: &usvg::Tree, tr: &Traced, lines: &[String], mut i: usize, c: &mut Corr) -> usize {
    let t: Vec<&str> = lines[i].split(' ').collect();
    let (rw, rh, sw, sh, id) = (t[3], t[4], t[6], t[7], t[9]);
    i += 1;
    let mut sizes: Vec<String> = vec![];
    let mut complete = true;
    loop {
        if i >= lines.len() || !lines[i].starts_with("filter_prim ") {
            break;
        }
        i += 1;
        // nested activity (feImage subtree) until this primitive's filter_res
        loop {
            if i >= lines.len() {
                complete = false;
                break;
            }
            if lines[i].starts_with("filter_res ") {
                let r: Vec<&str> = lines[i].split(' ').collect();
                sizes.push(format!("{}x{}", r[1], r[2]));
                i += 1;
                break;
            } else if lines[i].starts_with("filter_region ") {
                i = parse_filter(tree, tr, lines, i, c);
            } else if lines[i].starts_with("layer_") || lines[i].starts_with("pattern_") {
                i += 1;
            } else {
                // next primitive without a result: the primitive returned Err
                complete = false;
                break;
            }
        }
        if !complete {
            break;
        }
    }
    if let Some(f) = find_filter(tree, id) {
        let toks = prim_tokens(f);
        let at_end = i >= lines.len();
        let panicked_here = at_end && !complete && tr.panic.as_ref().map(|p| p.site.contains("src/filter/")).unwrap_or(false);
        let mut ans = sizes.join(" ");
        if panicked_here {
            // the model predicts the assertion that fires, not the function name the hook appends
            ans = format!("{} panic:{}", ans, tr.panic.as_ref().unwrap().site.split("_@").next().unwrap_or("")).trim().to_string();
        }
        c.emit(&format!("sizebook {} {} {} {} {} {}", rw, rh, sw, sh, sizes.len(), toks.join(" ")).trim_end().to_string(), &ans);
    }
    i
}

fn rand_ts(rng: &mut Rng) -> tiny_skia::Transform {
    match rng.below(9) {
        0 | 1 => tiny_skia::Transform::identity(),
        2 => tiny_skia::Transform::from_translate(rng.range(-40, 40) as f32, rng.range(-40, 40) as f32),
        3 => tiny_skia::Transform::from_translate(rng.f32_in(-30.0, 30.0), rng.f32_in(-30.0, 30.0)),
        4 => {
            let s = *rng.pick(&[0.01f32, 0.1, 0.5, 2.0, 3.0, 10.0, 50.0]);
            tiny_skia::Transform::from_scale(s, s)
        }
        5 => tiny_skia::Transform::from_rotate(rng.f32_in(-180.0, 180.0)),
        6 => tiny_skia::Transform::from_skew(rng.f32_in(-1.0, 1.0), rng.f32_in(-1.0, 1.0)),
        7 => tiny_skia::Transform::from_row(1.0, 0.5, 2.0, 1.0 + 1e-6, 3.0, 4.0), // near-singular
        _ => tiny_skia::Transform::from_scale(rng.f32_in(0.2, 4.0), rng.f32_in(0.2, 4.0)).post_translate(rng.f32_in(-20.0, 20.0), rng.f32_in(-20.0, 20.0)),
    }
}

fn rand_canvas(rng: &mut Rng) -> (u32, u32) {
    match rng.below(6) {
        0 => (1, 1),
        1 => (1, rng.range(1, 300) as u32),
        2 => (rng.range(1, 300) as u32, 1),
        3 => (512, 512),
        _ => (rng.range(2, 200) as u32, rng.range(2, 200) as u32),
    }
}

pub fn corr(tier: &str, seed: u64, c: &mut Corr) {
    let mut rng = Rng::new(seed ^ 0xC02);
    // ---- fit_to_rect direct, boundary values included
    let nfit = if tier == "thorough" { 20000 } else { 2000 };
    let edge: [i32; 10] = [0, 1, -1, 100, -100, i32::MAX - 1, i32::MIN, i32::MIN + 1, 1 << 30, -(1 << 30)];
    let mut ir = |rng: &mut Rng| -> tiny_skia::IntRect {
        loop {
            let x = if rng.chance(1, 5) { *rng.pick(&edge) } else { rng.range(-300, 300) as i32 };
            let y = if rng.chance(1, 5) { *rng.pick(&edge) } else { rng.range(-300, 300) as i32 };
            let w = if rng.chance(1, 8) { *rng.pick(&[1u32, 2, i32::MAX as u32, 1 << 30]) } else { rng.range(1, 400) as u32 };
            let h = if rng.chance(1, 8) { *rng.pick(&[1u32, 2, i32::MAX as u32, 1 << 30]) } else { rng.range(1, 400) as u32 };
            if let Some(r) = tiny_skia::IntRect::from_xywh(x, y, w, h) {
                return r;
            }
        }
    };
    for _ in 0..nfit {
        let r = ir(&mut rng);
        let b = ir(&mut rng);
        let ans = match resvg::verif::fit_to_rect(r, b) {
            Some(q) => format!("some {} {} {} {}", q.x(), q.y(), q.width(), q.height()),
            None => "none".to_string(),
        };
        c.emit(&format!("fit {} {} {} {} {} {} {} {}", r.x(), r.y(), r.width(), r.height(), b.x(), b.y(), b.width(), b.height()), &ans);
    }
    // ---- traces: generated documents under many transforms and canvases
    let ndocs = if tier == "thorough" { 1500 } else { 150 };
    for _ in 0..ndocs {
        let (w, h) = (rng.range(20, 120) as u32, rng.range(20, 120) as u32);
        let mut cfg = gen::Cfg::full(w, h);
        cfg.text = false;
        let svg = gen::random_doc(&mut rng, cfg);
        let Ok(tree) = usvg::Tree::from_str(&svg, &crate::corpus::opts_for(None)) else { continue };
        let (cw, ch) = rand_canvas(&mut rng);
        let ts = rand_ts(&mut rng);
        let tr = traced_render(&tree, cw, ch, ts);
        trace_to_requests(&tree, &tr, c);
    }
    // ---- traces: corpus files
    let ncorp = if tier == "thorough" { 0 } else { 120 };
    for p in crate::corpus::sample(ncorp, seed) {
        let Ok(data) = std::fs::read(&p) else { continue };
        let o = crate::corpus::opts_for(Some(&p));
        let Ok(Ok(tree)) = pan::catch(|| usvg::Tree::from_data(&data, &o)) else { continue };
        let size = tree.size().to_int_size();
        let (cw, ch, ts) = if rng.chance(1, 2) {
            (size.width().min(512), size.height().min(512), tiny_skia::Transform::identity())
        } else {
            let (cw, ch) = rand_canvas(&mut rng);
            (cw, ch, rand_ts(&mut rng))
        };
        let tr = traced_render(&tree, cw, ch, ts);
        trace_to_requests(&tree, &tr, c);
    }
    // ---- max box for the canvas sizes of the quantifier
    for (w, h) in [(1u32, 1u32), (512, 512), (1, 300), (300, 1), (20, 20), (4096, 4096)] {
        let mb = tiny_skia::IntRect::from_xywh(-(w as i32) * 2, -(h as i32) * 2, w * 5, h * 5).unwrap();
        c.emit(&format!("maxbbox {} {}", w, h), &format!("ok {} {} {} {}", mb.x(), mb.y(), mb.width(), mb.height()));
    }
    // ---- known panicking layers (recorded findings): the model must predict the same site
    for svg in [WIDE_GROUP, CLAMPED_ARITH, TWO_FILTERS_LIGHT] {
        if let Ok(tree) = usvg::Tree::from_str(svg, &crate::corpus::opts_for(None)) {
            let tr = traced_render(&tree, 20, 20, tiny_skia::Transform::identity());
            trace_to_requests(&tree, &tr, c);
        }
    }
}

pub const WIDE_GROUP: &str = r#"<svg xmlns="http://www.w3.org/2000/svg" width="20" height="20"><g opacity=".5"><rect width="3e10" height="10"/></g></svg>"#;
pub const CLAMPED_ARITH: &str = r#"<svg xmlns="http://www.w3.org/2000/svg" width="20" height="20"><filter id="f" filterUnits="userSpaceOnUse" x="-1000" y="-1000" width="3000" height="3000"><feFlood flood-color="red" result="a"/><feComposite in="SourceGraphic" in2="a" operator="arithmetic" k2="1" k3="1"/></filter><rect width="10" height="10" filter="url(#f)"/></svg>"#;
pub const TWO_FILTERS_LIGHT: &str = r#"<svg xmlns="http://www.w3.org/2000/svg" width="20" height="20"><filter id="f"><feOffset/></filter><filter id="g" filterUnits="userSpaceOnUse" x="2" y="2" width="4" height="4"><feDiffuseLighting><feDistantLight/></feDiffuseLighting></filter><rect width="10" height="10" filter="url(#f) url(#g)"/></svg>"#;
pub const HUGE_PATTERN: &str = r##"<svg xmlns="http://www.w3.org/2000/svg" width="20" height="20"><pattern id="p" patternUnits="userSpaceOnUse" width="100000" height="100000"><rect width="5" height="5"/></pattern><rect width="20" height="20" fill="url(#p)"/></svg>"##;

// ------------------------------------------------------------------------------------------
// implementation-side oracle: totality + memory bound on the real renderer (worker process)

fn ts_hex(t: tiny_skia::Transform) -> String {
    format!("{} {} {} {} {} {}", hx(t.sx), hx(t.ky), hx(t.kx), hx(t.sy), hx(t.tx), hx(t.ty))
}

pub fn render_job(svg: &[u8], w: u32, h: u32, ts: tiny_skia::Transform) -> String {
    // cap: 25 canvases of RGBA + 1 MiB slack for small canvases and bookkeeping vectors
    let cap = 25usize * 4 * (w as usize) * (h as usize) + (4 << 20);
    format!("render {} {} {} {} {}", w, h, ts_hex(t_fix(ts)), cap, hex_encode(svg))
}

fn t_fix(t: tiny_skia::Transform) -> tiny_skia::Transform {
    t
}

pub fn classify(out: &Outcome) -> Option<(String, String)> {
    match out {
        Outcome::Answer(a) => {
            if let Some(site) = a.strip_prefix("panic ") {
                // an assertion / overflow inside tiny-skia's rasteriser (scan converter, alpha runs) is one defect of
                // the dependency whatever resvg function handed it the huge coordinates: no call site in the signature
                if site.starts_with("tiny-skia-#.#.#/src/scan/") || site.starts_with("tiny-skia-#.#.#/src/alpha_runs.rs") {
                    let core = site.split("_@").next().unwrap_or(site);
                    return Some((format!("dep:{}", core), format!("render panicked inside the rasteriser of the dependency: {}", site)));
                }
                Some((format!("panic:{}", site), format!("render panicked: {}", site)))
            } else {
                None
            }
        }
        Outcome::Timeout => Some(("hang:render".to_string(), "rendering did not finish within the budget".to_string())),
        Outcome::Crash { how, stderr } => {
            if let Some(i) = stderr.find("ALLOC-CAP") {
                let tail = &stderr[i..];
                let line = tail.split(" | ").next().unwrap_or(tail);
                let func = line.split(" in ").nth(1).unwrap_or("?").trim();
                // every region-sized surface of a filter has one root cause: apply_inner recomputes the un-clamped region
                let site = if func.starts_with("resvg::filter::") { "resvg::filter::apply_inner(unclamped-region)" } else { func };
                Some((format!("alloc:{}", site), format!("single allocation beyond 25 canvases refused: {}", line)))
            } else if stderr.contains("stack overflow") {
                Some(("crash:stack-overflow".to_string(), format!("{} {}", how, stderr)))
            } else {
                Some((format!("crash:{}", how.replace(' ', "-")), stderr.clone()))
            }
        }
    }
}

pub fn search(tier: &str, seed: u64, s: &mut Search) {
    let mut rng = Rng::new(seed ^ 0x5EA7C02);
    let mult = budget_mult();
    let mut wk = Worker::spawn();
    let timeout = Duration::from_secs(20);
    let mut run = |wk: &mut Worker, s: &mut Search, class: &str, svg: &str, w: u32, h: u32, ts: tiny_skia::Transform| {
        let job = render_job(svg.as_bytes(), w, h, ts);
        let out = wk.run(&job, timeout);
        let key = format!("{}x{} ts={:?} {}", w, h, (ts.sx, ts.ky, ts.kx, ts.sy, ts.tx, ts.ty), svg);
        let nontrivial = matches!(&out, Outcome::Answer(a) if a.starts_with("ok"));
        s.case(class, &key, nontrivial);
        if !matches!(out, Outcome::Answer(_)) {
            *wk = Worker::spawn();
        }
        if out == Outcome::Timeout && (w > 32 || h > 32) {
            // "bounded time" is judged against the cost model (per-pixel kernels are polynomial in the
            // layer area): retry on a 32x32 canvas; only a run that does not finish there is a hang.
            let job = render_job(svg.as_bytes(), w.min(32), h.min(32), ts);
            let out2 = wk.run(&job, timeout);
            let hang_at = wk.last_hang.take();
            if !matches!(out2, Outcome::Answer(_)) {
                *wk = Worker::spawn();
            }
            if out2 == Outcome::Timeout {
                // name the per-pixel kernel whose window is not clamped to the canvas, if the document has one
                let sig = if svg.contains("<feMorphology") { "slow:feMorphology-window-on-unclamped-region" } else if svg.contains("<feConvolveMatrix") { "slow:feConvolveMatrix" } else if svg.contains("<feTurbulence") && svg.contains("numOctaves") { "slow:feTurbulence-numOctaves-unbounded" } else { "hang:render" };
                // an unnamed one: where it was executing when the budget ran out
                let sig_owned = if sig == "hang:render" { format!("hang:render_@{}", hang_at.unwrap_or_else(|| "?".into())) } else { sig.to_string() };
                let sig = sig_owned.as_str();
                s.finding(sig, "rendering does not finish within 20 s even on a 32x32 canvas", &key);
            } else {
                s.case("slow-but-bounded", &key, false);
                if let Some((sig, what)) = classify(&out2) {
                    s.finding(&sig, &what, &key);
                }
            }
            return;
        }
        if let Some((sig, what)) = classify(&out) {
            s.finding(&sig, &what, &key);
        }
    };
    // recorded witnesses first
    for (svg, class) in [(WIDE_GROUP, "witness"), (CLAMPED_ARITH, "witness"), (TWO_FILTERS_LIGHT, "witness"), (HUGE_PATTERN, "witness")] {
        run(&mut wk, s, class, svg, 20, 20, tiny_skia::Transform::identity());
    }
    // filter regions and primitive subregions of extreme position and extent, also relative to one another
    {
        let vals = ["-100000000", "2000000000", "100000100", "1", "0", "-2147483648", "4294967296", "50"];
        let nsub = (if tier == "thorough" { 400 } else { 60 }) * mult;
        for _ in 0..nsub {
            let mut v = |rng: &mut Rng| *rng.pick(&vals);
            let prim = match rng.below(4) {
                0 => format!(r#"<feFlood flood-color="red" x="{}" y="{}" width="{}" height="{}"/>"#, v(&mut rng), v(&mut rng), v(&mut rng), v(&mut rng)),
                1 => format!(r#"<feOffset dx="1" x="{}" width="{}"/><feTile/>"#, v(&mut rng), v(&mut rng)),
                2 => format!(r#"<feFlood x="{}" y="0" width="{}" height="10"/><feTile/>"#, v(&mut rng), v(&mut rng)),
                _ => format!(r#"<feGaussianBlur stdDeviation="1" x="{}" y="{}" width="{}" height="{}"/>"#, v(&mut rng), v(&mut rng), v(&mut rng), v(&mut rng)),
            };
            let svg = format!(
                r##"<svg xmlns="http://www.w3.org/2000/svg" width="20" height="20"><filter id="f" filterUnits="userSpaceOnUse" x="{}" y="{}" width="{}" height="{}">{prim}</filter><rect width="20" height="20" filter="url(#f)"/></svg>"##,
                v(&mut rng), v(&mut rng), v(&mut rng), v(&mut rng)
            );
            run(&mut wk, s, "extreme-subregion", &svg, 20, 20, tiny_skia::Transform::identity());
        }
    }
    // feTurbulence with every boundary seed (the generator is seeded with |seed|, reduced)
    for sd in ["-2147483648", "-2147483647", "2147483647", "2147483646", "-1", "0", "4294967296", "-1e300", "1e300", "0.5"] {
        for ty in ["turbulence", "fractalNoise"] {
            let svg = format!(r##"<svg xmlns="http://www.w3.org/2000/svg" width="20" height="20"><filter id="f"><feTurbulence type="{ty}" baseFrequency="0.05" numOctaves="2" seed="{sd}" stitchTiles="stitch"/></filter><rect width="20" height="20" filter="url(#f)"/></svg>"##);
            run(&mut wk, s, "turbulence-seed", &svg, 20, 20, tiny_skia::Transform::identity());
        }
    }
    // every small seed, at a frequency that visits many lattice cells: a gradient vector the generator leaves at (0, 0)
    // cannot be normalised (seed 346 is the first)
    for sd in 0..(if tier == "thorough" { 4000 } else { 700 }) {
        let svg = format!(r##"<svg xmlns="http://www.w3.org/2000/svg" width="24" height="24"><filter id="f" x="0" y="0" width="1" height="1"><feTurbulence baseFrequency="0.93 0.71" numOctaves="1" seed="{sd}"/></filter><rect width="24" height="24" filter="url(#f)"/></svg>"##);
        run(&mut wk, s, "turbulence-every-seed", &svg, 24, 24, tiny_skia::Transform::identity());
    }
    // feTurbulence with many octaves: the lattice coordinate doubles per octave and leaves every integer type
    for oct in ["30", "53", "62", "63", "64", "65", "100", "255", "2147483648"] {
        for ty in ["turbulence", "fractalNoise"] {
            let svg = format!(r##"<svg xmlns="http://www.w3.org/2000/svg" width="16" height="16"><filter id="f"><feTurbulence type="{ty}" baseFrequency="0.05 0.3" numOctaves="{oct}" stitchTiles="{}"/></filter><rect width="16" height="16" filter="url(#f)"/></svg>"##, if oct.len() % 2 == 0 { "stitch" } else { "noStitch" });
            run(&mut wk, s, "turbulence-octaves", &svg, 16, 16, tiny_skia::Transform::identity());
        }
    }
    // generated documents × canvases × transforms
    let n = (if tier == "thorough" { 2500 } else { 220 }) * mult;
    for i in 0..n {
        let (w, h) = (rng.range(10, 100) as u32, rng.range(10, 100) as u32);
        let svg = gen::random_doc(&mut rng, gen::Cfg::full(w, h));
        let (cw, ch) = rand_canvas(&mut rng);
        let ts = rand_ts(&mut rng);
        run(&mut wk, s, if i % 2 == 0 { "generated" } else { "generated-b" }, &svg, cw, ch, ts);
    }
    // per-pixel kernels on thin layers: every small layer extent against every kernel size
    // (box / IIR blur radii, morphology and convolve windows, displacement, tile) on both axes
    let sigmas = ["0.3", "1", "1.9", "2", "2.5", "3", "4", "5", "6", "8", "10", "12", "20"];
    let mut k = 0usize;
    for extent in 1..=16u32 {
        for sg in sigmas {
            for vertical in [false, true] {
                k += 1;
                let (rw, rh) = if vertical { (40, extent) } else { (extent, 40) };
                let prim = match (k / 2) % 6 {
                    0 | 1 => format!(r#"<feGaussianBlur stdDeviation="{sg}"/>"#),
                    2 => format!(r#"<feDropShadow dx="1" dy="1" stdDeviation="{sg}"/>"#),
                    3 => format!(r#"<feMorphology operator="dilate" radius="{sg}"/>"#),
                    4 => format!(r#"<feGaussianBlur stdDeviation="{sg} 0"/><feGaussianBlur stdDeviation="0 {sg}"/>"#),
                    _ => format!(r#"<feConvolveMatrix order="3" kernelMatrix="1 1 1 1 1 1 1 1 1"/><feGaussianBlur stdDeviation="{sg}"/><feTile/>"#),
                };
                // the filter region is the shape itself, so the layer is exactly `extent` pixels thin
                let svg = format!(
                    r##"<svg xmlns="http://www.w3.org/2000/svg" width="60" height="60"><filter id="f" filterUnits="userSpaceOnUse" x="5" y="5" width="{rw}" height="{rh}">{prim}</filter><rect x="5" y="5" width="{rw}" height="{rh}" fill="green" filter="url(#f)"/></svg>"##
                );
                run(&mut wk, s, "thin-layer", &svg, 60, 60, tiny_skia::Transform::identity());
                // and with the default (objectBoundingBox, 10% margin) region
                let svg = format!(
                    r##"<svg xmlns="http://www.w3.org/2000/svg" width="60" height="60"><filter id="f">{prim}</filter><rect x="8" y="8" width="{rw}" height="{rh}" fill="green" filter="url(#f)"/></svg>"##
                );
                run(&mut wk, s, "thin-layer", &svg, 60, 60, tiny_skia::Transform::identity());
            }
        }
    }
    // kernels, targets and offsets larger than the region they work on: every neighbourhood primitive with every
    // edge mode on thin shapes, rendered at full size and as a thumbnail (where a modest kernel dwarfs the region)
    let nk = (if tier == "thorough" { 1200 } else { 150 }) * mult;
    for i in 0..nk {
        let (rw, rh) = match i % 4 {
            0 => (rng.range(1, 6), rng.range(20, 60)),
            1 => (rng.range(20, 60), rng.range(1, 6)),
            2 => (rng.range(2, 12), rng.range(2, 12)),
            _ => (rng.range(20, 80), rng.range(20, 80)),
        };
        let (ox, oy) = (rng.range(1, 15) as usize, rng.range(1, 15) as usize);
        let (ox, oy) = if rng.chance(1, 2) { (ox, 1) } else if rng.chance(1, 2) { (1, oy) } else { (ox.min(5), oy.min(5)) };
        let kernel: Vec<String> = (0..ox * oy).map(|_| rng.pick(&["1", "0", "-1", "2", "0.5"]).to_string()).collect();
        let prim = match rng.below(7) {
            0 | 1 | 2 => format!(
                r#"<feConvolveMatrix order="{ox} {oy}" kernelMatrix="{}" targetX="{}" targetY="{}" edgeMode="{}" preserveAlpha="{}"{}/>"#,
                kernel.join(" "), rng.below(ox as u64), rng.below(oy as u64), rng.pick(&["wrap", "wrap", "duplicate", "none"]), rng.pick(&["true", "false"]),
                if rng.chance(1, 3) { r#" divisor="3" bias="0.1""# } else { "" }
            ),
            3 => format!(r#"<feMorphology operator="{}" radius="{} {}"/>"#, rng.pick(&["erode", "dilate"]), rng.range(0, 90), rng.range(0, 90)),
            4 => format!(r#"<feOffset dx="{}" dy="{}"/><feTile/>"#, rng.range(-120, 120), rng.range(-120, 120)),
            5 => format!(r##"<feFlood flood-color="#804020" result="m"/><feDisplacementMap in="SourceGraphic" in2="m" scale="{}" xChannelSelector="R" yChannelSelector="A"/>"##, rng.range(-300, 300)),
            _ => format!(r#"<feGaussianBlur stdDeviation="{} {}"/>"#, rng.range(0, 200), rng.range(0, 200)),
        };
        let region = if rng.chance(1, 2) { format!(r#" filterUnits="userSpaceOnUse" x="10" y="10" width="{rw}" height="{rh}""#) } else { String::new() };
        let svg = format!(
            r##"<svg xmlns="http://www.w3.org/2000/svg" width="100" height="100"><filter id="f"{region}>{prim}</filter><rect x="10" y="10" width="{rw}" height="{rh}" fill="green" filter="url(#f)"/><circle cx="60" cy="60" r="{}" fill="#00f" filter="url(#f)"/></svg>"##,
            rng.range(2, 30)
        );
        let scale = *rng.pick(&[1.0f32, 1.0, 0.5, 0.1, 0.05, 0.025, 0.01, 3.0]);
        let side = ((100.0 * scale).ceil() as u32).clamp(1, 300);
        run(&mut wk, s, "kernel-vs-region", &svg, side, side, tiny_skia::Transform::from_scale(scale, scale));
    }
    // SVG images nested in SVG images (data URLs), each level with an isolated group around content far larger than
    // any canvas: the layers of an inner level must stay bounded by the outermost canvas, not grow per level
    for depth in 1..=5usize {
        for variant in 0..(if tier == "thorough" { 6 } else { 2 }) {
            fn level(depth: usize, variant: usize, size: u32) -> String {
                let image = if depth > 0 {
                    format!(r#"<image x="0" y="0" width="{size}" height="{size}" xlink:href="data:image/svg+xml;base64,{}"/>"#, crate::c17::b64(level(depth - 1, variant, size).as_bytes()))
                } else {
                    String::new()
                };
                let effect = [r#" opacity="0.5""#, r#" filter="url(#f)""#, r#" mask="url(#k)""#][variant % 3];
                format!(
                    r##"<svg xmlns="http://www.w3.org/2000/svg" xmlns:xlink="http://www.w3.org/1999/xlink" width="{size}" height="{size}" viewBox="0 0 {size} {size}"><defs><filter id="f" filterUnits="userSpaceOnUse" x="-1e6" y="-1e6" width="2e6" height="2e6"><feOffset dx="1"/></filter><mask id="k" maskUnits="userSpaceOnUse" x="-1e6" y="-1e6" width="2e6" height="2e6"><rect x="-1e6" y="-1e6" width="2e6" height="2e6" fill="white"/></mask></defs><g{effect}><rect x="-1000000" y="-1000000" width="2000000" height="2000000" fill="green"/>{image}</g></svg>"##
                )
            }
            let size = if variant < 3 { 16 } else { 40 };
            let svg = level(depth, variant, size);
            let job = render_job(svg.as_bytes(), size, size, tiny_skia::Transform::identity());
            let out = wk.run(&job, timeout);
            let key = format!("{} levels of nested SVG images, variant {}, on {}x{}: {}", depth, variant, size, size, svg);
            s.case("nested-svg-image", &key, matches!(&out, Outcome::Answer(a) if a.starts_with("ok")));
            if !matches!(out, Outcome::Answer(_)) {
                wk = Worker::spawn();
            }
            if let Some((sig, what)) = classify(&out) {
                s.finding(&sig, &format!("{} ({} levels of nested SVG images)", what, depth), &key);
            }
        }
    }
    // node export: one node of the tree rendered alone (resvg::render_node) onto a canvas whose size has nothing to
    // do with the node's — the canvas, not the node's own box, bounds the surfaces
    let nn = (if tier == "thorough" { 600 } else { 60 }) * mult;
    for i in 0..nn {
        let big = *rng.pick(&["10", "300", "5000", "100000", "5e8", "3e9"]);
        let (bw, bh) = if rng.chance(1, 2) { (big, "40") } else { ("40", big) };
        let effect = match (i / 2) % 6 {
            0 => "",
            1 => r#" opacity="0.5""#,
            2 => r#" filter="url(#f)""#,
            3 => r#" clip-path="url(#c)""#,
            4 => r#" mask="url(#k)""#,
            _ => r#" style="mix-blend-mode:multiply""#,
        };
        let inner = if i % 2 == 0 {
            format!(r#"<rect id="n" x="5" y="5" width="{bw}" height="{bh}" fill="teal" stroke="black" stroke-width="3"{effect}/>"#)
        } else {
            format!(r#"<g id="n"{effect}><rect x="5" y="5" width="{bw}" height="{bh}" fill="teal"/><g opacity="0.7"><circle cx="30" cy="30" r="20" fill="gold"/><rect width="{bw}" height="{bh}" fill="none" stroke="red" stroke-width="2"/></g></g>"#)
        };
        let svg = format!(
            r##"<svg xmlns="http://www.w3.org/2000/svg" width="100" height="100"><defs><filter id="f"><feGaussianBlur stdDeviation="2"/></filter><clipPath id="c"><circle cx="40" cy="40" r="1e6"/><rect width="30" height="30"/></clipPath><mask id="k"><rect width="1e7" height="1e7" fill="white"/></mask></defs>{inner}</svg>"##
        );
        let (cw, ch) = match rng.below(4) {
            0 => (100, 100),
            1 => (1, 512),
            2 => (16, 16),
            _ => rand_canvas(&mut rng),
        };
        let ts = if rng.chance(1, 2) { tiny_skia::Transform::identity() } else { rand_ts(&mut rng) };
        let job = format!("{} n", render_job(svg.as_bytes(), cw, ch, ts));
        let out = wk.run(&job, timeout);
        let key = format!("render_node #n onto {}x{} ts={:?} {}", cw, ch, (ts.sx, ts.ky, ts.kx, ts.sy, ts.tx, ts.ty), svg);
        s.case("node-export", &key, matches!(&out, Outcome::Answer(a) if a.starts_with("ok")));
        if !matches!(out, Outcome::Answer(_)) {
            wk = Worker::spawn();
        }
        if let Some((sig, what)) = classify(&out) {
            s.finding(&sig, &format!("{} (node export)", what), &key);
        }
    }
    // corpus files with adversarial magnitudes spliced into numeric attributes
    // (thorough tier, or when a proof/correspondence obligation broke and the search is steered)
    let steered = std::env::var("VERIF_STEER").is_ok();
    let nc = (if tier == "thorough" { 600 } else if steered { 120 } else { 0 }) * mult as usize;
    let pool = ["0", "-1", "1e-40", "1e38", "3e10", "1e300", "100000", "2147483648", "4294967296", "0.0001"];
    for p in (if nc == 0 { vec![] } else { crate::corpus::sample(nc, seed ^ 77) }) {
        let Ok(text) = std::fs::read_to_string(&p) else { continue };
        let mutated = mutate_number(&text, &mut rng, &pool);
        let (cw, ch) = if rng.chance(1, 2) { (64, 64) } else { rand_canvas(&mut rng) };
        run(&mut wk, s, "corpus-mutant", &mutated, cw, ch, rand_ts(&mut rng));
    }
}

/// replace one numeric attribute value by a value from the adversarial pool
pub fn mutate_number(text: &str, rng: &mut Rng, pool: &[&str]) -> String {
    let b = text.as_bytes();
    let mut spots = vec![];
    let mut i = 0;
    while i + 2 < b.len() {
        if b[i] == b'=' && b[i + 1] == b'"' && (b[i + 2].is_ascii_digit() || b[i + 2] == b'-' || b[i + 2] == b'.') {
            let st = i + 2;
            let mut j = st;
            while j < b.len() && (b[j].is_ascii_digit() || b[j] == b'.' || b[j] == b'-' || b[j] == b'e') {
                j += 1;
            }
            if j < b.len() && (b[j] == b'"' || b[j] == b' ' || b[j] == b'%') {
                spots.push((st, j));
            }
            i = j;
        } else {
            i += 1;
        }
    }
    if spots.is_empty() {
        return text.to_string();
    }
    let (st, en) = *rng.pick(&spots);
    format!("{}{}{}", &text[..st], rng.pick(pool), &text[en..])
}
