//! Shared helpers: PRNG, number pools, output sinks.
use std::io::Write;

#[derive(Clone)]
pub struct Rng(pub u64);

impl Rng {
    pub fn new(seed: u64) -> Self {
        Rng(seed.wrapping_mul(0x9E3779B97F4A7C15) ^ 0xD1B54A32D192ED03)
    }
    pub fn next(&mut self) -> u64 {
        // splitmix64
        self.0 = self.0.wrapping_add(0x9E3779B97F4A7C15);
        let mut z = self.0;
        z = (z ^ (z >> 30)).wrapping_mul(0xBF58476D1CE4E5B9);
        z = (z ^ (z >> 27)).wrapping_mul(0x94D049BB133111EB);
        z ^ (z >> 31)
    }
    pub fn below(&mut self, n: u64) -> u64 {
        if n == 0 {
            0
        } else {
            self.next() % n
        }
    }
    pub fn range(&mut self, lo: i64, hi: i64) -> i64 {
        lo + self.below((hi - lo + 1) as u64) as i64
    }
    pub fn unit(&mut self) -> f32 {
        (self.next() >> 40) as f32 / (1u64 << 24) as f32
    }
    pub fn f32_in(&mut self, lo: f32, hi: f32) -> f32 {
        lo + (hi - lo) * self.unit()
    }
    pub fn chance(&mut self, num: u64, den: u64) -> bool {
        self.below(den) < num
    }
    pub fn pick<'a, T>(&mut self, xs: &'a [T]) -> &'a T {
        &xs[self.below(xs.len() as u64) as usize]
    }
}

pub fn hx(f: f32) -> String {
    format!("{:08x}", f.to_bits())
}

/// Correspondence sink: one line `request \t implementation-answer`.
pub struct Corr {
    pub out: std::io::BufWriter<std::io::Stdout>,
    pub n: usize,
}

impl Corr {
    pub fn new() -> Self {
        Corr { out: std::io::BufWriter::new(std::io::stdout()), n: 0 }
    }
    pub fn emit(&mut self, req: &str, ans: &str) {
        debug_assert!(!req.contains('\t') && !req.contains('\n'));
        writeln!(self.out, "{}\t{}", req, ans).unwrap();
        self.n += 1;
    }
}

pub fn seed_from_env() -> u64 {
    std::env::var("VERIF_SEED").ok().and_then(|s| s.parse().ok()).unwrap_or(1)
}

/// Search sink: JSON lines for findings and a final stats line.
pub struct Search {
    pub evaluations: u64,
    pub distinct: std::collections::HashSet<u64>,
    pub samples: Vec<String>,
    pub findings: Vec<(String, String, String)>,
    pub dist: std::collections::BTreeMap<String, u64>,
}

pub fn jstr(s: &str) -> String {
    let mut o = String::from("\"");
    for c in s.chars() {
        match c {
            '"' => o.push_str("\\\""),
            '\\' => o.push_str("\\\\"),
            '\n' => o.push_str("\\n"),
            '\r' => o.push_str("\\r"),
            '\t' => o.push_str("\\t"),
            c if (c as u32) < 0x20 => o.push_str(&format!("\\u{:04x}", c as u32)),
            c => o.push(c),
        }
    }
    o.push('"');
    o
}

pub fn hash64(s: &str) -> u64 {
    let mut h: u64 = 0xcbf29ce484222325;
    for b in s.as_bytes() {
        h ^= *b as u64;
        h = h.wrapping_mul(0x100000001b3);
    }
    h
}

impl Search {
    pub fn new() -> Self {
        Search { evaluations: 0, distinct: Default::default(), samples: vec![], findings: vec![], dist: Default::default() }
    }
    /// record one evaluated case; `key` identifies it for distinctness, `nontrivial` by the oracle's rule
    pub fn case(&mut self, class: &str, key: &str, nontrivial: bool) {
        self.evaluations += 1;
        *self.dist.entry(class.to_string()).or_insert(0) += 1;
        if nontrivial {
            self.distinct.insert(hash64(key));
        }
        if self.samples.len() < 8 && (self.evaluations % 97 == 1) {
            self.samples.push(format!("{}: {}", class, &key[..key.len().min(300)]));
        }
    }
    pub fn finding(&mut self, signature: &str, what: &str, input: &str) {
        // (VERIF_ALL: list every failing case, for triage)
        if self.findings.iter().any(|f| f.0 == signature) && std::env::var("VERIF_ALL").is_err() {
            return;
        }
        self.findings.push((signature.to_string(), what.to_string(), input.to_string()));
        println!(
            "{{\"kind\":\"finding\",\"signature\":{},\"what\":{},\"input\":{}}}",
            jstr(signature),
            jstr(what),
            jstr(input)
        );
    }
    pub fn finish(&self) {
        let samples: Vec<String> = self.samples.iter().map(|s| jstr(s)).collect();
        let dist: Vec<String> = self.dist.iter().map(|(k, v)| format!("{}:{}", jstr(k), v)).collect();
        println!(
            "{{\"kind\":\"stats\",\"evaluations\":{},\"distinct_nontrivial\":{},\"samples\":[{}],\"distribution\":{{{}}},\"findings\":{}}}",
            self.evaluations,
            self.distinct.len(),
            samples.join(","),
            dist.join(","),
            self.findings.len()
        );
    }
}

pub fn budget_mult() -> u64 {
    std::env::var("VERIF_BUDGET_MULT").ok().and_then(|s| s.parse().ok()).unwrap_or(1)
}
