//! C13: rendering commutes with whole-pixel translation of the root transform.
use crate::c02::{trace_to_requests, traced_render};
use crate::gen;
use crate::pan;
use crate::util::*;
use resvg::tiny_skia;

fn ts_bits(t: tiny_skia::Transform) -> String {
    format!("{} {} {} {} {} {}", hx(t.sx), hx(t.ky), hx(t.kx), hx(t.sy), hx(t.tx), hx(t.ty))
}

fn rand_small_ts(rng: &mut Rng) -> tiny_skia::Transform {
    match rng.below(5) {
        0 => tiny_skia::Transform::identity(),
        1 => tiny_skia::Transform::from_translate(rng.f32_in(-30.0, 30.0), rng.f32_in(-30.0, 30.0)),
        2 => tiny_skia::Transform::from_scale(rng.f32_in(0.5, 3.0), rng.f32_in(0.5, 3.0)).post_translate(rng.f32_in(-20.0, 20.0), rng.f32_in(-20.0, 20.0)),
        3 => tiny_skia::Transform::from_rotate(rng.f32_in(-90.0, 90.0)).post_translate(rng.f32_in(-20.0, 20.0), rng.f32_in(-20.0, 20.0)),
        _ => tiny_skia::Transform::from_row(rng.f32_in(0.5, 2.0), rng.f32_in(-0.5, 0.5), rng.f32_in(-0.5, 0.5), rng.f32_in(0.5, 2.0), rng.f32_in(-20.0, 20.0), rng.f32_in(-20.0, 20.0)),
    }
}

pub fn corr(tier: &str, seed: u64, c: &mut Corr) {
    let mut rng = Rng::new(seed ^ 0xC13);
    // ---- transform_light_source, x/y of point and spot lights
    let n = if tier == "thorough" { 20000 } else { 2000 };
    for i in 0..n {
        let ts = rand_small_ts(&mut rng);
        let (rx, ry) = (rng.range(-50, 50) as i32, rng.range(-50, 50) as i32);
        let region = tiny_skia::IntRect::from_xywh(rx, ry, 10, 10).unwrap();
        let (px, py) = (rng.f32_in(-100.0, 100.0), rng.f32_in(-100.0, 100.0));
        let spot = i % 2 == 1;
        let src = if spot {
            usvg::filter::LightSource::SpotLight(usvg::filter::SpotLight { x: px, y: py, z: 3.0, points_at_x: 1.0, points_at_y: 2.0, points_at_z: 0.0, specular_exponent: usvg::PositiveF32::new(1.0).unwrap(), limiting_cone_angle: None })
        } else {
            usvg::filter::LightSource::PointLight(usvg::filter::PointLight { x: px, y: py, z: 3.0 })
        };
        let out = resvg::verif::filter::transform_light_source(src, region, ts);
        let (ox, oy) = match out {
            usvg::filter::LightSource::PointLight(l) => (l.x, l.y),
            usvg::filter::LightSource::SpotLight(l) => (l.x, l.y),
            _ => continue,
        };
        let z = |f: f32| if f == 0.0 { 0u32 } else { f.to_bits() };
        c.emit(
            &format!("light {} {} {} {} {} {}", if spot { "spot" } else { "point" }, ts_bits(ts), rx, ry, hx(px), hx(py)),
            &format!("{:08x} {:08x}", z(ox), z(oy)),
        );
    }
    // ---- layer traces of a rendering and of its whole-pixel translation
    let ndocs = if tier == "thorough" { 600 } else { 60 };
    for _ in 0..ndocs {
        let (w, h) = (rng.range(20, 100) as u32, rng.range(20, 100) as u32);
        let svg = gen::random_doc(&mut rng, gen::Cfg::full(w, h));
        let Ok(tree) = usvg::Tree::from_str(&svg, &crate::corpus::opts_for(None)) else { continue };
        let base = rand_small_ts(&mut rng);
        let (dx, dy) = (rng.range(-40, 40) as f32, rng.range(-40, 40) as f32);
        let (cw, ch) = (w + 96, h + 96);
        let a = traced_render(&tree, cw, ch, base.post_translate(48.0, 48.0));
        let b = traced_render(&tree, cw, ch, base.post_translate(48.0 + dx, 48.0 + dy));
        trace_to_requests(&tree, &a, c);
        trace_to_requests(&tree, &b, c);
    }
}

/// compare B against A shifted by (dx, dy); returns (pixels compared, #diff>24, #diff>80, max diff)
pub fn shifted_diff(a: &tiny_skia::Pixmap, b: &tiny_skia::Pixmap, dx: i32, dy: i32, margin: i32) -> (usize, usize, usize, u8) {
    let (w, h) = (a.width() as i32, a.height() as i32);
    let (da, db) = (a.data(), b.data());
    let (mut n, mut c24, mut c80, mut mx) = (0usize, 0usize, 0usize, 0u8);
    for y in margin..h - margin {
        for x in margin..w - margin {
            let (xb, yb) = (x + dx, y + dy);
            if xb < margin || yb < margin || xb >= w - margin || yb >= h - margin {
                continue;
            }
            let ia = ((y * w + x) * 4) as usize;
            let ib = ((yb * w + xb) * 4) as usize;
            let mut m = 0u8;
            for k in 0..4 {
                m = m.max((da[ia + k] as i32 - db[ib + k] as i32).unsigned_abs() as u8);
            }
            n += 1;
            if m > 24 {
                c24 += 1;
            }
            if m > 80 {
                c80 += 1;
            }
            mx = mx.max(m);
        }
    }
    (n, c24, c80, mx)
}

/// Some(description) when render(translate(dx,dy)·M) is not the shifted render(M)
pub fn translate_differs(tree: &usvg::Tree, scale: f32, dx: i32, dy: i32) -> Option<(String, bool)> {
    translate_differs_m(tree, scale, dx, dy, 48)
}

/// `m`: the margin around the page on the comparison canvas; with a margin smaller than the shift the content
/// crosses the canvas edge in one of the two renderings (only the window both canvases contain is compared)
pub fn translate_differs_m(tree: &usvg::Tree, scale: f32, dx: i32, dy: i32, m: u32) -> Option<(String, bool)> {
    let size = tree.size().to_int_size();
    let (w, h) = (((size.width() as f32 * scale) as u32).min(400), ((size.height() as f32 * scale) as u32).min(400));
    let (cw, ch) = (w + 2 * m, h + 2 * m);
    let base = tiny_skia::Transform::from_scale(scale, scale);
    let ra = pan::catch(|| crate::rend::render(tree, cw, ch, base.post_translate(m as f32, m as f32)));
    let rb = pan::catch(|| crate::rend::render(tree, cw, ch, base.post_translate(m as f32 + dx as f32, m as f32 + dy as f32)));
    let (Ok(Some(a)), Ok(Some(b))) = (ra, rb) else { return None };
    let painted = a.data().chunks(4).any(|p| p[3] != 0);
    // compare on the overlap: crop A to the window that stays inside both canvases
    let (x0, y0) = (0.max(-dx), 0.max(-dy));
    let (x1, y1) = ((cw as i32).min(cw as i32 - dx), (ch as i32).min(ch as i32 - dy));
    if x1 - x0 < 4 || y1 - y0 < 4 {
        return None;
    }
    let ca = a.clone_rect(tiny_skia::IntRect::from_xywh(x0, y0, (x1 - x0) as u32, (y1 - y0) as u32)?)?;
    let cb = b.clone_rect(tiny_skia::IntRect::from_xywh(x0 + dx, y0 + dy, (x1 - x0) as u32, (y1 - y0) as u32)?)?;
    // a few levels of resampling noise are allowed for patterns and raster images
    let (ok, what) = crate::rend::similar(&ca, &cb, 6);
    if ok { Some((String::new(), painted)) } else { Some((what, painted)) }
}

pub fn check_doc(s: &mut Search, class: &str, svg_key: &str, tree: &usvg::Tree, rng: &mut Rng) {
    let scale = if rng.chance(1, 3) { 2.0f32 } else { 1.0 };
    let (mut dx, dy) = (rng.range(-40, 40) as i32, rng.range(-40, 40) as i32);
    if dx == dy {
        dx = if dx < 40 { dx + 1 } else { dx - 1 };
    }
    let Some((what, painted)) = translate_differs(tree, scale, dx, dy) else {
        s.case(&format!("{}-render-failed", class), svg_key, false);
        return;
    };
    s.case(class, &format!("{} d=({},{}) scale={}", svg_key, dx, dy, scale), painted);
    if !what.is_empty() {
        let mut input = svg_key.to_string();
        if class == "generated" && std::env::var("VERIF_SHRINK").is_ok() {
            let o = crate::corpus::opts_for(None);
            input = crate::shrink::shrink(svg_key, |d| match usvg::Tree::from_str(d, &o) {
                Ok(t) => matches!(translate_differs(&t, scale, dx, dy), Some((w, _)) if !w.is_empty()),
                Err(_) => false,
            });
        }
        s.finding(
            &format!("oracle:translate-commutes:{}", class),
            &format!("render(translate({},{})·M) differs from the shifted render(M) at scale {}: {}", dx, dy, scale, what),
            &input,
        );
    }
}

pub fn search(tier: &str, seed: u64, s: &mut Search) {
    let mut rng = Rng::new(seed ^ 0x5EA7C13);
    let mult = budget_mult() as usize;
    let nc = (if tier == "thorough" { 0 } else { 100 }) * mult.min(3);
    let files = if tier == "thorough" { crate::corpus::sample(0, seed) } else { crate::corpus::sample(nc, seed) };
    for p in files {
        let Ok(data) = std::fs::read(&p) else { continue };
        let o = crate::corpus::opts_for(Some(&p));
        let Ok(Ok(tree)) = pan::catch(|| usvg::Tree::from_data(&data, &o)) else { continue };
        let key = p.strip_prefix(crate::corpus::repo()).unwrap_or(&p).display().to_string();
        check_doc(s, "corpus", &key, &tree, &mut rng);
    }
    // canvas-relative code paths: non-square pages, nested isolated groups whose layers are limited by the
    // 5x5-canvas box on one side only, nested SVG images (their own scratch canvases), filters on them
    let nt = (if tier == "thorough" { 400 } else { 48 }) * mult;
    for i in 0..nt {
        let (w, h) = *rng.pick(&[(320u32, 64u32), (64, 320), (300, 100), (90, 300), (200, 200), (256, 40)]);
        let inner_svg = format!(
            r##"<svg xmlns="http://www.w3.org/2000/svg" width="{}" height="{}"><rect width="100%" height="100%" fill="#08f"/><circle cx="50%" cy="50%" r="{}" fill="#ff0" stroke="black"/><path d="M 0 0 L {} {}" stroke="red" stroke-width="3"/></svg>"##,
            w * 3 / 4, h * 3 / 4, w.min(h) / 4, w * 3 / 4, h * 3 / 4
        );
        let uri = format!("data:image/svg+xml;base64,{}", crate::c17::b64(inner_svg.as_bytes()));
        let big = *rng.pick(&[400i64, 1500, 5000]);
        let op = |rng: &mut Rng| *rng.pick(&[r#"opacity="0.8""#, r#"style="isolation:isolate""#, r#"style="mix-blend-mode:multiply""#, r##"filter="url(#bl)""##, r##"clip-path="url(#cl)""##, r##"mask="url(#mk)""##]);
        let body = match i % 4 {
            0 => format!(r##"<image x="{}" y="{}" width="{}" height="{}" xlink:href="{uri}"/>"##, w / 8, h / 8, w * 3 / 4, h * 3 / 4),
            1 => format!(
                r##"<g {}><rect x="-{big}" y="{}" width="{}" height="{}" fill="#0a0" fill-opacity="0.7"/><g {}><circle cx="{}" cy="{}" r="{}" fill="#f0f"/><rect x="{}" y="{}" width="{}" height="{}" fill="#00f" fill-opacity="0.6"/></g></g>"##,
                op(&mut rng), h / 4, 2 * big, h / 2, op(&mut rng), w / 2, h / 2, h.min(w) / 3, w / 3, h / 5, w / 3, h / 2
            ),
            2 => format!(
                r##"<g {}><rect x="{}" y="-{big}" width="{}" height="{}" fill="#0a0" fill-opacity="0.7"/><g {}><circle cx="{}" cy="{}" r="{}" fill="#f80"/><g {}><rect x="{}" y="{}" width="{}" height="{}" fill="#00f"/></g></g></g>"##,
                op(&mut rng), w / 4, w / 2, 2 * big, op(&mut rng), w / 2, h / 2, h.min(w) / 3, op(&mut rng), w / 3, h / 5, w / 3, h / 2
            ),
            _ => format!(
                r##"<g {}><image x="{}" y="{}" width="{}" height="{}" xlink:href="{uri}"/><g {}><rect x="-{big}" y="-{big}" width="{}" height="{}" fill="#f00" fill-opacity="0.3"/></g></g>"##,
                op(&mut rng), w / 8, h / 8, w * 3 / 4, h * 3 / 4, op(&mut rng), 2 * big, 2 * big
            ),
        };
        let svg = format!(
            r##"<svg xmlns="http://www.w3.org/2000/svg" xmlns:xlink="http://www.w3.org/1999/xlink" width="{w}" height="{h}"><defs><filter id="bl" x="-0.2" y="-0.2" width="1.4" height="1.4"><feGaussianBlur stdDeviation="1.5"/></filter><clipPath id="cl"><rect x="-{big}" y="-{big}" width="{}" height="{}"/></clipPath><mask id="mk" maskUnits="userSpaceOnUse" x="-{big}" y="-{big}" width="{}" height="{}"><rect x="-{big}" y="-{big}" width="{}" height="{}" fill="white" fill-opacity="0.9"/></mask></defs>{body}</svg>"##,
            2 * big, 2 * big, 2 * big, 2 * big, 2 * big, 2 * big
        );
        let Ok(Ok(tree)) = pan::catch(|| usvg::Tree::from_str(&svg, &crate::corpus::opts_for(None))) else { continue };
        check_doc(s, "canvas-relative", &svg, &tree, &mut rng);
    }
    // an SVG used as an image that contains a filter whose region crosses the left / top edge of the image (and,
    // depending on the shift, of the canvas): the nested rendering must not depend on where the canvas edge falls
    let ni = (if tier == "thorough" { 240 } else { 32 }) * mult;
    for i in 0..ni {
        let prim = match i % 5 {
            0 => r#"<feFlood flood-color="gold" x="10" y="10" width="20" height="20" result="a"/><feMerge><feMergeNode in="SourceGraphic"/><feMergeNode in="a"/></feMerge>"#.to_string(),
            1 => r#"<feTurbulence baseFrequency="0.08" numOctaves="1" result="t"/><feComposite in="t" in2="SourceGraphic" operator="in"/>"#.to_string(),
            2 => r#"<feDiffuseLighting lighting-color="white" surfaceScale="3"><fePointLight x="20" y="15" z="12"/></feDiffuseLighting>"#.to_string(),
            3 => format!(r#"<feGaussianBlur stdDeviation="{}"/>"#, rng.pick(&["2", "3.5"])),
            _ => r#"<feOffset dx="6" dy="4" x="5" y="5" width="30" height="25"/>"#.to_string(),
        };
        let (fx, fy) = (-rng.range(3, 15), -rng.range(3, 15));
        let inner_svg = format!(
            r##"<svg xmlns="http://www.w3.org/2000/svg" width="120" height="80"><filter id="f" filterUnits="userSpaceOnUse" x="{fx}" y="{fy}" width="90" height="70">{prim}</filter><rect x="0" y="0" width="50" height="40" fill="#08f" filter="url(#f)"/><circle cx="90" cy="50" r="15" fill="#f0f" filter="url(#f)"/></svg>"##
        );
        let uri = format!("data:image/svg+xml;base64,{}", crate::c17::b64(inner_svg.as_bytes()));
        let (ix, iy) = (rng.range(0, 30), rng.range(0, 30));
        let svg = format!(
            r##"<svg xmlns="http://www.w3.org/2000/svg" xmlns:xlink="http://www.w3.org/1999/xlink" width="200" height="150"><image x="{ix}" y="{iy}" width="120" height="80" xlink:href="{uri}"/></svg>"##
        );
        let Ok(Ok(tree)) = pan::catch(|| usvg::Tree::from_str(&svg, &crate::corpus::opts_for(None))) else { continue };
        // no margin: the filter region of the nested document crosses the canvas edge in one rendering only
        let scale = if rng.chance(1, 3) { 2.0f32 } else { 1.0 };
        let (dx, dy) = (-(rng.range(1, 40) as i32), -(rng.range(0, 30) as i32));
        let key = format!("{} <!-- inner: {} --> d=({},{}) scale={}", svg, inner_svg, dx, dy, scale);
        match translate_differs_m(&tree, scale, dx, dy, 0) {
            None => s.case("image-with-filter-render-failed", &key, false),
            Some((what, painted)) => {
                s.case("image-with-filter", &key, painted);
                if !what.is_empty() {
                    s.finding("oracle:translate-commutes:image-with-filter", &format!("render(translate({},{})·M) differs from the shifted render(M) at scale {} (no canvas margin): {}", dx, dy, scale, what), &key);
                }
            }
        }
    }
    // geometry just outside the page whose stroke, markers or effect reach in: no canvas margin, so a shift moves the
    // geometry across the canvas edge while the visible part stays inside in both renderings
    let ne = (if tier == "thorough" { 400 } else { 48 }) * mult;
    for i in 0..ne {
        let (w, h) = (200i64, 160i64);
        let off = rng.range(2, 14); // how far outside the centre line lies
        let sw = 2 * off + rng.range(8, 40); // wide enough to reach in
        let cap = *rng.pick(&["butt", "round", "square"]);
        let side = i % 4;
        let line = match side {
            0 => format!(r#"x1="-{off}" y1="0" x2="-{off}" y2="{h}""#),
            1 => format!(r#"x1="0" y1="-{off}" x2="{w}" y2="-{off}""#),
            2 => format!(r#"x1="{}" y1="0" x2="{}" y2="{h}""#, w + off, w + off),
            _ => format!(r#"x1="0" y1="{}" x2="{w}" y2="{}""#, h + off, h + off),
        };
        let extra = match (i / 4) % 5 {
            4 => r##" filter="url(#glow)""##.to_string(),
            0 => String::new(),
            1 => r#" opacity="0.6""#.to_string(),
            2 => r#" stroke-dasharray="30 10""#.to_string(),
            _ => r##" marker-start="url(#mk)" marker-end="url(#mk)""##.to_string(),
        };
        let svg = format!(
            r##"<svg xmlns="http://www.w3.org/2000/svg" width="{w}" height="{h}"><defs><marker id="mk" markerWidth="6" markerHeight="6" refX="3" refY="3" overflow="visible"><circle cx="3" cy="3" r="3" fill="gold"/></marker><filter id="glow" x="-2" y="-2" width="5" height="5"><feGaussianBlur stdDeviation="9"/></filter></defs><g id="layer1"><ellipse cx="-33" cy="60" rx="30" ry="25" fill="#a0f" filter="url(#glow)"/></g><line {line} stroke="#1b4f72" stroke-width="{sw}" stroke-linecap="{cap}"{extra}/><path d="M -{off} -{off} L {} -{off} L {} {}" fill="none" stroke="#b03a2e" stroke-width="{sw}" stroke-linejoin="{}"/><circle cx="110" cy="90" r="40" fill="#f7dc6f" stroke="#7d6608" stroke-width="6"/></svg>"##,
            w + off, w + off, h + off, rng.pick(&["miter", "round", "bevel"])
        );
        let Ok(Ok(tree)) = pan::catch(|| usvg::Tree::from_str(&svg, &crate::corpus::opts_for(None))) else { continue };
        let scale = if rng.chance(1, 3) { 2.0f32 } else { 1.0 };
        // a shift that carries the outside geometry inwards, across the edge
        let mag = (off as i32 + rng.range(1, 25) as i32) * if scale > 1.5 { 2 } else { 1 };
        let (dx, dy) = match side {
            0 => (mag, rng.range(-9, 9) as i32),
            1 => (rng.range(-9, 9) as i32, mag),
            2 => (-mag, rng.range(-9, 9) as i32),
            _ => (rng.range(-9, 9) as i32, -mag),
        };
        let key = format!("{} d=({},{}) scale={}", svg, dx, dy, scale);
        match translate_differs_m(&tree, scale, dx, dy, 0) {
            None => s.case("edge-crossing-render-failed", &key, false),
            Some((what, painted)) => {
                s.case("edge-crossing", &key, painted);
                if !what.is_empty() {
                    s.finding("oracle:translate-commutes:edge-crossing", &format!("render(translate({},{})·M) differs from the shifted render(M) at scale {} (no canvas margin): {}", dx, dy, scale, what), &key);
                }
            }
        }
    }
    // filter regions far larger than the canvas (the layer is limited by the 5x5-canvas box, the region is not),
    // with primitives whose output depends on position
    let prims: [(&str, &str); 8] = [
        ("turbulence", r#"<feTurbulence baseFrequency="0.05" numOctaves="1"/>"#),
        ("flood-subregion", r#"<feFlood flood-color="green" x="30" y="30" width="60" height="40"/>"#),
        ("offset", r#"<feOffset dx="13" dy="7"/>"#),
        ("tile", r#"<feOffset x="20" y="20" width="30" height="30" dx="2"/><feTile/>"#),
        ("diffuse-point-light", r#"<feDiffuseLighting lighting-color="white" surfaceScale="2"><fePointLight x="60" y="60" z="30"/></feDiffuseLighting>"#),
        ("specular-spot-light", r#"<feSpecularLighting specularExponent="4" lighting-color="white"><feSpotLight x="40" y="40" z="30" pointsAtX="90" pointsAtY="90" pointsAtZ="0"/></feSpecularLighting>"#),
        ("blur", r#"<feGaussianBlur stdDeviation="3"/>"#),
        ("image", r##"<feImage xlink:href="#fi" x="40" y="40" width="50" height="50"/>"##),
    ];
    for (k, (name, prim)) in prims.iter().enumerate() {
        for far in [300i64, 3000] {
            let (w, h) = if k % 2 == 0 { (200u32, 200u32) } else { (240, 120) };
            let svg = format!(
                r##"<svg xmlns="http://www.w3.org/2000/svg" xmlns:xlink="http://www.w3.org/1999/xlink" width="{w}" height="{h}"><defs><rect id="fi" width="20" height="20" fill="red"/><filter id="f" filterUnits="userSpaceOnUse" x="-{far}" y="-{}" width="{}" height="{}">{prim}</filter></defs><rect x="20" y="20" width="100" height="80" fill="#46a" filter="url(#f)"/></svg>"##,
                far * 2 / 3, far * 3, far * 2
            );
            let Ok(Ok(tree)) = pan::catch(|| usvg::Tree::from_str(&svg, &crate::corpus::opts_for(None))) else { continue };
            check_doc(s, &format!("huge-filter-region:{}", name), &svg, &tree, &mut rng);
        }
    }
    let ng = (if tier == "thorough" { 1500 } else { 120 }) * mult;
    for _ in 0..ng {
        let (w, h) = (rng.range(20, 120) as u32, rng.range(20, 120) as u32);
        let svg = gen::random_doc(&mut rng, gen::Cfg::full(w, h));
        let Ok(tree) = usvg::Tree::from_str(&svg, &crate::corpus::opts_for(None)) else { continue };
        check_doc(s, "generated", &svg, &tree, &mut rng);
    }
}
