//! C06: results are reproducible — same bytes, same options: same text and same pixels, across repeated
//! calls, threads sharing one tree / one font database, and fresh processes in any document order.
use crate::pan;
use crate::util::*;
use crate::worker::{hex_encode, Outcome, Worker};
use resvg::tiny_skia;
use std::sync::Arc;
use std::time::Duration;

/// (hash of the written tree, hash of the rendered pixels)
pub fn fingerprint(data: &[u8], path: Option<&std::path::Path>) -> Option<(u64, u64)> {
    let o = crate::corpus::opts_for(path);
    let t = pan::catch(|| usvg::Tree::from_data(data, &o)).ok()?.ok()?;
    fingerprint_tree(&t)
}

pub fn fingerprint_tree(t: &usvg::Tree) -> Option<(u64, u64)> {
    let text = pan::catch(|| t.to_string(&usvg::WriteOptions::default())).ok()?;
    let size = t.size().to_int_size();
    let (w, h) = (size.width().min(256), size.height().min(256));
    let pm = pan::catch(|| crate::rend::render(t, w, h, tiny_skia::Transform::identity())).ok()??;
    let mut hp: u64 = 0xcbf29ce484222325;
    for b in pm.data() {
        hp ^= *b as u64;
        hp = hp.wrapping_mul(0x100000001b3);
    }
    Some((hash64(&text), hp))
}

pub fn corr(_tier: &str, _seed: u64, _c: &mut Corr) {}

pub fn search(tier: &str, seed: u64, s: &mut Search) {
    let mut rng = Rng::new(seed ^ 0x5EA7C06);
    let mult = budget_mult() as usize;
    let mut docs: Vec<(String, Vec<u8>, Option<std::path::PathBuf>)> = vec![];
    for p in crate::corpus::sample(if tier == "thorough" { 0 } else { 120 * mult.min(4) }, seed) {
        if let Ok(d) = std::fs::read(&p) {
            docs.push((p.display().to_string(), d, Some(p)));
        }
    }
    for _ in 0..(if tier == "thorough" { 600 } else { 60 } * mult) {
        let (w, h) = (rng.range(20, 150) as u32, rng.range(20, 150) as u32);
        let svg = crate::gen::random_doc(&mut rng, crate::gen::Cfg::full(w, h));
        docs.push((svg.clone(), svg.into_bytes(), None));
    }
    // documents whose conversion exercises every cache / id generator (shared definitions, generated ids)
    for d in crate::c05::targeted(seed, "quick").into_iter().take(80) {
        docs.push((String::from_utf8_lossy(&d.data).to_string(), d.data, None));
    }
    // ---- (1) baseline and repeated calls in this process
    let mut base: Vec<Option<(u64, u64)>> = vec![];
    for (key, data, path) in &docs {
        let a = fingerprint(data, path.as_deref());
        let b = fingerprint(data, path.as_deref());
        s.case("repeat", key, a.is_some());
        if a != b {
            s.finding("oracle:C06:repeated-call-differs", &format!("two calls in one process: {:?} vs {:?}", a, b), key);
        }
        base.push(a);
    }
    // ---- (2) threads: one shared tree rendered concurrently while other threads parse other documents
    let fontdb = crate::corpus::fontdb();
    let _ = fontdb;
    for round in 0..(if tier == "thorough" { 40 } else { 8 } * mult) {
        let nthreads = *rng.pick(&[2usize, 4, 8, 16]);
        let i0 = rng.below(docs.len() as u64) as usize;
        let (key, data, path) = &docs[i0];
        let o = crate::corpus::opts_for(path.as_deref());
        let Ok(Ok(tree)) = pan::catch(|| usvg::Tree::from_data(data, &o)) else { continue };
        let tree = Arc::new(tree);
        let want = base[i0];
        let others: Vec<usize> = (0..nthreads).map(|_| rng.below(docs.len() as u64) as usize).collect();
        let results: Vec<(Option<(u64, u64)>, Option<(u64, u64)>, usize)> = std::thread::scope(|sc| {
            let hs: Vec<_> = (0..nthreads)
                .map(|t| {
                    let tree = tree.clone();
                    let j = others[t];
                    let docs = &docs;
                    sc.spawn(move || {
                        let shared = fingerprint_tree(&tree);
                        let (_, d, p) = &docs[j];
                        let own = fingerprint(d, p.as_deref());
                        (shared, own, j)
                    })
                })
                .collect();
            hs.into_iter().map(|h| h.join().unwrap_or((None, None, 0))).collect()
        });
        s.case("threads", &format!("round {} threads {} {}", round, nthreads, key), want.is_some());
        for (shared, own, j) in results {
            if shared != want {
                s.finding("oracle:C06:shared-tree-render-differs-across-threads", &format!("{} threads: a thread got {:?}, sequential {:?}", nthreads, shared, want), key);
            }
            if own != base[j] {
                s.finding("oracle:C06:concurrent-parse-differs", &format!("{} threads: parsing concurrently gave {:?}, sequential {:?}", nthreads, own, base[j]), &docs[j].0);
            }
        }
    }
    // ---- (3) fresh processes (fresh hash seeds), different document orders
    let n = docs.len();
    let orders: Vec<Vec<usize>> = vec![(0..n).collect(), (0..n).rev().collect(), {
        let mut v: Vec<usize> = (0..n).collect();
        for i in 0..n {
            let j = i + rng.below((n - i) as u64) as usize;
            v.swap(i, j);
        }
        v
    }];
    for (oi, order) in orders.iter().enumerate() {
        let mut wk = Worker::spawn();
        for &i in order {
            let (key, data, path) = &docs[i];
            let p = path.as_ref().map(|p| hex_encode(p.to_string_lossy().as_bytes())).unwrap_or_else(|| "-".into());
            let out = wk.run(&format!("det {} {}", p, hex_encode(data)), Duration::from_secs(60));
            let got = match &out {
                Outcome::Answer(a) if a.starts_with("fp ") => {
                    let v: Vec<u64> = a[3..].split(' ').filter_map(|x| u64::from_str_radix(x, 16).ok()).collect();
                    if v.len() == 2 { Some((v[0], v[1])) } else { None }
                }
                Outcome::Answer(_) => None,
                _ => {
                    wk = Worker::spawn();
                    continue; // crashes / hangs are C01 / C02 business
                }
            };
            s.case(&format!("process-order-{}", oi), key, got.is_some());
            if got != base[i] {
                s.finding("oracle:C06:fresh-process-differs", &format!("process #{} (order {}): {:?}, this process: {:?}", oi, ["as listed", "reversed", "shuffled"][oi], got, base[i]), key);
            }
        }
    }
}
