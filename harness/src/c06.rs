//! C06: results are reproducible — same bytes, same options: same text and same pixels, across repeated
//! calls, threads sharing one tree / one font database, and fresh processes in any document order.
use crate::pan;
use crate::util::*;
use crate::worker::{hex_encode, Outcome, Worker};
use resvg::tiny_skia;
use std::sync::Arc;
use std::time::Duration;

/// (hash of the written tree, hash of the rendered pixels)
pub fn fingerprint(data: &[u8], path: Option<&std::path::Path>) -> Option<(u64, u64)> {
    let o = crate::corpus::opts_for(path);
    let t = pan::catch(|| usvg::Tree::from_data(data, &o)).ok()?.ok()?;
    fingerprint_tree(&t)
}

pub fn fingerprint_tree(t: &usvg::Tree) -> Option<(u64, u64)> {
    let text = pan::catch(|| t.to_string(&usvg::WriteOptions::default())).ok()?;
    let size = t.size().to_int_size();
    let (w, h) = (size.width().min(256), size.height().min(256));
    let pm = pan::catch(|| crate::rend::render(t, w, h, tiny_skia::Transform::identity())).ok()??;
    let mut hp: u64 = 0xcbf29ce484222325;
    for b in pm.data() {
        hp ^= *b as u64;
        hp = hp.wrapping_mul(0x100000001b3);
    }
    Some((hash64(&text), hp))
}

pub fn corr(_tier: &str, _seed: u64, _c: &mut Corr) {}

pub fn search(tier: &str, seed: u64, s: &mut Search) {
    let mut rng = Rng::new(seed ^ 0x5EA7C06);
    let mult = budget_mult() as usize;
    let mut docs: Vec<(String, Vec<u8>, Option<std::path::PathBuf>)> = vec![];
    for p in crate::corpus::sample(if tier == "thorough" { 0 } else { 120 * mult.min(4) }, seed) {
        if let Ok(d) = std::fs::read(&p) {
            docs.push((p.display().to_string(), d, Some(p)));
        }
    }
    for _ in 0..(if tier == "thorough" { 600 } else { 60 } * mult) {
        let (w, h) = (rng.range(20, 150) as u32, rng.range(20, 150) as u32);
        let svg = crate::gen::random_doc(&mut rng, crate::gen::Cfg::full(w, h));
        docs.push((svg.clone(), svg.into_bytes(), None));
    }
    // documents whose conversion exercises every cache / id generator (shared definitions, generated ids)
    for d in crate::c05::targeted(seed, "quick").into_iter().take(80) {
        docs.push((String::from_utf8_lossy(&d.data).to_string(), d.data, None));
    }
    // twin documents: the same structure, sizes and byte lengths, different content - whatever is remembered
    // from one document under a key that is not its content shows on the next one
    let first_twin = docs.len();
    for d in twins(&mut rng, if tier == "thorough" { 40 } else { 12 }) {
        docs.push((d.clone(), d.into_bytes(), None));
    }
    // one text element over several fonts with characters some of them lack: the fallback font must be chosen
    // the same way every time
    for k in 0..(if tier == "thorough" { 24 } else { 6 }) {
        let fams = ["Yellowtail", "Noto Sans", "Noto Serif", "Noto Mono", "Sedgwick Ave Display", "Amiri"];
        let (a, b, c) = (fams[k % 6], fams[(k + 1 + k / 6) % 6], fams[(k + 2 + k / 3) % 6]);
        let foreign = ["Привет мир", "日本語 текст", "ελληνικά שלום", "مرحبا Жук"][k % 4];
        let d = format!(
            r##"<svg xmlns="http://www.w3.org/2000/svg" width="260" height="80"><text x="5" y="30" font-size="18" font-family="{a}">Abc <tspan font-family="{b}">def</tspan> <tspan font-family="{c}">ghi</tspan> {foreign}</text><text x="5" y="60" font-size="14" font-family="{c}">{foreign} <tspan font-family="{a}">xyz {foreign}</tspan></text></svg>"##
        );
        docs.push((d.clone(), d.into_bytes(), None));
    }
    // ---- (1) baseline and repeated calls in this process
    let mut base: Vec<Option<(u64, u64)>> = vec![];
    for (key, data, path) in &docs {
        let a = fingerprint(data, path.as_deref());
        let b = fingerprint(data, path.as_deref());
        s.case("repeat", key, a.is_some());
        if a != b {
            s.finding("oracle:C06:repeated-call-differs", &format!("two calls in one process: {:?} vs {:?}", a, b), key);
        } else if key.contains("font-family") && key.len() < 1200 {
            // a choice between two candidates shows only now and then: a few more calls for short text documents
            for _ in 0..10 {
                let c = fingerprint(data, path.as_deref());
                if c != a {
                    s.finding("oracle:C06:repeated-call-differs", &format!("repeated calls in one process: {:?} vs {:?}", a, c), key);
                    break;
                }
            }
        }
        base.push(a);
    }
    // ---- (1b) the same documents alone on a fresh thread (no thread-local history)
    for i in first_twin..docs.len() {
        let (key, data, path) = &docs[i];
        let alone = std::thread::scope(|sc| sc.spawn(|| fingerprint(data, path.as_deref())).join().unwrap_or(None));
        s.case("fresh-thread", key, alone.is_some());
        if alone != base[i] {
            s.finding("oracle:C06:result-depends-on-earlier-documents", &format!("alone on a fresh thread: {:?}, after the other documents on the main thread: {:?}", alone, base[i]), key);
        }
    }
    // ---- (2) threads: one shared tree rendered concurrently while other threads parse other documents
    let fontdb = crate::corpus::fontdb();
    let _ = fontdb;
    for round in 0..(if tier == "thorough" { 40 } else { 8 } * mult) {
        let nthreads = *rng.pick(&[2usize, 4, 8, 16]);
        let i0 = rng.below(docs.len() as u64) as usize;
        let (key, data, path) = &docs[i0];
        let o = crate::corpus::opts_for(path.as_deref());
        let Ok(Ok(tree)) = pan::catch(|| usvg::Tree::from_data(data, &o)) else { continue };
        let tree = Arc::new(tree);
        let want = base[i0];
        let others: Vec<usize> = (0..nthreads).map(|_| rng.below(docs.len() as u64) as usize).collect();
        let results: Vec<(Option<(u64, u64)>, Option<(u64, u64)>, usize)> = std::thread::scope(|sc| {
            let hs: Vec<_> = (0..nthreads)
                .map(|t| {
                    let tree = tree.clone();
                    let j = others[t];
                    let docs = &docs;
                    sc.spawn(move || {
                        let shared = fingerprint_tree(&tree);
                        let (_, d, p) = &docs[j];
                        let own = fingerprint(d, p.as_deref());
                        (shared, own, j)
                    })
                })
                .collect();
            hs.into_iter().map(|h| h.join().unwrap_or((None, None, 0))).collect()
        });
        s.case("threads", &format!("round {} threads {} {}", round, nthreads, key), want.is_some());
        for (shared, own, j) in results {
            if shared != want {
                s.finding("oracle:C06:shared-tree-render-differs-across-threads", &format!("{} threads: a thread got {:?}, sequential {:?}", nthreads, shared, want), key);
            }
            if own != base[j] {
                s.finding("oracle:C06:concurrent-parse-differs", &format!("{} threads: parsing concurrently gave {:?}, sequential {:?}", nthreads, own, base[j]), &docs[j].0);
            }
        }
    }
    // ---- (3) fresh processes (fresh hash seeds), different document orders
    let n = docs.len();
    let orders: Vec<Vec<usize>> = vec![(0..n).collect(), (0..n).rev().collect(), {
        let mut v: Vec<usize> = (0..n).collect();
        for i in 0..n {
            let j = i + rng.below((n - i) as u64) as usize;
            v.swap(i, j);
        }
        v
    }];
    for (oi, order) in orders.iter().enumerate() {
        let mut wk = Worker::spawn();
        for &i in order {
            let (key, data, path) = &docs[i];
            let p = path.as_ref().map(|p| hex_encode(p.to_string_lossy().as_bytes())).unwrap_or_else(|| "-".into());
            let out = wk.run(&format!("det {} {}", p, hex_encode(data)), Duration::from_secs(60));
            let got = match &out {
                Outcome::Answer(a) if a.starts_with("fp ") => {
                    let v: Vec<u64> = a[3..].split(' ').filter_map(|x| u64::from_str_radix(x, 16).ok()).collect();
                    if v.len() == 2 { Some((v[0], v[1])) } else { None }
                }
                Outcome::Answer(_) => None,
                _ => {
                    wk = Worker::spawn();
                    continue; // crashes / hangs are C01 / C02 business
                }
            };
            s.case(&format!("process-order-{}", oi), key, got.is_some());
            if got != base[i] {
                s.finding("oracle:C06:fresh-process-differs", &format!("process #{} (order {}): {:?}, this process: {:?}", oi, ["as listed", "reversed", "shuffled"][oi], got, base[i]), key);
            }
        }
    }
}

fn crc32(data: &[u8]) -> u32 {
    let mut c: u32 = !0;
    for b in data {
        c ^= *b as u32;
        for _ in 0..8 {
            c = if c & 1 != 0 { (c >> 1) ^ 0xEDB88320 } else { c >> 1 };
        }
    }
    !c
}

/// an uncompressed (stored deflate blocks) RGBA PNG: the encoded length depends on the size only
pub fn stored_png(w: u32, h: u32, rgba: [u8; 4]) -> Vec<u8> {
    let mut raw = vec![];
    for y in 0..h {
        raw.push(0u8);
        for x in 0..w {
            // a little structure, so that a swapped image is visible whatever the colours
            let k = if (x / 8 + y / 8) % 2 == 0 { rgba } else { [rgba[2], rgba[0], rgba[1], rgba[3]] };
            raw.extend_from_slice(&k);
        }
    }
    let mut z = vec![0x78, 0x01];
    let mut chunks = raw.chunks(65535).peekable();
    while let Some(c) = chunks.next() {
        z.push(if chunks.peek().is_none() { 1 } else { 0 });
        z.extend_from_slice(&(c.len() as u16).to_le_bytes());
        z.extend_from_slice(&(!(c.len() as u16)).to_le_bytes());
        z.extend_from_slice(c);
    }
    let (mut a, mut b) = (1u32, 0u32);
    for v in &raw {
        a = (a + *v as u32) % 65521;
        b = (b + a) % 65521;
    }
    z.extend_from_slice(&((b << 16) | a).to_be_bytes());
    let mut out = b"\x89PNG\r\n\x1a\n".to_vec();
    let mut chunk = |ty: &[u8; 4], body: &[u8]| {
        out.extend_from_slice(&(body.len() as u32).to_be_bytes());
        let mut t = ty.to_vec();
        t.extend_from_slice(body);
        out.extend_from_slice(&t);
        out.extend_from_slice(&crc32(&t).to_be_bytes());
    };
    let mut ihdr = vec![];
    ihdr.extend_from_slice(&w.to_be_bytes());
    ihdr.extend_from_slice(&h.to_be_bytes());
    ihdr.extend_from_slice(&[8, 6, 0, 0, 0]);
    chunk(b"IHDR", &ihdr);
    chunk(b"IDAT", &z);
    chunk(b"IEND", &[]);
    out
}

fn twins(rng: &mut Rng, pairs: usize) -> Vec<String> {
    let cols: [[u8; 4]; 6] = [[255, 0, 0, 255], [0, 0, 255, 255], [0, 160, 0, 255], [250, 200, 0, 255], [0, 0, 0, 255], [200, 0, 200, 128]];
    let names = ["#f00", "#00f", "#0a0", "#fc0", "#000", "#c0c"];
    let mut out = vec![];
    for k in 0..pairs {
        let i = rng.below(6) as usize;
        let j = (i + 1 + rng.below(5) as usize) % 6;
        for c in [i, j] {
            let doc = match k % 4 {
                0 => {
                    // a raster image: equal encoded length, different pixels
                    let side = *rng.pick(&[8u32, 24, 48, 64]);
                    let _ = side;
                    let side = [8u32, 24, 48, 64][k / 4 % 4];
                    let png = crate::c17::b64(&stored_png(side, side, cols[c]));
                    format!(r#"<svg xmlns="http://www.w3.org/2000/svg" xmlns:xlink="http://www.w3.org/1999/xlink" width="64" height="64"><image width="64" height="64" xlink:href="data:image/png;base64,{}"/></svg>"#, png)
                }
                1 => {
                    // a nested SVG image
                    let inner = format!(r#"<svg xmlns="http://www.w3.org/2000/svg" width="40" height="40"><rect width="40" height="40" fill="{}"/></svg>"#, names[c]);
                    format!(r#"<svg xmlns="http://www.w3.org/2000/svg" xmlns:xlink="http://www.w3.org/1999/xlink" width="64" height="64"><image width="64" height="64" xlink:href="data:image/svg+xml;base64,{}"/></svg>"#, crate::c17::b64(inner.as_bytes()))
                }
                2 => format!(
                    // definitions with the same ids: gradient, pattern, clip, mask, filter
                    r##"<svg xmlns="http://www.w3.org/2000/svg" width="64" height="64"><defs><linearGradient id="g"><stop offset="0" stop-color="{0}"/><stop offset="1" stop-color="#fff"/></linearGradient><pattern id="p" width="8" height="8" patternUnits="userSpaceOnUse"><rect width="4" height="4" fill="{0}"/></pattern><filter id="f"><feFlood flood-color="{0}" flood-opacity="0.5"/><feComposite in2="SourceGraphic" operator="over"/></filter><mask id="m"><rect width="64" height="32" fill="{0}"/></mask></defs><rect width="64" height="20" fill="url(#g)"/><rect y="22" width="64" height="20" fill="url(#p)"/><rect y="44" width="30" height="20" fill="#888" filter="url(#f)"/><rect x="34" y="44" width="30" height="20" fill="#888" mask="url(#m)"/></svg>"##,
                    names[c]
                ),
                _ => format!(
                    // text of the same length
                    r##"<svg xmlns="http://www.w3.org/2000/svg" width="64" height="64"><text x="2" y="30" font-family="Noto Sans" font-size="16" fill="{}">{}</text></svg>"##,
                    names[c], ["Abcd", "Wxyz", "Mini", "Oooo", "Tttt", "Hjkl"][c]
                ),
            };
            out.push(doc);
        }
    }
    out
}
