//! Delta debugging of SVG documents: remove subtrees, then attributes, while a predicate stays true.
use usvg::roxmltree;

#[derive(Clone, Debug)]
pub struct El {
    pub name: String,
    pub attrs: Vec<(String, String)>,
    pub kids: Vec<El>,
    pub text: String,
}

fn conv(n: roxmltree::Node) -> Option<El> {
    if !n.is_element() {
        return None;
    }
    let name = n.tag_name().name().to_string();
    let mut attrs = vec![];
    for a in n.attributes() {
        let an = match a.namespace() {
            Some("http://www.w3.org/1999/xlink") => format!("xlink:{}", a.name()),
            Some("http://www.w3.org/XML/1998/namespace") => format!("xml:{}", a.name()),
            _ => a.name().to_string(),
        };
        attrs.push((an, a.value().to_string()));
    }
    let mut kids = vec![];
    let mut text = String::new();
    for c in n.children() {
        if let Some(e) = conv(c) {
            kids.push(e);
        } else if c.is_text() {
            text += c.text().unwrap_or("");
        }
    }
    Some(El { name, attrs, kids, text })
}

pub fn parse(svg: &str) -> Option<El> {
    let doc = roxmltree::Document::parse(svg).ok()?;
    conv(doc.root_element())
}

fn esc(s: &str) -> String {
    s.replace('&', "&amp;").replace('<', "&lt;").replace('"', "&quot;")
}

pub fn write(e: &El, root: bool) -> String {
    let mut s = format!("<{}", e.name);
    if root {
        s += r#" xmlns="http://www.w3.org/2000/svg" xmlns:xlink="http://www.w3.org/1999/xlink""#;
    }
    for (k, v) in &e.attrs {
        s += &format!(r#" {}="{}""#, k, esc(v));
    }
    if e.kids.is_empty() && e.text.trim().is_empty() {
        s += "/>";
    } else {
        s += ">";
        s += &esc(&e.text).replace("&quot;", "\"");
        for k in &e.kids {
            s += &write(k, false);
        }
        s += &format!("</{}>", e.name);
    }
    s
}

fn count(e: &El) -> usize {
    1 + e.kids.iter().map(count).sum::<usize>()
}

/// remove the `idx`-th element in pre-order (idx ≥ 1; 0 is the root)
fn remove_nth(e: &mut El, idx: &mut usize) -> bool {
    let mut i = 0;
    while i < e.kids.len() {
        *idx -= 1;
        if *idx == 0 {
            e.kids.remove(i);
            return true;
        }
        if remove_nth(&mut e.kids[i], idx) {
            return true;
        }
        i += 1;
    }
    false
}

fn nth_mut<'a>(e: &'a mut El, idx: &mut usize) -> Option<&'a mut El> {
    if *idx == 0 {
        return Some(e);
    }
    for k in e.kids.iter_mut() {
        *idx -= 1;
        if let Some(r) = nth_mut(k, idx) {
            return Some(r);
        }
    }
    None
}

pub fn shrink<F: FnMut(&str) -> bool>(svg: &str, mut still_fails: F) -> String {
    let Some(mut cur) = parse(svg) else { return svg.to_string() };
    if !still_fails(&write(&cur, true)) {
        return svg.to_string();
    }
    let mut progress = true;
    let mut budget = 600;
    while progress && budget > 0 {
        progress = false;
        // subtrees, last first
        let n = count(&cur);
        let mut i = n - 1;
        while i >= 1 && budget > 0 {
            let mut cand = cur.clone();
            let mut k = i;
            if remove_nth(&mut cand, &mut k) {
                budget -= 1;
                if still_fails(&write(&cand, true)) {
                    cur = cand;
                    progress = true;
                    let m = count(&cur);
                    if i >= m {
                        i = m;
                    }
                }
            }
            i -= 1;
        }
        // attributes
        let n = count(&cur);
        for ei in 0..n {
            let na = {
                let mut k = ei;
                nth_mut(&mut cur, &mut k).map(|e| e.attrs.len()).unwrap_or(0)
            };
            let mut ai = na;
            while ai > 0 && budget > 0 {
                ai -= 1;
                let mut cand = cur.clone();
                let mut k = ei;
                if let Some(e) = nth_mut(&mut cand, &mut k) {
                    let (an, _) = e.attrs[ai].clone();
                    if ei == 0 && (an == "width" || an == "height") {
                        continue;
                    }
                    e.attrs.remove(ai);
                    budget -= 1;
                    if still_fails(&write(&cand, true)) {
                        cur = cand;
                        progress = true;
                    }
                }
            }
        }
    }
    write(&cur, true)
}
