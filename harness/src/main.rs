mod util;
mod shrink;
mod pan;
mod corpus;
mod gen;
mod worker;
mod jobs;

#[global_allocator]
static GLOBAL: worker::CapAlloc = worker::CapAlloc;
mod c01;
mod c02;
mod c03;
mod c09;
mod c10;
mod c11;
mod c13;
mod c14;
mod c15;
mod c16;
mod c17;
mod rend;

fn main() {
    let args: Vec<String> = std::env::args().collect();
    if args.len() >= 2 && args[1] == "worker" {
        worker::child_main();
        return;
    }
    if args.len() < 3 {
        eprintln!("usage: vh corr|search <Cxx> [tier]");
        std::process::exit(2);
    }
    if args[1] == "c14dbg" {
        let svg = std::fs::read_to_string(&args[2]).unwrap();
        let f: Vec<f32> = args[3..7].iter().map(|x| x.parse().unwrap()).collect();
        let ts = resvg::tiny_skia::Transform::from_scale(f[0], f[1]).post_translate(f[2], f[3]);
        let extra: u32 = args.get(7).and_then(|x| x.parse().ok()).unwrap_or(0);
        c14::debug(&svg, ts, extra);
        return;
    }
    let tier = args.get(3).map(|s| s.as_str()).unwrap_or("quick").to_string();
    let seed = util::seed_from_env();
    match (args[1].as_str(), args[2].as_str()) {
        ("corr", "C16") => {
            let mut c = util::Corr::new();
            c16::corr(&tier, seed, &mut c);
        }
        ("corr", "C17") => {
            let mut c = util::Corr::new();
            c17::corr(&tier, seed, &mut c);
        }
        ("corr", "C01") => {
            let mut c = util::Corr::new();
            c01::corr(&tier, seed, &mut c);
        }
        ("search", "C01") => {
            let mut s = util::Search::new();
            c01::search(&tier, seed, &mut s);
            s.finish();
        }
        ("corr", "C02") => {
            let mut c = util::Corr::new();
            c02::corr(&tier, seed, &mut c);
        }
        ("search", "C02") => {
            let mut s = util::Search::new();
            c02::search(&tier, seed, &mut s);
            s.finish();
        }
        ("corr", "C03") => {
            let mut c = util::Corr::new();
            c03::corr(&tier, seed, &mut c);
        }
        ("search", "C03") => {
            let mut s = util::Search::new();
            c03::search(&tier, seed, &mut s);
            s.finish();
        }
        ("corr", "C09") => {
            let mut c = util::Corr::new();
            c09::corr(&tier, seed, &mut c);
        }
        ("search", "C09") => {
            let mut s = util::Search::new();
            c09::search(&tier, seed, &mut s);
            s.finish();
        }
        ("corr", "C10") => {
            let mut c = util::Corr::new();
            c10::corr(&tier, seed, &mut c);
        }
        ("search", "C10") => {
            let mut s = util::Search::new();
            c10::search(&tier, seed, &mut s);
            s.finish();
        }
        ("corr", "C11") => {
            let mut c = util::Corr::new();
            c11::corr(&tier, seed, &mut c);
        }
        ("search", "C11") => {
            let mut s = util::Search::new();
            c11::search(&tier, seed, &mut s);
            s.finish();
        }
        ("corr", "C13") => {
            let mut c = util::Corr::new();
            c13::corr(&tier, seed, &mut c);
        }
        ("search", "C13") => {
            let mut s = util::Search::new();
            c13::search(&tier, seed, &mut s);
            s.finish();
        }
        ("corr", "C14") => {
            let mut c = util::Corr::new();
            c14::corr(&tier, seed, &mut c);
        }
        ("search", "C14") => {
            let mut s = util::Search::new();
            c14::search(&tier, seed, &mut s);
            s.finish();
        }
        ("search", "C17") => {
            let mut s = util::Search::new();
            c17::search(&tier, seed, &mut s);
            s.finish();
        }
        ("corr", "C15") => {
            let mut c = util::Corr::new();
            c15::corr(&tier, seed, &mut c);
        }
        ("search", "C15") => {
            let mut s = util::Search::new();
            c15::search(&tier, seed, &mut s);
            s.finish();
        }
        ("search", "C16") => {
            let mut s = util::Search::new();
            c16::search(&tier, seed, &mut s);
            s.finish();
        }
        _ => {
            eprintln!("unknown command");
            std::process::exit(2);
        }
    }
}
