mod util;
mod shrink;
mod pan;
mod corpus;
mod gen;
mod worker;
mod jobs;

#[global_allocator]
static GLOBAL: worker::CapAlloc = worker::CapAlloc;
mod c01;
mod c02;
mod c03;
mod c04;
mod c05;
mod c06;
mod c07;
mod c08;
mod tree;
mod c09;
mod c10;
mod c11;
mod c12;
mod c13;
mod c14;
mod c15;
mod c16;
mod c17;
mod c18;
mod c19;
mod c20;
mod rend;

fn main() {
    let args: Vec<String> = std::env::args().collect();
    if args.len() >= 2 && args[1] == "worker" {
        worker::child_main();
        return;
    }
    if args.len() < 3 {
        eprintln!("usage: vh corr|search <Cxx> [tier]");
        std::process::exit(2);
    }
    if args[1] == "shift" {
        // vh shift <file> <dx> <dy> [scale]: does render(translate·M) equal the shifted render(M)?
        let data = std::fs::read(&args[2]).unwrap();
        let o = corpus::opts_for(Some(std::path::Path::new(&args[2])));
        let t = usvg::Tree::from_data(&data, &o).unwrap();
        let (dx, dy): (i32, i32) = (args[3].parse().unwrap(), args[4].parse().unwrap());
        let scale: f32 = args.get(5).and_then(|x| x.parse().ok()).unwrap_or(1.0);
        println!("{:?}", c13::translate_differs(&t, scale, dx, dy));
        return;
    }
    if args[1] == "boxes" {
        // vh boxes <file>: every node with its transforms and absolute boxes
        let data = std::fs::read(&args[2]).unwrap();
        let o = corpus::opts_for(Some(std::path::Path::new(&args[2])));
        let t = usvg::Tree::from_data(&data, &o).unwrap();
        fn dump(g: &usvg::Group, d: usize) {
            println!("{}group id={:?} ts={:?} abs={:?} abs_layer={:?}", " ".repeat(d), g.id(), g.transform(), g.abs_transform(), g.abs_layer_bounding_box());
            for n in g.children() {
                match n {
                    usvg::Node::Group(c) => dump(c, d + 2),
                    n => println!("{}leaf id={:?} abs={:?} abs_bbox={:?} abs_stroke={:?}", " ".repeat(d + 2), n.id(), n.abs_transform(), n.abs_bounding_box(), n.abs_stroke_bounding_box()),
                }
            }
        }
        dump(t.root(), 0);
        return;
    }
    if args[1] == "write" {
        // vh write <file> [preserve]
        let data = std::fs::read(&args[2]).unwrap();
        let o = corpus::opts_for(Some(std::path::Path::new(&args[2])));
        let t = usvg::Tree::from_data(&data, &o).unwrap();
        let mut w = usvg::WriteOptions::default();
        w.preserve_text = args.get(3).map(|s| s == "preserve").unwrap_or(false);
        if let Ok(p) = std::env::var("VERIF_PREFIX") {
            w.id_prefix = Some(p);
        }
        println!("{}", t.to_string(&w));
        return;
    }
    if args[1] == "rt" {
        c08::debug(&args[2], args.get(3).and_then(|x| x.parse().ok()).unwrap_or(0), args.get(4).and_then(|x| x.parse().ok()).unwrap_or(1.0));
        return;
    }
    if args[1] == "c14dbg" {
        let svg = std::fs::read_to_string(&args[2]).unwrap();
        let f: Vec<f32> = args[3..7].iter().map(|x| x.parse().unwrap()).collect();
        let ts = resvg::tiny_skia::Transform::from_scale(f[0], f[1]).post_translate(f[2], f[3]);
        let extra: u32 = args.get(7).and_then(|x| x.parse().ok()).unwrap_or(0);
        c14::debug(&svg, ts, extra);
        return;
    }
    let tier = args.get(3).map(|s| s.as_str()).unwrap_or("quick").to_string();
    let seed = util::seed_from_env();
    macro_rules! dispatch {
        ($($id:literal => $m:ident),*) => {
            match (args[1].as_str(), args[2].as_str()) {
                $(("corr", $id) => {
                    let mut c = util::Corr::new();
                    $m::corr(&tier, seed, &mut c);
                }
                ("search", $id) => {
                    let mut s = util::Search::new();
                    $m::search(&tier, seed, &mut s);
                    s.finish();
                })*
                _ => {
                    eprintln!("unknown command");
                    std::process::exit(2);
                }
            }
        };
    }
    dispatch!("C01" => c01, "C02" => c02, "C03" => c03, "C04" => c04, "C05" => c05, "C06" => c06, "C07" => c07, "C08" => c08, "C09" => c09, "C10" => c10, "C11" => c11, "C12" => c12, "C13" => c13,
        "C14" => c14, "C15" => c15, "C16" => c16, "C17" => c17, "C18" => c18, "C19" => c19, "C20" => c20);
}
