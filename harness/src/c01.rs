//! C01: parsing is total — worker-isolated search over corpus, mutants, grammar documents, raw bytes.
use crate::util::*;
use crate::worker::{hex_encode, Outcome, Worker};
use std::time::Duration;

pub const POOL: [&str; 22] = [
    "0", "-0", "-1", "1e-40", "1e38", "3e38", "1e300", "-1e300", "1e-300", "100000", "2147483648", "4294967296", "65536", "0.0001", "1e10", "NaN", "inf", "", "1 2 3 4 5 6 7 8 9 10 11 12 13 14 15 16 17 18 19 20 21 22 23 24 25",
    "50%", "1e3%", "-5%",
];

pub fn classify(out: &Outcome) -> Option<(String, String)> {
    match out {
        Outcome::Answer(a) => a.strip_prefix("panic ").map(|site| (format!("panic:{}", site), format!("parser panicked: {}", site))),
        Outcome::Timeout => Some(("hang:parse".to_string(), "parsing did not finish within the budget".to_string())),
        Outcome::Crash { how, stderr } => {
            if stderr.contains("stack overflow") {
                // the signature names the recursion (see worker::resolve_overflow_site)
                let site = stderr.split("OVERFLOW-AT ").nth(1).map(|t| t.split(" | ").next().unwrap_or(t).trim().to_string());
                let sig = match site {
                    Some(t) => format!("crash:stack-overflow_@{}", t),
                    None => "crash:stack-overflow".to_string(),
                };
                Some((sig, format!("{} {}", how, stderr)))
            } else if let Some(i) = stderr.find("ALLOC-CAP") {
                let tail = &stderr[i..];
                let line = tail.split(" | ").next().unwrap_or(tail);
                let func = line.split(" in ").nth(1).unwrap_or("?").trim();
                Some((format!("alloc:{}", func), format!("huge allocation while parsing: {}", line)))
            } else {
                Some((format!("crash:{}", how.replace(' ', "-")), stderr.clone()))
            }
        }
    }
}

/// replace the value of one attribute (any, not only numeric ones) by a pool value
pub fn mutate_attr(text: &str, rng: &mut Rng) -> String {
    let b = text.as_bytes();
    let mut spots = vec![];
    let mut i = 0;
    while i + 1 < b.len() {
        if b[i] == b'=' && b[i + 1] == b'"' {
            let st = i + 2;
            if let Some(len) = text[st..].find('"') {
                spots.push((st, st + len));
                i = st + len;
            }
        }
        i += 1;
    }
    if spots.is_empty() {
        return text.to_string();
    }
    let (st, en) = *rng.pick(&spots);
    format!("{}{}{}", &text[..st], rng.pick(&POOL), &text[en..])
}

pub fn search(tier: &str, seed: u64, s: &mut Search) {
    let mut rng = Rng::new(seed ^ 0x5EA7C01);
    let mult = budget_mult() as usize;
    let steered = std::env::var("VERIF_STEER").is_ok();
    let mut wk = Worker::spawn();
    let timeout = Duration::from_secs(15);
    let mut run = |wk: &mut Worker, s: &mut Search, class: &str, data: &[u8], dpi: f32| {
        let out = wk.run(&format!("parse {} {}", dpi, hex_encode(data)), timeout);
        let hang_at = wk.last_hang.take();
        let key = String::from_utf8_lossy(data).to_string();
        s.case(class, &key, matches!(&out, Outcome::Answer(a) if a.starts_with("ok")));
        if !matches!(out, Outcome::Answer(_)) {
            *wk = Worker::spawn();
        }
        if let Some((sig, what)) = classify(&out) {
            // a job over budget: the signature names where it was executing
            let sig = if out == Outcome::Timeout { format!("{}_@{}", sig, hang_at.clone().unwrap_or_else(|| "?".into())) } else { sig };
            s.finding(&sig, &what, &key);
        }
    };
    // corpus, unmodified
    let nc = if tier == "thorough" { 0 } else { 150 * mult.min(3) };
    for p in crate::corpus::sample(nc, seed) {
        let Ok(data) = std::fs::read(&p) else { continue };
        run(&mut wk, s, "corpus", &data, *rng.pick(&[96.0, 10.0, 4000.0, 72.0]));
    }
    // grammar-generated documents (well-formed, every element kind of the generator)
    let ng = (if tier == "thorough" { 3000 } else { 300 }) * mult;
    for _ in 0..ng {
        let (w, h) = (rng.range(10, 200) as u32, rng.range(10, 200) as u32);
        let svg = crate::gen::random_doc(&mut rng, crate::gen::Cfg::full(w, h));
        run(&mut wk, s, "generated", svg.as_bytes(), 96.0);
    }
    // nesting and use-expansion bombs
    for depth in [10usize, 500, 1000, 1023, 1024, 1025, 2000, 20000, 200000] {
        let svg = format!(r#"<svg xmlns="http://www.w3.org/2000/svg">{}<rect width="1" height="1"/>{}</svg>"#, "<g>".repeat(depth), "</g>".repeat(depth));
        run(&mut wk, s, "nesting", svg.as_bytes(), 96.0);
        // the same depth inside a text element, as spans / links / references, and as unknown elements
        for (open, close) in [("<tspan>", "</tspan>"), ("<a>", "</a>"), ("<tspan><a>", "</a></tspan>")] {
            let svg = format!(r#"<svg xmlns="http://www.w3.org/2000/svg"><text y="10">{}x{}</text></svg>"#, open.repeat(depth), close.repeat(depth));
            run(&mut wk, s, "nesting-text", svg.as_bytes(), 96.0);
        }
        let svg = format!(r#"<svg xmlns="http://www.w3.org/2000/svg"><switch>{}<rect width="1" height="1"/>{}</switch></svg>"#, "<svg>".repeat(depth), "</svg>".repeat(depth));
        run(&mut wk, s, "nesting", svg.as_bytes(), 96.0);
    }
    for levels in [3usize, 6, 9] {
        // each level uses the previous one 10 times: 10^levels copies
        let mut defs = String::from(r#"<g id="b0"><rect width="1" height="1"/></g>"#);
        for i in 1..=levels {
            defs += &format!(r#"<g id="b{}">{}</g>"#, i, format!(r##"<use xlink:href="#b{}"/>"##, i - 1).repeat(10));
        }
        let svg = format!(r##"<svg xmlns="http://www.w3.org/2000/svg" xmlns:xlink="http://www.w3.org/1999/xlink"><defs>{}</defs><use xlink:href="#b{}"/></svg>"##, defs, levels);
        run(&mut wk, s, "use-bomb", svg.as_bytes(), 96.0);
    }
    // reference graphs in which every definition is used twice by the next one: converted once per user, a chain
    // of n definitions costs 2^n conversions unless something bounds it
    {
        let hdr = r#"<svg xmlns="http://www.w3.org/2000/svg" xmlns:xlink="http://www.w3.org/1999/xlink" width="100" height="100"><defs>"#;
        for kind in ["mask", "clipPath", "pattern", "filter", "marker", "use", "mask-user-space", "gradient-href"] {
            for levels in [6usize, 26] {
                let mut d = String::from(hdr);
                let last = levels;
                match kind {
                    "mask" | "mask-user-space" => {
                        let cu = if kind == "mask" { r#" maskContentUnits="objectBoundingBox""# } else { r#" maskUnits="userSpaceOnUse" width="100" height="100""# };
                        d += &format!(r#"<mask id="m0"{cu}><rect width="1" height="1" fill="white"/></mask>"#);
                        for i in 1..=levels {
                            d += &format!(r##"<mask id="m{i}"{cu}><rect width="1" height="0.5" fill="white" mask="url(#m{})"/><rect y="0.5" width="1" height="0.5" fill="white" mask="url(#m{})"/></mask>"##, i - 1, i - 1);
                        }
                        d += &format!(r##"</defs><rect width="50" height="50" mask="url(#m{last})"/></svg>"##);
                    }
                    "clipPath" => {
                        d += r#"<clipPath id="m0" clipPathUnits="objectBoundingBox"><rect width="1" height="1"/></clipPath>"#;
                        for i in 1..=levels {
                            d += &format!(r##"<clipPath id="m{i}" clipPathUnits="objectBoundingBox"><rect width="1" height="0.5" clip-path="url(#m{})"/><rect y="0.5" width="1" height="0.5" clip-path="url(#m{})"/></clipPath>"##, i - 1, i - 1);
                        }
                        d += &format!(r##"</defs><rect width="50" height="50" clip-path="url(#m{last})"/></svg>"##);
                    }
                    "pattern" => {
                        d += r#"<pattern id="m0" width="1" height="1"><rect width="10" height="10"/></pattern>"#;
                        for i in 1..=levels {
                            d += &format!(r##"<pattern id="m{i}" width="1" height="1"><rect width="10" height="5" fill="url(#m{})"/><rect y="5" width="10" height="5" fill="url(#m{})"/></pattern>"##, i - 1, i - 1);
                        }
                        d += &format!(r##"</defs><rect width="50" height="50" fill="url(#m{last})"/></svg>"##);
                    }
                    "filter" => {
                        d += r#"<filter id="m0"><feFlood/></filter>"#;
                        for i in 1..=levels {
                            d += &format!(r##"<filter id="m{i}"><feImage xlink:href="#r{i}a"/><feImage xlink:href="#r{i}b"/></filter><rect id="r{i}a" width="5" height="5" filter="url(#m{})"/><rect id="r{i}b" width="5" height="5" filter="url(#m{})"/>"##, i - 1, i - 1);
                        }
                        d += &format!(r##"</defs><rect width="50" height="50" filter="url(#m{last})"/></svg>"##);
                    }
                    "marker" => {
                        d += r#"<marker id="m0"><rect width="1" height="1"/></marker>"#;
                        for i in 1..=levels {
                            d += &format!(r##"<marker id="m{i}"><path d="M 0 0 L 1 1 L 2 0" stroke="black" marker-start="url(#m{})" marker-end="url(#m{})"/></marker>"##, i - 1, i - 1);
                        }
                        d += &format!(r##"</defs><path d="M 0 0 L 10 10" stroke="black" marker-start="url(#m{last})"/></svg>"##);
                    }
                    "use" => {
                        d += r#"<g id="m0"><rect width="1" height="1"/></g>"#;
                        for i in 1..=levels {
                            d += &format!(r##"<g id="m{i}"><use xlink:href="#m{}"/><use xlink:href="#m{}"/></g>"##, i - 1, i - 1);
                        }
                        d += &format!(r##"</defs><use xlink:href="#m{last}"/></svg>"##);
                    }
                    _ => {
                        d += r#"<linearGradient id="m0"><stop offset="0" stop-color="red"/><stop offset="1"/></linearGradient>"#;
                        for i in 1..=levels {
                            d += &format!(r##"<linearGradient id="m{i}" xlink:href="#m{}"/>"##, i - 1);
                        }
                        d += &format!(r##"</defs><rect width="50" height="50" fill="url(#m{last})" stroke="url(#m{last})"/></svg>"##);
                    }
                }
                let out = wk.run(&format!("parse 96 {}", hex_encode(d.as_bytes())), Duration::from_secs(6));
                let hang_at = wk.last_hang.take();
                let key = format!("definition graph, {} levels of {}, each used twice by the next", levels, kind);
                s.case("definition-dag", &key, matches!(&out, Outcome::Answer(a) if a.starts_with("ok")));
                if !matches!(out, Outcome::Answer(_)) {
                    wk = Worker::spawn();
                }
                if let Some((sig, what)) = classify(&out) {
                    // over budget (time, or memory on the way): this finding is identified by its input, the
                    // generated graph of this kind — where the sample happens to fall (conversion, the
                    // collect_* passes, bounding boxes) varies from run to run
                    let over_budget = out == Outcome::Timeout || sig.starts_with("alloc:");
                    let sig = if over_budget { format!("slow:definition-dag:{}", kind) } else { sig };
                    s.finding(&sig, &format!("{} ({}; sampled at {})", what, key, hang_at.unwrap_or_else(|| "?".into())), &d);
                }
            }
        }
    }
    // systematic: every attribute of two rich base documents × every pool value (deterministic)
    for (name, base) in [("base1", include_str!("../data/base1.svg")), ("base2", include_str!("../data/base2.svg"))] {
        let b = base.as_bytes();
        let mut i = 0;
        while i + 1 < b.len() {
            if b[i] == b'=' && b[i + 1] == b'"' {
                let st = i + 2;
                if let Some(len) = base[st..].find('"') {
                    // skip namespace declarations
                    let before = &base[..i];
                    let an = before.rsplit(|c: char| c == ' ' || c == '\n' || c == '<').next().unwrap_or("");
                    if !an.starts_with("xmlns") {
                        for v in POOL.iter() {
                            let doc = format!("{}{}{}", &base[..st], v, &base[st + len..]);
                            let class = format!("attr-sweep-{}", name);
                            let out = wk.run(&format!("parse 96 {}", hex_encode(doc.as_bytes())), timeout);
                            let hang_at = wk.last_hang.take();
                            let key = format!("{} {}=\"{}\"", name, an, v);
                            s.case(&class, &key, matches!(&out, Outcome::Answer(a) if a.starts_with("ok")));
                            if !matches!(out, Outcome::Answer(_)) {
                                wk = Worker::spawn();
                            }
                            if let Some((sig, what)) = classify(&out) {
                                let sig = if out == Outcome::Timeout { format!("{}_@{}", sig, hang_at.unwrap_or_else(|| "?".into())) } else { sig };
                                s.finding(&sig, &format!("{} ({})", what, key), &doc);
                            }
                        }
                    }
                    i = st + len;
                }
            }
            i += 1;
        }
    }
    // reference graphs (every link kind, cycles included) - shared with C03's enumeration
    {
        let cycles = crate::c03::enumerate_cycles(2);
        let take = if tier == "thorough" { cycles.len() } else { 120.min(cycles.len()) };
        for i in 0..take {
            let (tys, lks) = &cycles[(i * 7919 + seed as usize) % cycles.len()];
            let doc = crate::c03::cycle_doc(tys, lks, i % 2 == 0);
            run(&mut wk, s, "reference-graph", doc.as_bytes(), 96.0);
        }
        // a tail that leads into a cycle (the entry element is not part of it): every walk over a link chain must
        // remember all it has seen, not only where it started
        let tails: Vec<_> = crate::c03::enumerate_cycles(3).into_iter().filter(|(t, _)| t.iter().all(|x| *x == t[0])).collect();
        for (i, (tys, lks)) in tails.iter().enumerate().take(if tier == "thorough" { 400 } else { 80 }) {
            if let Some(doc) = crate::c03::tail_cycle_doc(tys, lks, (i % 2) as u32) {
                run(&mut wk, s, "reference-graph-tail", doc.as_bytes(), 96.0);
            }
        }
        // self references through every paint / effect attribute, on the definition's own content
        for attr in ["fill", "stroke", "clip-path", "mask", "filter", "marker-start", "marker-mid", "marker-end"] {
            for with_fill in [true, false] {
                let extra = if with_fill && attr != "fill" { r#" fill="red""# } else { "" };
                for (open, close, id) in [("<pattern id=\"d\" width=\"5\" height=\"5\">", "</pattern>", "d"), ("<clipPath id=\"d\">", "</clipPath>", "d"), ("<mask id=\"d\">", "</mask>", "d"), ("<marker id=\"d\">", "</marker>", "d"), ("<filter id=\"d\"><feImage xlink:href=\"#r\"/>", "</filter>", "d")] {
                    let doc = format!(
                        r##"<svg xmlns="http://www.w3.org/2000/svg" xmlns:xlink="http://www.w3.org/1999/xlink" width="20" height="20"><defs>{open}<path id="r" d="M 1 1 L 9 9 L 1 9" {attr}="url(#{id})"{extra}/>{close}</defs><rect width="10" height="10" {attr}="url(#{id})"/><rect width="5" height="5" fill="url(#{id})" stroke="url(#{id})"/></svg>"##
                    );
                    run(&mut wk, s, "self-reference", doc.as_bytes(), 96.0);
                }
            }
        }
    }
    // text: spans with unusable font sizes, multi-byte characters, per-character position lists
    {
        let sizes = ["0", "-3", "0em", "0%", "1e-40", "1e38", "NaN", "12"];
        // (with characters that the named font, or every loaded font, lacks: the fallback search must end)
        let texts = ["é", "日本", "a", "🙂x", "e\u{301}", "", " ", "abc אבג", "a\u{0E31}b", "\u{0E01}\u{0E31}\u{0E49}", "x\u{10FFFD}y", "\u{0301}\u{0E31}", "a\u{200D}\u{1F9FF}\u{FE0F}b"];
        let families = ["", r#" font-family="Noto Sans""#, r#" font-family="Noto Serif""#, r#" font-family="No Such Font, Noto Sans""#, r#" font-family="Source Sans Pro""#, r#" font-family="monospace""#];
        let nt = if tier == "thorough" { 600 } else { 120 } * mult;
        for _ in 0..nt {
            let spans: String = (0..1 + rng.below(4))
                .map(|_| {
                    let (fs, tx) = (*rng.pick(&sizes), *rng.pick(&texts));
                    match rng.below(3) {
                        0 => format!(r#"<tspan font-size="{fs}">{tx}</tspan>"#),
                        1 => format!(r#"<tspan font-size="{fs}" x="1 2 3" dy="1 1 1 1 1" rotate="10 20">{tx}</tspan>{}"#, rng.pick(&texts)),
                        _ => tx.to_string(),
                    }
                })
                .collect();
            let doc = format!(
                r#"<svg xmlns="http://www.w3.org/2000/svg" width="50" height="50"><text x="{}" y="20" dx="1 2" font-size="{}" letter-spacing="{}" writing-mode="{}"{}>{spans}</text></svg>"#,
                rng.pick(&["1", "1 2 3 4 5 6", ""]), rng.pick(&sizes), rng.pick(&["0", "1e38", "-5"]), rng.pick(&["lr", "tb"]), rng.pick(&families)
            );
            run(&mut wk, s, "text-edge", doc.as_bytes(), 96.0);
        }
    }
    // author names in the form the converter generates itself (result1, clipPath1, mask1, filter1, linearGradient1 …),
    // next to constructs that make it generate names: the uniqueness loops must end
    {
        let ng = if tier == "thorough" { 400 } else { 60 } * mult;
        for _ in 0..ng {
            let mut prims = String::new();
            for _ in 0..1 + rng.below(5) {
                let res = match rng.below(3) {
                    0 => String::new(),
                    _ => format!(r#" result="result{}""#, rng.range(1, 7)),
                };
                let inp = match rng.below(3) {
                    0 => String::new(),
                    1 => format!(r#" in="result{}""#, rng.range(1, 7)),
                    _ => r#" in="SourceGraphic""#.to_string(),
                };
                prims += &match rng.below(4) {
                    0 => format!(r#"<feFlood flood-color="red"{res}/>"#),
                    1 => format!(r#"<feOffset{inp} dx="2"{res}/>"#),
                    2 => format!(r#"<feBlend{inp} in2="result{}"{res}/>"#, rng.range(1, 7)),
                    _ => format!(r#"<feMerge{res}><feMergeNode{inp}/><feMergeNode/></feMerge>"#),
                };
            }
            let k = rng.range(1, 4);
            let doc = format!(
                r##"<svg xmlns="http://www.w3.org/2000/svg" xmlns:xlink="http://www.w3.org/1999/xlink" width="60" height="60"><defs><filter id="filter{k}" primitiveUnits="objectBoundingBox">{prims}</filter><clipPath id="clipPath{k}" clipPathUnits="objectBoundingBox"><rect width="1" height="1"/></clipPath><mask id="mask{k}" maskContentUnits="objectBoundingBox"><rect width="1" height="1" fill="white"/></mask><linearGradient id="linearGradient{k}"><stop offset="0"/><stop offset="1" stop-color="red"/></linearGradient><radialGradient id="radialGradient{k}"><stop offset="0"/><stop offset="1" stop-color="red"/></radialGradient><pattern id="pattern{k}" width="0.3" height="0.3"><rect width="2" height="2"/></pattern></defs><rect width="20" height="20" fill="url(#linearGradient{k})" stroke="url(#pattern{k})" clip-path="url(#clipPath{k})" mask="url(#mask{k})" filter="url(#filter{k})"/><rect x="25" width="30" height="10" fill="url(#radialGradient{k})" stroke="url(#linearGradient{k})" clip-path="url(#clipPath{k})" mask="url(#mask{k})" filter="url(#filter{k})"/><text x="2" y="50" font-size="12" fill="url(#pattern{k})" stroke="url(#radialGradient{k})">ab</text></svg>"##
            );
            run(&mut wk, s, "generated-names", doc.as_bytes(), 96.0);
        }
    }
    // huge geometry: curve and arc segments with adversarial magnitudes, stroked (the stroke box is computed while parsing)
    {
        let mags = [1.0f64, 1e6, 1e12, 1e17, 9e17, 1e18, 1.1e18, 1e19, 1e20, 1e30, 3e38];
        let nh = if tier == "thorough" { 3000 } else { 400 } * mult;
        for i in 0..nh {
            let mut c = |rng: &mut Rng| {
                let m = *rng.pick(&mags);
                let f = rng.range(0, 1000) as f64 / 1000.0;
                if rng.chance(1, 2) { m * f } else { -m * f }
            };
            let d = match i % 5 {
                0 => format!("M {} {} Q {} {} {} {}", c(&mut rng), c(&mut rng), c(&mut rng), c(&mut rng), c(&mut rng), c(&mut rng)),
                1 => format!("M {} {} C {} {} {} {} {} {}", c(&mut rng), c(&mut rng), c(&mut rng), c(&mut rng), c(&mut rng), c(&mut rng), c(&mut rng), c(&mut rng)),
                2 => format!("M {} {} Q {} {} {} {} T {} {} S {} {} {} {} Z", c(&mut rng), c(&mut rng), c(&mut rng), c(&mut rng), c(&mut rng), c(&mut rng), c(&mut rng), c(&mut rng), c(&mut rng), c(&mut rng), c(&mut rng), c(&mut rng)),
                3 if i % 120 == 3 => format!("M {} {} A {} {} {} {} {} {} {}", c(&mut rng), c(&mut rng), c(&mut rng), c(&mut rng), rng.range(0, 360), rng.below(2), rng.below(2), c(&mut rng), c(&mut rng)),
                3 => format!("M {} {} C {} {} {} {} {} {} S {} {} {} {}", c(&mut rng), c(&mut rng), c(&mut rng), c(&mut rng), c(&mut rng), c(&mut rng), c(&mut rng), c(&mut rng), c(&mut rng), c(&mut rng), c(&mut rng), c(&mut rng)),
                _ => format!("M 0 0 L {} {} Q {} {} 10 10 L 20 0", c(&mut rng), c(&mut rng), c(&mut rng), c(&mut rng)),
            };
            let doc = format!(
                r#"<svg xmlns="http://www.w3.org/2000/svg" viewBox="0 0 200 200"><path d="{}" fill="{}" stroke="black" stroke-width="{}" stroke-linejoin="{}" stroke-linecap="{}"{}/></svg>"#,
                d, rng.pick(&["none", "red"]), rng.pick(&["1", "0.001", "1e10", "1e18", "1e30"]), rng.pick(&["miter", "round", "bevel"]), rng.pick(&["butt", "round", "square"]),
                if rng.chance(1, 4) { r#" transform="rotate(30) skewX(10)""# } else { "" }
            );
            run(&mut wk, s, "huge-geometry", doc.as_bytes(), 96.0);
        }
    }
    // huge placement: positions and sizes of adversarial magnitude on everything that establishes a viewport or a
    // region (nested svg, use of svg / symbol, image, marker, pattern, mask, filter), where sums and products of
    // two lengths are formed while converting
    {
        let vals = ["0", "1", "10", "1e10", "-1e10", "3e38", "-3e38", "1e-25", "1e25", "1e-40", "1e19", "16777217", "2e38"];
        let inner_svg = "data:image/svg+xml;utf8,&lt;svg xmlns='http://www.w3.org/2000/svg' width='W' height='H'&gt;&lt;rect width='5' height='5'/&gt;&lt;/svg&gt;";
        let np = if tier == "thorough" { 4000 } else { 500 } * mult;
        for i in 0..np {
            let mut v = |rng: &mut Rng| -> &'static str { if rng.chance(1, 3) { "10" } else { *rng.pick(&vals) } };
            let (x, y, w, h) = (v(&mut rng), v(&mut rng), v(&mut rng), v(&mut rng));
            let vb = match rng.below(3) {
                0 => String::new(),
                1 => r#" viewBox="0 0 10 10""#.to_string(),
                _ => format!(r#" viewBox="{} {} {} {}" preserveAspectRatio="{}""#, v(&mut rng), v(&mut rng), v(&mut rng), v(&mut rng), rng.pick(&["none", "xMidYMid slice", "xMaxYMin meet"])),
            };
            let sw = v(&mut rng);
            let body = match i % 9 {
                0 => format!(r#"<svg x="{x}" y="{y}" width="{w}" height="{h}"{vb}><rect width="5" height="5"/></svg>"#),
                1 => format!(r##"<defs><svg id="n" width="{w}" height="{h}"{vb}><rect width="5" height="5"/></svg></defs><use xlink:href="#n" x="{x}" y="{y}"/>"##),
                2 => format!(r##"<defs><symbol id="n"{vb}><rect width="5" height="5"/></symbol></defs><use xlink:href="#n" x="{x}" y="{y}" width="{w}" height="{h}"/>"##),
                3 => format!(r#"<image x="{x}" y="{y}" width="{w}" height="{h}" preserveAspectRatio="{}" xlink:href="{}"/>"#, rng.pick(&["none", "xMidYMid slice", "xMidYMid meet"]), inner_svg.replace('W', v(&mut rng)).replace('H', v(&mut rng))),
                4 => format!(r##"<defs><marker id="m" markerWidth="{w}" markerHeight="{h}" refX="{x}" refY="{y}"{vb} markerUnits="{}"><rect width="5" height="5"/></marker></defs><path d="M 1 1 L 9 1 L 9 9" stroke="black" stroke-width="{sw}" marker-start="url(#m)" marker-mid="url(#m)"/>"##, rng.pick(&["strokeWidth", "userSpaceOnUse"])),
                5 => format!(r##"<defs><pattern id="p" x="{x}" y="{y}" width="{w}" height="{h}"{vb} patternUnits="{}"><rect width="5" height="5"/></pattern></defs><rect width="20" height="20" fill="url(#p)" stroke="url(#p)" stroke-width="{sw}"/>"##, rng.pick(&["userSpaceOnUse", "objectBoundingBox"])),
                6 => format!(r##"<defs><mask id="k" x="{x}" y="{y}" width="{w}" height="{h}" maskUnits="{}"><rect width="5" height="5" fill="white"/></mask></defs><rect width="20" height="20" mask="url(#k)"/>"##, rng.pick(&["userSpaceOnUse", "objectBoundingBox"])),
                7 => format!(r##"<defs><filter id="f" x="{x}" y="{y}" width="{w}" height="{h}" filterUnits="{}"><feOffset dx="{sw}"/></filter></defs><rect width="20" height="20" filter="url(#f)"/>"##, rng.pick(&["userSpaceOnUse", "objectBoundingBox"])),
                _ => format!(r#"<rect x="{x}" y="{y}" width="{w}" height="{h}" rx="{sw}" stroke="black" stroke-width="{}"/><ellipse cx="{x}" cy="{y}" rx="{w}" ry="{h}"/><line x1="{x}" y1="{y}" x2="{w}" y2="{h}" stroke="black"/>"#, v(&mut rng)),
            };
            let doc = format!(r#"<svg xmlns="http://www.w3.org/2000/svg" xmlns:xlink="http://www.w3.org/1999/xlink" width="100" height="100">{body}</svg>"#);
            run(&mut wk, s, "huge-placement", doc.as_bytes(), 96.0);
        }
    }
    // raw bytes and truncated gzip
    let nr = (if tier == "thorough" { 2000 } else { 200 }) * mult;
    for i in 0..nr {
        let len = rng.below(400) as usize;
        let mut data: Vec<u8> = (0..len).map(|_| rng.below(256) as u8).collect();
        if i % 3 == 0 {
            data.splice(0..0, [0x1f, 0x8b, 0x08]);
        } else if i % 3 == 1 {
            data.splice(0..0, b"<svg xmlns=\"http://www.w3.org/2000/svg\">".iter().copied());
        }
        run(&mut wk, s, "raw-bytes", &data, 96.0);
    }
    // adversarial magnitudes spliced into corpus files (thorough tier, or when steered)
    let nm = if tier == "thorough" { 1500 * mult } else if steered { 300 * mult } else { 0 };
    if nm > 0 {
        let files = crate::corpus::sample(nm.min(1695), seed ^ 5);
        for p in files {
            let Ok(text) = std::fs::read_to_string(&p) else { continue };
            let m = mutate_attr(&text, &mut rng);
            run(&mut wk, s, "corpus-mutant", m.as_bytes(), *rng.pick(&[96.0, 10.0, 4000.0]));
        }
    }
}

// ------------------------------------------------------------------------------------------
// correspondence: svgtree construction (XML skeletons incl. use expansion and the depth limit)

#[derive(Clone)]
pub struct XNode {
    pub nid: usize,
    /// "s" SVG-namespace element, "o" foreign element, "t" text/comment/PI
    pub kind: &'static str,
    pub name: String,
    /// (namespace kind n/s/x/m/o, local name, value)
    pub attrs: Vec<(&'static str, String, String)>,
    pub children: Vec<XNode>,
    /// raw text for kind "t"
    pub raw: String,
}

pub struct XGen<'a> {
    pub rng: &'a mut Rng,
    pub next: usize,
    pub ids: Vec<&'static str>,
}

const ID_POOL: [&str; 6] = ["a", "b", "c", "d", "e", "f"];

impl<'a> XGen<'a> {
    fn nid(&mut self) -> usize {
        self.next += 1;
        self.next
    }

    fn attrs(&mut self, allow_id: bool) -> Vec<(&'static str, String, String)> {
        let mut v = vec![];
        let mut used: Vec<String> = vec![];
        let mut push = |v: &mut Vec<(&'static str, String, String)>, ns: &'static str, n: &str, val: &str| {
            let key = format!("{}:{}", ns, n);
            if !used.contains(&key) {
                used.push(key);
                v.push((ns, n.to_string(), val.to_string()));
            }
        };
        if allow_id && self.rng.chance(1, 2) {
            let id = *self.rng.pick(&ID_POOL);
            push(&mut v, "n", "id", id);
        }
        for _ in 0..self.rng.below(4) {
            match self.rng.below(9) {
                0 => push(&mut v, "n", "fill", "red"),
                1 => push(&mut v, "n", "data-x", "1"),
                2 => push(&mut v, "o", "fill", "blue"),
                3 => push(&mut v, "n", "mix-blend-mode", "multiply"),
                4 => push(&mut v, "n", "image-rendering", *self.rng.pick(&["pixelated", "optimizeSpeed"])),
                5 => push(&mut v, "m", "space", "preserve"),
                6 => push(&mut v, "n", "width", "10"),
                7 => push(&mut v, "n", "opacity", "0.5"),
                _ => push(&mut v, "n", "stroke-width", "2"),
            }
        }
        v
    }

    /// content of a `text` element: spans, links, references, text paths (kept only directly under
    /// `text`), other elements (skipped with their content) and character data
    pub fn text_child(&mut self, depth: u32) -> XNode {
        let nid = self.nid();
        let r = self.rng.below(12);
        if r < 3 {
            let raw = match self.rng.below(3) {
                0 => "<!-- c -->".to_string(),
                1 => "  \n ".to_string(),
                _ => "txt".to_string(),
            };
            return XNode { nid, kind: "t", name: String::new(), attrs: vec![], children: vec![], raw };
        }
        let name = match r {
            3..=6 => "tspan",
            7 => "a",
            8 => "tref",
            9 => "textPath",
            10 => *self.rng.pick(&["rect", "g", "text", "foo"]),
            _ => "bar",
        };
        let kind = if r == 11 { "o" } else { "s" };
        let mut attrs = self.attrs(true);
        if name == "tref" || name == "textPath" {
            attrs.push(("x", "href".into(), format!("#{}", self.rng.pick(&ID_POOL))));
        }
        let mut n = XNode { nid, kind, name: name.into(), attrs, children: vec![], raw: String::new() };
        if depth < 6 {
            for _ in 0..self.rng.below(3) {
                let c = self.text_child(depth + 1);
                n.children.push(c);
            }
        }
        n
    }

    pub fn node(&mut self, depth: u32) -> XNode {
        let nid = self.nid();
        let r = self.rng.below(20);
        if r < 3 {
            let raw = match self.rng.below(4) {
                0 => "<!-- c -->".to_string(),
                1 => "<?pi x?>".to_string(),
                2 => "  \n ".to_string(),
                _ => "txt".to_string(),
            };
            return XNode { nid, kind: "t", name: String::new(), attrs: vec![], children: vec![], raw };
        }
        if r == 3 {
            // foreign element with SVG content inside (must be skipped as a whole)
            let mut n = XNode { nid, kind: "o", name: "bar".into(), attrs: self.attrs(true), children: vec![], raw: String::new() };
            if depth < 4 {
                for _ in 0..self.rng.below(3) {
                    n.children.push(self.node(depth + 1));
                }
            }
            return n;
        }
        if r < 8 {
            // use
            let mut attrs = self.attrs(true);
            let tgt = if self.rng.chance(1, 8) { "zz" } else { *self.rng.pick(&ID_POOL) };
            match self.rng.below(4) {
                0 => attrs.push(("n", "href".into(), format!("#{}", tgt))),
                1 => {
                    attrs.push(("x", "href".into(), format!("#{}", tgt)));
                    attrs.push(("n", "href".into(), format!("#{}", self.rng.pick(&ID_POOL))));
                }
                2 => attrs.push(("x", "href".into(), format!(" #{} ", tgt))),
                _ => attrs.push(("x", "href".into(), format!("#{}", tgt))),
            }
            let mut n = XNode { nid, kind: "s", name: "use".into(), attrs, children: vec![], raw: String::new() };
            if self.rng.chance(1, 6) {
                // children of a `use` element are ignored
                n.children.push(self.node(depth + 1));
            }
            return n;
        }
        let name = *self.rng.pick(&["g", "g", "g", "a", "defs", "symbol", "rect", "circle", "style", "foo", "switch", "svg", "linearGradient", "clipPath", "text"]);
        let mut n = XNode { nid, kind: "s", name: name.into(), attrs: self.attrs(true), children: vec![], raw: String::new() };
        if name == "text" {
            for _ in 0..self.rng.below(5) {
                let c = self.text_child(depth + 1);
                n.children.push(c);
            }
            return n;
        }
        if name == "style" {
            n.attrs = vec![("n", "type".into(), "text/x-none".into())];
        }
        if depth < 5 && !matches!(name, "rect" | "circle") {
            for _ in 0..self.rng.below(4) {
                n.children.push(self.node(depth + 1));
            }
        }
        n
    }
}

fn esc(s: &str) -> String {
    s.replace('&', "&amp;").replace('<', "&lt;").replace('"', "&quot;")
}

pub fn write_xml(n: &XNode, out: &mut String, root: bool) {
    if n.kind == "t" {
        out.push_str(&n.raw);
        return;
    }
    let name = if n.kind == "o" { format!("x:{}", n.name) } else { n.name.clone() };
    out.push_str(&format!("<{}", name));
    if root {
        out.push_str(r#" xmlns="http://www.w3.org/2000/svg" xmlns:xlink="http://www.w3.org/1999/xlink" xmlns:x="urn:x""#);
    }
    for (ns, an, v) in &n.attrs {
        let pre = match *ns {
            "x" => "xlink:",
            "m" => "xml:",
            "o" => "x:",
            _ => "",
        };
        out.push_str(&format!(r#" {}{}="{}""#, pre, an, esc(v)));
    }
    if n.children.is_empty() {
        out.push_str("/>");
    } else {
        out.push('>');
        for c in &n.children {
            write_xml(c, out, false);
        }
        out.push_str(&format!("</{}>", name));
    }
}

pub fn flat(n: &XNode, depth: usize, out: &mut Vec<String>) {
    let attrs = if n.attrs.is_empty() {
        "-".to_string()
    } else {
        n.attrs.iter().map(|(ns, an, v)| format!("{}:{}={}", ns, an, usvg::verif_svgtree::hex(v))).collect::<Vec<_>>().join(",")
    };
    out.push(format!("{}|{}|{}|{}|{}", depth, n.nid, n.kind, if n.name.is_empty() { "-" } else { &n.name }, attrs));
    for c in &n.children {
        flat(c, depth + 1, out);
    }
}

fn dump_answer(svg: &str) -> String {
    match crate::pan::catch(|| usvg::verif_svgtree::dump_svgtree(svg, None)) {
        Ok(Ok(lines)) => {
            let es: Vec<String> = lines.iter().filter(|l| l.starts_with("E ")).map(|l| l[2..].to_string()).collect();
            format!("ok {}", es.join(" ; "))
        }
        Ok(Err(e)) => {
            if e.contains("nodes limit") {
                "err nodes-limit".to_string()
            } else {
                format!("err {}", e.replace(' ', "_"))
            }
        }
        Err(p) => format!("panic:{}", p.site),
    }
}

pub fn corr(tier: &str, seed: u64, c: &mut Corr) {
    let mut rng = Rng::new(seed ^ 0xC01);
    let n = if tier == "thorough" { 6000 } else { 600 };
    for _ in 0..n {
        let mut g = XGen { rng: &mut rng, next: 0, ids: vec![] };
        let nid = g.nid();
        let mut root = XNode { nid, kind: "s", name: "svg".into(), attrs: vec![("n", "width".into(), "10".into())], children: vec![], raw: String::new() };
        for _ in 0..1 + g.rng.below(5) {
            root.children.push(g.node(1));
        }
        let mut xml = String::new();
        write_xml(&root, &mut xml, true);
        let mut fl = vec![];
        flat(&root, 0, &mut fl);
        let ans = dump_answer(&xml);
        if ans.starts_with("err ") && ans != "err nodes-limit" {
            // not well-formed by construction mistake (e.g. no element root): skip
            continue;
        }
        c.emit(&format!("build {}", fl.join(" ")), &ans);
    }
    // span nesting inside a text element around the depth limit
    for depth in [3usize, 1021, 1022, 1023, 1024, 1025] {
        for leaf_text in [true, false] {
            let mut node = XNode { nid: depth + 3, kind: "t", name: String::new(), attrs: vec![], children: vec![], raw: "x".into() };
            for d in (0..depth).rev() {
                let children = if d + 1 == depth && !leaf_text { vec![] } else { vec![node] };
                node = XNode { nid: d + 3, kind: "s", name: if d % 2 == 0 { "tspan".into() } else { "a".into() }, attrs: vec![], children, raw: String::new() };
            }
            let text = XNode { nid: 2, kind: "s", name: "text".into(), attrs: vec![], children: vec![node], raw: String::new() };
            let root = XNode { nid: 1, kind: "s", name: "svg".into(), attrs: vec![], children: vec![text], raw: String::new() };
            let mut xml = String::new();
            write_xml(&root, &mut xml, true);
            let mut fl = vec![];
            flat(&root, 0, &mut fl);
            c.emit(&format!("build {}", fl.join(" ")), &dump_answer(&xml));
        }
    }
    // nesting around the depth limit
    for depth in [5usize, 1022, 1023, 1024, 1025, 1026] {
        let mut node = XNode { nid: depth + 2, kind: "s", name: "rect".into(), attrs: vec![], children: vec![], raw: String::new() };
        for d in (0..depth).rev() {
            node = XNode { nid: d + 2, kind: "s", name: "g".into(), attrs: vec![], children: vec![node], raw: String::new() };
        }
        let root = XNode { nid: 1, kind: "s", name: "svg".into(), attrs: vec![], children: vec![node], raw: String::new() };
        let mut xml = String::new();
        write_xml(&root, &mut xml, true);
        let mut fl = vec![];
        flat(&root, 0, &mut fl);
        c.emit(&format!("build {}", fl.join(" ")), &dump_answer(&xml));
    }
}
