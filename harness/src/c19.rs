//! C19: exporting one node equals that node's part of the full rendering.
//! corr: the transform render_node hands to the renderer (hook trace) and node_by_id against the model.
//! search: render_node vs the crop of the full rendering on documents with one visible node under a
//!         chain of transformed groups; id lookup vs a full walk; "nothing to render" only for zero-sized nodes.
use crate::pan;
use crate::util::*;
use resvg::tiny_skia;
use usvg::{Group, Node};

fn zb(f: f32) -> String {
    if f == 0.0 { "00000000".into() } else { format!("{:08x}", f.to_bits()) }
}
fn ts_csv(t: usvg::Transform) -> String {
    format!("{},{},{},{},{},{}", zb(t.sx), zb(t.ky), zb(t.kx), zb(t.sy), zb(t.tx), zb(t.ty))
}
fn hexs(s: &str) -> String {
    if s.is_empty() { "-".into() } else { s.bytes().map(|b| format!("{:02x}", b)).collect() }
}

fn dump_ids(g: &Group, out: &mut String, count: &mut usize) {
    for n in g.children() {
        *count += 1;
        out.push_str(&format!("n {} [ ", hexs(n.id())));
        if let Node::Group(cg) = n {
            dump_ids(cg, out, count);
        }
        out.push_str("] ");
    }
}

fn path_of(g: &Group, target: *const Node, prefix: &mut Vec<usize>) -> Option<Vec<usize>> {
    for (i, n) in g.children().iter().enumerate() {
        prefix.push(i);
        if std::ptr::eq(n as *const Node, target) {
            return Some(prefix.clone());
        }
        if let Node::Group(cg) = n {
            if let Some(p) = path_of(cg, target, prefix) {
                return Some(p);
            }
        }
        prefix.pop();
    }
    None
}

fn all_ids(g: &Group, out: &mut Vec<String>) {
    for n in g.children() {
        if !n.id().is_empty() {
            out.push(n.id().to_string());
        }
        if let Node::Group(cg) = n {
            all_ids(cg, out);
        }
    }
}

fn ancestors_ts(n: &Node) -> Option<usvg::Transform> {
    match n {
        Node::Group(g) => Some(g.abs_transform().pre_concat(g.transform().invert()?)),
        n => Some(n.abs_transform()),
    }
}

fn trees(tier: &str, seed: u64, rng: &mut Rng) -> Vec<(String, usvg::Tree)> {
    let mut v = vec![];
    let nc = if tier == "thorough" { 0 } else { 150 };
    for p in crate::corpus::sample(nc, seed) {
        let Ok(data) = std::fs::read(&p) else { continue };
        let o = crate::corpus::opts_for(Some(&p));
        if let Ok(Ok(t)) = pan::catch(|| usvg::Tree::from_data(&data, &o)) {
            v.push((p.display().to_string(), t));
        }
    }
    let o = crate::corpus::opts_for(None);
    for _ in 0..(if tier == "thorough" { 800 } else { 80 }) {
        let (w, h) = (rng.range(20, 150) as u32, rng.range(20, 150) as u32);
        let svg = crate::gen::random_doc(rng, crate::gen::Cfg::full(w, h));
        if let Ok(Ok(t)) = pan::catch(|| usvg::Tree::from_str(&svg, &o)) {
            v.push((svg, t));
        }
    }
    v
}

pub fn corr(tier: &str, seed: u64, c: &mut Corr) {
    let mut rng = Rng::new(seed ^ 0xC19);
    for (_key, t) in trees(tier, seed, &mut rng) {
        // ---- id lookup
        let mut dump = String::from("[ ");
        let mut count = 0;
        dump_ids(t.root(), &mut dump, &mut count);
        dump.push(']');
        if count > 0 && count <= 300 {
            let mut ids = vec![];
            all_ids(t.root(), &mut ids);
            ids.sort();
            ids.dedup();
            ids.truncate(6);
            ids.push("no-such-id".into());
            for id in ids {
                let ans = match t.node_by_id(&id) {
                    Some(n) => path_of(t.root(), n as *const Node, &mut vec![]).map(|p| p.iter().map(|i| i.to_string()).collect::<Vec<_>>().join("/")).unwrap_or_else(|| "not-in-tree".into()),
                    None => "none".into(),
                };
                c.emit(&format!("findid {} {}", hexs(&id), dump), &ans);
            }
        }
        // ---- "nothing to render": the box of every leaf against the model's non-zero test
        {
            fn leaves<'a>(g: &'a usvg::Group, out: &mut Vec<&'a Node>) {
                for n in g.children() {
                    match n {
                        Node::Group(c) => leaves(c, out),
                        n => out.push(n),
                    }
                }
            }
            let mut ls = vec![];
            leaves(t.root(), &mut ls);
            for n in ls.iter().take(40) {
                let b = n.abs_bounding_box();
                let ans = if n.abs_layer_bounding_box().is_some() { "some" } else { "none" };
                c.emit(&format!("canvas {} {} {} {} {}", hx(b.left()), hx(b.top()), hx(b.right()), hx(b.bottom()), hx(1.0)), ans);
            }
        }
        // ---- export transform of a few nodes with ids
        let mut ids = vec![];
        all_ids(t.root(), &mut ids);
        for id in ids.iter().take(4) {
            let Some(n) = t.node_by_id(id) else { continue };
            let Some(anc) = ancestors_ts(n) else { continue };
            let user = match rng.below(3) {
                0 => tiny_skia::Transform::identity(),
                1 => tiny_skia::Transform::from_scale(2.0, 2.0),
                _ => tiny_skia::Transform::from_row(1.5, 0.0, 0.0, 0.5, 3.25, -1.5),
            };
            let Some(mut pm) = tiny_skia::Pixmap::new(16, 16) else { continue };
            resvg::verif::trace_start();
            let r = pan::catch(|| resvg::render_node(n, user, &mut pm.as_mut()));
            let lines = resvg::verif::trace_take();
            if r.is_err() {
                continue;
            }
            for l in lines {
                if let Some(rest) = l.strip_prefix("export_ts ") {
                    let p: Vec<&str> = rest.split(' ').collect();
                    if p.len() == 9 {
                        let canon = |h: &str| if h == "80000000" { "00000000".to_string() } else { h.to_string() };
                        let ans: Vec<String> = p[..6].iter().map(|h| canon(h)).collect();
                        c.emit(&format!("exportts {} {} {} {}", ts_csv(user), p[7], p[8], ts_csv(anc)), &ans.join(" "));
                    }
                }
            }
        }
    }
}

fn crop(pm: &tiny_skia::Pixmap, x: i32, y: i32, w: u32, h: u32) -> Option<tiny_skia::Pixmap> {
    // crop with transparent padding outside the source
    let mut out = tiny_skia::Pixmap::new(w, h)?;
    out.draw_pixmap(-x, -y, pm.as_ref(), &tiny_skia::PixmapPaint::default(), tiny_skia::Transform::identity(), None);
    Some(out)
}

pub fn search(tier: &str, seed: u64, s: &mut Search) {
    let mut rng = Rng::new(seed ^ 0x5EA7C19);
    let mult = budget_mult() as usize;
    // ---- lookup by id vs a full walk; "nothing to render" only for zero-sized nodes
    for (key, t) in trees(tier, seed ^ 1, &mut rng) {
        let mut ids = vec![];
        all_ids(t.root(), &mut ids);
        s.case("id-lookup", &key, !ids.is_empty());
        for id in &ids {
            match t.node_by_id(id) {
                None => s.finding("oracle:C19:node-by-id-misses-carried-id", &format!("a node carries id {:?} but node_by_id finds nothing", id), &key),
                Some(n) if n.id() != id => s.finding("oracle:C19:node-by-id-wrong-node", &format!("node_by_id({:?}) returned a node with id {:?}", id, n.id()), &key),
                Some(n) => {
                    let Some(mut pm) = tiny_skia::Pixmap::new(8, 8) else { continue };
                    if let Ok(None) = pan::catch(|| resvg::render_node(n, tiny_skia::Transform::identity(), &mut pm.as_mut())) {
                        // the documented layer box of a path / text / image is its absolute (fill) bounding box
                        let b = n.abs_bounding_box();
                        let zero = b.width() <= 0.0 || b.height() <= 0.0 || matches!(n, Node::Group(g) if !g.has_children());
                        if !zero {
                            s.finding("oracle:C19:nothing-to-render-for-a-sized-node", &format!("render_node returned None for {:?} whose box is {:?}", id, b), &key);
                        }
                    }
                }
            }
        }
        for absent in ["no-such-id", ""] {
            if t.node_by_id(absent).is_some() && !ids.iter().any(|i| i == absent) {
                s.finding("oracle:C19:node-by-id-finds-absent-id", &format!("node_by_id({:?}) found a node although no node carries it", absent), &key);
            }
        }
    }
    // ---- one visible node under a chain of transformed groups: export vs crop of the full rendering
    let o = crate::corpus::opts_for(None);
    let n = (if tier == "thorough" { 2500 } else { 250 }) * mult;
    for i in 0..n {
        let tf = |rng: &mut Rng| -> String {
            match rng.below(6) {
                0 => String::new(),
                1 => format!(r#" transform="translate({} {})""#, rng.range(-20, 40), rng.range(-20, 40)),
                2 => format!(r#" transform="scale({})""#, *rng.pick(&["0.5", "1.5", "2"])),
                3 => format!(r#" transform="rotate({} 80 80)""#, rng.range(-90, 90)),
                4 => format!(r#" transform="skewX({})""#, rng.range(-30, 30)),
                _ => format!(r#" transform="matrix({} {} {} {} {} {})""#, *rng.pick(&["1", "0.7", "1.2"]), *rng.pick(&["0", "0.3"]), *rng.pick(&["0", "-0.2"]), *rng.pick(&["1", "0.8"]), rng.range(0, 30), rng.range(0, 30)),
            }
        };
        let (x, y) = (rng.range(30, 90), rng.range(30, 90));
        let (sw, sh) = (rng.range(8, 50), rng.range(8, 50));
        let effect = *rng.pick(&["", r#" opacity="0.6""#, r##" filter="url(#blur)""##, r##" clip-path="url(#cp)""##, r##" mask="url(#mk1)""##, r##" filter="url(#shadow)""##]);
        let slice_uri = format!("data:image/svg+xml;base64,{}", crate::c17::b64(br##"<svg xmlns="http://www.w3.org/2000/svg" width="20" height="20"><rect width="20" height="20" fill="#08f"/><circle cx="10" cy="10" r="7" fill="#f80"/></svg>"##));
        let node = match if i % 11 == 10 { 5 } else { i % 5 } {
            5 => format!(r#"<image id="n" x="{x}" y="{y}" width="{}" height="{}" preserveAspectRatio="{}" xlink:href="{slice_uri}"/>"#, sw + 10, sh + 10, *rng.pick(&["xMidYMid slice", "xMinYMax slice", "xMidYMid meet", "none"])),
            0 => format!(r#"<rect id="n" x="{x}" y="{y}" width="{sw}" height="{sh}" fill="red" stroke="blue" stroke-width="3"/>"#),
            1 => format!(r#"<g id="n"{}{effect}><rect x="{x}" y="{y}" width="{sw}" height="{sh}" fill="green"/><circle cx="{}" cy="{}" r="{}" fill="orange" fill-opacity="0.7"/></g>"#, tf(&mut rng), x + sw, y + sh, sh / 2 + 2),
            2 => format!(r#"<text id="n" x="{x}" y="{y}" font-size="{}" fill="black">Node</text>"#, rng.range(10, 28)),
            3 => format!(r##"<use id="n" xlink:href="#shape" x="{x}" y="{y}"{}/>"##, if rng.chance(1, 2) { tf(&mut rng) } else { String::new() }),
            _ => format!(r#"<path id="n" d="M {x} {y} l {sw} 5 l -{} {sh} z" fill="purple" stroke="black" stroke-width="2" stroke-linejoin="round"/>"#, sw / 2),
        };
        // an instance before the node that the converter drops (nothing visible): nothing of it may stay behind
        // in the absolute transform of its parent and later siblings
        let dropped = if rng.chance(1, 4) {
            format!(r##"<use xlink:href="#shape" x="{}" y="{}" {}/>"##, rng.range(20, 90), rng.range(20, 90), r##"filter="url(#missing)""##)
        } else {
            String::new()
        };
        let depth = rng.below(4);
        let (mut open, mut close) = (String::new(), String::new());
        for _ in 0..depth {
            open += &format!("<g{}>", tf(&mut rng));
            close += "</g>";
        }
        let svg = format!(
            r##"<svg xmlns="http://www.w3.org/2000/svg" xmlns:xlink="http://www.w3.org/1999/xlink" width="200" height="200"><defs><rect id="shape" width="30" height="20" fill="teal"/><filter id="blur"><feGaussianBlur stdDeviation="2"/></filter><filter id="shadow" x="-0.5" y="-0.5" width="2" height="2"><feDropShadow dx="5" dy="5" stdDeviation="1"/></filter><clipPath id="cp"><circle cx="70" cy="70" r="45"/></clipPath><mask id="mk1"><rect x="0" y="0" width="300" height="300" fill="white" fill-opacity="0.8"/></mask></defs>{open}{dropped}{node}{close}</svg>"##
        );
        let Ok(Ok(t)) = pan::catch(|| usvg::Tree::from_str(&svg, &o)) else { continue };
        let Some(nd) = t.node_by_id("n") else { continue };
        let scale = if rng.chance(1, 3) { 2.0f32 } else { 1.0 };
        let Some(bb) = nd.abs_layer_bounding_box() else { continue };
        // device-space box of the node in the full rendering at `scale`
        let (l, tp, r, b) = (bb.left() * scale, bb.top() * scale, bb.right() * scale, bb.bottom() * scale);
        let (x0, y0) = (l.floor(), tp.floor());
        let (w, h) = (((r.ceil() - x0) as u32).clamp(1, 600), ((b.ceil() - y0) as u32).clamp(1, 600));
        // the export, aligned to the pixel grid of the full rendering: shift by the fractional part of the origin
        let user = tiny_skia::Transform::from_scale(scale, scale).post_translate(l - x0, tp - y0);
        let Some(mut ex) = tiny_skia::Pixmap::new(w, h) else { continue };
        let Ok(res) = pan::catch(|| resvg::render_node(nd, user, &mut ex.as_mut())) else {
            s.finding("oracle:C19:render-node-panicked", "render_node panicked", &svg);
            continue;
        };
        if res.is_none() {
            continue;
        }
        let cs = (200.0 * scale) as u32;
        // compare nodes that lie on the canvas (the crop of the full rendering knows nothing beyond it)
        if x0 < 1.0 || y0 < 1.0 || x0 + w as f32 > cs as f32 - 1.0 || y0 + h as f32 > cs as f32 - 1.0 {
            s.case("export-off-canvas-skipped", &svg, false);
            continue;
        }
        let Ok(Some(full)) = pan::catch(|| crate::rend::render(&t, cs, cs, tiny_skia::Transform::from_scale(scale, scale))) else { continue };
        let Some(cr) = crop(&full, x0 as i32, y0 as i32, w, h) else { continue };
        // the crop only knows what is on the full canvas: compare on the part of the export that lies on it
        let (cw, ch) = (cs as i32, cs as i32);
        let mut exm = ex.clone();
        for yy in 0..h as i32 {
            for xx in 0..w as i32 {
                let (gx, gy) = (xx + x0 as i32, yy + y0 as i32);
                if gx < 0 || gy < 0 || gx >= cw || gy >= ch {
                    let idx = ((yy as u32 * w + xx as u32) * 4) as usize;
                    exm.data_mut()[idx..idx + 4].copy_from_slice(&[0, 0, 0, 0]);
                }
            }
        }
        let painted = exm.data().chunks(4).any(|p| p[3] != 0) || cr.data().chunks(4).any(|p| p[3] != 0);
        let mut kind = if node.starts_with("<image") { "image" } else { ["shape", "group", "text", "use", "path"][(i % 5) as usize] };
        if kind == "use" && node.contains("transform=") {
            // recorded C12 defect: the absolute transform of a use with a transform attribute applies it twice
            kind = "use-with-transform-attribute";
        }
        s.case(&format!("export-{}", kind), &svg, painted);
        let (ok, why) = crate::rend::similar(&exm, &cr, 6);
        if !ok {
            s.finding(&format!("oracle:C19:export-differs-from-full-rendering:{}", kind), &format!("scale {}: render_node of #n vs the crop {}x{} at ({},{}) of the full rendering: {}", scale, w, h, x0, y0, why), &svg);
        }
    }
}
