//! C10: structural constructs vs their expansions.
use crate::c09::canon;
use crate::c17::{gen_len, num, Num};
use crate::pan;
use crate::util::*;

fn opts() -> usvg::Options<'static> {
    crate::corpus::opts_for(None)
}

fn ts_bits(t: usvg::Transform) -> String {
    let c = |f: f32| if f == 0.0 { 0u32 } else { f.to_bits() };
    format!("{:08x} {:08x} {:08x} {:08x} {:08x} {:08x}", c(t.sx), c(t.ky), c(t.kx), c(t.sy), c(t.tx), c(t.ty))
}

fn first_group_ts(g: &usvg::Group) -> usvg::Transform {
    match g.children().first() {
        Some(usvg::Node::Group(c)) => c.transform(),
        _ => usvg::Transform::identity(),
    }
}

fn first_clip_group(g: &usvg::Group) -> Option<&usvg::Group> {
    for n in g.children() {
        if let usvg::Node::Group(c) = n {
            if c.clip_path().is_some() {
                return Some(c);
            }
            if let Some(f) = first_clip_group(c) {
                return Some(f);
            }
        }
    }
    None
}

fn first_path(g: &usvg::Group) -> Option<&usvg::Path> {
    for n in g.children() {
        match n {
            usvg::Node::Path(p) => return Some(p),
            usvg::Node::Group(c) => {
                if let Some(p) = first_path(c) {
                    return Some(p);
                }
            }
            _ => {}
        }
    }
    None
}

/// `use` of a symbol with the given size attributes in a viewport vw x vh: "<clip w> <clip h> | <child w> <child h>"
fn use_symbol_sizes(rng: &mut Rng, c: &mut Corr) {
    let units = [("", "none"), ("px", "px"), ("in", "in"), ("mm", "mm"), ("pt", "pt"), ("%", "percent"), ("%", "percent"), ("%", "percent"), ("em", "em")];
    let mut side = |rng: &mut Rng| -> (String, String) {
        match rng.below(8) {
            0 => (String::new(), "absent".to_string()),
            _ => {
                let (suffix, uname) = *rng.pick(&units);
                let n = match rng.below(16) {
                    0 => num("0".into()),
                    1 => num("-5".into()),
                    2 => num("50".into()),
                    3 => num("100".into()),
                    _ => gen_len(rng, true),
                };
                (format!(r#"{}{}"#, n.text, suffix), format!("{}:{:016x}", uname, n.f64v.to_bits()))
            }
        }
    };
    let (wt, wr) = side(rng);
    let (ht, hr) = side(rng);
    let (vw, vh) = (gen_len(rng, true), gen_len(rng, true));
    let mut attrs = String::new();
    if !wt.is_empty() {
        attrs += &format!(r#" width="{}""#, wt);
    }
    if !ht.is_empty() {
        attrs += &format!(r#" height="{}""#, ht);
    }
    let svg = format!(
        r##"<svg xmlns="http://www.w3.org/2000/svg" xmlns:xlink="http://www.w3.org/1999/xlink" width="{}" height="{}"><defs><symbol id="s"><rect width="50%" height="25%"/></symbol></defs><use xlink:href="#s"{}/></svg>"##,
        vw.text, vh.text, attrs
    );
    let o = opts();
    let Ok(t) = usvg::Tree::from_str(&svg, &o) else { return };
    let wh = |r: usvg::Rect| format!("{} {}", hx(r.width()), hx(r.height()));
    let clip = match first_clip_group(t.root()) {
        Some(g) => match g.clip_path().and_then(|cp| first_path(cp.root())) {
            Some(p) => wh(p.data().bounds()),
            None => "clip-without-path".to_string(),
        },
        None => "noclip".to_string(),
    };
    let child = match first_path(t.root()) {
        Some(p) => wh(p.data().bounds()),
        None => "nochild".to_string(),
    };
    c.emit(&format!("usesym {} {} {} {} {} {}", wr, hr, hx(vw.f32v), hx(vh.f32v), hx(o.dpi), hx(o.font_size)), &format!("{} | {}", clip, child));
}

fn gen_matrix(rng: &mut Rng) -> Vec<Num> {
    let pool = ["1", "0", "0.5", "2", "-1", "1.5", "0.25", "3", "-0.5", "10", "0.1", "7.25"];
    match rng.below(4) {
        0 => {
            let mut v: Vec<Num> = ["1", "0", "0", "1"].iter().map(|s| num(s.to_string())).collect();
            v.push(gen_len(rng, false));
            v.push(gen_len(rng, false));
            v
        }
        1 => {
            let a = num(rng.pick(&pool).to_string());
            let d = num(rng.pick(&pool).to_string());
            vec![a, num("0".into()), num("0".into()), d, gen_len(rng, false), gen_len(rng, false)]
        }
        _ => {
            let mut v: Vec<Num> = (0..4).map(|_| num(rng.pick(&pool).to_string())).collect();
            v.push(gen_len(rng, false));
            v.push(gen_len(rng, false));
            v
        }
    }
}

fn mat_text(m: &[Num]) -> String {
    format!("matrix({})", m.iter().map(|n| n.text.clone()).collect::<Vec<_>>().join(" "))
}

fn mat_bits(m: &[Num]) -> String {
    // from_row(sx=a, ky=b, kx=c, sy=d, tx=e, ty=f); protocol order: sx ky kx sy tx ty
    let z = |f: f32| if f == 0.0 { 0u32 } else { f.to_bits() };
    format!("{:08x} {:08x} {:08x} {:08x} {:08x} {:08x}", z(m[0].f32v), z(m[1].f32v), z(m[2].f32v), z(m[3].f32v), z(m[4].f32v), z(m[5].f32v))
}

pub fn corr(tier: &str, seed: u64, c: &mut Corr) {
    let mut rng = Rng::new(seed ^ 0xC10);
    let n = if tier == "thorough" { 4000 } else { 400 };
    let o = opts();
    for i in 0..n {
        // ---- the size of a `use` of a symbol
        use_symbol_sizes(&mut rng, c);
        // ---- transform + transform-origin
        let m = gen_matrix(&mut rng);
        let valid = (m[0].f32v * m[3].f32v - m[1].f32v * m[2].f32v).abs() > 1e-3;
        if valid {
            let (dx, dy) = (gen_len(&mut rng, false), gen_len(&mut rng, false));
            let svg = format!(
                r#"<svg xmlns="http://www.w3.org/2000/svg" width="100" height="100"><g transform="{}" transform-origin="{} {}"><rect width="10" height="10"/></g></svg>"#,
                mat_text(&m), dx.text, dy.text
            );
            if let Ok(t) = usvg::Tree::from_str(&svg, &o) {
                c.emit(&format!("origints {} {} {}", mat_bits(&m), hx(dx.f32v), hx(dy.f32v)), &ts_bits(first_group_ts(t.root())));
            }
            // ---- use x y transform
            let (x, y) = if i % 5 == 0 { (num("0".into()), num("0".into())) } else { (gen_len(&mut rng, false), gen_len(&mut rng, false)) };
            let svg = format!(
                r##"<svg xmlns="http://www.w3.org/2000/svg" xmlns:xlink="http://www.w3.org/1999/xlink" width="100" height="100"><defs><rect id="r" width="10" height="10"/></defs><use xlink:href="#r" transform="{}" x="{}" y="{}"/></svg>"##,
                mat_text(&m), x.text, y.text
            );
            if let Ok(t) = usvg::Tree::from_str(&svg, &o) {
                c.emit(&format!("usets {} {} {}", mat_bits(&m), hx(x.f32v), hx(y.f32v)), &ts_bits(first_group_ts(t.root())));
            }
        }
        // ---- transform-origin given with units, percentages or keywords, in a non-square view box
        if valid {
            let units = ["", "px", "mm", "in", "pt", "pc", "cm", "em", "ex", "%"];
            let pick_len = |rng: &mut Rng| -> (String, String, f32) {
                // (text in the document, unit for the model, number)
                match rng.below(4) {
                    0 => {
                        let (kw, pct) = *rng.pick(&[("left", 0.0f32), ("center", 50.0), ("right", 100.0)]);
                        (kw.to_string(), "percent".to_string(), pct)
                    }
                    _ => {
                        let u = *rng.pick(&units);
                        let n = gen_len(rng, false);
                        let un = if u.is_empty() { "none" } else if u == "%" { "percent" } else { u };
                        (format!("{}{}", n.text, u), un.to_string(), n.f32v)
                    }
                }
            };
            let (xt, xu, xn) = pick_len(&mut rng);
            let (mut yt, yu, yn) = pick_len(&mut rng);
            // vertical keywords
            if yt == "left" { yt = "top".into() } else if yt == "right" { yt = "bottom".into() }
            let (vw, vh) = (gen_len(&mut rng, true), gen_len(&mut rng, true));
            let fs = gen_len(&mut rng, true);
            let dpi = *rng.pick(&[96.0f32, 72.0, 300.0]);
            let svg = format!(
                r#"<svg xmlns="http://www.w3.org/2000/svg" viewBox="0 0 {} {}"><g font-size="{}" transform="{}" transform-origin="{} {}"><rect width="10" height="10"/></g></svg>"#,
                vw.text, vh.text, fs.text, mat_text(&m), xt, yt
            );
            let mut od = opts();
            od.dpi = dpi;
            if let Ok(t) = usvg::Tree::from_str(&svg, &od) {
                c.emit(
                    &format!("origintsu {} {}:{} {}:{} {} {} {} {}", mat_bits(&m), xu, hx(xn), yu, hx(yn), hx(vw.f32v), hx(vh.f32v), hx(dpi), hx(fs.f32v)),
                    &ts_bits(first_group_ts(t.root())),
                );
            }
        }
        // ---- rounded rectangle radii
        let (w, h) = (gen_len(&mut rng, true), gen_len(&mut rng, true));
        let mut rad = |rng: &mut Rng| -> (String, String) {
            match rng.below(6) {
                0 => (String::new(), "-".to_string()),
                1 => (format!(r#"="-{}""#, rng.range(1, 9)), "-".to_string()),
                2 => (r#"="junk""#.to_string(), "-".to_string()),
                3 => {
                    let v = num("0".into());
                    (format!(r#"="{}""#, v.text), hx(v.f32v))
                }
                _ => {
                    let v = gen_len(rng, true);
                    (format!(r#"="{}""#, v.text), hx(v.f32v))
                }
            }
        };
        let (rxa, rxr) = rad(&mut rng);
        let (rya, ryr) = rad(&mut rng);
        let (x0, y0) = (5.0f32, 7.0f32);
        let svg = format!(
            r#"<svg xmlns="http://www.w3.org/2000/svg" width="100" height="100"><rect x="5" y="7" width="{}" height="{}"{}{}/></svg>"#,
            w.text, h.text, if rxa.is_empty() { String::new() } else { format!(" rx{}", rxa) }, if rya.is_empty() { String::new() } else { format!(" ry{}", rya) }
        );
        if let Ok(t) = usvg::Tree::from_str(&svg, &o) {
            if let Some(usvg::Node::Path(p)) = t.root().children().first() {
                use usvg::tiny_skia_path::PathSegment as S;
                // observable of the radii: the first MoveTo is (x + rx, y); the second LineTo goes to
                // (x + width, y + height - ry); a plain rectangle (rx ≈ 0) has (x, y) and (right, bottom)
                let mut first_move = None;
                let mut lines = 0;
                let mut second_line_y = None;
                for seg in p.data().segments() {
                    match seg {
                        S::MoveTo(pt) => {
                            if first_move.is_none() {
                                first_move = Some(pt);
                            }
                        }
                        S::LineTo(pt) => {
                            lines += 1;
                            if lines == 2 && second_line_y.is_none() {
                                second_line_y = Some(pt.y);
                            }
                        }
                        _ => {}
                    }
                }
                if let (Some(mv), Some(ly)) = (first_move, second_line_y) {
                    let z = |f: f32| if f == 0.0 { 0u32 } else { f.to_bits() };
                    c.emit(&format!("rxryobs {} {} {} {} {} {}", hx(w.f32v), hx(h.f32v), rxr, ryr, hx(x0), hx(y0)), &format!("{:08x} {:08x}", z(mv.x), z(ly)));
                }
            }
        }
        // ---- switch
        let langs = ["en", "en-US", "ru", "de, en", "fr", " en ", "en-GB,ru"];
        let feats = [
            "http://www.w3.org/TR/SVG11/feature#Shape",
            "http://www.w3.org/TR/SVG11/feature#Shape http://www.w3.org/TR/SVG11/feature#Font",
            "http://www.w3.org/TR/SVG11/feature#Gradient http://www.w3.org/TR/SVG11/feature#Mask",
            "bogus",
            "",
        ];
        let k = 1 + rng.below(4) as usize;
        let mut body = String::new();
        let mut toks = vec![];
        for j in 0..k {
            if rng.chance(1, 6) {
                body += "<!-- c -->text";
                // comments and text are not elements, but roxmltree children still exist: svgtree drops them
            }
            let re = rng.chance(1, 4);
            let rf = if rng.chance(1, 3) { Some(*rng.pick(&feats)) } else { None };
            let sl = if rng.chance(1, 2) { Some(*rng.pick(&langs)) } else { None };
            let mut a = String::new();
            if re {
                a += r#" requiredExtensions="e""#;
            }
            if let Some(f) = rf {
                a += &format!(r#" requiredFeatures="{}""#, f);
            }
            if let Some(l) = sl {
                a += &format!(r#" systemLanguage="{}""#, l);
            }
            body += &format!(r#"<rect id="c{}" width="{}" height="10"{}/>"#, j, 10 + j, a);
            toks.push(format!(
                "1|{}|{}|{}",
                re as u8,
                rf.map(|f| usvg::verif_svgtree::hex(f)).unwrap_or("~".into()),
                sl.map(|l| usvg::verif_svgtree::hex(l)).unwrap_or("~".into())
            ));
        }
        let svg = format!(r#"<svg xmlns="http://www.w3.org/2000/svg" width="100" height="100"><switch>{}</switch></svg>"#, body);
        let user = if rng.chance(1, 2) { vec!["en".to_string()] } else { vec!["ru".to_string(), "de".to_string()] };
        let mut oo = opts();
        oo.languages = user.clone();
        if let Ok(t) = usvg::Tree::from_str(&svg, &oo) {
            // the switch group holds the chosen child
            let ans = match t.root().children().first() {
                Some(usvg::Node::Group(g)) => match g.children().first() {
                    Some(usvg::Node::Path(p)) => p.id().trim_start_matches('c').to_string(),
                    _ => "none".to_string(),
                },
                Some(usvg::Node::Path(p)) => p.id().trim_start_matches('c').to_string(),
                _ => "none".to_string(),
            };
            if std::env::var("VERIF_DEBUG").is_ok() {
                eprintln!("SWITCH {} langs={:?} -> {}", svg, oo.languages, ans);
            }
            c.emit(&format!("switch {} {}", user.join(","), toks.join(" ")), &ans);
        }
    }
}

// ------------------------------------------------------------------------------------------
// implementation-side oracle: construct vs definitional expansion → same written tree

fn tree_text(svg: &[u8], o: &usvg::Options) -> Option<String> {
    match pan::catch(|| usvg::Tree::from_data(svg, o).map(|t| t.to_string(&usvg::WriteOptions::default()))) {
        Ok(Ok(s)) => Some(canon(&s)),
        _ => None,
    }
}

/// remove `id="..."` attributes (copied ids are excluded from the comparison)
fn strip_ids(s: &str) -> String {
    let mut out = String::new();
    let mut rest = s;
    while let Some(i) = rest.find(" id=\"") {
        out += &rest[..i];
        let after = &rest[i + 5..];
        match after.find('"') {
            Some(j) => rest = &after[j + 1..],
            None => {
                rest = "";
            }
        }
    }
    out + rest
}

pub fn search(tier: &str, seed: u64, s: &mut Search) {
    let mut rng = Rng::new(seed ^ 0x5EA7C10);
    let n = (if tier == "thorough" { 3000 } else { 300 }) * budget_mult();
    let o = opts();
    let hdr = r#"<svg xmlns="http://www.w3.org/2000/svg" xmlns:xlink="http://www.w3.org/1999/xlink" width="120" height="100">"#;
    let mut cmp = |s: &mut Search, kind: &str, a: &str, b: &str, ignore_ids: bool| {
        let (Some(ta), Some(tb)) = (tree_text(a.as_bytes(), &o), tree_text(b.as_bytes(), &o)) else { return };
        let (ta, tb) = if ignore_ids { (strip_ids(&ta), strip_ids(&tb)) } else { (ta, tb) };
        s.case(kind, a, true);
        if !crate::c09::near(&ta, &tb) {
            s.finding(&format!("oracle:expansion:{}", kind), &format!("construct and expansion give different trees; expansion: {}", b), a);
        }
    };
    for i in 0..n {
        let (x, y) = (rng.range(-20, 40), rng.range(-20, 40));
        let tf = format!("translate({} {}) scale({})", rng.range(-10, 10), rng.range(-10, 10), *rng.pick(&["1", "2", "0.5", "1.5"]));
        let fill = *rng.pick(&["red", "#00f", "none", "green"]);
        // use of a shape / a group == group translated by x,y containing a copy
        let target = match i % 3 {
            0 => format!(r#"<rect id="t" x="3" y="4" width="30" height="20" fill="{fill}" stroke="black"/>"#),
            1 => format!(r#"<g id="t" opacity="0.5"><circle cx="10" cy="10" r="8" fill="{fill}"/><rect width="5" height="5"/></g>"#),
            _ => format!(r#"<path id="t" d="M 1 1 L 20 5 L 5 20 Z" fill="{fill}"/>"#),
        };
        let copy = target.replace(r#" id="t""#, "");
        let a = format!(r##"{hdr}<defs>{target}</defs><use xlink:href="#t" x="{x}" y="{y}" transform="{tf}"/></svg>"##);
        let b = format!(r#"{hdr}<g transform="{tf} translate({x} {y})">{copy}</g></svg>"#);
        cmp(s, "use==translated-copy", &a, &b, true);
        // basic shapes == paths
        let (rw, rh) = (rng.range(1, 60), rng.range(1, 60));
        let a = format!(r#"{hdr}<rect x="{x}" y="{y}" width="{rw}" height="{rh}" fill="{fill}"/></svg>"#);
        let b = format!(r#"{hdr}<path d="M {x} {y} H {} V {} H {x} Z" fill="{fill}"/></svg>"#, x + rw, y + rh);
        cmp(s, "rect==path", &a, &b, false);
        let a = format!(r#"{hdr}<line x1="{x}" y1="{y}" x2="{rw}" y2="{rh}" stroke="black"/></svg>"#);
        let b = format!(r#"{hdr}<path d="M {x} {y} L {rw} {rh}" stroke="black"/></svg>"#);
        cmp(s, "line==path", &a, &b, false);
        let pts = format!("{x},{y} {rw},{rh} {},{}", x + 7, y + 30);
        let a = format!(r#"{hdr}<polygon points="{pts}" fill="{fill}"/><polyline points="{pts}" fill="none" stroke="black"/></svg>"#);
        let b = format!(r#"{hdr}<path d="M {x} {y} L {rw} {rh} L {} {} Z" fill="{fill}"/><path d="M {x} {y} L {rw} {rh} L {} {}" fill="none" stroke="black"/></svg>"#, x + 7, y + 30, x + 7, y + 30);
        cmp(s, "poly==path", &a, &b, false);
        // relative / shorthand path commands == absolute ones
        let a = format!(r#"{hdr}<path d="m {x} {y} l 10 5 h 7 v -3 q 5 5 10 0 t 10 0 c 1 2 3 4 5 0 s 3 4 5 0 z"/></svg>"#);
        let (x1, y1) = (x + 10, y + 5);
        let (x2, y2) = (x1 + 7, y1);
        let (x3, y3) = (x2, y2 - 3);
        let b = format!(
            r#"{hdr}<path d="M {x} {y} L {x1} {y1} L {x2} {y2} L {x3} {y3} Q {} {} {} {} Q {} {} {} {} C {} {} {} {} {} {} C {} {} {} {} {} {} Z"/></svg>"#,
            x3 + 5, y3 + 5, x3 + 10, y3, // q
            x3 + 15, y3 - 5, x3 + 20, y3, // t: reflected control point
            x3 + 21, y3 + 2, x3 + 23, y3 + 4, x3 + 25, y3, // c
            x3 + 27, y3 - 4, x3 + 28, y3 + 4, x3 + 30, y3 // s: reflected
        );
        cmp(s, "path-relative==absolute", &a, &b, false);
        // transform list == matrix product; transform-origin
        let (tx, ty, sc) = (rng.range(-10, 10), rng.range(-10, 10), *rng.pick(&[2i64, 3, 4]));
        let a = format!(r#"{hdr}<g transform="translate({tx} {ty}) scale({sc}) translate(1 2)"><rect width="5" height="5"/></g></svg>"#);
        let b = format!(r#"{hdr}<g transform="matrix({sc} 0 0 {sc} {} {})"><rect width="5" height="5"/></g></svg>"#, tx + sc, ty + 2 * sc);
        cmp(s, "transform-list==matrix", &a, &b, false);
        let a = format!(r#"{hdr}<g transform="scale({sc})" transform-origin="{x} {y}"><rect width="5" height="5"/></g></svg>"#);
        let b = format!(r#"{hdr}<g transform="translate({x} {y}) scale({sc}) translate({} {})"><rect width="5" height="5"/></g></svg>"#, -x, -y);
        cmp(s, "transform-origin==conjugation", &a, &b, false);
        // transform-origin in percentages / keywords of a non-square viewport == conjugation by half sizes
        {
            let (vw, vh) = (rng.range(40, 300), rng.range(40, 300));
            let (px, py) = (*rng.pick(&[0i64, 25, 50, 100]), *rng.pick(&[0i64, 25, 50, 100]));
            let hdr2 = format!(r#"<svg xmlns="http://www.w3.org/2000/svg" xmlns:xlink="http://www.w3.org/1999/xlink" viewBox="0 0 {vw} {vh}">"#);
            let a = format!(r#"{hdr2}<g transform="rotate(30) scale({sc} 0.5)" transform-origin="{px}% {py}%"><rect width="5" height="5"/></g></svg>"#);
            let (ox, oy) = (vw as f64 * px as f64 / 100.0, vh as f64 * py as f64 / 100.0);
            let b = format!(r#"{hdr2}<g transform="translate({ox} {oy}) rotate(30) scale({sc} 0.5) translate({} {})"><rect width="5" height="5"/></g></svg>"#, -ox, -oy);
            cmp(s, "transform-origin-percent==conjugation", &a, &b, false);
            let kw = |p: i64, x: bool| match (p, x) { (0, true) => "left", (0, false) => "top", (50, _) => "center", (100, true) => "right", (100, false) => "bottom", _ => "" };
            if !kw(px, true).is_empty() && !kw(py, false).is_empty() {
                let a2 = format!(r#"{hdr2}<g transform="rotate(30) scale({sc} 0.5)" transform-origin="{} {}"><rect width="5" height="5"/></g></svg>"#, kw(px, true), kw(py, false));
                cmp(s, "transform-origin-keyword==conjugation", &a2, &b, false);
            }
        }
        // use of a symbol / nested svg with viewBox + preserveAspectRatio == group with the viewport transform
        {
            let al = crate::c17::ALIGNS[rng.below(10) as usize];
            let slice = rng.chance(1, 2);
            let par = if al == "none" { "none".to_string() } else { format!("{} {}", al, if slice { "slice" } else { "meet" }) };
            let (vbx, vby) = (rng.range(-20, 20) as f64, rng.range(-20, 20) as f64);
            let vbw = rng.range(4, 80) as f64;
            let vbh = (vbw * [0.25, 0.5, 1.0, 2.0, 4.0][rng.below(5) as usize]).max(2.0).round();
            let (w, h) = (rng.range(10, 100) as f64, rng.range(10, 100) as f64);
            // the SVG rules, computed independently in f64
            let (sx, sy) = (w / vbw, h / vbh);
            let (sx, sy) = if al == "none" { (sx, sy) } else { let k = if slice { sx.max(sy) } else { sx.min(sy) }; (k, k) };
            let fx = if al.starts_with("xMin") || al == "none" { 0.0 } else if al.starts_with("xMid") { 0.5 } else { 1.0 };
            let fy = if al.ends_with("YMin") || al == "none" { 0.0 } else if al.ends_with("YMid") { 0.5 } else { 1.0 };
            let tx = (w - vbw * sx) * fx - vbx * sx;
            let ty = (h - vbh * sy) * fy - vby * sy;
            let content = format!(r#"<rect x="{}" y="{}" width="{}" height="{}" fill="{fill}"/><circle cx="{}" cy="{}" r="2"/>"#, vbx, vby, vbw, vbh, vbx + 3.0, vby + 3.0);
            let a = format!(r##"{hdr}<defs><symbol id="s" viewBox="{vbx} {vby} {vbw} {vbh}" preserveAspectRatio="{par}" overflow="visible">{content}</symbol></defs><use xlink:href="#s" x="{x}" y="{y}" width="{w}" height="{h}"/></svg>"##);
            // the instance group (what `use` becomes) around the group that carries the viewport mapping
            let b = format!(r#"{hdr}<g><g transform="translate({x} {y}) matrix({sx} 0 0 {sy} {tx} {ty})">{content}</g></g></svg>"#);
            cmp(s, "use-symbol-viewbox==group", &a, &b, true);
            let a = format!(r#"{hdr}<svg x="{x}" y="{y}" width="{w}" height="{h}" viewBox="{vbx} {vby} {vbw} {vbh}" preserveAspectRatio="{par}" overflow="visible">{content}</svg></svg>"#);
            // a nested svg is not an instance: it becomes the mapping group itself
            let b = format!(r#"{hdr}<g transform="translate({x} {y}) matrix({sx} 0 0 {sy} {tx} {ty})">{content}</g></svg>"#);
            cmp(s, "nested-svg-viewbox==group", &a, &b, true);
            // … and its opacity, effects and blending are those of that one group (applied once)
            let fx_defs = r##"<defs><filter id="nf" filterUnits="userSpaceOnUse" x="-50" y="-50" width="300" height="300"><feOffset dx="2"/></filter><mask id="nm" maskUnits="userSpaceOnUse" x="-50" y="-50" width="300" height="300"><rect x="-50" y="-50" width="300" height="300" fill="white" fill-opacity="0.5"/></mask><clipPath id="nc"><rect x="-50" y="-50" width="100" height="300"/></clipPath></defs>"##;
            let attrs = *rng.pick(&[r#" opacity="0.5""#, r##" filter="url(#nf)""##, r##" mask="url(#nm)""##, r##" clip-path="url(#nc)""##, r#" style="isolation:isolate""#, r#" style="mix-blend-mode:multiply""#, r##" opacity="0.25" mask="url(#nm)""##]);
            let a = format!(r#"{hdr}{fx_defs}<svg x="{x}" y="{y}" width="{w}" height="{h}" viewBox="{vbx} {vby} {vbw} {vbh}" preserveAspectRatio="{par}" overflow="visible"{attrs}>{content}</svg></svg>"#);
            let b = format!(r#"{hdr}{fx_defs}<g{attrs} transform="translate({x} {y}) matrix({sx} 0 0 {sy} {tx} {ty})">{content}</g></svg>"#);
            cmp(s, "nested-svg-with-effects==group", &a, &b, true);
        }
        // a percentage size on a `use` of a symbol is a percentage of the viewport the `use` is in
        {
            let (pw, ph) = (*rng.pick(&[25, 40, 50, 75]), *rng.pick(&[25, 40, 50, 75]));
            let a = format!(r##"{hdr}<defs><symbol id="ps" viewBox="0 0 10 10" preserveAspectRatio="none"><rect width="10" height="10" fill="teal"/><circle cx="3" cy="3" r="2"/></symbol></defs><use xlink:href="#ps" x="4" y="6" width="{pw}%" height="{ph}%"/></svg>"##);
            // (hdr: a 120 x 100 document without a viewBox)
            let b = format!(r##"{hdr}<defs><symbol id="ps" viewBox="0 0 10 10" preserveAspectRatio="none"><rect width="10" height="10" fill="teal"/><circle cx="3" cy="3" r="2"/></symbol></defs><use xlink:href="#ps" x="4" y="6" width="{}" height="{}"/></svg>"##, 120.0 * pw as f64 / 100.0, 100.0 * ph as f64 / 100.0);
            cmp(s, "use-percent-size==absolute-size", &a, &b, true);
        }
        // the size of a `use` overrides the size of the svg it references - not of svg elements nested in that one
        {
            let (uw, uh) = (rng.range(90, 160), rng.range(90, 160));
            let (iw, ih) = (rng.range(30, 70), rng.range(30, 70));
            let (ix, iy) = (rng.range(2, 15), rng.range(2, 15));
            let inner = format!(r#"<svg x="{ix}" y="{iy}" width="{iw}" height="{ih}"><rect width="300" height="300" fill="teal"/></svg>"#);
            let a = format!(r##"{hdr}<defs><svg id="outer" width="60" height="60">{inner}</svg></defs><use xlink:href="#outer" width="{uw}" height="{uh}"/></svg>"##);
            // the instance written out: an svg of the use's size around the unchanged inner svg
            let b = format!(r##"{hdr}<g><svg width="{uw}" height="{uh}">{inner}</svg></g></svg>"##);
            let o = crate::corpus::opts_for(None);
            if let (Ok(ta), Ok(tb)) = (usvg::Tree::from_str(&a, &o), usvg::Tree::from_str(&b, &o)) {
                if let (Some(pa), Some(pb)) = (crate::rend::render(&ta, 200, 200, resvg::tiny_skia::Transform::identity()), crate::rend::render(&tb, 200, 200, resvg::tiny_skia::Transform::identity())) {
                    s.case("use-size-and-nested-svg", &a, true);
                    let (ok, why) = crate::rend::similar(&pa, &pb, 2);
                    if !ok {
                        s.finding("oracle:expansion:use-size-leaks-into-nested-svg", &format!("differs from the written-out instance: {}", why), &a);
                    }
                }
            }
        }
        // a `use` whose target itself contains a `use` of one of the target's own descendants (a part defined inside
        // the group that reuses it) is not a cycle: it expands like any other
        {
            let (bx, by) = (rng.range(5, 30), rng.range(5, 30));
            let dx = rng.range(30, 60);
            let (ux, uy) = (rng.range(0, 20), rng.range(0, 20));
            let wrap = *rng.pick(&["g", "g", "svg"]);
            let (open, close) = if wrap == "g" { (r#"<g id="pair">"#.to_string(), "</g>") } else { (r#"<svg id="pair" overflow="visible">"#.to_string(), "</svg>") };
            let a = format!(r##"{hdr}<defs>{open}<rect id="box" x="{bx}" y="{by}" width="14" height="10" fill="teal"/><use xlink:href="#box" x="{dx}"/>{close}</defs><use xlink:href="#pair" x="{ux}" y="{uy}"/></svg>"##);
            if wrap == "g" {
                let b = format!(r##"{hdr}<g transform="translate({ux} {uy})"><g><rect x="{bx}" y="{by}" width="14" height="10" fill="teal"/><g transform="translate({dx} 0)"><rect x="{bx}" y="{by}" width="14" height="10" fill="teal"/></g></g></g></svg>"##);
                cmp(s, "use-of-a-group-that-reuses-its-own-part==expansion", &a, &b, true);
            } else {
                // (for an svg target only: the instance renders the same pixels as the inline copy)
                let b = format!(r##"{hdr}<g transform="translate({ux} {uy})"><rect x="{bx}" y="{by}" width="14" height="10" fill="teal"/><rect x="{}" y="{by}" width="14" height="10" fill="teal"/></g></svg>"##, bx + dx);
                let o = crate::corpus::opts_for(None);
                if let (Ok(ta), Ok(tb)) = (usvg::Tree::from_str(&a, &o), usvg::Tree::from_str(&b, &o)) {
                    if let (Some(pa), Some(pb)) = (crate::rend::render(&ta, 120, 100, resvg::tiny_skia::Transform::identity()), crate::rend::render(&tb, 120, 100, resvg::tiny_skia::Transform::identity())) {
                        s.case("use-of-an-svg-that-reuses-its-own-part", &a, true);
                        let (ok, why) = crate::rend::similar(&pa, &pb, 2);
                        if !ok {
                            s.finding("oracle:expansion:use-of-an-svg-that-reuses-its-own-part", &format!("differs from the inline copy: {}", why), &a);
                        }
                    }
                }
            }
        }
        // a text reached through `use` takes xml:space (like every inherited property) from where it is USED
        {
            let content = *rng.pick(&["  a   b  ", " x  y", "p    q   ", "one  two   three"]);
            let (tx, ty) = (rng.range(2, 40), rng.range(20, 60));
            let text = format!(r#"<text id="t" x="3" y="4" font-size="12" font-family="Noto Sans">{content}</text>"#);
            let (def_ctx, use_ctx) = match rng.below(4) {
                0 => ("", r#" xml:space="preserve""#),
                1 => (r#" xml:space="preserve""#, ""),
                2 => (r#" xml:space="preserve""#, r#" xml:space="default""#),
                _ => (r#" xml:space="default""#, r#" xml:space="preserve""#),
            };
            let a = format!(r##"{hdr}<defs{def_ctx}>{text}</defs><g{use_ctx}><use xlink:href="#t" x="{tx}" y="{ty}"/></g></svg>"##);
            // (the copy made for a `use` does not carry the id of the referenced element)
            let b = format!(r##"{hdr}<g{use_ctx}><g transform="translate({tx} {ty})">{}</g></g></svg>"##, text.replace(r#" id="t""#, ""));
            cmp(s, "use-of-text==copy-in-place(xml:space)", &a, &b, false);
        }
        // transform-origin in percent / keywords on an instance with a size: the reference box is the viewport the
        // `use` stands in, not the size written on the `use`
        {
            let (uw, uh) = (rng.range(10, 60), rng.range(10, 60));
            let sc = *rng.pick(&["2", "0.5", "1.5"]);
            let (px, py) = (*rng.pick(&[0i64, 25, 50, 100]), *rng.pick(&[0i64, 50, 100]));
            let (vw, vh) = (rng.range(60, 200), rng.range(60, 200));
            let hdr2 = format!(r#"<svg xmlns="http://www.w3.org/2000/svg" xmlns:xlink="http://www.w3.org/1999/xlink" width="{vw}" height="{vh}">"#);
            let target = if rng.chance(2, 3) { r#"<symbol id="s" viewBox="0 0 10 10"><rect width="10" height="10" fill="teal"/><circle cx="3" cy="3" r="2"/></symbol>"# } else { r#"<svg id="s" viewBox="0 0 10 10"><rect width="10" height="10" fill="teal"/><circle cx="3" cy="3" r="2"/></svg>"# };
            let (ox, oy) = (vw as f64 * px as f64 / 100.0, vh as f64 * py as f64 / 100.0);
            let a = format!(r##"{hdr2}<defs>{target}</defs><use xlink:href="#s" x="{x}" y="{y}" width="{uw}" height="{uh}" transform="rotate(15) scale({sc})" transform-origin="{px}% {py}%"/></svg>"##);
            let b = format!(r##"{hdr2}<defs>{target}</defs><use xlink:href="#s" x="{x}" y="{y}" width="{uw}" height="{uh}" transform="translate({ox} {oy}) rotate(15) scale({sc}) translate({} {})"/></svg>"##, -ox, -oy);
            cmp(s, "transform-origin-percent-on-sized-instance", &a, &b, false);
        }
        // a size given on `use` replaces the size of the referenced `svg` — for the viewport (clip), for the
        // viewBox mapping, and as the base of percentages inside it
        {
            let (w0, h0) = (rng.range(20, 90), rng.range(20, 90));
            let (w1, h1) = (rng.range(20, 150), rng.range(20, 150));
            let inner = format!(
                r##"<rect x="10%" y="10%" width="{}%" height="{}%" fill="{fill}"/><circle cx="50%" cy="50%" r="{}%"/><line x1="0" y1="0" x2="100%" y2="100%" stroke="black"/>"##,
                rng.range(20, 90), rng.range(20, 90), rng.range(5, 40)
            );
            let vb = if rng.chance(1, 3) { format!(r#" viewBox="0 0 {} {}""#, rng.range(10, 60), rng.range(10, 60)) } else { String::new() };
            let (sw, sh) = match rng.below(3) {
                0 => (format!(r#" width="{w1}""#), format!(r#" height="{h1}""#)),
                1 => (format!(r#" width="{w1}""#), String::new()),
                _ => (String::new(), format!(r#" height="{h1}""#)),
            };
            let a = format!(r##"{hdr}<defs><svg id="n" width="{w0}" height="{h0}"{vb}>{inner}</svg></defs><use xlink:href="#n" x="{x}" y="{y}"{sw}{sh}/></svg>"##);
            let (ew, eh) = (if sw.is_empty() { w0 } else { w1 }, if sh.is_empty() { h0 } else { h1 });
            let b = format!(r##"{hdr}<defs><svg id="n" width="{ew}" height="{eh}"{vb}>{inner}</svg></defs><use xlink:href="#n" x="{x}" y="{y}"/></svg>"##);
            cmp(s, "use-size-on-svg==svg-size", &a, &b, false);
        }
        // a == g
        let a = format!(r#"{hdr}<a xlink:href="http://x" opacity="0.5"><rect width="5" height="5"/></a></svg>"#);
        let b = format!(r#"{hdr}<g opacity="0.5"><rect width="5" height="5"/></g></svg>"#);
        cmp(s, "a==g", &a, &b, false);
        // switch == its first passing child
        let a = format!(r#"{hdr}<switch><rect requiredExtensions="x" width="1" height="1"/><circle r="{rw}" fill="{fill}"/><rect width="9" height="9"/></switch></svg>"#);
        let b = format!(r#"{hdr}<circle r="{rw}" fill="{fill}"/></svg>"#);
        cmp(s, "switch==first-passing", &a, &b, false);
        // gzip == plain
        if i % 10 == 0 {
            use std::io::Write;
            let plain = format!(r#"{hdr}<rect x="{x}" y="{y}" width="{rw}" height="{rh}" fill="{fill}"/></svg>"#);
            let mut enc = flate2::write::GzEncoder::new(Vec::new(), flate2::Compression::default());
            let _ = enc.write_all(plain.as_bytes());
            if let Ok(gz) = enc.finish() {
                if let (Some(ta), Some(tb)) = (tree_text(&gz, &o), tree_text(plain.as_bytes(), &o)) {
                    s.case("gzip==plain", &plain, true);
                    if ta != tb {
                        s.finding("oracle:expansion:gzip==plain", "gzip-compressed input gives a different tree", &plain);
                    }
                } else {
                    s.finding("oracle:expansion:gzip==plain", "gzip-compressed input is rejected", &plain);
                }
            }
            // the same text compressed as two gzip members (what `gzip -c a > f; gzip -c b >> f` produces)
            let cut = rng.range(1, plain.len() as i64 - 1) as usize;
            let cut = (0..=cut).rev().find(|k| plain.is_char_boundary(*k)).unwrap_or(0);
            let member = |part: &str| {
                let mut enc = flate2::write::GzEncoder::new(Vec::new(), flate2::Compression::default());
                let _ = enc.write_all(part.as_bytes());
                enc.finish().unwrap_or_default()
            };
            let mut two = member(&plain[..cut]);
            two.extend(member(&plain[cut..]));
            s.case("gzip-two-members==plain", &plain, true);
            if tree_text(&two, &o) != tree_text(plain.as_bytes(), &o) {
                s.finding("oracle:expansion:gzip-with-several-members", "input compressed as two gzip members gives a different tree or is rejected", &plain);
            }
        }
    }
}
