//! C04: every value in a parsed tree is resolved and valid.
//! corr: stop-offset normalisation, dash lists, miter clamp and unit conversion, bit-exact against the model.
//! search: the exhaustive tree walk (tree.rs `check_c04`) over the shared domain plus targeted documents.
use crate::tree::Doc;
use crate::util::*;

fn opts() -> usvg::Options<'static> {
    crate::corpus::opts_for(None)
}

const HDR: &str = r#"<svg xmlns="http://www.w3.org/2000/svg" xmlns:xlink="http://www.w3.org/1999/xlink" width="100" height="100">"#;

/// decimal text that parses (as f64) to exactly this f32
fn exact(x: f32) -> String {
    format!("{:e}", x as f64)
}

fn offset_pool(rng: &mut Rng) -> f32 {
    let base = *rng.pick(&[0.0f32, 0.1, 0.25, 0.5, 0.7, 0.9, 1.0, 1.1920929e-7, 2.3841858e-7, 0.99999994, 0.9999999]);
    match rng.below(10) {
        0 => -0.25,
        1 => 1.5,
        2 => rng.unit(),
        3..=5 => {
            // a few ulps around a pool value (the approx-equal window is 4 ulps)
            let d = rng.range(-6, 6) as i32;
            let b = base.to_bits() as i32 + d;
            if base == 0.0 || b < 0 { base } else { f32::from_bits(b as u32) }
        }
        _ => base,
    }
}

fn z(f: f32) -> u32 {
    if f == 0.0 { 0 } else { f.to_bits() }
}

pub fn corr(tier: &str, seed: u64, c: &mut Corr) {
    let mut rng = Rng::new(seed ^ 0xC04);
    let n = if tier == "thorough" { 6000 } else { 600 };
    let o = opts();
    for i in 0..n {
        // ---- stop offsets
        let k = 2 + rng.below(if i % 7 == 0 { 9 } else { 4 }) as usize;
        let mut offs: Vec<f32> = (0..k).map(|_| offset_pool(&mut rng)).collect();
        if rng.chance(1, 2) {
            offs.sort_by(|a, b| a.partial_cmp(b).unwrap());
        }
        let stops: String = offs.iter().map(|x| format!(r#"<stop offset="{}" stop-color="red"/>"#, exact(*x))).collect();
        let svg = format!(r##"{HDR}<linearGradient id="g">{stops}</linearGradient><rect width="50" height="50" fill="url(#g)"/></svg>"##);
        if let Ok(t) = usvg::Tree::from_str(&svg, &o) {
            if let Some(g) = t.linear_gradients().first() {
                let ans: Vec<String> = g.stops().iter().map(|s| format!("{:08x}", z(s.offset().get()))).collect();
                let req: Vec<String> = offs.iter().map(|x| hx(*x)).collect();
                c.emit(&format!("stops {}", req.join(" ")), &ans.join(" "));
            }
        }
        // ---- dash lists
        let k = rng.below(6) as usize;
        let dash: Vec<f32> = (0..k)
            .map(|_| match rng.below(8) {
                0 => 0.0,
                1 => -0.0,
                2 => -1.5,
                3 => 1e-45,
                4 => 3e-45,
                _ => *rng.pick(&[1.0f32, 2.5, 0.1, 10.0, 1e30, 3e38]),
            })
            .collect();
        let text: Vec<String> = dash.iter().map(|x| if x.to_bits() == 0x8000_0000 { "-0".to_string() } else { exact(*x) }).collect();
        let svg = format!(r#"{HDR}<path d="M 0 0 L 50 50" stroke="black" stroke-dasharray="{}"/></svg>"#, text.join(" "));
        if let Ok(t) = usvg::Tree::from_str(&svg, &o) {
            if let Some(usvg::Node::Path(p)) = t.root().children().first() {
                if let Some(st) = p.stroke() {
                    let ans = match st.dasharray() {
                        None => "none".to_string(),
                        Some(d) => d.iter().map(|x| hx(*x)).collect::<Vec<_>>().join(" "),
                    };
                    // an empty attribute value is "no attribute" for the parser
                    if !dash.is_empty() {
                        c.emit(&format!("dash {}", dash.iter().map(|x| hx(*x)).collect::<Vec<_>>().join(" ")), &ans);
                    }
                }
            }
        }
        // ---- miter limit
        let m = *rng.pick(&[0.0f32, 0.5, 0.99999994, 1.0, 1.0000001, 4.0, 100.0, -3.0, 1e-30, 3e38]);
        let m = if rng.chance(1, 3) { rng.f32_in(-2.0, 8.0) } else { m };
        let svg = format!(r#"{HDR}<path d="M 0 0 L 50 50" stroke="black" stroke-miterlimit="{}"/></svg>"#, exact(m));
        if let Ok(t) = usvg::Tree::from_str(&svg, &o) {
            if let Some(usvg::Node::Path(p)) = t.root().children().first() {
                if let Some(st) = p.stroke() {
                    c.emit(&format!("miter {}", hx(m)), &hx(st.miterlimit().get()));
                }
            }
        }
        // ---- units: <line x1 y1> with a unit, dpi, font-size and a viewBox
        let units = ["", "px", "em", "ex", "in", "cm", "mm", "pt", "pc", "%"];
        let (u1, u2) = (*rng.pick(&units), *rng.pick(&units));
        let (n1, n2) = (crate::c17::gen_len(&mut rng, false), crate::c17::gen_len(&mut rng, false));
        let dpi = *rng.pick(&[96.0f32, 72.0, 300.0, 90.0, 1.0, 133.7]);
        let fs = crate::c17::gen_len(&mut rng, true);
        let (vw, vh) = (crate::c17::gen_len(&mut rng, true), crate::c17::gen_len(&mut rng, true));
        let svg = format!(
            r#"<svg xmlns="http://www.w3.org/2000/svg" viewBox="0 0 {} {}"><line font-size="{}" x1="{}{}" y1="{}{}" x2="1" y2="2" stroke="black"/></svg>"#,
            vw.text, vh.text, fs.text, n1.text, u1, n2.text, u2
        );
        let mut od = opts();
        od.dpi = dpi;
        if let Ok(t) = usvg::Tree::from_str(&svg, &od) {
            if let Some(usvg::Node::Path(p)) = t.root().children().first() {
                let pt = p.data().points()[0];
                let un = |u: &str| if u.is_empty() { "none".to_string() } else if u == "%" { "percent".to_string() } else { u.to_string() };
                c.emit(
                    &format!("units {} {} {} {} {} {} {} {}", hx(dpi), hx(fs.f32v), hx(vw.f32v), hx(vh.f32v), hx(n1.f32v), un(u1), hx(n2.f32v), un(u2)),
                    &format!("{:08x} {:08x}", z(pt.x), z(pt.y)),
                );
            }
        }
    }
}

fn targeted(seed: u64, tier: &str) -> Vec<Doc> {
    let mut rng = Rng::new(seed ^ 0x7A46E7);
    let mut v = vec![];
    let n = (if tier == "thorough" { 4000 } else { 400 }) * budget_mult();
    let mag = ["0", "-0", "1e-40", "1e-7", "0.5", "1", "1e10", "3e38", "1e300", "-1", "50%", "1e3%", "2em", "1mm", "-5%"];
    for i in 0..n {
        let doc = match i % 8 {
            0 => {
                // stop lists: descending, equal, clustered within a few ulps, percentages
                let k = 1 + rng.below(7) as usize;
                let stops: String = (0..k)
                    .map(|_| {
                        let o = offset_pool(&mut rng);
                        let t = if rng.chance(1, 5) { format!("{}%", o * 100.0) } else { exact(o) };
                        format!(r#"<stop offset="{}" stop-color="blue"/>"#, t)
                    })
                    .collect();
                let kind = if rng.chance(1, 2) { "linearGradient" } else { "radialGradient" };
                let extra = if kind == "radialGradient" { format!(r#" r="{}""#, rng.pick(&mag)) } else { String::new() };
                format!(r##"{HDR}<{kind} id="g"{extra}>{stops}</{kind}><rect width="50" height="50" fill="url(#g)" stroke="url(#g)"/></svg>"##)
            }
            1 => {
                let k = 1 + rng.below(5) as usize;
                let d: Vec<&str> = (0..k).map(|_| *rng.pick(&mag)).collect();
                format!(
                    r#"{HDR}<path d="M 0 0 L 50 50 L 3 4" stroke="black" stroke-width="{}" stroke-miterlimit="{}" stroke-dasharray="{}" stroke-dashoffset="{}"/></svg>"#,
                    rng.pick(&mag), rng.pick(&mag), d.join(if rng.chance(1, 2) { " " } else { "," }), rng.pick(&mag)
                )
            }
            2 => {
                // regions of pattern / mask / filter / primitives, in both unit systems
                let u = *rng.pick(&["userSpaceOnUse", "objectBoundingBox"]);
                let r = |rng: &mut Rng| format!(r#"x="{}" y="{}" width="{}" height="{}""#, rng.pick(&mag), rng.pick(&mag), rng.pick(&mag), rng.pick(&mag));
                format!(
                    r##"{HDR}<defs><pattern id="p" patternUnits="{u}" {}><rect width="3" height="3"/></pattern><mask id="m" maskUnits="{u}" {}><rect width="50" height="50" fill="white"/></mask><filter id="f" filterUnits="{u}" primitiveUnits="{u}" {}><feFlood flood-color="red" {}/><feOffset dx="{}" dy="2"/></filter></defs><rect width="40" height="30" fill="url(#p)" mask="url(#m)"/><g filter="url(#f)"><rect x="5" y="5" width="{}" height="{}"/></g></svg>"##,
                    r(&mut rng), r(&mut rng), r(&mut rng), r(&mut rng), rng.pick(&mag), rng.pick(&mag), rng.pick(&mag)
                )
            }
            3 => {
                // shapes with degenerate sizes, paths with too few segments, non-finite coordinates
                let d = *rng.pick(&["M 1 1", "M 1 1 Z", "L 5 5", "M 1 1 L 1e300 5", "M 0 0 L 1e38 1e38 L 3e38 3e38", "M 1 1 M 2 2", "M 1 1 L 2 2", "", "M 1 1 1e-300 5"]);
                format!(
                    r#"{HDR}<path d="{d}" stroke="black"/><rect width="{}" height="{}" rx="{}"/><circle r="{}"/><ellipse rx="{}" ry="{}"/><line x2="{}" stroke="red"/><polyline points="1 2 {}" stroke="red"/></svg>"#,
                    rng.pick(&mag), rng.pick(&mag), rng.pick(&mag), rng.pick(&mag), rng.pick(&mag), rng.pick(&mag), rng.pick(&mag), rng.pick(&mag)
                )
            }
            4 => {
                // transforms: singular, huge, tiny
                let t = *rng.pick(&["scale(0)", "scale(1e38)", "scale(1e38) scale(1e38)", "matrix(1 1 1 1 0 0)", "matrix(1e-30 0 0 1e-30 0 0)", "rotate(1e300)", "translate(1e300)", "skewX(90)", "scale(1e20) translate(1e20 1e20)"]);
                format!(
                    r##"{HDR}<defs><linearGradient id="g" gradientTransform="{t}"><stop offset="0"/><stop offset="1" stop-color="red"/></linearGradient><pattern id="p" width="5" height="5" patternTransform="{t}"><rect width="3" height="3"/></pattern><clipPath id="c" transform="{t}"><rect width="30" height="30"/></clipPath></defs><g transform="{t}"><rect width="10" height="10" fill="url(#g)"/></g><rect width="10" height="10" fill="url(#p)" clip-path="url(#c)"/><g transform="scale(1e20)"><g transform="{t}"><rect width="1" height="1"/></g></g></svg>"##
                )
            }
            6 => {
                // every combination of pattern units, content units and viewBox, used once, twice, or from text:
                // whatever the route, the tree must hold user-space definitions only
                let pu = *rng.pick(&["userSpaceOnUse", "objectBoundingBox"]);
                let cu = *rng.pick(&["userSpaceOnUse", "objectBoundingBox"]);
                let vb = if rng.chance(1, 2) { format!(r#" viewBox="0 0 {} {}" preserveAspectRatio="{}""#, rng.range(2, 20), rng.range(2, 20), rng.pick(&["none", "xMidYMid meet", "xMaxYMin slice"])) } else { String::new() };
                let (pw, ph) = if pu == "objectBoundingBox" { ("0.25", "0.5") } else { ("8", "12") };
                let child = if cu == "objectBoundingBox" && vb.is_empty() { r#"<rect width="0.1" height="0.2"/>"# } else { r#"<rect width="4" height="5"/>"# };
                let mu = *rng.pick(&["userSpaceOnUse", "objectBoundingBox"]);
                let mcu = *rng.pick(&["userSpaceOnUse", "objectBoundingBox"]);
                // (the children of the definitions use a bounding-box gradient of their own: it has to be resolved
                // whether the definition is used once or shared)
                let users = match rng.below(4) {
                    0 => r##"<rect id="u1" x="5" y="5" width="40" height="30" fill="url(#p)" mask="url(#m)"/>"##.to_string(),
                    1 => r##"<rect id="u1" x="5" y="5" width="40" height="30" fill="url(#p)" mask="url(#m)"/><circle id="u2" cx="70" cy="60" r="20" stroke="url(#p)" mask="url(#m)"/>"##.to_string(),
                    2 => r##"<text id="u1" x="5" y="40" font-size="30" fill="url(#p)">ab</text>"##.to_string(),
                    _ => r##"<g id="u0" fill="url(#p)"><rect id="u1" x="5" y="5" width="40" height="30"/><rect id="u2" x="50" y="50" width="10" height="30"/></g>"##.to_string(),
                };
                format!(
                    r##"{HDR}<defs><pattern id="p" patternUnits="{pu}" patternContentUnits="{cu}" width="{pw}" height="{ph}"{vb}>{child}<circle cx="2" cy="2" r="1" fill="url(#inner)"/></pattern><mask id="m" maskUnits="{mu}" maskContentUnits="{mcu}" x="0" y="0" width="{}" height="{}"><rect width="{}" height="{}" fill="url(#innerw)"/></mask><linearGradient id="inner"><stop offset="0" stop-color="red"/><stop offset="1" stop-color="blue"/></linearGradient><radialGradient id="innerw"><stop offset="0" stop-color="white"/><stop offset="1" stop-color="gray"/></radialGradient></defs>{users}</svg>"##,
                    if mu == "objectBoundingBox" { "1" } else { "100" }, if mu == "objectBoundingBox" { "1" } else { "100" },
                    if mcu == "objectBoundingBox" { "0.8" } else { "80" }, if mcu == "objectBoundingBox" { "0.8" } else { "80" }
                )
            }
            7 => {
                // transforms that overflow only in combination (element offset + own transform + ancestors), on
                // every kind of instance; siblings before and after show whether anything leaks out of the reject
                let big = *rng.pick(&["3e38", "2e38", "-3e38", "1e38"]);
                let big2 = *rng.pick(&["3e38", "2.5e38", "-3e38"]);
                let inst = match rng.below(5) {
                    0 => format!(r##"<use id="i" xlink:href="#r" x="{big}" transform="translate({big2} 0)"/>"##),
                    1 => format!(r##"<use id="i" xlink:href="#sy" y="{big}" transform="translate(0 {big2})" width="10" height="10"/>"##),
                    2 => format!(r##"<use id="i" xlink:href="#nv" x="{big}" transform="translate({big2} 0)"/>"##),
                    3 => format!(r##"<svg id="i" x="{big}" y="{big2}" width="10" height="10"><rect width="5" height="5"/></svg>"##),
                    _ => format!(r##"<g id="i" transform="scale(1e20)"><use xlink:href="#r" transform="scale(1e20)"/></g>"##),
                };
                let outer = *rng.pick(&["", r#" transform="translate(1e38 0)""#, r#" transform="scale(2)""#]);
                format!(
                    r##"{HDR}<defs><rect id="r" width="10" height="10"/><symbol id="sy" viewBox="0 0 4 4"><rect width="4" height="4"/></symbol><svg id="nv" width="10" height="10"><rect width="5" height="5"/></svg></defs><g id="layer"{outer}><rect id="before" width="5" height="5"/>{inst}<rect id="after" x="20" width="5" height="5"/><g id="after-group"><rect id="last" y="20" width="5" height="5"/></g></g><rect id="outside" x="40" width="5" height="5"/></svg>"##
                )
            }
            _ => {
                // text spans over multi-byte characters, bidi and combining marks
                let s = *rng.pick(&["añb", "日本語テキスト", "e\u{301}e\u{301}", "abc אבג def", "🙂🙃", "a\u{200d}b", "ﬁ ligature", "\u{1F468}\u{200D}\u{1F469}\u{200D}\u{1F467}"]);
                let cut = rng.below(4) as usize;
                let chars: Vec<char> = s.chars().collect();
                let (a, b) = chars.split_at(cut.min(chars.len()));
                format!(
                    r#"{HDR}<text x="5" y="20" font-size="{}" xml:space="{}">{}<tspan fill="red" font-weight="bold">{}</tspan> tail<tspan dx="1 2 3">{}</tspan></text></svg>"#,
                    rng.pick(&["10", "1e-3", "2em", "50%", "0.5"]),
                    rng.pick(&["default", "preserve"]),
                    a.iter().collect::<String>(),
                    b.iter().collect::<String>(),
                    s
                )
            }
        };
        v.push(Doc { class: format!("targeted-{}", i % 8), path: None, data: doc.into_bytes(), dpi: *rng.pick(&[96.0, 96.0, 1.0, 4000.0]) });
    }
    // viewport mappings and bounding-box products of extreme ratio: a tiny view box on a huge viewport (root, nested
    // svg, symbol, marker, pattern, image), a huge gradient / pattern transform on a huge bounding box — the scale is
    // a quotient or product of two finite numbers that need not be finite
    let tiny_huge = ["1e-30", "1e-20", "1e-38", "1", "100", "1e20", "1e30", "3e38"];
    let nm = (if tier == "thorough" { 1200 } else { 160 }) * budget_mult();
    for i in 0..nm {
        let mut p = |rng: &mut Rng| *rng.pick(&tiny_huge);
        let (w, h, vw, vh) = (p(&mut rng), p(&mut rng), p(&mut rng), p(&mut rng));
        let par = *rng.pick(&["", r#" preserveAspectRatio="none""#, r#" preserveAspectRatio="xMaxYMax slice""#]);
        let hdr = r#"<svg xmlns="http://www.w3.org/2000/svg" xmlns:xlink="http://www.w3.org/1999/xlink" width="100" height="100">"#;
        let doc = match i % 8 {
            0 => format!(r#"<svg xmlns="http://www.w3.org/2000/svg" width="{w}" height="{h}" viewBox="0 0 {vw} {vh}"{par}><rect width="{vw}" height="{vh}" fill="url(#none) red"/><circle r="1"/></svg>"#),
            1 => format!(r#"{hdr}<svg x="1" y="1" width="{w}" height="{h}" viewBox="0 0 {vw} {vh}"{par}><rect width="1" height="1"/></svg></svg>"#),
            2 => format!(r##"{hdr}<defs><symbol id="s" viewBox="0 0 {vw} {vh}"{par}><rect width="1" height="1"/></symbol></defs><use xlink:href="#s" width="{w}" height="{h}"/></svg>"##),
            3 => format!(r##"{hdr}<defs><marker id="m" markerWidth="{w}" markerHeight="{h}" viewBox="0 0 {vw} {vh}"{par}><rect width="1" height="1"/></marker></defs><path d="M 1 1 L 9 9" stroke="black" marker-end="url(#m)"/></svg>"##),
            4 => format!(r##"{hdr}<defs><pattern id="p" width="{w}" height="{h}" viewBox="0 0 {vw} {vh}"{par} patternUnits="{}"><rect width="1" height="1"/></pattern></defs><rect width="{}" height="50" fill="url(#p)" stroke="url(#p)"/></svg>"##, rng.pick(&["userSpaceOnUse", "objectBoundingBox"]), p(&mut rng)),
            5 => format!(r##"{hdr}<defs><linearGradient id="g" gradientTransform="scale({w} {h})"><stop offset="0"/><stop offset="1" stop-color="red"/></linearGradient><radialGradient id="r" gradientTransform="matrix({vw} 0 0 {vh} {w} 0)"><stop offset="0"/><stop offset="1" stop-color="red"/></radialGradient></defs><rect width="{}" height="{}" fill="url(#g)" stroke="url(#r)"/><text x="5" y="50" font-size="{}" fill="url(#g)">a</text></svg>"##, p(&mut rng), p(&mut rng), rng.pick(&["12", "1e20", "1e-20"])),
            6 => format!(r##"{hdr}<defs><pattern id="p" width="1" height="1" patternContentUnits="objectBoundingBox" patternTransform="scale({w})"><rect width="1" height="1"/></pattern><clipPath id="c" clipPathUnits="objectBoundingBox" transform="scale({vw})"><rect width="1" height="1"/></clipPath><mask id="k" maskContentUnits="objectBoundingBox"><rect width="1" height="1" fill="white" transform="scale({vh})"/></mask></defs><rect width="{}" height="{}" fill="url(#p)" clip-path="url(#c)" mask="url(#k)"/></svg>"##, p(&mut rng), p(&mut rng)),
            _ => format!(r##"{hdr}<image x="1" y="1" width="{w}" height="{h}"{par} xlink:href="data:image/svg+xml;utf8,&lt;svg xmlns='http://www.w3.org/2000/svg' width='{vw}' height='{vh}'&gt;&lt;rect width='1' height='1'/&gt;&lt;/svg&gt;"/><g transform="scale({vw})"><g transform="scale({vh})"><rect width="{w}" height="1"/></g></g></svg>"##),
        };
        v.push(Doc { class: format!("extreme-mapping-{}", i % 8), path: None, data: doc.into_bytes(), dpi: 96.0 });
    }
    // bounding-box paint inside the content of masks that are NOT shared (bounding-box units): third and later members
    // of a mask chain, masks on elements inside a pattern used by two shapes, masks inside masks' content — every
    // gradient and pattern in there still has to come out in user space
    let nk = (if tier == "thorough" { 600 } else { 80 }) * budget_mult();
    for i in 0..nk {
        let depth = 1 + rng.below(4) as usize;
        let mut defs = String::from(r#"<linearGradient id="og"><stop offset="0" stop-color="white"/><stop offset="1" stop-color="gray"/></linearGradient><pattern id="op" width="0.5" height="0.5" patternContentUnits="objectBoundingBox"><rect width="0.25" height="0.25" fill="white"/></pattern>"#);
        for k in 0..depth {
            let link = if k + 1 < depth { format!(r##" mask="url(#km{})""##, k + 1) } else { String::new() };
            let paint = if (i as usize + k) % 2 == 0 { "url(#og)" } else { "url(#op)" };
            defs += &format!(r##"<mask id="km{k}"{link}{}><rect x="0" y="0" width="{}" height="{}" fill="{paint}" stroke="{}" stroke-width="0.02"/></mask>"##, if rng.chance(1, 2) { r#" maskContentUnits="objectBoundingBox""# } else { "" }, if rng.chance(1, 2) { "1" } else { "90" }, if rng.chance(1, 2) { "1" } else { "70" }, if rng.chance(1, 3) { "url(#og)" } else { "none" });
        }
        let body = match i % 3 {
            0 => r##"<rect x="10" y="10" width="80" height="60" fill="green" mask="url(#km0)"/>"##.to_string(),
            1 => r##"<rect x="10" y="10" width="40" height="30" fill="green" mask="url(#km0)"/><circle cx="70" cy="60" r="20" fill="blue" mask="url(#km0)"/>"##.to_string(),
            _ => r##"<pattern id="host" width="40" height="40" patternUnits="userSpaceOnUse"><rect width="30" height="30" fill="teal" mask="url(#km0)"/></pattern><rect width="60" height="50" fill="url(#host)"/><circle cx="80" cy="70" r="15" fill="url(#host)"/>"##.to_string(),
        };
        let (defs, body) = if i % 3 == 2 { (format!("{defs}{}", &body[..body.find("</pattern>").unwrap() + 10]), body[body.find("</pattern>").unwrap() + 10..].to_string()) } else { (defs, body) };
        let doc = format!(r#"<svg xmlns="http://www.w3.org/2000/svg" width="100" height="100"><defs>{defs}</defs>{body}</svg>"#);
        v.push(Doc { class: "paint-inside-unshared-masks".into(), path: None, data: doc.into_bytes(), dpi: 96.0 });
    }
    for f in std::fs::read_dir("/verif/findings/C04").into_iter().flatten().flatten() {
        if let Ok(data) = std::fs::read(f.path()) {
            v.insert(0, Doc { class: "past-failure".into(), path: None, data, dpi: 96.0 });
        }
    }
    v
}

pub fn search(tier: &str, seed: u64, s: &mut Search) {
    crate::tree::run_contracts("C04", tier, seed, s, targeted(seed, tier));
}
