//! C07: written SVG is well-formed, self-contained and re-parsable.
use crate::tree::Doc;
use crate::util::*;

const HDR: &str = r#"<svg xmlns="http://www.w3.org/2000/svg" xmlns:xlink="http://www.w3.org/1999/xlink" width="120" height="120">"#;

pub fn targeted(seed: u64, tier: &str) -> Vec<Doc> {
    let mut rng = Rng::new(seed ^ 0x7A46E707);
    let mut v = vec![];
    let n = (if tier == "thorough" { 2000 } else { 200 }) * budget_mult();
    // ids / names that need escaping when written into an attribute or into url(#…)
    let odd = ["a&amp;b", "a&lt;b", "q&quot;q", "s&apos;s", "x y", "é", "a)b", "a#b", "&#x41;", "a&gt;b", "-", "1", "a&amp;amp;"];
    for i in 0..n {
        let id1 = *rng.pick(&odd);
        let id2 = *rng.pick(&odd);
        let doc = match i % 4 {
            0 => format!(
                r##"{HDR}<defs><linearGradient id="g{id1}"><stop offset="0" stop-color="red"/><stop offset="1"/></linearGradient><clipPath id="c{id2}"><rect width="50" height="50"/></clipPath><mask id="m{id1}"><rect width="60" height="60" fill="white"/></mask><filter id="f{id2}"><feFlood flood-color="red" result="r{id1}"/><feOffset in="r{id1}" dx="2"/></filter><pattern id="p{id2}" width="10" height="10" patternUnits="userSpaceOnUse"><rect width="5" height="5"/></pattern><path id="tp{id1}" d="M 10 80 L 110 80"/></defs><rect id="n{id1}" width="80" height="80" fill="url(#g{id1})" stroke="url(#p{id2})" clip-path="url(#c{id2})" mask="url(#m{id1})" filter="url(#f{id2})"/><text id="t{id2}" font-family="fam{id1}"><textPath xlink:href="#tp{id1}">on &amp; path &lt; {id2}</textPath></text></svg>"##
            ),
            1 => format!(
                r##"{HDR}<text id="t" x="5" y="30" font-family="{}" font-size="{}" fill="{}" text-decoration="underline" letter-spacing="{}">{} &amp; &lt;tag&gt; "quoted" 'single'<tspan dy="{}" font-weight="bold">{}</tspan></text></svg>"##,
                rng.pick(&["Noto Sans", "a&amp;b", "'quoted name'", "&quot;dq&quot;", "x, y"]), rng.pick(&["12", "1e-3", "3e38", "0.1"]), rng.pick(&["red", "none", "#123"]), rng.pick(&["0", "1e30", "-3", "1e300"]), id1, rng.pick(&["1", "1e300", "0.5 1 2"]), id2
            ),
            2 => format!(
                r##"{HDR}<path id="p" d="M {} {} L {} 5 L 3 {} Z" stroke="black" stroke-width="{}" stroke-dasharray="{}" stroke-dashoffset="{}" stroke-miterlimit="{}" transform="{}"/></svg>"##,
                rng.pick(&["0", "0.1", "1e9", "3e9", "-3e9", "0.123456789", "1e-7"]), rng.pick(&["0", "2147483648", "1e10", "0.5"]), rng.pick(&["10", "1e38", "0.30000001", "16777217"]), rng.pick(&["4", "1e-30", "123456.789"]),
                rng.pick(&["1", "1e-20", "3e38"]), rng.pick(&["1 2", "1e300 1", "3e38 3e38", "0.1"]), rng.pick(&["0", "1e300", "-1e300", "5"]), rng.pick(&["4", "1e300", "1"]),
                rng.pick(&["", "scale(1e-8)", "translate(0.1 1e9)", "rotate(33.3)", "matrix(1 0.3333333 0 1 1e10 0)", "scale(3e9)"])
            ),
            _ => format!(
                r##"{HDR}<defs><filter id="f" x="0" y="0" width="1" height="1"><feOffset dx="{}" dy="{}"/><feGaussianBlur stdDeviation="{}"/><feComponentTransfer><feFuncR type="linear" slope="{}" intercept="{}"/><feFuncG type="gamma" amplitude="{}" exponent="{}" offset="{}"/><feFuncB type="table" tableValues="{}"/></feComponentTransfer><feSpecularLighting surfaceScale="{}" specularConstant="{}" specularExponent="2"><feSpotLight x="{}" y="1" z="1" limitingConeAngle="{}"/></feSpecularLighting><feTurbulence baseFrequency="{}" seed="{}"/><feColorMatrix type="hueRotate" values="{}"/><feComposite operator="arithmetic" k1="{}" k2="1"/><feConvolveMatrix order="3" kernelMatrix="1 1 1 1 {} 1 1 1 1" bias="{}"/><feDisplacementMap scale="{}"/><feDropShadow dx="{}" stdDeviation="{}"/></filter></defs><rect width="50" height="50" filter="url(#f)"/></svg>"##,
                rng.pick(&["1", "1e300", "-1e300"]), rng.pick(&["1", "1e39"]), rng.pick(&["1", "1e300", "3e38 1"]), rng.pick(&["1", "1e300"]), rng.pick(&["0", "-1e300"]), rng.pick(&["1", "1e300"]), rng.pick(&["1", "1e300"]), rng.pick(&["0", "1e300"]),
                rng.pick(&["0 1", "0 1e300 1", "1e-300"]), rng.pick(&["1", "1e300"]), rng.pick(&["1", "1e300"]), rng.pick(&["1", "1e300"]), rng.pick(&["30", "1e300"]), rng.pick(&["0.05", "1e300", "3e38"]), rng.pick(&["1", "1e300", "-1e300"]), rng.pick(&["10", "1e300"]),
                rng.pick(&["1", "1e300"]), rng.pick(&["1", "1e300"]), rng.pick(&["0", "1e300"]), rng.pick(&["1", "1e300"]), rng.pick(&["1", "1e300"]), rng.pick(&["1", "1e300"])
            ),
        };
        v.push(Doc { class: format!("targeted-{}", i % 4), path: None, data: doc.into_bytes(), dpi: 96.0 });
    }
    // namespace users that live only inside sub-roots (pattern content, clip paths, masks, feImage), next to
    // sub-roots without any; several filters sharing one feImage target
    let inner_png = "data:image/png;base64,iVBORw0KGgoAAAANSUhEUgAAAAEAAAABCAYAAAAfFcSJAAAADUlEQVR42mP8z8BQDwAEhQGAhKmMIQAAAABJRU5ErkJggg==";
    for i in 0..(if tier == "thorough" { 320 } else { 80 }) {
        let par = ["", r#" preserveAspectRatio="xMidYMid slice""#, r#" preserveAspectRatio="none""#, r#" preserveAspectRatio="xMinYMax slice""#][(i / 5) % 4];
        let user = match i % 5 {
            0 => format!(r#"<image width="4" height="4"{par} xlink:href="{inner_png}"/>"#),
            4 => r##"<rect width="4" height="4" filter="url(#fdat)"/>"##.to_string(),
            1 => r##"<rect width="4" height="4" filter="url(#fimg)"/>"##.to_string(),
            2 => r##"<text font-size="4"><textPath xlink:href="#tpp">ab</textPath></text>"##.to_string(),
            _ => r##"<use xlink:href="#stamp"/>"##.to_string(),
        };
        let plain = r#"<rect width="3" height="3" fill="green"/>"#;
        let (first, second) = if (i / 4) % 2 == 0 { (user.as_str(), plain) } else { (plain, user.as_str()) };
        let shape = match (i / 8) % 4 {
            3 => format!(r##"<g filter="url(#fdat)"><rect width="20" height="20" fill="blue"/></g><image x="30" width="20" height="10"{par} xlink:href="{inner_png}"/>"##),
            0 => r##"<rect width="50" height="50" fill="url(#pa)" stroke="url(#pb)" stroke-width="6"/>"##.to_string(),
            1 => r##"<g clip-path="url(#ca)" mask="url(#mb)"><rect width="50" height="50" fill="blue"/></g>"##.to_string(),
            _ => r##"<g filter="url(#f1)"><rect width="20" height="20" fill="blue"/></g><g filter="url(#f2)"><rect x="30" width="20" height="20" fill="red"/></g>"##.to_string(),
        };
        let doc = format!(
            r##"{HDR}<defs><rect id="stamp" width="5" height="5" fill="teal"/><path id="tpp" d="M 0 5 L 40 5"/><filter id="fimg" x="0" y="0" width="1" height="1"><feImage xlink:href="#stamp"/></filter><filter id="fdat" x="0" y="0" width="1" height="1"><feImage{par} xlink:href="{inner_png}"/></filter><filter id="f1" x="0" y="0" width="1" height="1"><feImage xlink:href="#stamp"/></filter><filter id="f2" x="0" y="0" width="1" height="1"><feImage xlink:href="#stamp"/><feOffset dx="1"/></filter><pattern id="pa" width="10" height="10" patternUnits="userSpaceOnUse">{first}</pattern><pattern id="pb" width="10" height="10" patternUnits="userSpaceOnUse">{second}</pattern><clipPath id="ca">{}</clipPath><mask id="mb"><rect width="100" height="100" fill="white"/>{second}</mask></defs>{shape}</svg>"##,
            if first.starts_with("<text") || first.starts_with("<rect") { first.to_string() } else { r#"<rect width="40" height="40"/>"#.to_string() }
        );
        v.push(Doc { class: "targeted-xlink-in-subroots".into(), path: None, data: doc.into_bytes(), dpi: 96.0 });
    }
    for f in std::fs::read_dir("/verif/findings/C07").into_iter().flatten().flatten() {
        if let Ok(data) = std::fs::read(f.path()) {
            v.insert(0, Doc { class: "past-failure".into(), path: None, data, dpi: 96.0 });
        }
    }
    v
}

pub fn search(tier: &str, seed: u64, s: &mut Search) {
    let mut extra = targeted(seed, tier);
    extra.extend(crate::c05::targeted(seed, "quick").into_iter().take(if tier == "thorough" { 300 } else { 60 }));
    crate::tree::run_contracts("C07", tier, seed, s, extra);
}

fn xml_escape_source(s: &str) -> String {
    s.replace('&', "&amp;").replace('<', "&lt;").replace('"', "&quot;").replace('\'', "&apos;")
}

fn hexs(s: &str) -> String {
    s.bytes().map(|b| format!("{:02x}", b)).collect()
}

/// the raw bytes between the quotes of the first `name=` attribute after `after`
fn raw_attr<'a>(text: &'a str, after: &str, name: &str, quote: char) -> Option<&'a str> {
    let st = text.find(after)?;
    let pat = format!(" {}={}", name, quote);
    let i = text[st..].find(&pat)? + st + pat.len();
    let j = text[i..].find(quote)? + i;
    Some(&text[i..j])
}

/// correspondence: what the real writer puts between the quotes for ids, references, result
/// names and font families vs the model's `writeAttrValue`
pub fn corr(tier: &str, seed: u64, c: &mut Corr) {
    let mut rng = Rng::new(seed ^ 0xC07);
    let n = if tier == "thorough" { 4000 } else { 400 };
    let o = crate::corpus::opts_for(None);
    let alphabet: Vec<char> = "ab&<>\"';#x é_-".chars().collect();
    for i in 0..n {
        let len = 1 + rng.below(8) as usize;
        let mut id: String = (0..len).map(|_| *rng.pick(&alphabet)).collect();
        // ids are trimmed by nobody, but a leading/trailing blank would be normalised by XML attribute rules only for non-CDATA types: keep them inside
        if id.starts_with(' ') || id.ends_with(' ') {
            id = format!("k{}k", id);
        }
        if id.contains(')') {
            continue;
        }
        let single = rng.chance(1, 2);
        let q = if single { '\'' } else { '"' };
        let qn = if single { "s" } else { "d" };
        let mut w = usvg::WriteOptions::default();
        w.use_single_quote = single;
        let prefix: String = if i % 3 == 0 { (0..rng.below(4)).map(|_| *rng.pick(&alphabet)).collect::<String>().trim().to_string() } else { String::new() };
        if !prefix.is_empty() {
            w.id_prefix = Some(prefix.clone());
        }
        let src = xml_escape_source(&id);
        let svg = format!(
            r##"<svg xmlns="http://www.w3.org/2000/svg" width="50" height="50"><defs><linearGradient id="{src}"><stop offset="0" stop-color="red"/><stop offset="1"/></linearGradient><filter id="f"><feFlood result="{src}"/><feOffset in="{src}"/></filter></defs><rect id="n{src}" width="20" height="20" fill="url(#{src})" filter="url(#f)"/></svg>"##
        );
        let Ok(Ok(t)) = crate::pan::catch(|| usvg::Tree::from_str(&svg, &o)) else { continue };
        let Ok(text) = crate::pan::catch(|| t.to_string(&w)) else { continue };
        let full = format!("{}{}", prefix, id);
        // the definition's id, the node's id, the reference, the result name
        if let Some(raw) = raw_attr(&text, "<linearGradient", "id", q) {
            c.emit(&format!("escattr {} {}", qn, hexs(&full)), &hexs(raw));
        }
        if let Some(raw) = raw_attr(&text, "<path", "id", q) {
            c.emit(&format!("escattr {} {}", qn, hexs(&format!("{}n{}", prefix, id))), &hexs(raw));
        }
        // (an id the parser cannot reference - blanks, quotes … inside url(#…) - falls back to a colour)
        if let Some(raw) = raw_attr(&text, "<path", "fill", q).filter(|r| r.starts_with("url(")) {
            c.emit(&format!("escattr {} {}", qn, hexs(&format!("url(#{})", full))), &hexs(raw));
        }
        if let Some(raw) = raw_attr(&text, "<feFlood", "result", q) {
            c.emit(&format!("escattr {} {}", qn, hexs(&id)), &hexs(raw));
        }
        if let Some(raw) = raw_attr(&text, "<feOffset", "in", q) {
            c.emit(&format!("escattr {} {}", qn, hexs(&id)), &hexs(raw));
        }
    }
    // character data of preserved text: the bytes between the innermost <tspan …> and </tspan>
    let talpha: Vec<char> = "ab&<>\"';#x\u{e9}_-]".chars().collect();
    for _ in 0..n / 4 {
        let len = 1 + rng.below(10) as usize;
        let content: String = (0..len).map(|_| *rng.pick(&talpha)).collect();
        let svg = format!(
            r##"<svg xmlns="http://www.w3.org/2000/svg" width="80" height="50"><text x="5" y="20" font-size="10" font-family="Noto Sans">{}</text></svg>"##,
            xml_escape_source(&content).replace('>', "&gt;")
        );
        let Ok(Ok(t)) = crate::pan::catch(|| usvg::Tree::from_str(&svg, &o)) else { continue };
        let mut w = usvg::WriteOptions::default();
        w.preserve_text = true;
        w.indent = usvg::Indent::None;
        let Ok(text) = crate::pan::catch(|| t.to_string(&w)) else { continue };
        let Some(end) = text.find("</tspan>") else { continue };
        let Some(start) = text[..end].rfind('>') else { continue };
        // (a literal `>` in the content: search for the opening tag's end instead)
        let open = text[..end].rfind("stroke=\"none\">").map(|i| i + "stroke=\"none\">".len()).unwrap_or(start + 1);
        c.emit(&format!("esctext {}", hexs(&content)), &hexs(&text[open..end]));
    }
}
