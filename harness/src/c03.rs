//! C03: reference cycles — href chains (exhaustive small functional graphs), enter_def traces,
//! exhaustive cyclic reference graphs over the link kinds rendered in an isolated worker.
use crate::pan;
use crate::util::*;
use crate::worker::{hex_encode, Outcome, Worker};
use std::time::Duration;

const HDR: &str = r#"<svg xmlns="http://www.w3.org/2000/svg" xmlns:xlink="http://www.w3.org/1999/xlink" width="40" height="40">"#;
pub const WITNESS: &str = r##"<circle id="witness" cx="30" cy="30" r="5" fill="#0000ff"/>"##;

#[derive(Clone, Copy, PartialEq, Debug)]
pub enum Ty {
    ClipPath,
    Mask,
    Pattern,
    Filter,
    Marker,
    G,
    Gradient,
}
pub const TYPES: [Ty; 7] = [Ty::ClipPath, Ty::Mask, Ty::Pattern, Ty::Filter, Ty::Marker, Ty::G, Ty::Gradient];

#[derive(Clone, Copy, PartialEq, Debug)]
pub enum Link {
    ClipSelf,
    ClipChild,
    MaskSelf,
    MaskChild,
    FilterChild,
    FillChild,
    StrokeChild,
    HrefSelf,
    FeImage,
    UseChild,
    MarkerStart,
    MarkerMid,
    MarkerEnd,
}

impl Link {
    pub fn name(self) -> &'static str {
        match self {
            Link::ClipSelf => "clip-path@self",
            Link::ClipChild => "clip-path@child",
            Link::MaskSelf => "mask@self",
            Link::MaskChild => "mask@child",
            Link::FilterChild => "filter@child",
            Link::FillChild => "fill@child",
            Link::StrokeChild => "stroke@child",
            Link::HrefSelf => "href@self",
            Link::FeImage => "feImage",
            Link::UseChild => "use@child",
            Link::MarkerStart => "marker-start@child",
            Link::MarkerMid => "marker-mid@child",
            Link::MarkerEnd => "marker-end@child",
        }
    }
}

/// link kinds that can lead from an element of type `a` to one of type `b`
pub fn links(a: Ty, b: Ty) -> Vec<Link> {
    let mut v = vec![];
    let has_child = matches!(a, Ty::ClipPath | Ty::Mask | Ty::Pattern | Ty::Marker | Ty::G);
    match b {
        Ty::ClipPath => {
            if a == Ty::ClipPath {
                v.push(Link::ClipSelf);
            }
            if has_child {
                v.push(Link::ClipChild);
            }
        }
        Ty::Mask => {
            if a == Ty::Mask {
                v.push(Link::MaskSelf);
            }
            if has_child {
                v.push(Link::MaskChild);
            }
        }
        Ty::Filter => {
            if has_child {
                v.push(Link::FilterChild);
            }
            if a == Ty::Filter {
                v.push(Link::HrefSelf);
            }
        }
        Ty::Pattern => {
            if has_child {
                v.push(Link::FillChild);
                v.push(Link::StrokeChild);
            }
            if a == Ty::Pattern {
                v.push(Link::HrefSelf);
            }
        }
        Ty::Marker => {
            if has_child {
                v.push(Link::MarkerStart);
                v.push(Link::MarkerMid);
                v.push(Link::MarkerEnd);
            }
        }
        Ty::G => {
            if a == Ty::Filter {
                v.push(Link::FeImage);
            }
            if a == Ty::G {
                v.push(Link::UseChild);
            }
        }
        Ty::Gradient => {
            if a == Ty::Gradient {
                v.push(Link::HrefSelf);
            }
            if has_child {
                v.push(Link::FillChild);
            }
        }
    }
    v
}

fn element(i: usize, ty: Ty, link: Option<(Link, usize)>) -> String {
    element_v(i, ty, link, 0)
}

/// `variant` bit 0: the definition carries a view box or bounding-box content units (the other
/// branch of its converter); bit 1: an inheritable link (fill, stroke, markers) is written on a
/// group around the definition instead of on its child, so that it arrives by inheritance.
fn element_v(i: usize, ty: Ty, link: Option<(Link, usize)>, variant: u32) -> String {
    let id = format!("e{}", i);
    let tgt = link.map(|(_, j)| format!("e{}", j)).unwrap_or_default();
    let lk = link.map(|(l, _)| l);
    let self_attr = match lk {
        Some(Link::ClipSelf) => format!(r#" clip-path="url(#{})""#, tgt),
        Some(Link::MaskSelf) => format!(r#" mask="url(#{})""#, tgt),
        Some(Link::HrefSelf) => format!(r##" xlink:href="#{}""##, tgt),
        _ => String::new(),
    };
    let child_attr = match lk {
        Some(Link::ClipChild) => format!(r#" clip-path="url(#{})""#, tgt),
        Some(Link::MaskChild) => format!(r#" mask="url(#{})""#, tgt),
        Some(Link::FilterChild) => format!(r#" filter="url(#{})""#, tgt),
        Some(Link::FillChild) => format!(r#" fill="url(#{})""#, tgt),
        Some(Link::StrokeChild) => format!(r#" stroke="url(#{})" stroke-width="2""#, tgt),
        Some(Link::MarkerStart) => format!(r#" marker-start="url(#{})""#, tgt),
        Some(Link::MarkerMid) => format!(r#" marker-mid="url(#{})""#, tgt),
        Some(Link::MarkerEnd) => format!(r#" marker-end="url(#{})""#, tgt),
        _ => String::new(),
    };
    let inheritable = matches!(
        lk,
        Some(Link::FillChild) | Some(Link::StrokeChild) | Some(Link::MarkerStart) | Some(Link::MarkerMid) | Some(Link::MarkerEnd)
    );
    let (child_attr, outer_attr) = if variant & 2 != 0 && inheritable && ty != Ty::Gradient {
        (String::new(), child_attr)
    } else {
        (child_attr, String::new())
    };
    // a child that can carry every kind of link (a path, so that markers apply too)
    let child = format!(r#"<path d="M 1 1 L 9 1 L 9 9 L 1 9 Z"{}/>"#, child_attr);
    let alt = variant & 1 != 0;
    let self_attr = if alt {
        match ty {
            Ty::Pattern => format!(r#"{self_attr} viewBox="0 0 5 5""#),
            Ty::ClipPath => format!(r#"{self_attr} clipPathUnits="objectBoundingBox""#),
            Ty::Mask => format!(r#"{self_attr} maskContentUnits="objectBoundingBox""#),
            _ => self_attr,
        }
    } else {
        self_attr
    };
    let linked_by_fill = child_attr.contains(" fill=") || outer_attr.contains(" fill=");
    let linked_by_stroke = child_attr.contains(" stroke=") || outer_attr.contains(" stroke=");
    let body = match ty {
        Ty::ClipPath => format!(r#"<clipPath id="{id}"{self_attr}>{child}</clipPath>"#),
        Ty::Mask => format!(
            r#"<mask id="{id}"{self_attr}>{}</mask>"#,
            if linked_by_fill { child.clone() } else { child.replace("<path ", r#"<path fill="white" "#) }
        ),
        Ty::Pattern => {
            if lk == Some(Link::HrefSelf) {
                // children are inherited through the href chain
                format!(r#"<pattern id="{id}" width="5" height="5" patternUnits="userSpaceOnUse"{self_attr}/>"#)
            } else {
                format!(r#"<pattern id="{id}" width="5" height="5" patternUnits="userSpaceOnUse"{self_attr}>{child}</pattern>"#)
            }
        }
        Ty::Filter => match lk {
            Some(Link::FeImage) => format!(r##"<filter id="{id}"{}><feImage xlink:href="#{tgt}"/></filter>"##, if alt { r#" primitiveUnits="objectBoundingBox""# } else { "" }),
            Some(Link::HrefSelf) => format!(r#"<filter id="{id}"{self_attr}/>"#),
            _ => format!(r#"<filter id="{id}"><feFlood flood-color="green"/></filter>"#),
        },
        Ty::Marker => format!(
            r#"<marker id="{id}" markerWidth="6" markerHeight="6"{}>{}</marker>"#,
            if alt { r#" viewBox="0 0 6 6""# } else { "" },
            if linked_by_stroke { child.clone() } else { child.replace("<path ", r#"<path stroke="black" "#) }
        ),
        Ty::G => match lk {
            Some(Link::UseChild) => format!(r##"<g id="{id}"><use xlink:href="#{tgt}"/></g>"##),
            _ => format!(r#"<g id="{id}">{child}</g>"#),
        },
        Ty::Gradient => format!(r#"<linearGradient id="{id}"{self_attr}><stop offset="0" stop-color="red"/><stop offset="1" stop-color="blue"/></linearGradient>"#),
    };
    if outer_attr.is_empty() {
        body
    } else {
        format!("<g{outer_attr}>{body}</g>")
    }
}

fn entry(ty: Ty) -> String {
    match ty {
        Ty::ClipPath => r#"<rect width="20" height="20" clip-path="url(#e0)"/>"#.to_string(),
        Ty::Mask => r#"<rect width="20" height="20" mask="url(#e0)"/>"#.to_string(),
        Ty::Pattern | Ty::Gradient => r#"<rect width="20" height="20" fill="url(#e0)"/>"#.to_string(),
        Ty::Filter => r#"<rect width="20" height="20" filter="url(#e0)"/>"#.to_string(),
        Ty::Marker => r#"<path d="M 2 2 L 18 2 L 18 18" stroke="black" fill="none" marker-start="url(#e0)" marker-mid="url(#e0)"/>"#.to_string(),
        Ty::G => r##"<use xlink:href="#e0"/>"##.to_string(),
    }
}

/// A cyclic reference graph: elements e0 … e(L-1) with a link e_i → e_{(i+1) mod L}, optionally a
/// non-cyclic prefix element that enters the cycle, entered from a plain shape; plus the witness.
pub fn cycle_doc(types: &[Ty], lks: &[Link], g_in_defs: bool) -> String {
    cycle_doc_v(types, lks, g_in_defs, 0)
}

pub fn cycle_doc_v(types: &[Ty], lks: &[Link], g_in_defs: bool, variant: u32) -> String {
    let n = types.len();
    let mut defs = String::new();
    for i in 0..n {
        let e = element_v(i, types[i], Some((lks[i], (i + 1) % n)), variant);
        defs += &e;
    }
    let _ = g_in_defs;
    format!("{HDR}<defs>{defs}</defs>{}{WITNESS}</svg>", entry(types[0]))
}

/// the cycle e1 … en (as `cycle_doc`), entered through an extra element e0 of the first element's kind that links to
/// e1 with the cycle's last link kind (so the entry is not part of the cycle)
pub fn tail_cycle_doc(types: &[Ty], lks: &[Link], variant: u32) -> Option<String> {
    let n = types.len();
    // e0 has the type of the last element and uses its link kind to reach e1 (index 1 … n are the cycle)
    let entry_ty = types[n - 1];
    let entry_lk = lks[n - 1];
    if links(entry_ty, types[0]).is_empty() {
        return None;
    }
    let mut defs = element_v(0, entry_ty, Some((entry_lk, 1)), variant);
    for i in 0..n {
        defs += &element_v(i + 1, types[i], Some((lks[i], 1 + (i + 1) % n)), variant);
    }
    Some(format!("{HDR}<defs>{defs}</defs>{}{WITNESS}</svg>", entry(entry_ty)))
}

/// all (type sequence, link sequence) cycles of length `len`
pub fn enumerate_cycles(len: usize) -> Vec<(Vec<Ty>, Vec<Link>)> {
    let mut out = vec![];
    let mut idx = vec![0usize; len];
    loop {
        let tys: Vec<Ty> = idx.iter().map(|&i| TYPES[i]).collect();
        // canonical rotation only (the cycle is entered at every element anyway by rotating)
        let mut opts: Vec<Vec<Link>> = vec![];
        let mut ok = true;
        for i in 0..len {
            let l = links(tys[i], tys[(i + 1) % len]);
            if l.is_empty() {
                ok = false;
                break;
            }
            opts.push(l);
        }
        if ok {
            let mut li = vec![0usize; len];
            loop {
                out.push((tys.clone(), (0..len).map(|i| opts[i][li[i]]).collect()));
                let mut k = 0;
                while k < len {
                    li[k] += 1;
                    if li[k] < opts[k].len() {
                        break;
                    }
                    li[k] = 0;
                    k += 1;
                }
                if k == len {
                    break;
                }
            }
        }
        let mut k = 0;
        while k < len {
            idx[k] += 1;
            if idx[k] < TYPES.len() {
                break;
            }
            idx[k] = 0;
            k += 1;
        }
        if k == len {
            break;
        }
    }
    out
}

pub fn corr(tier: &str, seed: u64, c: &mut Corr) {
    // ---- HrefIter on every functional graph with ≤ 4 (quick) / 5 (thorough) gradient elements
    let maxn = if tier == "thorough" { 5 } else { 4 };
    for n in 1..=maxn {
        let total = (n + 1usize).pow(n as u32);
        for code in 0..total {
            let mut t = vec![];
            let mut x = code;
            for _ in 0..n {
                t.push(x % (n + 1));
                x /= n + 1;
            }
            // element i links to t[i]-1 (0 = no link)
            let mut defs = String::new();
            for i in 0..n {
                let href = if t[i] == 0 { String::new() } else { format!(r##" xlink:href="#g{}""##, t[i] - 1) };
                defs += &format!(r#"<linearGradient id="g{}"{}><stop offset="0" stop-color="red"/></linearGradient>"#, i, href);
            }
            let svg = format!("{HDR}<defs>{defs}</defs></svg>");
            for start in 0..n {
                let max = 2 * n + 3;
                let ans = match usvg::verif_svgtree::href_chain(&svg, &format!("g{}", start), max) {
                    Ok((ids, ended)) => {
                        let mut v: Vec<String> = ids.iter().map(|s| s.trim_start_matches('g').to_string()).collect();
                        if ended {
                            v.push("end".into());
                        }
                        v.join(" ")
                    }
                    Err(e) => format!("error:{}", e),
                };
                let tg: Vec<String> = t.iter().map(|&x| if x == 0 { "-".to_string() } else { (x - 1).to_string() }).collect();
                c.emit(&format!("hrefchain {} {} {} {}", n, start, max, tg.join(" ")), &ans);
            }
        }
    }
    // ---- enter_def decisions recorded while converting cyclic documents
    let mut rng = Rng::new(seed ^ 0xC03);
    let mut docs: Vec<String> = vec![];
    for len in 1..=3 {
        let all = enumerate_cycles(len);
        let take = if tier == "thorough" { all.len() } else { 120.min(all.len()) };
        for _ in 0..take {
            let (t, l) = rng.pick(&all).clone();
            docs.push(cycle_doc_v(&t, &l, true, rng.below(4) as u32));
        }
    }
    for svg in docs {
        usvg::verif_svgtree::trace_start();
        let _ = pan::catch(|| usvg::Tree::from_str(&svg, &crate::corpus::opts_for(None)));
        for l in usvg::verif_svgtree::trace_take() {
            let t: Vec<&str> = l.split(' ').collect();
            if t[0] == "enter_def" && t.len() == 4 {
                let st = t[2].trim_matches(|c| c == '[' || c == ']').replace(',', " ");
                c.emit(&format!("enterdef {} {}", t[1], st).trim_end().to_string(), t[3]);
            }
        }
    }
}

fn check_output(s: &mut Search, class: &str, key: &str, out: &Outcome, wk: &mut Worker) {
    match out {
        Outcome::Answer(a) if a.starts_with("ok witness=1") => {}
        Outcome::Answer(a) if a.starts_with("ok witness=0") => {
            s.finding(&format!("oracle:cycle:{}:witness-lost", class), "the document parsed but the independent witness shape is missing or changed", key);
        }
        Outcome::Answer(a) if a.starts_with("err") => {
            s.finding(&format!("oracle:cycle:{}:document-rejected", class), &format!("the whole document was rejected: {}", a), key);
        }
        Outcome::Answer(a) => {
            s.finding(&format!("oracle:cycle:{}:{}", class, a.split(' ').take(2).collect::<Vec<_>>().join(":")), a, key);
        }
        Outcome::Timeout => {
            *wk = Worker::spawn();
            s.finding(&format!("oracle:cycle:{}:hang", class), "parsing/rendering did not finish within 10 s", key);
        }
        Outcome::Crash { how, stderr } => {
            *wk = Worker::spawn();
            let kind = if stderr.contains("stack overflow") { "stack-overflow".to_string() } else { how.replace(' ', "-") };
            s.finding(&format!("oracle:cycle:{}:{}", class, kind), &format!("{} {}", how, stderr), key);
        }
    }
}

pub fn search(tier: &str, seed: u64, s: &mut Search) {
    let mut rng = Rng::new(seed ^ 0x5EA7C03);
    let mut wk = Worker::spawn();
    let timeout = Duration::from_secs(10);
    let mult = budget_mult() as usize;
    let maxlen = if tier == "thorough" { 4 } else { 3 };
    for len in 1..=maxlen {
        let all = enumerate_cycles(len);
        // quick: everything up to length 2, a seeded sample of the longer ones
        let cap = if tier == "thorough" { usize::MAX } else if len <= 2 { usize::MAX } else { 400 * mult };
        let chosen: Vec<(Vec<Ty>, Vec<Link>)> = if all.len() <= cap {
            all
        } else {
            (0..cap).map(|_| rng.pick(&all).clone()).collect()
        };
        for (t, l) in chosen {
            // every definition shape for the short cycles, a drawn one for the long ones
            let variants: Vec<u32> = if len <= 2 { vec![0, 1, 2, 3] } else { vec![0, 1 + rng.below(3) as u32] };
            for variant in variants {
                let svg = cycle_doc_v(&t, &l, true, variant);
                if variant != 0 && svg == cycle_doc(&t, &l, true) {
                    continue;
                }
                let sig: Vec<String> = t.iter().zip(l.iter()).map(|(a, b)| format!("{:?}:{}", a, b.name())).collect();
                let key = format!("cycle [{}] v{} {}", sig.join(" > "), variant, svg);
                let out = wk.run(&format!("cycle {}", hex_encode(svg.as_bytes())), timeout);
                let fam = if variant == 0 { format!("cycle-len-{}", len) } else { format!("cycle-len-{}-shape{}", len, variant) };
                s.case(&fam, &key, matches!(&out, Outcome::Answer(a) if a.starts_with("ok")));
                check_output(s, &format!("len{}", len), &key, &out, &mut wk);
            }
        }
    }
    // a tail that leads INTO a cycle: e0 -> e1 -> … -> ek -> e1 (walks that only remember where they started never end)
    for (t, l) in enumerate_cycles(if tier == "thorough" { 3 } else { 2 }).into_iter().chain(enumerate_cycles(3).into_iter().filter(|(t, _)| t.iter().all(|x| *x == t[0])).take(400)) {
        for variant in [0u32, 1] {
            let svg = tail_cycle_doc(&t, &l, variant);
            let Some(svg) = svg else { continue };
            let sig: Vec<String> = t.iter().zip(l.iter()).map(|(a, b)| format!("{:?}:{}", a, b.name())).collect();
            let key = format!("tail into cycle [{}] v{} {}", sig.join(" > "), variant, svg);
            let out = wk.run(&format!("cycle {}", hex_encode(svg.as_bytes())), timeout);
            s.case("tail-into-cycle", &key, matches!(&out, Outcome::Answer(a) if a.starts_with("ok")));
            check_output(s, "tail", &key, &out, &mut wk);
        }
    }
    // random graphs with mixed kinds, up to 12 elements, out-degree up to 2
    let nr = (if tier == "thorough" { 3000 } else { 300 }) * mult;
    for _ in 0..nr {
        let n = 2 + rng.below(11) as usize;
        let tys: Vec<Ty> = (0..n).map(|_| *rng.pick(&TYPES)).collect();
        let mut defs = String::new();
        for i in 0..n {
            // pick a target reachable by some link kind
            let mut link = None;
            for _ in 0..6 {
                let j = rng.below(n as u64) as usize;
                let ls = links(tys[i], tys[j]);
                if !ls.is_empty() {
                    link = Some((*rng.pick(&ls), j));
                    break;
                }
            }
            defs += &element_v(i, tys[i], link, rng.below(4) as u32);
        }
        let svg = format!("{HDR}<defs>{defs}</defs>{}{WITNESS}</svg>", entry(tys[0]));
        let out = wk.run(&format!("cycle {}", hex_encode(svg.as_bytes())), timeout);
        s.case("random-graph", &svg, matches!(&out, Outcome::Answer(a) if a.starts_with("ok")));
        check_output(s, "random", &svg, &out, &mut wk);
    }
}
