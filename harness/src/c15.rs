//! C15: clip / mask / opacity only remove paint — whole-pixel synthetic scenes vs the coverage
//! algebra, and an independent-geometry oracle on generated clips and masks.
use crate::pan;
use crate::util::*;
use resvg::tiny_skia;

#[derive(Clone, Copy)]
struct R {
    x: i32,
    y: i32,
    w: i32,
    h: i32,
}

impl R {
    fn contains(&self, px: i32, py: i32) -> bool {
        px >= self.x && px < self.x + self.w && py >= self.y && py < self.y + self.h
    }
    fn svg(&self, extra: &str) -> String {
        format!(r#"<rect x="{}" y="{}" width="{}" height="{}"{}/>"#, self.x, self.y, self.w, self.h, extra)
    }
}

fn rrect(rng: &mut Rng, n: i32) -> R {
    let x = rng.range(0, (n - 6) as i64) as i32;
    let y = rng.range(0, (n - 6) as i64) as i32;
    R { x, y, w: rng.range(3, (n - x) as i64) as i32, h: rng.range(3, (n - y) as i64) as i32 }
}

struct Scene {
    svg: String,
    /// per clip child: (its rect, optional rect of its own clip path, optional rect of the clip path of the `use`
    /// that instantiates it)
    children: Vec<(R, Option<R>, Option<R>)>,
    nested: Option<R>,
}

fn scene(rng: &mut Rng, n: i32) -> Scene {
    let k = 1 + rng.below(4) as usize;
    let mut defs = String::new();
    let mut body = String::new();
    let mut children = vec![];
    for i in 0..k {
        let r = rrect(rng, n);
        match rng.below(5) {
            0 | 1 => {
                let cr = rrect(rng, n);
                defs += &format!(r#"<clipPath id="k{}">{}</clipPath>"#, i, cr.svg(""));
                body += &r.svg(&format!(r#" clip-path="url(#k{})""#, i));
                children.push((r, Some(cr), None));
            }
            2 => {
                // a clipped shape instantiated by a `use` that is clipped too: a clipped child inside a clipped child
                let (cr, ur) = (rrect(rng, n), rrect(rng, n));
                defs += &format!(r#"<clipPath id="k{i}">{}</clipPath><clipPath id="u{i}">{}</clipPath>{}"#, cr.svg(""), ur.svg(""), r.svg(&format!(r#" id="t{i}" clip-path="url(#k{i})""#)));
                body += &format!(r##"<use xlink:href="#t{i}" clip-path="url(#u{i})"/>"##);
                children.push((r, Some(cr), Some(ur)));
            }
            _ => {
                body += &r.svg("");
                children.push((r, None, None));
            }
        }
    }
    let nested = if rng.chance(1, 3) { Some(rrect(rng, n)) } else { None };
    let nested_attr = match &nested {
        Some(nr) => {
            defs += &format!(r#"<clipPath id="nest">{}</clipPath>"#, nr.svg(""));
            r#" clip-path="url(#nest)""#.to_string()
        }
        None => String::new(),
    };
    let svg = format!(
        r##"<svg xmlns="http://www.w3.org/2000/svg" xmlns:xlink="http://www.w3.org/1999/xlink" width="{n}" height="{n}"><defs>{defs}<clipPath id="c"{nested_attr}>{body}</clipPath></defs><rect width="{n}" height="{n}" fill="#00ff00" clip-path="url(#c)"/></svg>"##
    );
    Scene { svg, children, nested }
}

pub fn corr(tier: &str, seed: u64, c: &mut Corr) {
    let mut rng = Rng::new(seed ^ 0xC15);
    let nscenes = if tier == "thorough" { 1500 } else { 150 };
    let n = 24;
    let o = crate::corpus::opts_for(None);
    for _ in 0..nscenes {
        let sc = scene(&mut rng, n);
        let Ok(tree) = usvg::Tree::from_str(&sc.svg, &o) else { continue };
        let Some(pm) = crate::rend::render(&tree, n as u32, n as u32, tiny_skia::Transform::identity()) else { continue };
        // sample pixel centres: every pixel is either fully inside or fully outside every rectangle
        // random pixels plus the centre of every pairwise overlap of clip children (where `Xor` and
        // `DestinationOut` differ)
        let mut pts: Vec<(i32, i32)> = (0..8).map(|_| (rng.range(0, (n - 1) as i64) as i32, rng.range(0, (n - 1) as i64) as i32)).collect();
        for a in 0..sc.children.len() {
            for b in a + 1..sc.children.len() {
                let (ra, rb) = (sc.children[a].0, sc.children[b].0);
                let (x0, y0) = (ra.x.max(rb.x), ra.y.max(rb.y));
                let (x1, y1) = ((ra.x + ra.w).min(rb.x + rb.w), (ra.y + ra.h).min(rb.y + rb.h));
                if x0 < x1 && y0 < y1 {
                    pts.push(((x0 + x1) / 2, (y0 + y1) / 2));
                }
            }
        }
        for (px, py) in pts {
            let nested = match &sc.nested {
                Some(r) => r.contains(px, py) as u8,
                None => 1,
            };
            let steps: Vec<String> = sc
                .children
                .iter()
                .map(|(r, cr, ur)| match (cr, ur) {
                    (None, _) => format!("p:{}", r.contains(px, py) as u8),
                    (Some(cr), None) => format!("g:{}:{}", r.contains(px, py) as u8, cr.contains(px, py) as u8),
                    (Some(cr), Some(ur)) => format!("n:{}:{}:{}", r.contains(px, py) as u8, cr.contains(px, py) as u8, ur.contains(px, py) as u8),
                })
                .collect();
            let a = pm.data()[((py * n + px) * 4 + 3) as usize];
            c.emit(&format!("clipf {} {}", nested, steps.join(" ")), &a.to_string());
        }
    }
}

// ------------------------------------------------------------------------------------------

fn render(svg: &str, o: &usvg::Options, w: u32, h: u32) -> Option<tiny_skia::Pixmap> {
    let t = match pan::catch(|| usvg::Tree::from_str(svg, o)) {
        Ok(Ok(t)) => t,
        _ => return None,
    };
    pan::catch(|| crate::rend::render(&t, w, h, tiny_skia::Transform::identity())).ok().flatten()
}

/// one white mask / clip path in objectBoundingBox content units shared by elements with different
/// boxes: every element lies inside its own white mask, so nothing may change
fn shared_definitions(tier: &str, seed: u64, s: &mut Search) {
    let mut rng = Rng::new(seed ^ 0x5EA7C15A);
    let n = (if tier == "thorough" { 600 } else { 60 }) * budget_mult();
    let o = crate::corpus::opts_for(None);
    for i in 0..n {
        let (w, h) = (120u32, 100u32);
        let k = 2 + rng.below(3);
        let mut shapes = String::new();
        for j in 0..k {
            let (x, y) = (rng.range(0, 80), rng.range(0, 60));
            let (sw, sh) = (rng.range(6, 40), rng.range(6, 40));
            let fill = *rng.pick(&["blue", "green", "#f80", "purple"]);
            shapes += &match (i + j) % 3 {
                0 => format!(r#"<rect MASK x="{x}" y="{y}" width="{sw}" height="{sh}" fill="{fill}"/>"#),
                1 => format!(r#"<g MASK><circle cx="{}" cy="{}" r="{}" fill="{fill}"/></g>"#, x + 20, y + 20, sw / 2 + 2),
                _ => format!(r#"<path MASK d="M {x} {y} l {sw} 3 l -4 {sh} z" fill="{fill}"/>"#),
            };
        }
        let mu = *rng.pick(&["userSpaceOnUse", "objectBoundingBox"]);
        let region = if mu == "userSpaceOnUse" { r#"x="-10" y="-10" width="400" height="400""# } else { r#"x="-0.5" y="-0.5" width="2" height="2""# };
        let (def, attr) = if i % 2 == 0 {
            (format!(r#"<mask id="zs" maskUnits="{mu}" {region} maskContentUnits="objectBoundingBox"><rect x="-0.2" y="-0.2" width="1.4" height="1.4" fill="white"/></mask>"#), r#"mask="url(#zs)""#)
        } else {
            (r#"<clipPath id="zs" clipPathUnits="objectBoundingBox"><rect x="-0.2" y="-0.2" width="1.4" height="1.4"/></clipPath>"#.to_string(), r#"clip-path="url(#zs)""#)
        };
        let hdr = format!(r#"<svg xmlns="http://www.w3.org/2000/svg" width="{w}" height="{h}">"#);
        let plain = format!("{hdr}{}</svg>", shapes.replace("MASK ", "").replace(" MASK", ""));
        let wrapped = format!("{hdr}<defs>{def}</defs>{}</svg>", shapes.replace("MASK", attr));
        let (Some(pa), Some(pb)) = (render(&plain, &o, w, h), render(&wrapped, &o, w, h)) else { continue };
        s.case("shared-bbox-definition", &wrapped, true);
        let (ok, why) = crate::rend::similar(&pa, &pb, 8);
        if !ok {
            s.finding(if i % 2 == 0 { "oracle:mask:shared-bbox-mask-changes-covered-content" } else { "oracle:clip:shared-bbox-clip-changes-covered-content" }, &format!("elements lying inside their own white objectBoundingBox mask / clip changed: {}", why), &wrapped);
        }
    }
}

/// clip structures every level of which covers the content: nothing may change.  Clipped children inside clipped
/// children, a shared user-space clip path that links a bounding-box one (two users at different places), and an
/// empty group next to the clipped shapes (it has no box and must not drag the bounding box to the origin)
fn covering_structures(tier: &str, seed: u64, s: &mut Search) {
    let mut rng = Rng::new(seed ^ 0x5EA7C15B);
    let n = (if tier == "thorough" { 600 } else { 60 }) * budget_mult();
    let o = crate::corpus::opts_for(None);
    for i in 0..n {
        let (w, h) = (120u32, 100u32);
        let k = 2 + rng.below(2);
        let mut shapes = String::new();
        for j in 0..k {
            let (x, y) = (rng.range(30, 80), rng.range(30, 60));
            let (sw, sh) = (rng.range(8, 30), rng.range(8, 30));
            let fill = *rng.pick(&["blue", "green", "#f80", "purple"]);
            shapes += &match (i + j) % 2 {
                0 => format!(r#"<rect CLIP x="{x}" y="{y}" width="{sw}" height="{sh}" fill="{fill}"/>"#),
                _ => format!(r#"<g CLIP>EMPTY<circle cx="{}" cy="{}" r="{}" fill="{fill}"/></g>"#, x, y, sw / 2 + 2),
            };
        }
        let (variant, def, empty) = match i % 5 {
            0 => (
                "nested-clipped-child",
                r##"<clipPath id="k"><rect x="-50" y="-50" width="400" height="400"/></clipPath><clipPath id="u"><rect x="-60" y="-60" width="500" height="500"/></clipPath><rect id="t" x="-40" y="-40" width="300" height="300" clip-path="url(#k)"/><clipPath id="zs"><use xlink:href="#t" clip-path="url(#u)"/></clipPath>"##.to_string(),
                "",
            ),
            1 => (
                "user-space-clip-linking-a-bounding-box-clip",
                r##"<clipPath id="bb" clipPathUnits="objectBoundingBox"><rect x="-0.2" y="-0.2" width="1.4" height="1.4"/></clipPath><clipPath id="zs" clip-path="url(#bb)"><rect x="-50" y="-50" width="400" height="400"/></clipPath>"##.to_string(),
                "",
            ),
            3 => (
                // a hidden shape among the clip children removes nothing and stops nothing
                "hidden-clip-child-before-visible-ones",
                r##"<clipPath id="zs"><rect visibility="hidden" x="0" y="0" width="5" height="5"/><rect x="-50" y="-50" width="400" height="400"/><circle style="visibility:hidden" r="3"/></clipPath>"##.to_string(),
                "",
            ),
            _ => (
                "empty-group-next-to-bounding-box-clipped-shapes",
                r##"<clipPath id="zs" clipPathUnits="objectBoundingBox"><rect x="-0.2" y="-0.2" width="1.4" height="1.4"/></clipPath>"##.to_string(),
                r#"<g id="e"/>"#,
            ),
        };
        let hdr = format!(r#"<svg xmlns="http://www.w3.org/2000/svg" xmlns:xlink="http://www.w3.org/1999/xlink" width="{w}" height="{h}">"#);
        let plain = format!("{hdr}{}</svg>", shapes.replace("CLIP ", "").replace(" CLIP", "").replace("EMPTY", empty));
        let wrapped = format!("{hdr}<defs>{def}</defs>{}</svg>", shapes.replace("CLIP", r#"clip-path="url(#zs)""#).replace("EMPTY", empty));
        let (Some(pa), Some(pb)) = (render(&plain, &o, w, h), render(&wrapped, &o, w, h)) else { continue };
        s.case(&format!("covering-structure:{}", variant), &wrapped, true);
        let (ok, why) = crate::rend::similar(&pa, &pb, 8);
        if !ok {
            s.finding(&format!("oracle:clip:covering-structure-changes-content:{}", variant), &format!("every clip path of the structure covers the content, yet the image changed: {}", why), &wrapped);
        }
    }
}

pub fn search(tier: &str, seed: u64, s: &mut Search) {
    shared_definitions(tier, seed, s);
    covering_structures(tier, seed, s);
    let mut rng = Rng::new(seed ^ 0x5EA7C15);
    let n = (if tier == "thorough" { 3000 } else { 300 }) * budget_mult();
    let o = crate::corpus::opts_for(None);
    for i in 0..n {
        let (w, h) = (rng.range(30, 90) as u32, rng.range(30, 90) as u32);
        // content: a few opaque and translucent shapes
        let mut g = crate::gen::Gen::new(&mut rng, crate::gen::Cfg::plain(w, h));
        let mut content = String::new();
        for _ in 0..1 + g.rng.below(4) {
            content += &g.shape();
        }
        let defs0 = g.defs();
        let tf = if g.rng.chance(1, 3) { format!(r#" transform="{}""#, g.transform()) } else { String::new() };
        // clip geometry: shapes given as paths so that the same geometry can be rasterised independently
        let shapes: Vec<String> = (0..1 + g.rng.below(3))
            .map(|_| match g.rng.below(3) {
                0 => format!(r#"<rect x="{}" y="{}" width="{}" height="{}"/>"#, g.rng.range(0, w as i64 / 2), g.rng.range(0, h as i64 / 2), g.rng.range(4, w as i64), g.rng.range(4, h as i64)),
                1 => format!(r#"<circle cx="{}" cy="{}" r="{}"/>"#, g.rng.range(0, w as i64), g.rng.range(0, h as i64), g.rng.range(3, (w.min(h)) as i64 / 2)),
                _ => {
                    // a triangle that is not a sliver (thin slivers are rasterised differently in an offscreen buffer)
                    loop {
                        let p: Vec<i64> = (0..6).map(|k| g.rng.range(0, if k % 2 == 0 { w as i64 } else { h as i64 })).collect();
                        let area2 = ((p[2] - p[0]) * (p[5] - p[1]) - (p[4] - p[0]) * (p[3] - p[1])).abs();
                        let longest = (0..3).map(|k| { let (a, b) = (k * 2, (k * 2 + 2) % 6); ((p[a] - p[b]).pow(2) + (p[a + 1] - p[b + 1]).pow(2)) as f64 }).fold(0.0, f64::max).sqrt();
                        // height over the longest side at least 4 px
                        if area2 as f64 / longest.max(1.0) >= 4.0 {
                            break format!(r#"<path d="M {} {} L {} {} L {} {} Z"/>"#, p[0], p[1], p[2], p[3], p[4], p[5]);
                        }
                    }
                }
            })
            .collect();
        let clip_tf = if g.rng.chance(1, 3) { format!(r#" transform="translate({} {}) scale(0.8)""#, g.rng.range(-5, 5), g.rng.range(-5, 5)) } else { String::new() };
        let hdr = format!(r#"<svg xmlns="http://www.w3.org/2000/svg" xmlns:xlink="http://www.w3.org/1999/xlink" width="{w}" height="{h}">"#);
        let plain = format!("{hdr}<defs>{defs0}</defs><g{tf}>{content}</g></svg>");
        let kind = i % 3;
        // the clip geometry as images rendered without any clipping machinery:
        // alpha = min over the outer list ( max over the middle list ( min over the inner list ) )
        let mut geometry: Vec<Vec<Vec<String>>> = vec![];
        let mut plain = plain;
        let wrapped = match kind {
            0 => {
                let variant = (i / 3) % 5;
                let geo = |inner: &str| format!(r#"{hdr}<g fill="black">{inner}</g></svg>"#);
                // a clip path linked from the clipPath element itself: it lives in the user space of the
                // referencing element, NOT under the outer clip path's own transform
                let (lx, ly, lw, lh) = (g.rng.range(0, w as i64 / 2), g.rng.range(0, h as i64 / 2), g.rng.range(8, w as i64), g.rng.range(8, h as i64));
                let linked_shape = format!(r#"<rect x="{lx}" y="{ly}" width="{lw}" height="{lh}"/>"#);
                let linked_def = format!(r#"<clipPath id="zl">{linked_shape}</clipPath>"#);
                match variant {
                    1 => {
                        // outer clip path with a transform of its own and a linked clip path
                        let ctf = format!(r#" transform="translate({} {}) scale({})""#, g.rng.range(3, 14), g.rng.range(3, 14), g.rng.pick(&["0.7", "1.2", "1"]));
                        geometry.push(vec![vec![geo(&format!("<g{ctf}>{}</g>", shapes.join("")))]]);
                        geometry.push(vec![vec![geo(&linked_shape)]]);
                        format!(r#"{hdr}<defs>{defs0}{linked_def}<clipPath id="zc"{ctf} clip-path="url(#zl)">{}</clipPath></defs><g clip-path="url(#zc)"><g{tf}>{content}</g></g></svg>"#, shapes.join(""))
                    }
                    2 => {
                        // objectBoundingBox units on a rectangle with a known box (+ transform, + linked clip path)
                        let (bx, by, bw, bh) = (g.rng.range(2, w as i64 / 3), g.rng.range(2, h as i64 / 3), g.rng.range(12, w as i64 / 2 + 12), g.rng.range(12, h as i64 / 2 + 12));
                        let fr: Vec<String> = (0..1 + g.rng.below(2))
                            .map(|_| {
                                let (fx, fy) = (g.rng.range(0, 6) as f32 / 10.0, g.rng.range(0, 6) as f32 / 10.0);
                                format!(r#"<rect x="{}" y="{}" width="{}" height="{}"/>"#, fx, fy, g.rng.range(3, 9) as f32 / 10.0, g.rng.range(3, 9) as f32 / 10.0)
                            })
                            .collect();
                        let ctf = if g.rng.chance(1, 2) { format!(r#" transform="translate({} {})""#, g.rng.range(-4, 8), g.rng.range(-4, 8)) } else { String::new() };
                        let use_link = g.rng.chance(1, 2);
                        let item = format!(r##"<rect x="{bx}" y="{by}" width="{bw}" height="{bh}" fill="#00f"/>"##);
                        plain = format!("{hdr}{item}</svg>");
                        geometry.push(vec![vec![geo(&format!(r#"<g{ctf}><g transform="translate({bx} {by}) scale({bw} {bh})">{}</g></g>"#, fr.join("")))]]);
                        if use_link {
                            geometry.push(vec![vec![geo(&linked_shape)]]);
                        }
                        format!(
                            r##"{hdr}<defs>{linked_def}<clipPath id="zc" clipPathUnits="objectBoundingBox"{ctf}{}>{}</clipPath></defs><rect x="{bx}" y="{by}" width="{bw}" height="{bh}" fill="#00f" clip-path="url(#zc)"/></svg>"##,
                            if use_link { r#" clip-path="url(#zl)""# } else { "" },
                            fr.join("")
                        )
                    }
                    4 => {
                        // shapes reached through `use` inside the clip path, carrying markers: markers are not part of
                        // a clip path's geometry, however the shape got there
                        let (x0, y0) = (g.rng.range(10, w as i64 / 2), g.rng.range(10, h as i64 / 2));
                        let (sw2, sh2) = (g.rng.range(12, w as i64 / 2), g.rng.range(12, h as i64 / 2));
                        let d = format!("M {x0} {y0} h {sw2} v {sh2} h -{sw2} Z");
                        let mk = format!(r#"<marker id="zmk" markerWidth="40" markerHeight="40" refX="20" refY="20" markerUnits="userSpaceOnUse" overflow="visible"><circle cx="20" cy="20" r="{}"/></marker>"#, g.rng.range(8, 25));
                        let shape_def = format!(r##"<path id="zsh" d="{d}" marker-start="url(#zmk)" marker-mid="url(#zmk)" marker-end="url(#zmk)"/>"##);
                        let through = match g.rng.below(3) {
                            0 => r##"<use xlink:href="#zsh"/>"##.to_string(),
                            1 => r##"<use xlink:href="#zsh" x="3" y="2"/>"##.to_string(),
                            _ => shape_def.replace(r#" id="zsh""#, ""),
                        };
                        let off = if through.contains(r#"x="3""#) { r#" transform="translate(3 2)""# } else { "" };
                        geometry.push(vec![vec![geo(&format!(r#"<path{off} d="{d}"/>"#))]]);
                        format!(r#"{hdr}<defs>{defs0}{mk}{shape_def}<clipPath id="zc">{through}</clipPath></defs><g clip-path="url(#zc)"><g{tf}>{content}</g></g></svg>"#)
                    }
                    3 => {
                        // clip paths on the children of the clip path (each child cut by its own), under the outer transform
                        let ctf = if g.rng.chance(1, 2) { format!(r#" transform="translate({} {})""#, g.rng.range(-4, 8), g.rng.range(-4, 8)) } else { String::new() };
                        let mut defs = String::new();
                        let mut body = String::new();
                        let mut ors = vec![];
                        for (j, sh) in shapes.iter().enumerate() {
                            if g.rng.chance(2, 3) {
                                let k = format!(r#"<rect x="{}" y="{}" width="{}" height="{}"/>"#, g.rng.range(0, w as i64 / 2), g.rng.range(0, h as i64 / 2), g.rng.range(8, w as i64), g.rng.range(8, h as i64));
                                defs += &format!(r#"<clipPath id="zk{j}">{k}</clipPath>"#);
                                body += &sh.replacen("/>", &format!(r#" clip-path="url(#zk{j})"/>"#), 1);
                                ors.push(vec![geo(&format!("<g{ctf}>{sh}</g>")), geo(&format!("<g{ctf}>{k}</g>"))]);
                            } else {
                                body += sh;
                                ors.push(vec![geo(&format!("<g{ctf}>{sh}</g>"))]);
                            }
                        }
                        geometry.push(ors);
                        format!(r#"{hdr}<defs>{defs0}{defs}<clipPath id="zc"{ctf}>{body}</clipPath></defs><g clip-path="url(#zc)"><g{tf}>{content}</g></g></svg>"#)
                    }
                    _ => {
                        geometry.push(vec![vec![geo(&format!("<g{clip_tf}>{}</g>", shapes.join("")))]]);
                        format!(r#"{hdr}<defs>{defs0}<clipPath id="zc"{clip_tf}>{}</clipPath></defs><g clip-path="url(#zc)"><g{tf}>{content}</g></g></svg>"#, shapes.join(""))
                    }
                }
            }
            1 =>
                // fully white opaque luminance mask restricted to a rectangle
                {
                    let (mx, my, mw, mh) = (g.rng.range(0, w as i64 / 2), g.rng.range(0, h as i64 / 2), g.rng.range(5, w as i64), g.rng.range(5, h as i64));
                    // the white content: one huge rectangle, or a rectangle whose FILL lies inside the mask
                    // region while its white stroke covers everything (the region must still bound the result)
                    let white = if (i / 3) % 2 == 0 {
                        r#"<rect x="-100" y="-100" width="1000" height="1000" fill="white"/>"#.to_string()
                    } else {
                        format!(r#"<rect x="{}" y="{}" width="{}" height="{}" fill="white" stroke="white" stroke-width="600"/>"#, mx + 1, my + 1, (mw - 2).max(1), (mh - 2).max(1))
                    };
                    if (i / 6) % 3 == 2 {
                        // the masked element (or an ancestor) is rotated / skewed: the region turns with it. Band-shaped
                        // regions: their axis-aligned box may cover everything although the region does not
                        let (mx, my, mw, mh) = if g.rng.chance(1, 2) { (-200i64, g.rng.range(h as i64 / 4, h as i64 / 2), 1000i64, g.rng.range(6, 20)) } else { (g.rng.range(w as i64 / 4, w as i64 / 2), -200i64, g.rng.range(6, 20), 1000i64) };
                        let rot = format!(r#" transform="{}""#, match g.rng.below(3) {
                            0 => format!("rotate({} {} {})", g.rng.pick(&[45, 30, -60, 17]), w / 2, h / 2),
                            1 => format!("skewX({})", g.rng.pick(&[30, -40])),
                            _ => format!("translate({} 0) rotate({})", w / 2, g.rng.pick(&[45, 70])),
                        });
                        let on_self = g.rng.chance(1, 2);
                        plain = format!("{hdr}<defs>{defs0}</defs><g{rot}><g{tf}>{content}</g></g></svg>");
                        geometry.push(vec![vec![format!(r#"{hdr}<g{rot} fill="black"><rect x="{mx}" y="{my}" width="{mw}" height="{mh}"/></g></svg>"#)]]);
                        let m = format!(r#"<mask id="zm" maskUnits="userSpaceOnUse" x="{mx}" y="{my}" width="{mw}" height="{mh}"><rect x="-500" y="-500" width="2000" height="2000" fill="white"/></mask>"#);
                        if on_self {
                            format!(r#"{hdr}<defs>{defs0}{m}</defs><g{rot} mask="url(#zm)"><g{tf}>{content}</g></g></svg>"#)
                        } else {
                            format!(r#"{hdr}<defs>{defs0}{m}</defs><g{rot}><g mask="url(#zm)"><g{tf}>{content}</g></g></g></svg>"#)
                        }
                    } else {
                    format!(r#"{hdr}<defs>{defs0}<mask id="zm" maskUnits="userSpaceOnUse" x="{mx}" y="{my}" width="{mw}" height="{mh}">{white}</mask></defs><g mask="url(#zm)"><g{tf}>{content}</g></g></svg>"#)
                        + &format!("<!--{} {} {} {}-->", mx, my, mw, mh)
                    }
                }
            ,
            _ => {
                let op = g.rng.range(0, 10) as f32 / 10.0;
                format!(r#"{hdr}<defs>{defs0}</defs><g opacity="{op}"><g{tf}>{content}</g></g></svg>"#)
            }
        };
        let (Some(pa), Some(pb)) = (render(&plain, &o, w, h), render(&wrapped, &o, w, h)) else { continue };
        let class = ["clip", "mask", "opacity"][kind as usize];
        s.case(class, &wrapped, pa.data().chunks(4).any(|p| p[3] != 0));
        // (1) alpha never increases: +1 for the 8-bit rounding of the layer compositing; on anti-aliased
        // edge pixels the offscreen rasterisation may differ by a quarter of full coverage (see rend::similar)
        let (ea, eb) = (crate::rend::edge_mask(&pa), crate::rend::edge_mask(&pb));
        let mut inc = None;
        let (wi0, hi0) = (w as i32, h as i32);
        for (idx, (p, q)) in pa.data().chunks(4).zip(pb.data().chunks(4)).enumerate() {
            let d = q[3] as i32 - p[3] as i32;
            let edge = ea[idx] || eb[idx];
            if !edge && d > 8 {
                inc = Some((idx, p[3], q[3]));
                break;
            }
            if edge && d > 80 {
                // a hairline may wobble by one pixel: is there comparable alpha next to it in the original?
                let (x, y) = (idx as i32 % wi0, idx as i32 / wi0);
                let mut near = false;
                for dy in -1..=1 {
                    for dx in -1..=1 {
                        let (xx, yy) = (x + dx, y + dy);
                        if xx >= 0 && yy >= 0 && xx < wi0 && yy < hi0 && pa.data()[((yy * wi0 + xx) * 4 + 3) as usize] as i32 + 80 >= q[3] as i32 {
                            near = true;
                        }
                    }
                }
                if !near {
                    inc = Some((idx, p[3], q[3]));
                    break;
                }
            }
        }
        if let Some((idx, a0, a1)) = inc {
            s.finding(&format!("oracle:{}:alpha-increased", class), &format!("pixel {} alpha {} -> {}", idx, a0, a1), &wrapped);
            continue;
        }
        // region of pixels that must be unchanged ("deep inside") / transparent ("outside")
        let (wi, hi) = (w as i32, h as i32);
        let mut inside = vec![false; (wi * hi) as usize];
        let mut outside = vec![false; (wi * hi) as usize];
        match kind {
            0 | 1 if !geometry.is_empty() => {
                // combine the geometry images
                let mut alpha = vec![255u8; (wi * hi) as usize];
                let mut failed = false;
                for ors in &geometry {
                    let mut acc_or = vec![0u8; (wi * hi) as usize];
                    for ands in ors {
                        let mut acc_and = vec![255u8; (wi * hi) as usize];
                        for gsvg in ands {
                            match render(gsvg, &o, w, h) {
                                Some(pg) => {
                                    for (k, a) in acc_and.iter_mut().enumerate() {
                                        *a = (*a).min(pg.data()[k * 4 + 3]);
                                    }
                                }
                                None => failed = true,
                            }
                        }
                        for (k, a) in acc_or.iter_mut().enumerate() {
                            *a = (*a).max(acc_and[k]);
                        }
                    }
                    for (k, a) in alpha.iter_mut().enumerate() {
                        *a = (*a).min(acc_or[k]);
                    }
                }
                if failed || geometry.is_empty() {
                    continue;
                }
                let ga = |x: i32, y: i32| -> u8 { if x < 0 || y < 0 || x >= wi || y >= hi { 0 } else { alpha[(y * wi + x) as usize] } };
                for y in 0..hi {
                    for x in 0..wi {
                        let (mut mn, mut mx) = (255u8, 0u8);
                        for dy in -1..=1 {
                            for dx in -1..=1 {
                                let v = ga(x + dx, y + dy);
                                mn = mn.min(v);
                                mx = mx.max(v);
                            }
                        }
                        let idx = (y * wi + x) as usize;
                        outside[idx] = mx == 0;
                        inside[idx] = mn == 255 && x > 0 && y > 0 && x < wi - 1 && y < hi - 1;
                    }
                }
            }
            1 => {
                let c0 = wrapped.rfind("<!--").unwrap();
                let v: Vec<i32> = wrapped[c0 + 4..wrapped.len() - 3].split(' ').filter_map(|t| t.parse().ok()).collect();
                let (mx, my, mw, mh) = (v[0], v[1], v[2], v[3]);
                for y in 0..hi {
                    for x in 0..wi {
                        let idx = (y * wi + x) as usize;
                        outside[idx] = !(x >= mx && x < mx + mw && y >= my && y < my + mh);
                        inside[idx] = x > mx && x < mx + mw - 1 && y > my && y < my + mh - 1;
                    }
                }
            }
            _ => {}
        }
        // paint outside the geometry: more than a couple of faint pixels (a sliver of the clip shape can
        // gain one rasteriser sub-sample when it is rasterised in the offscreen clip buffer)
        let bad: Vec<usize> = (0..outside.len()).filter(|&i| outside[i] && pb.data()[i * 4 + 3] > 8).collect();
        let strong = bad.iter().any(|&i| pb.data()[i * 4 + 3] > 96);
        if strong || bad.len() > 3 {
            let idx = bad[0];
            s.finding(
                &format!("oracle:{}:paint-outside", class),
                &format!("{} pixels outside the {} geometry are painted, e.g. ({},{}) alpha {}", bad.len(), class, idx as i32 % wi, idx as i32 / wi, pb.data()[idx * 4 + 3]),
                &wrapped,
            );
            continue;
        }
        if kind < 2 {
            // compare only the deep-inside pixels, with the shared noise-tolerant criterion
            let (mut qa, mut qb) = (pa.clone(), pb.clone());
            for i in 0..inside.len() {
                if !inside[i] {
                    for k in 0..4 {
                        qa.data_mut()[i * 4 + k] = 0;
                        qb.data_mut()[i * 4 + k] = 0;
                    }
                }
            }
            let (ok, what) = crate::rend::similar(&qa, &qb, 3);
            if !ok {
                s.finding(&format!("oracle:{}:inside-changed", class), &format!("pixels at least one pixel inside the {} geometry changed: {}", class, what), &wrapped);
            }
        }
    }
}
