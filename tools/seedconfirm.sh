#!/bin/sh
# usage: tools/seedconfirm.sh <worktree> <name>  — my own confirmation of a seeded change:
# runs the demonstration without and with the patch, and the full test suite with the patch, in the scratch worktree.
wt=$1; name=$2
d=/verif/seeded/$name
log=$d/confirm.log
cd $wt || exit 2
git checkout -q -- . 
: > $log
exs=""
for f in $d/demo/*.rs; do [ -f "$f" ] && cp $f crates/resvg/examples/ && exs="$exs $(basename $f .rs)"; done
run_demo() {
  for e in $exs; do
    cargo build --offline -q -p resvg --example $e >> $log 2>&1 || echo "BUILD FAILED $e" >> $log
    for s in $d/demo/*.svg; do
      echo "--- [$1] $e $(basename $s)" >> $log
      timeout 120 target/debug/examples/$e $s >> $log 2>&1; echo "exit=$?" >> $log
    done
    # demonstrations that compare several documents take them all as arguments
    echo "--- [$1] $e (all documents)" >> $log
    timeout 120 target/debug/examples/$e $d/demo/*.svg >> $log 2>&1; echo "exit=$?" >> $log
    if [ -f $d/demo/run.sh ]; then
      echo "--- [$1] run.sh" >> $log
      (cd $d/demo && EXAMPLE=$wt/target/debug/examples/$e timeout 300 sh ./run.sh $wt) >> $log 2>&1; echo "exit=$?" >> $log
    fi
  done
}
echo "=== without the change" >> $log
run_demo clean
git apply $d/patch.diff || { echo "PATCH DOES NOT APPLY" >> $log; exit 1; }
echo "=== with the change" >> $log
run_demo patched
echo "=== test suite with the change" >> $log
cargo test --workspace --no-fail-fast --offline 2>&1 | grep -E "^test result|FAILED|failed|error" | grep -v " 0 passed" >> $log
git checkout -q -- .
for e in $exs; do rm -f crates/resvg/examples/$e.rs; done
echo "=== done" >> $log
