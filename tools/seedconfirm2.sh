#!/bin/sh
# usage: tools/seedconfirm2.sh <worktree> <name> <orig-letter>
# confirmation of a seeded change whose demonstration commands are listed in demo/README.md
# (lines that run target/debug/examples/<example> ...): runs them without and with the patch, then the suite.
wt=$1; name=$2; letter=$3
d=/verif/seeded/$name
log=$d/confirm.log
cd $wt || exit 2
git checkout -q -- .
grep "test result" $log > /tmp/suite-$name.txt 2>/dev/null
: > $log
exs=""
for f in $d/demo/*.rs; do [ -f "$f" ] && cp $f crates/resvg/examples/ && exs="$exs $(basename $f .rs)"; done
python3 /verif/tools/seedcmds.py $d $letter > /tmp/seedcmds-$name.sh
run_demo() {
  for e in $exs; do cargo build --offline -q -p resvg --example $e > /dev/null 2>&1 || echo "BUILD FAILED $e" >> $log; done
  while read -r line; do
    echo "--- [$1] $line" >> $log
    (eval "timeout 300 $line") >> $log 2>&1; echo "exit=$?" >> $log
  done < /tmp/seedcmds-$name.sh
}
echo "=== without the change" >> $log
run_demo clean
git apply $d/patch.diff || { echo "PATCH DOES NOT APPLY" >> $log; exit 1; }
echo "=== with the change" >> $log
run_demo patched
echo "=== test suite with the change" >> $log
[ -n "$SKIP_SUITE" ] && cat /tmp/suite-$name.txt >> $log || cargo test --workspace --no-fail-fast --offline 2>&1 | grep -E "^test result|FAILED|failed|^error" | grep -v " 0 passed" >> $log
git checkout -q -- .
for e in $exs; do rm -f crates/resvg/examples/$e.rs; done
echo "=== done" >> $log
grep -E "^=== |^--- |exit=|test result|FAILED|PATCH" $log | cut -c1-160
