#!/bin/sh
# usage: confirm_runsh.sh <worktree> <name> <letter> : run demo/run.sh (copied into the worktree's seed/<letter>/demo) before and after the patch
wt=$1; name=$2; X=$3; d=/verif/seeded/$name; log=$d/confirm.log
cd $wt || exit 2
git checkout -q -- .
suite=$(grep "test result" $log)
: > $log
mkdir -p seed/$X && rm -rf seed/$X/demo && cp -r $d/demo seed/$X/demo
echo "=== without the change" >> $log; sh seed/$X/demo/run.sh 2>&1 | grep -v "^warning\|^ *|\|^ *=\|^ *-->\|^$" | head -60 >> $log
git checkout -q -- . ; git apply $d/patch.diff || echo "PATCH DOES NOT APPLY" >> $log
echo "=== with the change" >> $log; sh seed/$X/demo/run.sh 2>&1 | grep -v "^warning\|^ *|\|^ *=\|^ *-->\|^$" | head -60 >> $log
echo "=== test suite with the change (same patch, run just before)" >> $log; echo "$suite" >> $log
git checkout -q -- .; rm -f crates/resvg/examples/export_check.rs
echo "=== done" >> $log
