"""Per-property configuration of ./check (what is tied how, evidence texts)."""

COMMON_ASSUME = [
    "IEEE-754 binary32 semantics of the build target equals the round-to-nearest-even model F32.rnd (cross-checked against Lean's hardware Float32 and against Rust on every run)",
    "dev profile (debug assertions, overflow checks) as used by the pinned test suite",
]

SPECS = {
    "C16": {
        "level": "proof",
        "corr": True,
        "search": True,
        "translator_anchors": ["filter/mod.rs: SRGB_TO_LINEAR_RGB_TABLE", "filter/mod.rs: LINEAR_RGB_TO_SRGB_TABLE",
                               "filter/mod.rs: into_linear_rgb/from_linear_rgb index the right table"],
        "rule": "correspondence: exhaustive 8-bit rows (mul/demul/into_srgb/into_linear: 256 alphas x 256 channels each) plus PRNG-generated parameters for arithmetic, transfer and matrix; a case is distinct by (request, answer) hash. search: PRNG images through the real per-pixel kernels, oracle = statement (channel<=alpha, region, identity).",
        "trusted_base": ["modelled: filter/mod.rs multiply_alpha, demultiply_alpha, into_srgb, into_linear_rgb, composite::arithmetic, component_transfer::transfer, color_matrix::apply(Matrix), morphology min/max fold, convolve_matrix final clamp",
                         "not modelled (searched only): tiny-skia draw_pixmap/fill_rect used by blend, merge, composite operators, offset, tile, flood; box/IIR blur numerics; turbulence; lighting"],
        "assumptions": COMMON_ASSUME,
    },
}
