"""Per-property configuration of ./check (what is tied how, evidence texts)."""

COMMON_ASSUME = [
    "IEEE-754 binary32 semantics of the build target equals the round-to-nearest-even model F32.rnd (cross-checked against Lean's hardware Float32 and against Rust on every run)",
    "dev profile (debug assertions, overflow checks) as used by the pinned test suite",
]

NOT_CLAIMED = {}

LEVEL_NOTE = ("Trusted: Lean 4.33 kernel (axioms ⊆ propext, Classical.choice, Quot.sound; no native_decide, no sorry), "
              "tools/extract_tables.py, harness/vh and Driver/*.lean line protocol; IEEE binary32 round-to-nearest-even as "
              "modelled by F32.rnd / executed by Lean's Float32; code outside the model is listed in the evidence trusted_base.")
TECHNIQUE = ("Lean 4 machine-checked proof over an executable model + translator-regenerated tables + "
             "model/implementation correspondence check; implementation-side search supplies failing inputs")

SPECS = {
    "C16": {
        "level": "proof",
        "claim": "Lean 4 theorems over a bit-exact model of the per-pixel filter arithmetic: multiply_alpha never exceeds alpha and demultiply∘multiply is the identity (whole 8-bit domain, kernel-decided), validity of arithmetic composite / colour matrix / component transfer / morphology / convolve for all parameters (parametric in a monotone rounding operator), exact identity rows; model tied to the code by an exhaustive 8-bit correspondence and generated parameters; LUTs regenerated from the source by the translator. Region containment and tiny-skia-based primitives are covered by the implementation-side search only.",
        "design_ref": "§6 C16",
        "corr": True,
        "search": True,
        "translator_anchors": ["filter/mod.rs: SRGB_TO_LINEAR_RGB_TABLE", "filter/mod.rs: LINEAR_RGB_TO_SRGB_TABLE",
                               "filter/mod.rs: into_linear_rgb/from_linear_rgb index the right table"],
        "rule": "correspondence: exhaustive 8-bit rows (mul/demul/into_srgb/into_linear: 256 alphas x 256 channels each) plus PRNG-generated parameters for arithmetic, transfer and matrix; a case is distinct by (request, answer) hash. search: PRNG images through the real per-pixel kernels, oracle = statement (channel<=alpha, region, identity).",
        "trusted_base": ["modelled: filter/mod.rs multiply_alpha, demultiply_alpha, into_srgb, into_linear_rgb, composite::arithmetic, component_transfer::transfer, color_matrix::apply(Matrix), morphology min/max fold, convolve_matrix final clamp",
                         "not modelled (searched only): tiny-skia draw_pixmap/fill_rect used by blend, merge, composite operators, offset, tile, flood; box/IIR blur numerics; turbulence; lighting"],
        "assumptions": COMMON_ASSUME,
    },
    "C17": {
        "level": "proof",
        "corr": True,
        "search": True,
        "translator_anchors": [],
        "claim": "Lean 4 theorems over Rat about ViewBox::to_transform / aligned_pos (uniform scale, meet inside, slice covers, tightness, alignment for all 10 aligns by a factor argument, none exact, commutation with viewport scaling) and about resolve_svg_size (units at DPI, percent of viewBox / default size, missing = 100%, error iff non-positive). The same definitions are executed on Float32 (viewBox, transform concat) or with explicit binary32/64 rounding (size) and compared bit-for-bit with the real code for root, nested svg and symbol viewports; marker, pattern and image viewports and rendering-level scale commutation are covered by the implementation-side oracle.",
        "design_ref": "§6 C17",
        "rule": "correspondence: all 10 aligns x {meet,slice} x PRNG rectangles (aspect 1:50..50:1, negative origins) for root / nested svg / symbol, root size with every unit, %, missing attrs, DPI and default_size varied; distinct by (request, answer). search: marker rectangle filling the viewBox measured in the rendering for 6 viewport kinds vs an independent f64 implementation of the SVG rules; scale-vs-size rendering; Tree::size vs the rules; non-trivial = something expected to be painted / a size expected.",
        "trusted_base": ["modelled: tree/geom.rs ViewBox::to_transform, aligned_pos; tiny-skia-path Transform::concat/pre_translate, NonZeroRect::from_xywh/width; converter.rs resolve_svg_size; units.rs convert_length (user space)",
                         "not modelled (searched only): marker/pattern/image call sites of to_transform, clip rectangles of nested viewports, calculate_svg_bbox fallback, svgtypes number/length/viewBox parsers"],
        "assumptions": COMMON_ASSUME,
    },
    "C02": {
        "level": "proof",
        "corr": True,
        "search": True,
        "translator_anchors": [],
        "claim": "Lean 4 theorems about the layer rectangle of render_group (fit_to_rect is the intersection; every layer lies inside the 5x5-canvas box; the computation cannot panic for any box - after fix 4d447f2), about the filter size bookkeeping of apply_inner (sizes agree and no size assertion fires when layer = region; false in general, witness proved) and about pattern tiles (unbounded: witness proved; bounded when the scaled tile fits the max box). The model is tied to the code by replaying layer/filter/pattern traces recorded by cfg-guarded hooks while real documents are rendered (exact integer comparison, shift transform bit-exact on Float32). Totality and memory of everything outside the model (tiny-skia, blur, decoders) are searched in an isolated worker with a capped allocator; the remaining genuine defects are listed as known findings.",
        "design_ref": "§6 C02",
        "rule": "correspondence: fit_to_rect on PRNG/boundary IntRects; every layer_in/layer_out, filter_region/prim/res and pattern_in/out trace line of generated documents (all element kinds, filters of 1-4 primitives) and corpus files rendered at canvases 1x1..512x512 under identity/translate/scale/rotate/skew/near-singular transforms. search: worker renders generated documents; oracle: no panic/abort/hang, largest single allocation <= 25 canvases + 4 MiB. non-trivial = render returned normally.",
        "trusted_base": ["modelled: render.rs render_group (layer rectangle, shift_ts), geom.rs fit_to_rect/to_int_rect, lib.rs max_bbox, filter/mod.rs apply_inner size bookkeeping and size assertions of composite/displacement_map/lighting, path.rs render_pattern_pixmap tile size",
                         "not modelled (searched only): tiny-skia rasteriser and pipelines, blur/turbulence/lighting numerics, image decoders, clip/mask buffers (they copy the layer size)"],
        "assumptions": COMMON_ASSUME + ["a rendering that finishes on a 32x32 canvas is counted as bounded-time (cost is polynomial in the layer area); only a run that does not finish there is a hang"],
    },
    "C13": {
        "level": "proof",
        "corr": True,
        "search": True,
        "translator_anchors": [],
        "claim": "Lean 4 theorems giving the reason the property holds for everything rendered through a layer: floor/ceil commute with integer shifts, the raw layer rectangle and (unclamped) the fitted one move by exactly (k,m) with unchanged size, and the layer-local transform translate(-ix,-iy)*ts - from which children, clip paths, masks and every filter primitive are computed - is invariant; transform_light_source commutes for point lights, is proved NOT to commute for spot lights (region.x used for y; latent because an unclamped single-filter region has local origin (0,0), also proved). The models are tied by layer/filter traces of pairs of translated renderings (exact) and by a bit-exact Float32 correspondence of transform_light_source. That tiny-skia's rasteriser itself is translation invariant is assumed and searched (shifted-image comparison on corpus and generated documents).",
        "design_ref": "§6 C13",
        "rule": "correspondence: transform_light_source on PRNG transforms/regions/points (point and spot), and every layer/filter trace line of generated documents rendered with M and translate(dx,dy)*M. search: render(translate(dx,dy)*M) vs shifted render(M) on the overlap, dx != dy in [-40,40]^2, scale 1x/2x; noise-tolerant comparison (see harness/src/rend.rs); non-trivial = something painted.",
        "trusted_base": ["modelled: render.rs render_group (layer rectangle, shift transform), filter/mod.rs transform_light_source (x/y), geom.rs fit_to_rect/to_int_rect, tiny-skia-path Transform::concat/map_point",
                         "not modelled (searched only): tiny-skia rasteriser/shaders translation invariance, turbulence origin, apply_image placement, pattern tile placement, text"],
        "assumptions": COMMON_ASSUME,
    },
    "C14": {
        "level": "proof",
        "corr": True,
        "search": True,
        "translator_anchors": [],
        "claim": "Lean 4 theorems: a produced layer contains every device point of the group's box (grown by 1px) that lies inside the maximum box, a skipped group misses the maximum box completely, the maximum box handed to nested layers is the parent's box in layer coordinates so the canvas stays inside it at any nesting depth (after fix 64ee706; the unfixed code clipped nested layers), placement translate(-ix,-iy)*ts + offset (ix,iy) is the identity on device positions, source-over is associative so isolating a normally blended group is the identity in exact arithmetic, opacity laws (0 erases, 1 no-op, nested opacities multiply), should_isolate truth table. Tied by layer traces (layer rectangle, child max box: exact; shift transform: bit-exact Float32) of documents with injected isolation. 8-bit rounding of tiny-skia's compositing is outside the model and searched (isolation injection on generated documents and corpus Micro-SVG forms, +-(2+depth) tolerance).",
        "design_ref": "§6 C14",
        "rule": "correspondence: layer_in/layer_out/childmax/layerts trace lines of generated documents (depth <= 4) with isolation injected at random or all groups, root scales 0.5/1/3, fractional translations. search: picture with vs without injected isolation (normal blending only), opacity multiplication on flat colours; non-trivial = something painted.",
        "trusted_base": ["modelled: render.rs render_group (layer rectangle, nested max box, shift transform), geom.rs fit_to_rect, tree/mod.rs Group::should_isolate, source-over compositing in exact arithmetic",
                         "not modelled (searched only): tiny-skia draw_pixmap 8-bit arithmetic and rasteriser; the two dependency defects at negative offsets are known findings"],
        "assumptions": COMMON_ASSUME + ["edge pixels of anti-aliased geometry may differ by up to a quarter of full coverage between direct and offscreen rasterisation (tiny-skia sub-sampling); flat areas must agree within the stated tolerance"],
    },
    "C09": {
        "level": "proof",
        "corr": True,
        "search": True,
        "translator_anchors": ["svgtree/names.rs: EId/AId name tables", "svgtree/mod.rs: is_presentation / is_non_inheritable / allows_inherit_value / is_inheritable shape / is_graphic",
                               "svgtree/parse.rs: resolve_inherit fallback table, style-only attribute list, image-rendering skip list, depth and node limits"],
        "claim": "Lean 4 theorems about a branch-by-branch model of parse_svg_element's attribute handling: the insert_attribute closure (index before append, swap unless important, pop) equals replace-first-unless-important-else-append; lookup after any declaration list equals the fold of the winner rule over exactly that property's declarations (core theorem, by induction), with closed forms (an !important value sticks, otherwise the last wins); corollaries attribute = style/CSS declaration, order irrelevance for any reordering that preserves per-property order; explicit inherit equals ancestor lookup (inheritable) / parent value (non-inheritable); every property of the statement accepts inherit (after fix 3eaa813); unit equivalences at the DPI. The model is regenerated (classification tables) by the translator and tied by replaying cascade traces (every element of generated documents and corpus files: ancestors, XML attributes, raw and expanded declarations, resulting attribute slice) and the classification truth tables.",
        "design_ref": "§6 C09",
        "rule": "correspondence: attrclass/elemclass for every name the translator lists plus junk names (exhaustive over the tables); casc: one request per element of PRNG documents mixing attributes/style/CSS selectors/!important/inherit/shorthands/injected stylesheet and of corpus files; expand: every raw declaration except the font shorthand. search: base document vs 10 kinds of spelling rewrites at DPI 72/96/300, written trees compared after number canonicalisation.",
        "trusted_base": ["modelled: parse.rs parse_svg_element (attribute copy, insert_attribute, write_declaration except the font shorthand), append_attribute, resolve_inherit; mod.rs find_attribute and the attribute classes; units.rs convert_length",
                         "not modelled (searched only): simplecss selector matching and rule order, svgtypes value grammars (colours, numbers, font shorthand), converter defaults"],
        "assumptions": COMMON_ASSUME,
    },
    "C03": {
        "level": "proof",
        "corr": True,
        "search": True,
        "translator_anchors": ["enter_def guard before any recursive conversion in clippath::convert, mask::convert, filter::convert_url, paint_server::convert_pattern",
                               "parent_markers guard/push in marker.rs", "enter_def cut/push in converter.rs", "HrefIter visited check/push", "use stack check/push in parse_svg_use_element"],
        "claim": "Lean 4 theorems for every finite reference graph: an xlink:href chain yields at most n pairwise distinct elements (HrefIter with the visited list, fix ae7a68b) while the old iterator is proved to run forever on a->b->c->b; the converter's recursion skeleton with the in-progress stack (State::parent_defs, fix 1310f19; parent_markers) terminates within an explicit fuel bound whatever mix of link kinds forms the cycles and wherever they are entered (lexicographic measure: guarded elements not yet on the stack, rank in the acyclic unguarded part), while the unguarded recursion is proved to exhaust every fuel on a 3-cycle. The structural hypothesis (every reference-following function calls the guard first) is re-extracted from the sources by the translator on every run; HrefIter is tied exhaustively on all functional graphs with <= 4 elements, the guard decision by enter_def traces. The implementation-side search renders every cyclic graph up to length 3 (quick) / 4 (thorough) over the 13 link placements plus random graphs up to 12 elements in an isolated worker.",
        "design_ref": "§6 C03",
        "rule": "correspondence: hrefchain on all (n+1)^n functional graphs, n<=4, from every start (exhaustive); enterdef: every State::enter_def call recorded while converting sampled cyclic documents. search: exhaustive enumeration of cycles (type sequence x link kind sequence) up to length 2 fully, length 3 sampled by seed (thorough: all up to 4), random graphs of 2..12 elements; oracle: no crash/hang/panic/rejection, witness shape present with the same geometry and paint and painted.",
        "trusted_base": ["modelled: HrefIter::next; State::enter_def and the set of functions that call it; the shape of the converter's recursion (children + references)",
                         "not modelled (searched only): which attribute combinations actually produce a reference edge (validity rules of each converter), use expansion (modelled for C01/C10), fix_recursive_* pre-passes (now redundant)"],
        "assumptions": COMMON_ASSUME + ["the unguarded part of the reference graph (children, shapes, groups, feImage targets) is acyclic: it is the finite svgtree after use expansion, and every reference edge ends in a guarded element or is owned by one (feImage by its filter)"],
    },
    "C01": {
        "level": "proof",
        "corr": True,
        "search": True,
        "translator_anchors": ["svgtree/parse.rs: depth limit (parse_xml_node) and node limit (parse_svg_element)", "use stack check/push", "HrefIter visited check/push"],
        "claim": "Lean 4 theorems about the svgtree builder (parse_xml_node / parse_svg_use_element with the expansion stack / limits): the fuel derived from the depth limit is never exhausted (one more unit of fuel changes nothing: the recursion depth, hence the stack, is bounded by depthLimit+2 frames), a successful build has at most nodeLimit+1 element nodes whatever the use-expansion bomb, xlink:href chains end (theorem of C03). The limits are re-extracted from the sources by the translator; the builder model is tied by dumps of the real intermediate tree for generated XML skeletons (known/unknown/foreign elements and attributes, duplicate ids, use to self/ancestor/descendant/missing/non-SVG targets, nesting around the depth limit). roxmltree, simplecss, svgtypes, flate2, text layout and the numeric converters are outside the model: they are searched in an isolated worker (corpus, grammar documents, nesting and use bombs, raw bytes, gzip, and a systematic sweep of every attribute of two rich base documents over 22 adversarial values); the converter panics found that way are genuine defects listed as known findings.",
        "design_ref": "§6 C01",
        "rule": "correspondence: build requests = PRNG XML skeletons (pre-order flat encoding) + chains of 5..1026 nested groups; answer = the real svgtree dump. search: worker parse of corpus sample, generated documents, nesting/use bombs, raw bytes / gzip prefixes, and the deterministic attribute sweep (each attribute of harness/data/base1.svg and base2.svg x 22 pool values); non-trivial = parsed to a tree.",
        "trusted_base": ["modelled: svgtree/parse.rs parse, parse_xml_node(_children), parse_svg_element (attribute copy), parse_svg_use_element, resolve_href, limits; svgtree/mod.rs HrefIter",
                         "not modelled (searched only): roxmltree, simplecss, svgtypes, flate2, svgtree/text.rs, the converter (numeric validation, text layout, images)"],
        "assumptions": COMMON_ASSUME + ["main-thread stack of 8 MiB (the depth limit bounds the recursion, the frame size is an environment fact)"],
    },
}
