#!/bin/sh
# usage: tools/seedconfirm3.sh <worktree> <name> — demonstrations that are "run the example on each svg of demo/":
# every example on every document, 20 s budget, exit code recorded, without and with the patch (suite lines kept).
wt=$1; name=$2; d=/verif/seeded/$name; log=$d/confirm.log
cd $wt || exit 2
git checkout -q -- .
suite=$(grep "test result" $log)
: > $log
exs=""
for f in $d/demo/*.rs; do [ -f "$f" ] && cp $f crates/resvg/examples/ && exs="$exs $(basename $f .rs)"; done
run_demo() {
  for e in $exs; do
    cargo build --offline -q -p resvg --example $e > /dev/null 2>&1 || echo "BUILD FAILED $e" >> $log
    for s in $d/demo/*.svg; do
      echo "--- [$1] $e $(basename $s)" >> $log
      timeout 20 target/debug/examples/$e $s 2>&1 | grep -v "^ *[0-9]*: \|^ *at \|stack backtrace\|RUST_BACKTRACE" | head -12 >> $log
      echo "exit=$(timeout 20 target/debug/examples/$e $s > /dev/null 2>&1; echo $?)" >> $log
    done
  done
}
echo "=== without the change" >> $log; run_demo clean
git apply $d/patch.diff || { echo "PATCH DOES NOT APPLY" >> $log; exit 1; }
echo "=== with the change" >> $log; run_demo patched
echo "=== test suite with the change (same patch, run just before)" >> $log; echo "$suite" >> $log
git checkout -q -- .
for e in $exs; do rm -f crates/resvg/examples/$e.rs; done
echo "=== done" >> $log
grep -E "^=== |^--- |^exit=" $log | paste - - | cut -c1-150
