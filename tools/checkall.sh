#!/bin/sh
# run every claimed quick check on the current tree and print one line each (regression after shared changes)
cd "$(dirname "$0")/.." || exit 2
mkdir -p "${CHECKALL_LOGDIR:-/tmp}"
for p in $(python3 -c "import json;print(' '.join(c['property'] for c in json.load(open('MANIFEST.json'))['checks']))" 2>/dev/null || python3 -c "
import sys; sys.path.insert(0,'tools'); import props; print(' '.join(sorted(props.SPECS)))"); do
  ./check $p --tier ${1:-quick} > ${CHECKALL_LOGDIR:-/tmp}/checkall-$p.log 2>&1; rc=$?
  echo "$p rc=$rc $(grep -c '^VIOLATION' ${CHECKALL_LOGDIR:-/tmp}/checkall-$p.log) violations; $(tail -1 ${CHECKALL_LOGDIR:-/tmp}/checkall-$p.log | cut -c1-160)"
done
