#!/usr/bin/env python3
"""Regenerates MANIFEST.json from tools/props.py (claimed properties) and properties.jsonl."""
import json, os, sys
ROOT = os.path.dirname(os.path.dirname(os.path.abspath(__file__)))
sys.path.insert(0, os.path.join(ROOT, "tools"))
import props as P

props = [json.loads(l) for l in open(os.path.join(ROOT, "properties.jsonl"))]
claimed = [p["id"] for p in props if p["id"] in P.SPECS]
checks = []
for pid in claimed:
    sp = P.SPECS[pid]
    checks.append({
        "property_id": pid,
        "quick_cmd": f"./check {pid} --tier quick",
        "thorough_cmd": f"./check {pid} --tier thorough",
        "evidence_file": f"/verif/evidence/{pid}.json",
        "replay_cmd_template": f"./check {pid} --replay {{path}}",
        "engine": "lean4-model+correspondence",
        "level_claimed": {"category": sp.get("level", "proof"), "text": sp["claim"], "design_ref": sp.get("design_ref", "")},
        "level_note": sp.get("level_note", P.LEVEL_NOTE),
        "technique": sp.get("technique", P.TECHNIQUE),
    })
hooks_commits = [l.strip() for l in open(os.path.join(ROOT, "tools", "hook_commits.txt")) if l.strip()]
m = {
    "version": 1,
    "setup_cmd": "./setup.sh",
    "hooks": {"guard": "resvg_verif",
              "enable": "RUSTFLAGS=\"--cfg resvg_verif\" cargo build (in /verif/harness, path deps on /repo/crates/{usvg,resvg})",
              "baseline_off_cmd": "cd /repo && cargo test --workspace --no-fail-fast --offline",
              "source_commits": hooks_commits, "add_only": True},
    "engines": [{"name": "lean4-model+correspondence", "path": "/verif/lean, /verif/harness, /verif/tools",
                 "serves_properties": claimed,
                 "kind_free_text": "Lean 4 theorems about executable models; translator (tools/extract_tables.py) regenerates table-shaped facts from /repo; Rust harness (vh) drives the real code and the compiled Lean driver (resvg-model) on the same requests and diffs; implementation-side search supplies concrete failing inputs"}],
    "checks": checks,
    "notes": "See DESIGN.md. Checks print KNOWN-FINDING lines for entries of known_findings.json (status known) that still reproduce; fixed entries suppress nothing.",
    "not_applicable": [{"property_id": p["id"], "reason": P.NOT_CLAIMED.get(p["id"], "not claimed yet: model/theorems/tie under construction in this build phase (DESIGN.md §6); will be claimed when its first theorem, tie and oracle run clean")} for p in props if p["id"] not in P.SPECS],
}
json.dump(m, open(os.path.join(ROOT, "MANIFEST.json"), "w"), indent=1)
print("claimed:", claimed)
