#!/usr/bin/env python3
"""Sweep the implementation-side search over many seeds and list finding signatures that are not in
known_findings.json.  `--add` writes a witness file under findings/<id>/ and appends a `known` entry
(to be reviewed by hand).  Never run by ./check.

usage: tools/triage.py C02 --tier quick --seeds 1-64 [--add]
"""
import argparse, json, os, subprocess, sys, re, hashlib
from concurrent.futures import ThreadPoolExecutor
ROOT = os.path.dirname(os.path.dirname(os.path.abspath(__file__)))
VH = os.path.join(ROOT, "harness", "target", "debug", "vh")

def run(pid, tier, seed, steer):
    env = dict(os.environ, VERIF_SEED=str(seed))
    if steer:
        env["VERIF_STEER"] = "1"
    p = subprocess.run([VH, "search", pid, tier], env=env, stdout=subprocess.PIPE, stderr=subprocess.DEVNULL)
    out = []
    for l in p.stdout.decode("utf-8", "replace").split("\n"):
        if l.startswith("{"):
            try:
                j = json.loads(l)
            except Exception:
                continue
            if j.get("kind") == "finding":
                j["seed"] = seed
                out.append(j)
    if p.returncode != 0:
        out.append({"signature": f"harness:exit-{p.returncode}", "what": "vh search crashed", "input": "", "seed": seed})
    return out

def main():
    # always sweep a binary built from the current /repo tree
    subprocess.run(['cargo','build','--offline','-q'],cwd=os.path.join(os.path.dirname(os.path.abspath(__file__)),'..','harness'),env=dict(os.environ,RUSTFLAGS='--cfg resvg_verif'),stderr=subprocess.DEVNULL)
    ap = argparse.ArgumentParser()
    ap.add_argument("prop")
    ap.add_argument("--tier", default="quick")
    ap.add_argument("--seeds", default="1-32")
    ap.add_argument("--steer", action="store_true")
    ap.add_argument("--add", action="store_true")
    ap.add_argument("--jobs", type=int, default=14)
    a = ap.parse_args()
    lo, hi = [int(x) for x in a.seeds.split("-")]
    known = json.load(open(os.path.join(ROOT, "known_findings.json")))
    ksigs = {k["signature"] for k in known if k["property"] == a.prop and k.get("status", "known") == "known"}
    found = {}
    counts = {}
    with ThreadPoolExecutor(a.jobs) as ex:
        for res in ex.map(lambda s: run(a.prop, a.tier, s, a.steer), range(lo, hi + 1)):
            for j in res:
                counts[j["signature"]] = counts.get(j["signature"], 0) + 1
                found.setdefault(j["signature"], j)
    new = {s: j for s, j in found.items() if s not in ksigs}
    for s in sorted(found):
        print(("NEW   " if s in new else "known ") + f"{counts[s]:4d}x {s}  (seed {found[s]['seed']})")
    if a.add and new:
        d = os.path.join(ROOT, "findings", a.prop)
        os.makedirs(d, exist_ok=True)
        for s, j in sorted(new.items()):
            slug = re.sub(r"[^A-Za-z0-9]+", "-", s)[:60].strip("-") + "-" + hashlib.sha1(s.encode()).hexdigest()[:6]
            wpath = os.path.join(d, slug + ".txt")
            open(wpath, "w").write(j.get("input", ""))
            known.append({"property": a.prop, "status": "known", "signature": s, "what": j.get("what", "")[:300],
                          "witness": os.path.relpath(wpath, ROOT), "found_with": f"tier={a.tier} seed={j['seed']}"})
        json.dump(known, open(os.path.join(ROOT, "known_findings.json"), "w"), indent=1)
        print(f"added {len(new)} entries")
    return 0

if __name__ == "__main__":
    sys.exit(main())
