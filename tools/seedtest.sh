#!/bin/sh
# usage: tools/seedtest.sh <seed-name> <property> [tier] — apply /verif/seeded/<seed-name>/patch.diff to /repo, run the check, undo.
set -u
name=$1; prop=$2; tier=${3:-quick}
cd /verif
if ! git -C /repo diff --quiet; then echo "/repo is dirty"; exit 2; fi
git -C /repo apply /verif/seeded/$name/patch.diff || { echo "patch does not apply"; exit 2; }
./check $prop --tier $tier > /tmp/seedtest-$name-$prop.log 2>&1
rc=$?
git -C /repo checkout -- .
# regenerate the translator's tables from the restored tree (they are tracked files)
python3 /verif/tools/extract_tables.py > /dev/null 2>&1
# rebuild the harness against the restored tree, so that no later run uses a binary with the seeded change
(cd /verif/harness && RUSTFLAGS="--cfg resvg_verif" cargo build --offline -q 2>/dev/null)
if [ "$prop" = C20 ]; then (cd /repo && RUSTFLAGS="" cargo build --offline -q --config profile.dev.opt-level=2 -p resvg -p usvg --bins --target-dir /verif/harness/target/cli 2>/dev/null); fi
grep -E "VIOLATION|^C[0-9]+ tier" /tmp/seedtest-$name-$prop.log | cut -c1-300
echo "exit=$rc"
