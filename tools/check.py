#!/usr/bin/env python3
"""./check Cxx [--tier quick|thorough] [--replay FILE]

Pipeline (DESIGN.md §2.1): translate → prove → audit → build harness → correspondence → search →
verdict → evidence.  Exit 0 iff the property held on everything explored; otherwise prints
`VIOLATION property=<id> replay=<path>[ no-failing-input-found]` and exits 1.
"""
import argparse, hashlib, json, os, re, subprocess, sys, time, glob, shutil

ROOT = os.path.dirname(os.path.dirname(os.path.abspath(__file__)))
LEAN = os.path.join(ROOT, "lean")
HARNESS = os.path.join(ROOT, "harness")
EVID = os.path.join(ROOT, "evidence")
REPLAY = os.path.join(EVID, "replay")
WORK = os.path.join(ROOT, "work")
REPO = os.environ.get("VERIF_REPO", "/repo")
MODEL_BIN = os.path.join(LEAN, ".lake", "build", "bin", "resvg-model")
VH = os.path.join(HARNESS, "target", "debug", "vh")

sys.path.insert(0, os.path.join(ROOT, "tools"))
import props as PROPS  # noqa: E402

ALLOWED_AXIOMS = {"propext", "Classical.choice", "Quot.sound"}
FORBIDDEN = re.compile(r"\b(sorry|admit|native_decide|bv_decide|implemented_by)\b|^\s*axiom\s|\bunsafe\s|maxHeartbeats\s+0\b")


def sh(cmd, cwd=None, env=None, timeout=None, input=None):
    e = dict(os.environ)
    e["CARGO_NET_OFFLINE"] = "true"
    if env:
        e.update(env)
    p = subprocess.run(cmd, cwd=cwd, env=e, stdout=subprocess.PIPE, stderr=subprocess.PIPE,
                       timeout=timeout, input=input)
    return p.returncode, p.stdout.decode("utf-8", "replace"), p.stderr.decode("utf-8", "replace")


def strip_lean_comments(text):
    # remove /- -/ (nested) and -- comments
    out = []
    i = 0
    depth = 0
    n = len(text)
    while i < n:
        if text.startswith("/-", i):
            depth += 1
            i += 2
        elif depth and text.startswith("-/", i):
            depth -= 1
            i += 2
        elif depth:
            if text[i] == "\n":
                out.append("\n")
            i += 1
        elif text.startswith("--", i):
            while i < n and text[i] != "\n":
                i += 1
        else:
            out.append(text[i])
            i += 1
    return "".join(out)


def prop_lean_files(pid):
    files = [os.path.join(LEAN, "Resvg", "Props", pid + ".lean")]
    files += sorted(glob.glob(os.path.join(LEAN, "Resvg", "Props", pid, "*.lean")))
    return [f for f in files if os.path.exists(f)]


def theorems_in(path):
    """[(name, line, namespace-qualified name)]"""
    text = strip_lean_comments(open(path, encoding="utf-8").read())
    ns = []
    res = []
    for ln, line in enumerate(text.split("\n"), 1):
        m = re.match(r"\s*namespace\s+(\S+)", line)
        if m:
            ns.append(m.group(1))
            continue
        m = re.match(r"\s*end\s+(\S+)", line)
        if m and ns and ns[-1] == m.group(1):
            ns.pop()
            continue
        m = re.match(r"\s*(?:private\s+|protected\s+)?(?:theorem|lemma)\s+([A-Za-z0-9_.']+)", line)
        if m:
            res.append((m.group(1), ln, ".".join(ns + [m.group(1)])))
    return res


def step_translate(report):
    rc, out, err = sh([sys.executable, os.path.join(ROOT, "tools", "extract_tables.py")])
    try:
        info = json.loads(out.strip().split("\n")[-1])
    except Exception:
        info = {"changed": [], "errors": ["translator crashed: " + (err or out)[-400:]]}
    report["translate"] = info
    return info["errors"]


def step_prove(pid, report):
    """returns list of broken obligations (strings)"""
    mod = "Resvg.Props." + pid
    t0 = time.time()
    rc, out, err = sh(["lake", "build", mod, "resvg-model"], cwd=LEAN)
    report["prove_s"] = round(time.time() - t0, 1)
    broken = []
    if rc != 0:
        text = out + err
        # map error positions to theorems
        hits = re.findall(r"error: (?:\./)?([^\s:]+\.lean):(\d+):(\d+): ([^\n]*)", text)
        seen = set()
        for f, ln, col, msg in hits:
            path = os.path.join(LEAN, f)
            name = None
            if os.path.exists(path):
                for (n, l, q) in theorems_in(path):
                    if l <= int(ln):
                        name = q
            key = name or f"{f}:{ln}"
            if key not in seen:
                seen.add(key)
                broken.append(f"{key}: {msg[:160]}")
        if not broken:
            broken.append("lake build failed: " + text[-600:])
    report["prove_rc"] = rc
    return broken


def step_audit(pid, report):
    """#print axioms for each theorem of the property; forbidden-token grep over the project."""
    problems = []
    thms = []
    for f in prop_lean_files(pid):
        thms += [q for (_, _, q) in theorems_in(f)]
    os.makedirs(os.path.join(LEAN, "Audit"), exist_ok=True)
    apath = os.path.join(LEAN, "Audit", pid + ".lean")
    body = "import Resvg.Props.%s\n" % pid + "".join("#print axioms %s\n" % t for t in thms)
    open(apath, "w").write(body)
    rc, out, err = sh(["lake", "env", "lean", apath], cwd=LEAN)
    text = out + err
    axioms_used = {}
    cur = None
    # output format: 'X' depends on axioms: [a, b]   |  'X' does not depend on any axioms
    for m in re.finditer(r"'([^']+)' (does not depend on any axioms|depends on axioms: \[([^\]]*)\])", text, flags=re.S):
        name = m.group(1)
        ax = [] if m.group(3) is None else [a.strip() for a in m.group(3).replace("\n", " ").split(",") if a.strip()]
        axioms_used[name] = ax
        bad = [a for a in ax if a not in ALLOWED_AXIOMS]
        if bad:
            problems.append(f"{name}: uses axioms {bad}")
    missing = [t for t in thms if t not in axioms_used]
    if rc != 0 or missing:
        problems.append(f"audit could not print axioms for {missing[:5]} rc={rc}: {text[-300:]}")
    # forbidden tokens (comments stripped)
    for f in glob.glob(os.path.join(LEAN, "Resvg", "**", "*.lean"), recursive=True) + glob.glob(os.path.join(LEAN, "Driver", "*.lean")):
        text = strip_lean_comments(open(f, encoding="utf-8").read())
        for ln, line in enumerate(text.split("\n"), 1):
            if FORBIDDEN.search(line):
                problems.append(f"forbidden token in {os.path.relpath(f, LEAN)}:{ln}: {line.strip()[:80]}")
    report["theorems"] = thms
    report["axioms"] = sorted({a for v in axioms_used.values() for a in v})
    return problems


def step_build_harness(report):
    t0 = time.time()
    lock_src = os.path.join(REPO, "Cargo.lock")
    env = {"RUSTFLAGS": "--cfg resvg_verif"}
    rc, out, err = sh(["cargo", "build", "--offline"], cwd=HARNESS, env=env)
    hooked = True
    if rc != 0:
        report["hooked_build_error"] = err[-1500:]
        # fallback: public-API mode (DESIGN §4.4)
        rc2, out2, err2 = sh(["cargo", "build", "--offline", "--no-default-features"], cwd=HARNESS, env={"RUSTFLAGS": ""})
        hooked = False
        if rc2 != 0:
            report["build_error"] = err2[-1500:]
            report["build_s"] = round(time.time() - t0, 1)
            return None
    report["build_s"] = round(time.time() - t0, 1)
    report["hooked"] = hooked
    return hooked


def step_build_cli(report):
    """C20: the resvg and usvg command-line binaries, built from /repo's working tree (no hooks)"""
    t0 = time.time()
    rc, out, err = sh(["cargo", "build", "--offline", "--config", "profile.dev.opt-level=2", "--manifest-path", os.path.join(REPO, "Cargo.toml"),
                       "-p", "resvg", "-p", "usvg", "--bins", "--target-dir", os.path.join(HARNESS, "target", "cli")],
                      cwd=REPO, env={"RUSTFLAGS": ""})
    report["cli_build_s"] = round(time.time() - t0, 1)
    if rc != 0:
        report["cli_build_error"] = err[-1500:]
        return False
    return True


def step_corr(pid, tier, seed, report):
    """returns (n_requests, disagreements[list of dict])"""
    os.makedirs(WORK, exist_ok=True)
    env = {"VERIF_SEED": str(seed)}
    t0 = time.time()
    rc, out, err = sh([VH, "corr", pid, tier], env=env, timeout=3600)
    if rc != 0:
        return 0, [{"request": "<harness>", "impl": f"vh corr exited {rc}: {err[-500:]}", "model": ""}], {}
    lines = [l for l in out.split("\n") if l]
    reqs, impl = [], []
    for l in lines:
        if "\t" not in l:
            continue
        a, b = l.split("\t", 1)
        reqs.append(a)
        impl.append(b)
    if not os.path.exists(MODEL_BIN):
        return len(reqs), [{"request": "<model>", "impl": "", "model": "model driver not built"}], {}
    rc, mout, merr = sh([MODEL_BIN], input=("\n".join(reqs) + "\n").encode())
    model = mout.split("\n")
    if model and model[-1] == "":
        model.pop()
    dis = []
    kinds = {}
    nontrivial = set()
    for i, r in enumerate(reqs):
        k = " ".join(r.split(" ")[:2])
        kinds[k] = kinds.get(k, 0) + 1
        m = model[i] if i < len(model) else "<no answer>"
        if m != impl[i]:
            dis.append({"request": r[:2000], "impl": impl[i][:2000], "model": m[:2000]})
        nontrivial.add(hashlib.md5((r + "\t" + impl[i]).encode()).hexdigest())
    report["corr_s"] = round(time.time() - t0, 1)
    report["corr_kinds"] = kinds
    report["corr_distinct"] = len(nontrivial)
    report["corr_samples"] = [{"request": reqs[i][:300], "answer": impl[i][:120]} for i in sorted(set([0, len(reqs) // 3, 2 * len(reqs) // 3, len(reqs) - 1])) if 0 <= i < len(reqs)]
    return len(reqs), dis, kinds


def step_search(pid, tier, seed, report, steer=None, budget_mult=1):
    env = {"VERIF_SEED": str(seed), "VERIF_BUDGET_MULT": str(budget_mult)}
    if steer:
        env["VERIF_STEER"] = steer
    t0 = time.time()
    try:
        rc, out, err = sh([VH, "search", pid, tier], env=env, timeout=7200)
    except subprocess.TimeoutExpired:
        return [{"signature": "harness:timeout", "what": "vh search timed out", "input": {}}], {"evaluations": 0}
    findings = []
    stats = {}
    for l in out.split("\n"):
        l = l.strip()
        if not l.startswith("{"):
            continue
        try:
            j = json.loads(l)
        except Exception:
            continue
        if j.get("kind") == "finding":
            findings.append(j)
        elif j.get("kind") == "stats":
            stats = j
    if rc != 0 and not stats:
        findings.append({"signature": "harness:crash", "what": f"vh search exited {rc}: {err[-600:]}", "input": {}})
    report["search_s"] = round(time.time() - t0, 1)
    return findings, stats


def load_known():
    p = os.path.join(ROOT, "known_findings.json")
    if not os.path.exists(p):
        return []
    return json.load(open(p))


def write_replay(pid, kind, payload):
    os.makedirs(REPLAY, exist_ok=True)
    h = hashlib.sha1(json.dumps(payload, sort_keys=True).encode()).hexdigest()[:12]
    path = os.path.join(REPLAY, f"{pid}-{h}.json")
    payload = dict(payload)
    payload["property"] = pid
    payload["kind"] = kind
    payload["how_to_replay"] = f"./check {pid} --replay {path}"
    json.dump(payload, open(path, "w"), indent=1)
    return path


def main():
    ap = argparse.ArgumentParser()
    ap.add_argument("prop")
    ap.add_argument("--tier", default=os.environ.get("VERIF_TIER", "quick"))
    ap.add_argument("--replay")
    args = ap.parse_args()
    pid = args.prop
    tier = args.tier if args.tier in ("quick", "thorough") else "quick"
    seed = int(os.environ.get("VERIF_SEED", "1") or 1)
    spec = PROPS.SPECS.get(pid)
    if spec is None:
        print(f"unknown or unclaimed property {pid}")
        return 2
    t_start = time.time()
    report = {}
    out_lines = []

    if args.replay:
        return do_replay(pid, args.replay)

    broken = []  # proof / tie obligations that no longer check
    terr = step_translate(report)
    broken += ["translator: " + e for e in terr]
    pb = step_prove(pid, report)
    broken += ["proof: " + b for b in pb]
    if not pb:
        ab = step_audit(pid, report)
        broken += ["audit: " + a for a in ab]
        if tier == "thorough":
            # independent re-check of the compiled property module by the toolchain's kernel re-checker
            mods = ["Resvg.Props." + pid] + [m for m in spec.get("extra_modules", [])]
            rc, out, err = sh(["lake", "env", "leanchecker"] + mods, cwd=LEAN, timeout=1800)
            report["leanchecker"] = {"modules": mods, "rc": rc}
            if rc != 0:
                broken.append("leanchecker: " + (out + err)[-400:])
    hooked = step_build_harness(report)
    if hooked is None:
        broken.append("harness: build failed against the current /repo tree: " + report.get("build_error", "")[-300:])
    elif not hooked:
        broken.append("harness: hooked build failed (hook anchors moved); public-API mode")
    if spec.get("needs_cli") and not step_build_cli(report):
        broken.append("cli: the resvg / usvg binaries do not build from the current /repo tree: " + report.get("cli_build_error", "")[-300:])

    n_req, dis = 0, []
    if hooked and spec.get("corr", True):
        n_req, dis, _ = step_corr(pid, tier, seed, report)
        if dis:
            broken.append(f"correspondence: {len(dis)} of {n_req} requests disagree; first: {json.dumps(dis[0])[:400]}")

    findings, stats = [], {}
    if hooked is not None and spec.get("search", True):
        findings, stats = step_search(pid, tier, seed, report,
                                      steer=("broken" if broken else None),
                                      budget_mult=(3 if broken else 1) * (spec.get("thorough_mult", 1) if tier == "thorough" else 1))

    known = [k for k in load_known() if k.get("property") == pid and k.get("status", "known") == "known"]
    known_sigs = {k["signature"]: k for k in known}
    seen_known = {}
    new_findings = []
    for f in findings:
        sig = f.get("signature", "?")
        if sig in known_sigs:
            seen_known.setdefault(sig, f)
        else:
            new_findings.append(f)

    violations = 0
    for sig, f in seen_known.items():
        print(f"KNOWN-FINDING: property={pid} {sig} {known_sigs[sig].get('what', '')}")
    reported = set()
    for f in new_findings:
        sig = f.get("signature", "?")
        if sig in reported:
            continue
        reported.add(sig)
        path = write_replay(pid, "impl-failure", f)
        print(f"VIOLATION property={pid} replay={path}")
        violations += 1
    if broken and not new_findings:
        path = write_replay(pid, "obligation-broken", {"broken": broken, "disagreements": dis[:20],
                                                      "note": "no concrete failing input was found by the search"})
        print(f"VIOLATION property={pid} replay={path} no-failing-input-found")
        violations += 1
    elif broken:
        # failing input found and already reported; record the broken obligations too
        write_replay(pid, "obligation-broken", {"broken": broken, "disagreements": dis[:20]})

    stale = [s for s in known_sigs if s not in seen_known]
    thms = report.get("theorems", [])
    n_obl = len(thms) + len(spec.get("translator_anchors", [])) + (1 if spec.get("corr", True) else 0)
    n_broken = len(set(b.split(":")[0] + b.split(":")[1] if b.count(":") else b for b in broken))
    discharged = max(0, n_obl - min(n_obl, len(broken)))
    evaluations = int(n_req) + int(stats.get("evaluations", 0))
    distinct = int(report.get("corr_distinct", 0)) + int(stats.get("distinct_nontrivial", 0))
    samples = report.get("corr_samples", []) + stats.get("samples", [])[:6]
    if not samples:
        samples = [{"theorem": t} for t in thms[:5]]
    ev = {
        "property_id": pid,
        "tier": tier,
        "seed": seed,
        "level": spec.get("level", "proof"),
        "coverage": {
            "obligations": max(1, n_obl),
            "discharged": discharged if not broken else max(0, discharged),
            "checker_cmd": f"cd lean && lake build Resvg.Props.{pid} && lake env lean Audit/{pid}.lean",
            "trusted_base": spec.get("trusted_base", []) + [
                "Lean 4.33 kernel; axioms used by this property's theorems: " + (", ".join(report.get("axioms", [])) or "none"),
                "tools/extract_tables.py (translator) and the correspondence harness harness/src (vh) + Driver/*.lean",
            ] + (["leanchecker (independent re-check of the compiled property module): rc=%s" % report["leanchecker"]["rc"]] if "leanchecker" in report else []),
            "theorems": thms,
            "broken_obligations": broken,
            "evaluations": max(1, evaluations),
            "distinct_nontrivial": distinct,
            "rule": spec.get("rule", ""),
            "samples": samples,
            "correspondence_requests": n_req,
            "correspondence_kinds": report.get("corr_kinds", {}),
            "model_disagreements": dis[:10],
            "impl_failures": [{"signature": f.get("signature"), "what": f.get("what")} for f in new_findings[:10]],
            "known_findings_seen": sorted(seen_known.keys()),
            "stale_findings": stale,
            "search_stats": {k: v for k, v in stats.items() if k not in ("samples", "kind")},
            # families of generated inputs that the parser mostly rejects exercise little: listed so that a broken
            # generator is seen (one once hid a whole family behind a missing namespace declaration)
            "generator_warnings": sorted(
                "%s: %d accepted, %d rejected" % (k[:-9], stats.get("distribution", {}).get(k[:-9], 0), v)
                for k, v in stats.get("distribution", {}).items()
                if k.endswith("-rejected") and v > stats.get("distribution", {}).get(k[:-9], 0) and not k.startswith(("malformed", "raw", "past-failure"))),
            "timings_s": {k: v for k, v in report.items() if k.endswith("_s")},
            "hooked_build": bool(hooked),
        },
        "assumptions": spec.get("assumptions", []),
        "wall_s": round(time.time() - t_start, 1),
        "violations": violations,
    }
    os.makedirs(EVID, exist_ok=True)
    json.dump(ev, open(os.path.join(EVID, pid + ".json"), "w"), indent=1)
    print(f"{pid} tier={tier} seed={seed}: theorems={len(thms)} broken={len(broken)} corr={n_req} "
          f"disagree={len(dis)} search_evals={stats.get('evaluations', 0)} known={len(seen_known)} "
          f"violations={violations} wall={ev['wall_s']}s")
    return 1 if violations else 0


def do_replay(pid, path):
    j = json.load(open(path))
    if j.get("kind") == "obligation-broken":
        print("obligations recorded as broken:")
        for b in j.get("broken", []):
            print("  ", b)
        print("re-running the check:")
        return subprocess.call([sys.executable, os.path.abspath(__file__), pid])
    inp = json.dumps(j)
    hooked = step_build_harness({})
    rc, out, err = sh([VH, "replay", pid], input=inp.encode())
    print(out)
    if rc != 0:
        print(f"VIOLATION property={pid} replay={path}")
        return 1
    return 0


if __name__ == "__main__":
    sys.exit(main())
