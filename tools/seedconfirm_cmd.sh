#!/bin/sh
# usage: confirm_cmd.sh <worktree> <name> <example-names...> -- then commands on stdin ($D = demo dir)
wt=$1; name=$2; shift 2
d=/verif/seeded/$name; log=$d/confirm.log
cd $wt || exit 2
git checkout -q -- .
suite=$(grep "test result" $log)
: > $log
for e in "$@"; do cp $d/demo/$e.rs crates/resvg/examples/; done
cat > /tmp/cmds-$name.sh
run() {
  for e in "$@"; do cargo build --offline -q -p resvg --example $e > /dev/null 2>&1 || echo "BUILD FAILED $e" >> $log; done
  cargo build --offline -q -p resvg -p usvg --bins > /dev/null 2>&1
  D=$d/demo; export D
  while read -r line; do
    echo "--- $line" >> $log
    (eval "timeout 300 $line") 2>&1 | grep -v "^ *[0-9]*: \|^ *at \|stack backtrace\|RUST_BACKTRACE" | head -15 | cut -c1-220 >> $log
  done < /tmp/cmds-$name.sh
}
echo "=== without the change" >> $log; run "$@"
git apply $d/patch.diff || echo "PATCH DOES NOT APPLY" >> $log
echo "=== with the change" >> $log; run "$@"
echo "=== test suite with the change (same patch, run just before)" >> $log; echo "$suite" >> $log
git checkout -q -- .
for e in "$@"; do rm -f crates/resvg/examples/$e.rs; done
echo "=== done" >> $log
grep -v "test result" $log | cut -c1-200
