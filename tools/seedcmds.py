#!/usr/bin/env python3
"""extract the demonstration commands of a seeded change from its demo/README.md, normalised to
`target/debug/examples/<example> <args>` with the demo directory substituted"""
import re, sys
d, letter = sys.argv[1], sys.argv[2]
text = open(d + "/demo/README.md").read()
xvar = None
m = re.search(r"^\s*X=(?:\./)?target/(?:debug|release)/examples/(\S+)", text, re.M)
if m:
    xvar = m.group(1)
out = []
for line in text.split("\n"):
    l = line.strip()
    if l.startswith("$ "):
        l = l[2:].strip()
    m = re.match(r"(?:\./)?target/(?:debug|release)/examples/(\S+)\s+(.*)$", l)
    if not m:
        m = re.match(r"cargo run .*--example\s+(\S+)\s+--\s+(.*)$", l)
    if not m and xvar:
        m2 = re.match(r"\$X\s+(.*)$", l)
        if m2:
            m = re.match(r"(\S+)\s+(.*)$", xvar + " " + m2.group(1))
    if m:
        args = m.group(2)
        args = re.sub(r"seed/%s/demo" % letter, d + "/demo", args)
        args = re.sub(r"\s*\|.*$", "", args)      # drop pipes
        args = re.sub(r"\s*#.*$", "", args)       # drop comments
        c = "target/debug/examples/%s %s" % (m.group(1), args)
        if c not in out:
            out.append(c)
print("\n".join(out))
