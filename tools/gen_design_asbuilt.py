#!/usr/bin/env python3
"""Regenerates the data-driven tables of DESIGN.md §12 (between the AS-BUILT markers) from
known_findings.json, seeded/index.json, tools/props.py and the Lean sources."""
import json, os, re, subprocess, sys
ROOT = os.path.dirname(os.path.dirname(os.path.abspath(__file__)))
sys.path.insert(0, os.path.join(ROOT, "tools"))
import props

def theorems(pid):
    n = 0
    for base in [f"lean/Resvg/Props/{pid}.lean"] + [os.path.join(f"lean/Resvg/Props/{pid}", f) for f in (os.listdir(os.path.join(ROOT, f"lean/Resvg/Props/{pid}")) if os.path.isdir(os.path.join(ROOT, f"lean/Resvg/Props/{pid}")) else [])]:
        p = os.path.join(ROOT, base)
        if os.path.exists(p):
            n += len(re.findall(r"^theorem ", open(p, encoding="utf-8").read(), re.M))
    return n

def main():
    kf = json.load(open(os.path.join(ROOT, "known_findings.json")))
    seeds = json.load(open(os.path.join(ROOT, "seeded", "index.json")))
    out = []
    out.append("### 12.1 Status per property\n")
    out.append("| property | level | theorems | correspondence | search | fixes in /repo | known findings |")
    out.append("|---|---|---|---|---|---|---|")
    for pid in sorted(props.SPECS):
        sp = props.SPECS[pid]
        fx = sorted({e.get("commit", "?") for e in kf if e["property"] == pid and e["status"] == "fixed"})
        kn = [e for e in kf if e["property"] == pid and e["status"] == "known"]
        out.append(f"| {pid} | {sp['level']} | {theorems(pid)} | {'yes' if sp.get('corr', True) else 'translator only'} | {'yes' if sp.get('search', True) else 'no'} | {', '.join(fx) or '-'} | {len(kn)} |")
    out.append("")
    out.append("### 12.2 Repairs made in /repo (`fix:` commits; each leaves the pinned suite green)\n")
    seen = {}
    for e in kf:
        if e["status"] == "fixed":
            seen.setdefault(e.get("commit", "?"), []).append(e)
    log = subprocess.check_output(["git", "-C", "/repo", "log", "--format=%h %s"]).decode().splitlines()
    for line in reversed(log):
        h, msg = line.split(" ", 1)
        if not msg.startswith("fix:"):
            continue
        es = seen.get(h, [])
        ps = sorted({e["property"] for e in es})
        what = es[0]["what"].split(h, 1)[-1].strip() if es else ""
        out.append(f"* `{h}` {msg}" + (f" — found by {', '.join(ps)}: {what[:260]}" if es else ""))
    out.append("")
    out.append("### 12.3 Known findings (genuine defects recorded, not repaired)\n")
    for pid in sorted({e["property"] for e in kf if e["status"] == "known"}):
        out.append(f"**{pid}**\n")
        for e in kf:
            if e["property"] == pid and e["status"] == "known":
                out.append(f"* `{e['signature']}` — {e['what'][:420]}" + (f" (witness: {e['witness']})" if e.get("witness") else ""))
        out.append("")
    out.append("### 12.4 Seeded changes (sub-agent campaign) and which check catches them\n")
    out.append("| change | property | caught by | first run |")
    out.append("|---|---|---|---|")
    for s in sorted(seeds, key=lambda x: x["name"]):
        out.append(f"| seeded/{s['name']} | {s['property']} | {s['by']} | {s['first_run']} |")
    n = len(seeds)
    first = sum(1 for s in seeds if s["first_run"].startswith("caught"))
    out.append("")
    out.append(f"{n} changes, each confirmed to compile and to pass the pinned suite with the change applied alone (confirm.log in each directory). "
               f"{first} were caught by the checks as they stood when the change arrived; every other one was missed (or caught only by a correspondence "
               f"disagreement without a failing input) and led to a stronger check, after which all {sum(1 for s in seeds if s['detected'])} are caught with a concrete replay input.")
    text = "\n".join(out) + "\n"
    p = os.path.join(ROOT, "DESIGN.md")
    d = open(p, encoding="utf-8").read()
    a, b = "<!-- AS-BUILT-TABLES:BEGIN -->", "<!-- AS-BUILT-TABLES:END -->"
    if a in d and b in d:
        d = d[:d.index(a) + len(a)] + "\n" + text + d[d.index(b):]
        open(p, "w", encoding="utf-8").write(d)
        print("DESIGN.md tables refreshed")
    else:
        print(text)

if __name__ == "__main__":
    main()
