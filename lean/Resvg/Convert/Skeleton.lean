/-
  The recursion skeleton of the converter (crates/usvg/src/parser/{converter,clippath,mask,filter,
  paint_server,marker}.rs), reduced to which element is converted from which, and the guard
  `State::enter_def` (fix 1310f19) / `State::parent_markers`.

  A document is a finite directed graph: `succ e` lists what converting `e` converts next — its
  children and every element it references (`clip-path`, `mask`, `filter`, pattern `fill`/`stroke`,
  `feImage` target, markers).  `marked e` holds for the elements that push themselves on the
  in-progress stack before their successors are converted (`clipPath`, `mask`, `filter`, `pattern`,
  `marker`); a marked element that is already on the stack is cut (`None` / `Err`).
-/
namespace Resvg.Convert

structure RefGraph where
  succ : Nat → List Nat
  marked : Nat → Bool

/-- `enter_def`: `none` = cycle cut, `some st'` = state with `e` marked as being converted -/
def enterDef (st : List Nat) (e : Nat) : Option (List Nat) :=
  if e ∈ st then none else some (e :: st)

/-- sum of the results, `none` if any is `none` -/
def sumOpt (xs : List (Option Nat)) : Option Nat :=
  xs.foldl (fun acc x => match acc, x with
    | some a, some b => some (a + b)
    | _, _ => none) (some 0)

/-- number of element visits of converting `e` with in-progress stack `st`; `none` = out of fuel
    (what used to be the stack overflow) -/
def visit (g : RefGraph) : Nat → List Nat → Nat → Option Nat
  | 0, _, _ => none
  | fuel + 1, st, e =>
    if g.marked e then
      match enterDef st e with
      | none => some 1                       -- cycle: cut
      | some st' => (sumOpt ((g.succ e).map (fun c => visit g fuel st' c))).map (· + 1)
    else (sumOpt ((g.succ e).map (fun c => visit g fuel st c))).map (· + 1)

/-- the same traversal *without* the guard (the code before fix 1310f19) -/
def visitOld (g : RefGraph) : Nat → Nat → Option Nat
  | 0, _ => none
  | fuel + 1, e => (sumOpt ((g.succ e).map (fun c => visitOld g fuel c))).map (· + 1)

end Resvg.Convert
