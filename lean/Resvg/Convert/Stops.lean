/-
  crates/usvg/src/parser/paint_server.rs `convert_stops` (offset normalisation, after fix 023f15b),
  crates/usvg/src/parser/style.rs `conv_dasharray` and the miter-limit clamp of `resolve_stroke`.
  Written over `Flt α`: Float32 in the driver (bit-exact), Rat in the theorems.
-/
import Resvg.Num.Flt
namespace Resvg.Convert
open Resvg

section
variable {α : Type} [Flt α]

/-- `StopOffset::new_clamped` / `f32_bound(0, x, 1)` -/
def clamp01 (x : α) : α :=
  if Flt.lt (Flt.ofNat 1) x then Flt.ofNat 1 else if Flt.lt x (Flt.ofNat 0) then Flt.ofNat 0 else x

/-- first post-pass: of three consecutive (approximately) equal offsets the middle one is removed.
    `fuel` bounds the `while` loop (each iteration removes an element or advances `i`). -/
def dedupTriples : Nat → Nat → List α → List α
  | 0, _, l => l
  | fuel + 1, i, l =>
    if l.length < 3 then l
    else if i < l.length - 2 then
      match l[i]?, l[i + 1]?, l[i + 2]? with
      | some a, some b, some c =>
        if Flt.approxEq4 a b && Flt.approxEq4 b c then dedupTriples fuel i (l.eraseIdx (i + 1))
        else dedupTriples fuel (i + 1) l
      | _, _, _ => l
    else l

/-- second post-pass: a second zero becomes `0 + ε` -/
def zeroStep (l : List α) (i : Nat) : List α :=
  match l[i]?, l[i + 1]? with
  | some a, some b =>
    if Flt.approxEq4 a (Flt.ofNat 0) && Flt.approxEq4 b (Flt.ofNat 0)
    then l.set (i + 1) (clamp01 (Flt.add a Flt.eps)) else l
  | _, _ => l

def fixZeros (l : List α) : List α := (List.range (l.length - 1)).foldl zeroStep l

/-- third post-pass (after fix 023f15b), in the dataflow form of the loop: at iteration `i` the loop
    reads `stops[i-2]` (final, `p2`), `stops[i-1]` (`p1`) and `stops[i]` (head of `rest`).  If the
    next offset is smaller or approximately equal, `stops[i-1]` is lowered by ε — but not below
    `stops[i-2]` — and `stops[i]` becomes the old `stops[i-1]`. -/
def shiftRec (p2 : Option α) (p1 : α) : List α → List α
  | [] => [p1]
  | n :: rest =>
    if Flt.lt n p1 || Flt.approxEq4 p1 n then
      let lowered := Flt.sub p1 Flt.eps
      let lowered := match p2 with
        | some o0 => Flt.max lowered o0
        | none => lowered
      let lowered := clamp01 lowered
      lowered :: shiftRec (some lowered) (clamp01 p1) rest
    else p1 :: shiftRec (some p1) n rest

def shiftEqual : List α → List α
  | [] => []
  | a :: rest => shiftRec none a rest

/-- the whole offset pipeline on already parsed offsets -/
def normalizeOffsets (raw : List α) : List α :=
  let clamped := raw.map clamp01
  shiftEqual (fixZeros (dedupTriples (clamped.length + 1) 0 clamped))

/-- style.rs `conv_dasharray` on the converted list -/
def convDashArray (list : List α) (isNegative : α → Bool) : Option (List α) :=
  if list.any isNegative then none
  else if Flt.approxEq4 (list.foldl Flt.add (Flt.ofNat 0)) (Flt.ofNat 0) then none
    else if list.length % 2 != 0 then some (list ++ list)
    else some list

/-- `resolve_stroke`: `if miterlimit < 1.0 { 1.0 } else { miterlimit }` -/
def clampMiter (m : α) : α := if Flt.lt m (Flt.ofNat 1) then Flt.ofNat 1 else m

end
end Resvg.Convert
