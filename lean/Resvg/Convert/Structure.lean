/-
  Structural constructs and their expansions:
  * converter.rs `resolve_transform` (transform + transform-origin),
  * use_node.rs `convert` / `convert_svg`: the transform of the group generated for `use` / nested `svg`,
  * shapes.rs `resolve_rx_ry` and the clamping in `convert_rect`,
  * switch.rs `is_condition_passed` / first passing child.
  Geometry is written over `Flt α` (Float32 in the driver, Rat in the theorems).
-/
import Resvg.Geom.Transform
import Resvg.Generated.ConvElems
namespace Resvg.Convert
open Resvg Resvg.Geom

/-- `resolve_transform` with a `transform-origin` of (dx, dy):
    `Transform::default().pre_translate(dx, dy).pre_concat(transform).pre_translate(-dx, -dy)` -/
def resolveTransformOrigin {α : Type} [Flt α] (t : Transform α) (dx dy : α) : Transform α :=
  (((Transform.identity : Transform α).preTranslate dx dy).preConcat t).preTranslate (Flt.neg dx) (Flt.neg dy)

/-- use_node.rs: `orig_ts.pre_concat(Transform::default().pre_translate(x, y) [.pre_concat(viewbox_ts)])` -/
def useTransform {α : Type} [Flt α] (orig : Transform α) (x y : α) (vb : Option (Transform α)) : Transform α :=
  let newTs := (Transform.identity : Transform α).preTranslate x y
  let newTs := match vb with
    | some v => newTs.preConcat v
    | none => newTs
  orig.preConcat newTs

/-- shapes.rs `resolve_rx_ry`: `rx`, `ry` are the converted attribute values, `none` when the
    attribute is absent, unparsable or negative -/
def resolveRxRy {α : Type} [Flt α] (rx ry : Option α) : α × α :=
  match rx, ry with
  | none, none => (Flt.ofNat 0, Flt.ofNat 0)
  | some a, none => (a, a)
  | none, some b => (b, b)
  | some a, some b => (a, b)

/-- `convert_rect`: clamp to half of the size (after resolving) -/
def clampRadii {α : Type} [Flt α] (w h : α) (r : α × α) : α × α :=
  let hw := Flt.div w (Flt.ofNat 2)
  let hh := Flt.div h (Flt.ofNat 2)
  (if Flt.lt hw r.1 then hw else r.1, if Flt.lt hh r.2 then hh else r.2)

structure SwitchChild where
  isElement : Bool
  hasRequiredExtensions : Bool
  requiredFeatures : Option (List String)      -- value split at ' '
  systemLanguage : Option (List String)        -- value split at ',' and trimmed

/-- `is_valid_sys_lang` -/
def validSysLang (langs : Option (List String)) (userLangs : List String) : Bool :=
  match langs with
  | none => true
  | some ls =>
    ls.any (fun l =>
      userLangs.contains l ||
      (match l.splitOn "-" with
       | pre :: _ :: _ => userLangs.contains pre
       | _ => false))

/-- `is_condition_passed` -/
def conditionPassed (c : SwitchChild) (userLangs : List String) : Bool :=
  c.isElement && !c.hasRequiredExtensions &&
  (match c.requiredFeatures with
   | none => true
   | some fs => fs.all (fun f => Generated.supportedFeatures.contains f)) &&
  validSysLang c.systemLanguage userLangs

/-- `switch::convert`: index of the child that is converted -/
def switchChoice (cs : List SwitchChild) (userLangs : List String) : Option Nat :=
  cs.findIdx? (fun c => conditionPassed c userLangs)

end Resvg.Convert
