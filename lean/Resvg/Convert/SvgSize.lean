/-
  crates/usvg/src/parser/converter.rs `resolve_svg_size` and parser/units.rs `convert_length`
  (user-space case).  Every f32 operation is followed by `r` (binary32 rounding) and every f64
  operation by `r64`; with `r = r64 = id` the definitions read as the exact SVG rules, with
  `r = F32.rnd`, `r64 = F32.rnd64` they are bit-exact with the code.
-/
import Resvg.Num.F32
namespace Resvg.Convert
open Resvg

inductive LUnit
  | none | em | ex | px | inch | cm | mm | pt | pc | percent
deriving DecidableEq, Repr

/-- `svgtypes::Length { number: f64, unit }` -/
structure Length where
  number : Rat
  unit : LUnit
deriving DecidableEq, Repr

structure LenEnv where
  dpi : Rat
  fontSize : Rat

/-- units.rs `convert_length` with `Units::UserSpaceOnUse`; `base` is the view-box side that a
    percentage of this attribute refers to (`convert_percent(length, base)`). -/
def convertLength (r : Rat → Rat) (len : Length) (base : Rat) (env : LenEnv) : Rat :=
  let n := r len.number
  match len.unit with
  | .none | .px => n
  | .em => r (n * env.fontSize)
  | .ex => r (r (n * env.fontSize) / 2)
  | .inch => r (n * env.dpi)
  | .cm => r (r (n * env.dpi) / r (254 / 100))
  | .mm => r (r (n * env.dpi) / r (254 / 10))
  | .pt => r (r (n * env.dpi) / 72)
  | .pc => r (r (n * env.dpi) / 6)
  | .percent => r (r (base * n) / 100)

/-- `Size::from_wh`: both sides finite and > 0 -/
def sizeFromWh (w h : Rat) : Option (Rat × Rat) :=
  if 0 < w ∧ 0 < h ∧ w ≤ F32.maxFinite ∧ h ≤ F32.maxFinite then some (w, h) else none

structure SizeInput where
  width : Option Length       -- `None` when the attribute is absent or unparsable
  height : Option Length
  viewBox : Option (Rat × Rat × Rat × Rat)   -- parsed `viewBox` numbers x y w h (valid: w, h > 0)
  defW : Rat                  -- Options::default_size
  defH : Rat
  env : LenEnv

def pct100 : Length := ⟨100, .percent⟩

/-- svgtree `FromValue for Length` (after fix a254553): a length whose number does not fit into
    `f32` is an invalid attribute value, i.e. the attribute counts as absent -/
def fitsF32 (r : Rat → Rat) (l : Length) : Bool :=
  decide (r l.number ≤ F32.maxFinite ∧ -F32.maxFinite ≤ r l.number)

/-- converter.rs `resolve_svg_size` → (size or InvalidSize, restore_viewbox) -/
def resolveSvgSizeCore (r r64 : Rat → Rat) (i : SizeInput) : Option (Rat × Rat) × Bool :=
  let w0 := i.width.getD pct100
  let h0 := i.height.getD pct100
  let restore : Bool := (w0.unit = .percent || h0.unit = .percent) && i.viewBox.isNone
  let w1 : Length := if restore && w0.unit = .percent then ⟨r64 (r64 (w0.number / 100) * i.defW), .none⟩ else w0
  let h1 : Length := if restore && h0.unit = .percent then ⟨r64 (r64 (h0.number / 100) * i.defH), .none⟩ else h0
  match i.viewBox with
  | some (vx, vy, vw0, vh0) =>
    -- NonZeroRect stores left/top/right/bottom: width() = (w + x) − x in f32
    let vw := r (r (vw0 + vx) - vx)
    let vh := r (r (vh0 + vy) - vy)
    let w := if w1.unit = .percent then r (vw * r (r w1.number / 100)) else convertLength r w0 vw i.env
    let h := if h1.unit = .percent then r (vh * r (r h1.number / 100)) else convertLength r h0 vh i.env
    (sizeFromWh w h, restore)
  | none =>
    -- state.view_box is the 100×100 placeholder; after the substitution above no percentage is left
    (sizeFromWh (convertLength r w1 100 i.env) (convertLength r h1 100 i.env), restore)

/-- `resolve_svg_size` as the converter sees it: `width` / `height` go through `FromValue for Length` -/
def resolveSvgSize (r r64 : Rat → Rat) (i : SizeInput) : Option (Rat × Rat) × Bool :=
  resolveSvgSizeCore r r64 { i with width := i.width.filter (fitsF32 r), height := i.height.filter (fitsF32 r) }

end Resvg.Convert

namespace Resvg.Convert
/-- units.rs `resolve_font_size`: one ancestor's `font-size` length applied to the inherited size.
    (It is a second copy of the unit table of `convert_length`, with its own em / ex / % rules.) -/
def fontSizeStep (r : Rat → Rat) (dpi : Rat) (fs : Rat) (len : Length) : Rat :=
  let n := r len.number
  match len.unit with
  | .none | .px => n
  | .em => r (n * fs)
  | .ex => r (r (n * fs) / 2)
  | .inch => r (n * dpi)
  | .cm => r (r (n * dpi) / r (254 / 100))
  | .mm => r (r (n * dpi) / r (254 / 10))
  | .pt => r (r (n * dpi) / 72)
  | .pc => r (r (n * dpi) / 6)
  | .percent => r (r (n * fs) * r (1 / 100))

/-- the loop over the ancestors (root first) that carry a `font-size` length -/
def resolveFontSize (r : Rat → Rat) (dpi default : Rat) (chain : List Length) : Rat :=
  chain.foldl (fontSizeStep r dpi) default
end Resvg.Convert
