/-
  use_node.rs — the viewport a `use` of a `symbol` establishes.

  `convert` (symbol branch): the clip rectangle comes from `get_clip_rect(node, child, state)` and the
  view-box transform from `viewbox_transform(node, child, state)`, both evaluated in the state of the
  `use` element itself (after fix 6b5fe27); `use_state.view_box`, the viewport that percentages INSIDE
  the symbol refer to, is the size given by the `use`.
  Before 6b5fe27 the two functions received `use_state`, so a percentage on the `use` was resolved
  against a viewport that had already been replaced by that same percentage.
-/
import Resvg.Convert.SvgSize
namespace Resvg.Convert

/-- `IsValidLength::is_valid_length`: finite and greater than zero -/
def validLen (x : Rat) : Bool := decide (0 < x ∧ x ≤ F32.maxFinite)

/-- `use_node_size(node, state)`: absent attributes mean 100 % of the viewport `vw × vh` of `state` -/
def useNodeSize (r : Rat → Rat) (w h : Option Length) (vw vh : Rat) (env : LenEnv) : Rat × Rat :=
  (convertLength r (w.getD pct100) vw env, convertLength r (h.getD pct100) vh env)

/-- `use_state.view_box` (x = y = 0): a side given on the `use` replaces that side of the viewport;
    `NonZeroRect::from_xywh(..).unwrap_or(use_state.view_box)` keeps the old viewport when the result is not a rectangle -/
def useSymbolViewport (r : Rat → Rat) (w h : Option Length) (vw vh : Rat) (env : LenEnv) : Rat × Rat :=
  let W := match w with | some l => convertLength r l vw env | none => vw
  let H := match h with | some l => convertLength r l vh env | none => vh
  if validLen W && validLen H then (W, H) else (vw, vh)

/-- `get_clip_rect(node, child, state)` for a `use` (x = y = 0) of a `symbol` with `overflow: hidden` -/
def useSymbolClip (r : Rat → Rat) (w h : Option Length) (vw vh : Rat) (env : LenEnv) : Option (Rat × Rat) :=
  let s := useNodeSize r w h vw vh env
  if validLen s.1 && validLen s.2 then some s else none

/-- the same before 6b5fe27: resolved in `use_state`, whose viewport is already the one the `use` establishes -/
def useSymbolClipOld (r : Rat → Rat) (w h : Option Length) (vw vh : Rat) (env : LenEnv) : Option (Rat × Rat) :=
  let v := useSymbolViewport r w h vw vh env
  let s := useNodeSize r w h v.1 v.2 env
  if validLen s.1 && validLen s.2 then some s else none

/-- a length of an element inside the symbol, measured along a side of the established viewport -/
def symbolChildLen (r : Rat → Rat) (l : Length) (side : Rat) (env : LenEnv) : Rat :=
  convertLength r l side env

end Resvg.Convert
