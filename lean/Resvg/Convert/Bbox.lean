/-
  How definitions given in objectBoundingBox units are rewritten into user space:
    tiny-skia-path `Transform::from_bbox`, `NonZeroRect::bbox_transform` (usvg `parser::bbox_transform`),
    paint_server.rs `Paint::to_user_coordinates` (gradient transform, pattern rectangle, pattern content),
    clippath.rs / mask.rs (`transform.pre_concat(from_bbox)`).
-/
import Resvg.Geom.Transform
import Resvg.Geom.Rect
namespace Resvg.Convert
open Resvg Resvg.Geom

variable {α : Type} [Flt α]

/-- `Transform::from_bbox` -/
def fromBbox (b : LTRB α) : Transform α :=
  ⟨b.width, Transform.zero, Transform.zero, b.height, b.x, b.y⟩

/-- gradient in objectBoundingBox units: `lg.transform.post_concat(Transform::from_bbox(bbox))` -/
def gradientToUser (t : Transform α) (b : LTRB α) : Transform α := t.postConcat (fromBbox b)

/-- clip path (and mask content) in objectBoundingBox units: `transform.pre_concat(from_bbox)` -/
def clipToUser (t : Transform α) (b : LTRB α) : Transform α := t.preConcat (fromBbox b)

/-- `bbox_transform`: a rectangle given in bounding-box fractions, as x y w h -/
def rectToUser (x y w h : α) (b : LTRB α) : α × α × α × α :=
  (Flt.add (Flt.mul x b.width) b.x, Flt.add (Flt.mul y b.height) b.y, Flt.mul w b.width, Flt.mul h b.height)

/-- pattern content in objectBoundingBox units (no viewBox): scaled, not shifted -/
def patternContentToUser (b : LTRB α) : Transform α := Transform.fromScale b.width b.height

end Resvg.Convert
