/-
  crates/usvg/src/parser/filter.rs: `parse_in`, `resolve_input`, `gen_result` and the loop of
  `collect_children` as far as primitive inputs and result names are concerned.
-/
namespace Resvg.Convert

inductive Inp where
  | sourceGraphic
  | sourceAlpha
  | ref (name : String)
  deriving DecidableEq, Repr

def parseIn (s : String) : Inp :=
  if s = "SourceGraphic" then .sourceGraphic
  else if s = "SourceAlpha" then .sourceAlpha
  else if s = "BackgroundImage" ∨ s = "BackgroundAlpha" ∨ s = "FillPaint" ∨ s = "StrokePaint" then .sourceGraphic
  else .ref s

/-- `prev`: results of the primitives converted so far, oldest first -/
def resolveInput (attr : Option String) (prev : List String) : Inp :=
  match attr with
  | some s =>
    match parseIn s with
    | .ref name =>
      if name ∈ prev then .ref name
      else match prev.getLast? with
        | some p => .ref p
        | none => .sourceGraphic
    | other => other
  | none =>
    match prev.getLast? with
    | some p => .ref p
    | none => .sourceGraphic

structure GenState where
  names : List String
  idx : Nat

/-- the `loop` of `gen_result`; it ends after at most `names.length + 1` rounds -/
def genLoop : Nat → GenState → String × GenState
  | 0, st => (s!"result{st.idx}", { st with idx := st.idx + 1 })
  | fuel + 1, st =>
    let name := s!"result{st.idx}"
    let st' := { st with idx := st.idx + 1 }
    if name ∈ st.names then genLoop fuel st' else (name, st')

def genResult (attr : Option String) (st : GenState) : String × GenState :=
  match attr with
  | some s => (s, { names := if s ∈ st.names then st.names else s :: st.names, idx := st.idx + 1 })
  | none => genLoop (st.names.length + 1) st

/-- one primitive as far as this model is concerned: its `in` attributes in the order the
    converter resolves them, and its `result` attribute -/
abbrev PrimIn := List (Option String) × Option String

def convertFrom (prev : List String) (st : GenState) : List PrimIn → List (List Inp × String)
  | [] => []
  | (ins, res) :: rest =>
    let inputs := ins.map (fun a => resolveInput a prev)
    let (r, st') := genResult res st
    (inputs, r) :: convertFrom (prev ++ [r]) st' rest

def convertFilter (prims : List PrimIn) : List (List Inp × String) :=
  convertFrom [] { names := [], idx := 1 } prims

end Resvg.Convert
