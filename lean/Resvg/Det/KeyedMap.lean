/-
  A hash container as the code uses it: only through key-based operations.  The concrete order of
  the entries (what a per-process random hash seed changes) is an arbitrary list order here.
-/
namespace Resvg.Det

abbrev Store := List (String × Nat)

/-- `get` / `contains_key` / `contains`: the entry with that key -/
def sget (k : String) : Store → Option Nat
  | [] => none
  | (k', v) :: rest => if k' = k then some v else sget k rest

/-- `insert`: replaces the entry with that key (wherever it sits), the new entry goes anywhere -
    here: to the front -/
def sinsert (k : String) (v : Nat) (m : Store) : Store := (k, v) :: m.filter (fun e => e.1 != k)

inductive Op where
  | get (k : String)
  | insert (k : String) (v : Nat)
  | clear

/-- a program over the container: the sequence of values its reads return -/
def run : List Op → Store → List (Option Nat)
  | [], _ => []
  | .get k :: ops, m => sget k m :: run ops m
  | .insert k v :: ops, m => run ops (sinsert k v m)
  | .clear :: ops, _ => run ops []

def keys (m : Store) : List String := m.map Prod.fst

end Resvg.Det
