/-
  crates/usvg/src/tree/geom.rs `BBox` (expand / default), tiny-skia-path `Rect::transform`
  (bounds of the four mapped corners) and the bounding-box bookkeeping of
  `Group::calculate_bounding_boxes` (tree/mod.rs).  Over `Flt α`: Float32 in the driver, Rat in theorems.
-/
import Resvg.Geom.Transform
import Resvg.Geom.Rect
namespace Resvg.Geom
open Resvg

variable {α : Type} [Flt α]

/-- `BBox::expand`: component-wise min / max -/
def LTRB.expand (a b : LTRB α) : LTRB α :=
  ⟨Flt.min a.l b.l, Flt.min a.t b.t, Flt.max a.r b.r, Flt.max a.b b.b⟩

/-- `BBox::default()` with the sentinel `m = f32::MAX` -/
def LTRB.sentinel (m : α) : LTRB α := ⟨m, m, Flt.neg m, Flt.neg m⟩

/-- `Rect::transform`: identity is the rectangle itself, otherwise the bounds of the transformed
    corner path `(l,t) (r,t) (r,b) (l,b)` -/
def LTRB.transform (r : LTRB α) (ts : Transform α) : LTRB α :=
  if ts.isIdentity then r
  else
    let p1 := ts.mapPoint (r.l, r.t)
    let p2 := ts.mapPoint (r.r, r.t)
    let p3 := ts.mapPoint (r.r, r.b)
    let p4 := ts.mapPoint (r.l, r.b)
    ⟨Flt.min (Flt.min (Flt.min p1.1 p2.1) p3.1) p4.1,
     Flt.min (Flt.min (Flt.min p1.2 p2.2) p3.2) p4.2,
     Flt.max (Flt.max (Flt.max p1.1 p2.1) p3.1) p4.1,
     Flt.max (Flt.max (Flt.max p1.2 p2.2) p3.2) p4.2⟩

/-- one child as `calculate_bounding_boxes` sees it: its box, and its own transform when it is a group -/
structure ChildBox (α : Type) where
  box : LTRB α
  groupTs : Option (Transform α)
  /-- `false` for a group with nothing in it (no shape at any depth, no filter): its boxes are placeholders at
      the origin and take no part in the parent's boxes (fix 2b03884) -/
  hasBox : Bool := true

/-- the box a child contributes to its parent: a group's box is mapped by the group's transform -/
def ChildBox.contrib (c : ChildBox α) : LTRB α :=
  match c.groupTs with
  | some ts => c.box.transform ts
  | none => c.box

/-- the object bounding box of a group: children contributions accumulated from the sentinel -/
def groupBox (m : α) (children : List (ChildBox α)) : LTRB α :=
  children.foldl (fun acc c => if c.hasBox then acc.expand c.contrib else acc) (LTRB.sentinel m)

/-- the absolute transform of a node: the ancestors' transforms (outermost first) concatenated
    with `pre_concat`, starting from the root transform -/
def absTransform (root : Transform α) (chain : List (Transform α)) : Transform α :=
  chain.foldl Transform.preConcat root

end Resvg.Geom
