/-
  crates/usvg/src/tree/geom.rs: `ViewBox::to_transform`, `aligned_pos` — written once over `Flt α`.
-/
import Resvg.Num.Flt
import Resvg.Geom.Rect
namespace Resvg.Geom
open Resvg

inductive Align
  | none | xMinYMin | xMidYMin | xMaxYMin | xMinYMid | xMidYMid | xMaxYMid | xMinYMax | xMidYMax | xMaxYMax
deriving DecidableEq, Repr

/-- `aligned_pos(align, x, y, w, h)` -/
def alignedPos {α : Type} [Flt α] (align : Align) (x y w h : α) : α × α :=
  let two : α := Flt.ofNat 2
  match align with
  | .none => (x, y)
  | .xMinYMin => (x, y)
  | .xMidYMin => (Flt.add x (Flt.div w two), y)
  | .xMaxYMin => (Flt.add x w, y)
  | .xMinYMid => (x, Flt.add y (Flt.div h two))
  | .xMidYMid => (Flt.add x (Flt.div w two), Flt.add y (Flt.div h two))
  | .xMaxYMid => (Flt.add x w, Flt.add y (Flt.div h two))
  | .xMinYMax => (x, Flt.add y h)
  | .xMidYMax => (Flt.add x (Flt.div w two), Flt.add y h)
  | .xMaxYMax => (Flt.add x w, Flt.add y h)

/-- result of `ViewBox::to_transform`: `Transform::from_row(sx, 0, 0, sy, tx, ty)` -/
structure ScaleTranslate (α : Type) where
  sx : α
  sy : α
  tx : α
  ty : α

/-- `ViewBox { rect = (vx, vy, vw, vh), aspect = (align, slice) }.to_transform(Size(W, H))` -/
def viewBoxToTransform {α : Type} [Flt α] (align : Align) (slice : Bool) (vx vy vw vh W H : α) :
    ScaleTranslate α :=
  let sx := Flt.div W vw
  let sy := Flt.div H vh
  let s : α × α :=
    if align = Align.none then (sx, sy)
    else
      let s := if slice then (if Flt.lt sx sy then sy else sx) else (if Flt.lt sy sx then sy else sx)
      (s, s)
  let x := Flt.mul (Flt.neg vx) s.1
  let y := Flt.mul (Flt.neg vy) s.2
  let w := Flt.sub W (Flt.mul vw s.1)
  let h := Flt.sub H (Flt.mul vh s.2)
  let t := alignedPos align x y w h
  { sx := s.1, sy := s.2, tx := t.1, ty := t.2 }

/-- `ViewBox { rect, aspect }.to_transform(size)` with the rect as tiny-skia stores it -/
def viewBoxRectToTransform {α : Type} [Flt α] (align : Align) (slice : Bool) (rect : LTRB α) (W H : α) :
    ScaleTranslate α :=
  viewBoxToTransform align slice rect.x rect.y rect.width rect.height W H

/-! ### the image route (crates/usvg/src/parser/image.rs `convert_inner`, `fit_view_box`)

An `image` element is not mapped with `ViewBox::to_transform`: the fitted size is computed first
(`fit_view_box`), placed with `aligned_pos` inside the element rect, stored as a `NonZeroRect`
(left/top/right/bottom) and turned into a scale-and-translate from its width and height. -/

/-- `Size::from_wh`: both sides positive (and finite) -/
def validSize {α : Type} [Flt α] (w h : α) : Bool :=
  Flt.lt (Flt.ofNat 0) w && Flt.lt (Flt.ofNat 0) h

/-- `fit_view_box(size = (aw, ah), rect.size() = (rw, rh), aspect)` -/
def fitViewBox {α : Type} [Flt α] (align : Align) (slice : Bool) (aw ah rw rh : α) : Option (α × α) :=
  if align = Align.none then some (rw, rh)
  else
    let w' := Flt.div (Flt.mul rh aw) ah
    let withH := if slice then Flt.le w' rw else Flt.le rw w'
    if !withH then (if validSize w' rh then some (w', rh) else none)
    else
      let h' := Flt.div (Flt.mul rw ah) aw
      if validSize rw h' then some (rw, h') else none

/-- the image group's transform `image_ts`, for the element rect `rect` and the image size `aw x ah` -/
def imageTransform {α : Type} [Flt α] (align : Align) (slice : Bool) (rect : LTRB α) (aw ah : α) :
    Option (ScaleTranslate α) :=
  match fitViewBox align slice aw ah rect.width rect.height with
  | none => none
  | some (fw, fh) =>
    let p := alignedPos align rect.x rect.y (Flt.sub rect.width fw) (Flt.sub rect.height fh)
    let vb : LTRB α := LTRB.fromXywh p.1 p.2 fw fh
    if vb.isNonZero then
      some { sx := Flt.div vb.width aw, sy := Flt.div vb.height ah, tx := vb.x, ty := vb.y }
    else none

end Resvg.Geom
