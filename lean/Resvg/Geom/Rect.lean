/-
  tiny-skia-path 0.11.4 `Rect` / `NonZeroRect` (src/rect.rs): stored as left/top/right/bottom, so
  `from_xywh(x, y, w, h)` keeps `w + x` and `width()` returns `right − left` (in f32 this is not `w`).
-/
import Resvg.Num.Flt
namespace Resvg.Geom
open Resvg

structure LTRB (α : Type) where
  l : α
  t : α
  r : α
  b : α
deriving Repr

namespace LTRB
variable {α : Type} [Flt α]
/-- `from_xywh(x, y, w, h) = from_ltrb(x, y, w + x, h + y)` (validity checked separately) -/
def fromXywh (x y w h : α) : LTRB α := ⟨x, y, Flt.add w x, Flt.add h y⟩
def x (r : LTRB α) : α := r.l
def y (r : LTRB α) : α := r.t
def width (r : LTRB α) : α := Flt.sub r.r r.l
def height (r : LTRB α) : α := Flt.sub r.b r.t
/-- `NonZeroRect::from_ltrb`'s ordering test (finiteness is the caller's concern) -/
def isNonZero (r : LTRB α) : Bool := Flt.lt r.l r.r && Flt.lt r.t r.b
/-- `Rect::from_ltrb`'s ordering test -/
def isRect (r : LTRB α) : Bool := Flt.le r.l r.r && Flt.le r.t r.b
end LTRB

end Resvg.Geom
