/-
  tiny-skia-path 0.11.4 `Transform` (src/transform.rs), written over `Flt α`:
  `concat` with its identity / scale-translate / general branches, pre/post concat, translate,
  scale, `map_point`, `is_identity`, `has_skew` …
-/
import Resvg.Num.Flt
namespace Resvg.Geom
open Resvg

structure Transform (α : Type) where
  sx : α
  ky : α
  kx : α
  sy : α
  tx : α
  ty : α
deriving Repr

namespace Transform
variable {α : Type} [Flt α]

def zero : α := Flt.ofNat 0
def one : α := Flt.ofNat 1

def identity : Transform α := ⟨one, zero, zero, one, zero, zero⟩
def fromRow (sx ky kx sy tx ty : α) : Transform α := ⟨sx, ky, kx, sy, tx, ty⟩
def fromTranslate (tx ty : α) : Transform α := ⟨one, zero, zero, one, tx, ty⟩
def fromScale (sx sy : α) : Transform α := ⟨sx, zero, zero, sy, zero, zero⟩

/-- `*self == Transform::default()` (IEEE `==` on all six fields) -/
def isIdentity (t : Transform α) : Bool :=
  Flt.beq t.sx one && Flt.beq t.kx zero && Flt.beq t.ky zero && Flt.beq t.sy one
    && Flt.beq t.tx zero && Flt.beq t.ty zero

def hasScale (t : Transform α) : Bool := !(Flt.beq t.sx one) || !(Flt.beq t.sy one)
def hasSkew (t : Transform α) : Bool := !(Flt.beq t.kx zero) || !(Flt.beq t.ky zero)
def hasTranslate (t : Transform α) : Bool := !(Flt.beq t.tx zero) || !(Flt.beq t.ty zero)
def isTranslate (t : Transform α) : Bool := !t.hasScale && !t.hasSkew && t.hasTranslate
def isScaleTranslate (t : Transform α) : Bool := (t.hasScale || t.hasTranslate) && !t.hasSkew

/-- `fn concat(a, b)` -/
def concat (a b : Transform α) : Transform α :=
  if a.isIdentity then b
  else if b.isIdentity then a
  else if !a.hasSkew && !b.hasSkew then
    fromRow (Flt.mul a.sx b.sx) zero zero (Flt.mul a.sy b.sy)
      (Flt.add (Flt.mul a.sx b.tx) a.tx) (Flt.add (Flt.mul a.sy b.ty) a.ty)
  else
    fromRow (Flt.mulAddMul a.sx b.sx a.kx b.ky) (Flt.mulAddMul a.ky b.sx a.sy b.ky)
      (Flt.mulAddMul a.sx b.kx a.kx b.sy) (Flt.mulAddMul a.ky b.kx a.sy b.sy)
      (Flt.add (Flt.mulAddMul a.sx b.tx a.kx b.ty) a.tx)
      (Flt.add (Flt.mulAddMul a.ky b.tx a.sy b.ty) a.ty)

def preConcat (self other : Transform α) : Transform α := concat self other
def postConcat (self other : Transform α) : Transform α := concat other self
def preTranslate (self : Transform α) (tx ty : α) : Transform α := self.preConcat (fromTranslate tx ty)
def postTranslate (self : Transform α) (tx ty : α) : Transform α := self.postConcat (fromTranslate tx ty)
def preScale (self : Transform α) (sx sy : α) : Transform α := self.preConcat (fromScale sx sy)
def postScale (self : Transform α) (sx sy : α) : Transform α := self.postConcat (fromScale sx sy)

/-- `map_point` -/
def mapPoint (t : Transform α) (p : α × α) : α × α :=
  if t.isIdentity then p
  else if t.isTranslate then (Flt.add p.1 t.tx, Flt.add p.2 t.ty)
  else if t.isScaleTranslate then (Flt.add (Flt.mul p.1 t.sx) t.tx, Flt.add (Flt.mul p.2 t.sy) t.ty)
  else (Flt.add (Flt.add (Flt.mul p.1 t.sx) (Flt.mul p.2 t.kx)) t.tx,
        Flt.add (Flt.add (Flt.mul p.1 t.ky) (Flt.mul p.2 t.sy)) t.ty)

end Transform
end Resvg.Geom
