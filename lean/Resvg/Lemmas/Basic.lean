/- Small helper lemmas shared by property files. -/
import Mathlib.Algebra.Order.Floor.Ring
import Mathlib.Data.Rat.Floor
import Mathlib.Tactic.Linarith
import Resvg.Num.FastRnd

namespace Resvg.Lemmas

theorem all_range {n : Nat} {p : Nat → Bool} (h : (List.range n).all p = true) :
    ∀ i, i < n → p i = true := by
  intro i hi
  exact List.all_eq_true.mp h i (List.mem_range.mpr hi)

theorem rat_floor_eq (q : Rat) : q.floor = ⌊q⌋ := rfl

theorem rat_floor_mono {a b : Rat} (h : a ≤ b) : a.floor ≤ b.floor := by
  rw [rat_floor_eq, rat_floor_eq]; exact Int.floor_le_floor h

theorem floor_255 : (255 : Rat).floor = 255 := by decide

theorem getD_mem_or_default {α : Type} (l : List α) (i : Nat) (d : α) : l.getD i d ∈ l ∨ l.getD i d = d := by
  induction l generalizing i with
  | nil => right; rfl
  | cons x xs ih =>
    cases i with
    | zero => left; simp
    | succ j =>
      rcases ih j with h | h
      · left; simpa using Or.inr h
      · right; simpa using h

@[simp] theorem strict_eq {α : Type} (x : Nat) (f : Nat → α) : Resvg.FastRnd.strict x f = f x := by
  cases x <;> rfl

/-- a bound that holds for every continuation result holds for `FastRnd.rnd` -/
theorem fastRnd_bound {P : Nat → Prop} (n d : Nat) (k : Nat → Nat → Nat)
    (h : ∀ a b, P (k a b)) : P (Resvg.FastRnd.rnd n d k) := by
  unfold Resvg.FastRnd.rnd
  split
  · exact h _ _
  · simp only [strict_eq]; split <;> exact h _ _

end Resvg.Lemmas
