/- tiny-skia `Transform` over `Rat`: the branchy `concat` / `map_point` equal the plain affine formulas. -/
import Mathlib.Tactic.Ring
import Mathlib.Tactic.Linarith
import Resvg.Geom.Transform

namespace Resvg.Lemmas
open Resvg Resvg.Geom Resvg.Geom.Transform

/-- the plain affine action -/
def act (t : Transform Rat) (p : Rat × Rat) : Rat × Rat :=
  (p.1 * t.sx + p.2 * t.kx + t.tx, p.1 * t.ky + p.2 * t.sy + t.ty)

/-- the plain matrix product `a ∘ b` (apply `b` first) -/
def mulT (a b : Transform Rat) : Transform Rat :=
  { sx := a.sx * b.sx + a.kx * b.ky, ky := a.ky * b.sx + a.sy * b.ky,
    kx := a.sx * b.kx + a.kx * b.sy, sy := a.ky * b.kx + a.sy * b.sy,
    tx := a.sx * b.tx + a.kx * b.ty + a.tx, ty := a.ky * b.tx + a.sy * b.ty + a.ty }

theorem isIdentity_iff (t : Transform Rat) :
    t.isIdentity = true ↔ t.sx = 1 ∧ t.kx = 0 ∧ t.ky = 0 ∧ t.sy = 1 ∧ t.tx = 0 ∧ t.ty = 0 := by
  simp [isIdentity, zero, one, and_assoc]

theorem hasSkew_false_iff (t : Transform Rat) : t.hasSkew = false ↔ t.kx = 0 ∧ t.ky = 0 := by
  simp [hasSkew, zero]

theorem hasScale_false_iff (t : Transform Rat) : t.hasScale = false ↔ t.sx = 1 ∧ t.sy = 1 := by
  simp [hasScale, one]

theorem ext_iff' (a b : Transform Rat) :
    a = b ↔ a.sx = b.sx ∧ a.ky = b.ky ∧ a.kx = b.kx ∧ a.sy = b.sy ∧ a.tx = b.tx ∧ a.ty = b.ty := by
  constructor
  · intro h; subst h; simp
  · intro h; cases a; cases b; simp_all

/-- `concat` (with its three special cases) is the matrix product. -/
theorem concat_eq (a b : Transform Rat) : concat a b = mulT a b := by
  unfold concat
  split_ifs with h1 h2 h3
  · obtain ⟨e1, e2, e3, e4, e5, e6⟩ := (isIdentity_iff a).mp h1
    rw [ext_iff']; simp [mulT, e1, e2, e3, e4, e5, e6]
  · obtain ⟨e1, e2, e3, e4, e5, e6⟩ := (isIdentity_iff b).mp h2
    rw [ext_iff']; simp [mulT, e1, e2, e3, e4, e5, e6]
  · simp only [Bool.and_eq_true, Bool.not_eq_true'] at h3
    obtain ⟨a1, a2⟩ := (hasSkew_false_iff a).mp h3.1
    obtain ⟨b1, b2⟩ := (hasSkew_false_iff b).mp h3.2
    rw [ext_iff']; simp [mulT, fromRow, zero, a1, a2, b1, b2]
  · rw [ext_iff']; simp [mulT, fromRow]

/-- `map_point` (with its three special cases) is the affine action. -/
theorem mapPoint_eq (t : Transform Rat) (p : Rat × Rat) : mapPoint t p = act t p := by
  unfold mapPoint
  split_ifs with h1 h2 h3
  · obtain ⟨e1, e2, e3, e4, e5, e6⟩ := (isIdentity_iff t).mp h1
    simp [act, e1, e2, e3, e4, e5, e6]
  · simp only [isTranslate, Bool.and_eq_true, Bool.not_eq_true'] at h2
    obtain ⟨s1, s2⟩ := (hasScale_false_iff t).mp h2.1.1
    obtain ⟨k1, k2⟩ := (hasSkew_false_iff t).mp h2.1.2
    simp [act, s1, s2, k1, k2]
  · simp only [isScaleTranslate, Bool.and_eq_true, Bool.not_eq_true'] at h3
    obtain ⟨k1, k2⟩ := (hasSkew_false_iff t).mp h3.2
    simp [act, k1, k2]
  · simp [act]

theorem act_mulT (a b : Transform Rat) (p : Rat × Rat) : act (mulT a b) p = act a (act b p) := by
  simp only [act, mulT]; refine Prod.ext ?_ ?_ <;> simp only <;> ring

theorem mulT_assoc (a b c : Transform Rat) : mulT (mulT a b) c = mulT a (mulT b c) := by
  rw [ext_iff']; simp only [mulT]; refine ⟨?_, ?_, ?_, ?_, ?_, ?_⟩ <;> ring

end Resvg.Lemmas
