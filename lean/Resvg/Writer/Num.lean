/-
  crates/usvg/src/writer.rs `write_num` (after fix 2050d21): the VALUE denoted by the text it writes.
  Rust prints a float as the shortest decimal that parses back to the same float, so the text of
  `write!(buf, "{}", v)` denotes exactly `v`; that is the one assumption about `Display` made here,
  and the correspondence check tests it on every request (the harness parses the written token).
-/
import Resvg.Num.F32
namespace Resvg.Writer
open Resvg

/-- `f32::round`: to the nearest integer, halves away from zero -/
def roundHalfAway (q : Rat) : Int :=
  if 0 ≤ q then (q + 1 / 2).floor else -((-q + 1 / 2).floor)

/-- `num as i32`: truncation (the argument is integer-valued here), saturating at the i32 range -/
def asI32 (q : Rat) : Int :=
  let t : Int := if 0 ≤ q then q.floor else -((-q).floor)
  if t > 2147483647 then 2147483647 else if t < -2147483648 then -2147483648 else t

/-- `num.fract().approx_zero_ulps(4)`: no fractional part, or |num| within 4 ulps of zero -/
def intLike (num : Rat) : Bool :=
  let t : Int := if 0 ≤ num then num.floor else -((-num).floor)
  decide (num - t = 0) || decide (num ≤ 4 * F32.pow2 (-149) ∧ -(4 * F32.pow2 (-149)) ≤ num)

/-- the powers of ten table `POW_VEC` (f32 literals: 1e11 and 1e12 are not exact in f32) -/
def powVec (r : Rat → Rat) (precision : Nat) : Rat := r ((10 : Rat) ^ (min precision 12))

/-- the value of the written token -/
def writeNumValue (r : Rat → Rat) (precision : Nat) (num : Rat) : Rat :=
  if intLike num then
    -- (fix d6c230e) `as i32` only inside its range; beyond it the float is printed as it is
    (if num < 2147483648 ∧ -2147483648 < num then (asI32 num : Rat) else num)
  else
    let pow := powVec r precision
    r ((roundHalfAway (r (num * pow)) : Rat) / pow)

/-- `write_num` before fix d6c230e: every number without a fractional part went through `as i32` -/
def writeNumValueOld (r : Rat → Rat) (precision : Nat) (num : Rat) : Rat :=
  if intLike num then (asI32 num : Rat)
  else
    let pow := powVec r precision
    r ((roundHalfAway (r (num * pow)) : Rat) / pow)

/-- the rounding step on its own, for an arbitrary positive scale `P` -/
def roundAt (r : Rat → Rat) (P : Rat) (num : Rat) : Rat :=
  r ((roundHalfAway (r (num * P)) : Rat) / P)

end Resvg.Writer
