/-
  crates/usvg/src/writer.rs `write_color` (written raw, without escaping) and the `#rrggbb` / `#rgb`
  forms of svgtypes `Color::from_str` that read it back.
-/
namespace Resvg.Writer

/-- `CHARS` of `write_color` -/
def hexChars : List Char := ['0', '1', '2', '3', '4', '5', '6', '7', '8', '9', 'a', 'b', 'c', 'd', 'e', 'f']

/-- `CHARS[i]` -/
def hexDigit (i : Nat) : Char := hexChars.getD i '?'

/-- `int2hex(n: u8)`: `(CHARS[n >> 4], CHARS[n & 0xf])` -/
def int2hex (n : Nat) : List Char := [hexDigit (n / 16 % 16), hexDigit (n % 16)]

/-- the attribute value `write_color` writes -/
def writeColor (r g b : Nat) : List Char := '#' :: (int2hex r ++ int2hex g ++ int2hex b)

/-- value of one hexadecimal digit (either case) -/
def hexVal (c : Char) : Option Nat :=
  if '0' ≤ c ∧ c ≤ '9' then some (c.toNat - '0'.toNat)
  else if 'a' ≤ c ∧ c ≤ 'f' then some (c.toNat - 'a'.toNat + 10)
  else if 'A' ≤ c ∧ c ≤ 'F' then some (c.toNat - 'A'.toNat + 10)
  else none

/-- svgtypes `Color::from_str` on a token that starts with `#`: six digits, or three (each doubled) -/
def parseHexColor : List Char → Option (Nat × Nat × Nat)
  | ['#', a, b, c, d, e, f] =>
    match hexVal a, hexVal b, hexVal c, hexVal d, hexVal e, hexVal f with
    | some a, some b, some c, some d, some e, some f => some (16 * a + b, 16 * c + d, 16 * e + f)
    | _, _, _, _, _, _ => none
  | ['#', a, b, c] =>
    match hexVal a, hexVal b, hexVal c with
    | some a, some b, some c => some (17 * a, 17 * b, 17 * c)
    | _, _, _ => none
  | _ => none

end Resvg.Writer
