/-
  How a string (element id, id prefix, filter result name, font family, …) ends up inside an
  attribute value of the written SVG:
    crates/usvg/src/writer.rs `escape_attr` (after fix 6b2adfa): `&` → `&amp;`, `<` → `&lt;`
    xmlwriter `escape_attribute_value`: the quote character in use → `&quot;` / `&apos;`
  and what an XML parser makes of it again.
-/
namespace Resvg.Writer

def amp : List Char := ['&', 'a', 'm', 'p', ';']
def lt : List Char := ['&', 'l', 't', ';']
def quot : List Char := ['&', 'q', 'u', 'o', 't', ';']
def apos : List Char := ['&', 'a', 'p', 'o', 's', ';']

/-- usvg `escape_attr` -/
def usvgEscape (s : List Char) : List Char :=
  s.flatMap fun c => if c = '&' then amp else if c = '<' then lt else [c]

/-- xmlwriter `escape_attribute_value` for the quote character `q` (`"` or `'`): every occurrence
    is spliced out for the entity; the scan resumes after the inserted text, which contains no quote -/
def xmlwriterEscape (q : Char) (s : List Char) : List Char :=
  s.flatMap fun c => if c = q then (if q = '\'' then apos else quot) else [c]

/-- the bytes between the quotes of a written attribute -/
def writeAttrValue (q : Char) (s : List Char) : List Char := xmlwriterEscape q (usvgEscape s)

/-- what the writer produced before fix 6b2adfa -/
def writeAttrValueOld (q : Char) (s : List Char) : List Char := xmlwriterEscape q s

/-- XML 1.0 `AttValue` body for quote `q`: no `<`, no `q`, and every `&` starts one of the
    predefined entity references -/
def wfAtt (q : Char) : List Char → Bool
  | [] => true
  | '&' :: 'a' :: 'm' :: 'p' :: ';' :: rest => wfAtt q rest
  | '&' :: 'l' :: 't' :: ';' :: rest => wfAtt q rest
  | '&' :: 'g' :: 't' :: ';' :: rest => wfAtt q rest
  | '&' :: 'q' :: 'u' :: 'o' :: 't' :: ';' :: rest => wfAtt q rest
  | '&' :: 'a' :: 'p' :: 'o' :: 's' :: ';' :: rest => wfAtt q rest
  | c :: rest => c != '&' && c != '<' && c != q && wfAtt q rest

/-- the value an XML parser reports for a well-formed attribute body -/
def decodeAtt : List Char → List Char
  | [] => []
  | '&' :: 'a' :: 'm' :: 'p' :: ';' :: rest => '&' :: decodeAtt rest
  | '&' :: 'l' :: 't' :: ';' :: rest => '<' :: decodeAtt rest
  | '&' :: 'g' :: 't' :: ';' :: rest => '>' :: decodeAtt rest
  | '&' :: 'q' :: 'u' :: 'o' :: 't' :: ';' :: rest => '"' :: decodeAtt rest
  | '&' :: 'a' :: 'p' :: 'o' :: 's' :: ';' :: rest => '\'' :: decodeAtt rest
  | c :: rest => c :: decodeAtt rest

/-! ### character data (text content, `preserve_text`) -/

/-- usvg `write_text` path: `text.replace('&', "&amp;")`, then xmlwriter `escape_text`: `<` → `&lt;` -/
def writeTextValue (s : List Char) : List Char :=
  (s.flatMap fun c => if c = '&' then amp else [c]).flatMap fun c => if c = '<' then lt else [c]

/-- XML character data: no `<`, every `&` starts a predefined entity reference -/
def wfText : List Char → Bool
  | [] => true
  | '&' :: 'a' :: 'm' :: 'p' :: ';' :: rest => wfText rest
  | '&' :: 'l' :: 't' :: ';' :: rest => wfText rest
  | '&' :: 'g' :: 't' :: ';' :: rest => wfText rest
  | '&' :: 'q' :: 'u' :: 'o' :: 't' :: ';' :: rest => wfText rest
  | '&' :: 'a' :: 'p' :: 'o' :: 's' :: ';' :: rest => wfText rest
  | c :: rest => c != '&' && c != '<' && wfText rest

end Resvg.Writer
