/-
  Kernel-friendly round-to-nearest-even onto the binary32 grid for non-negative fractions n/d
  (normal range; no subnormals, no overflow — the callers' domains are bounded 8-bit products).
  Written in continuation-passing style over `Nat` only, with `strict` forcing evaluation, so that
  `decide +kernel` over whole 8-bit domains is feasible.  `Driver` cross-checks it against the
  rational `F32.rnd` and both against the hardware `Float32`.
-/
namespace Resvg.FastRnd

/-- force kernel evaluation of a Nat before use -/
def strict {α : Type} (x : Nat) (f : Nat → α) : α :=
  match x with
  | 0 => f 0
  | k + 1 => f (k + 1)

/-- floor(log2 (n/d)) + 1000 for n, d > 0 -/
def lg (n d : Nat) : Nat :=
  strict n.log2 fun ln => strict d.log2 fun ld =>
  if ld ≤ ln then (if d * 2 ^ (ln - ld) ≤ n then 1000 + (ln - ld) else 1000 + (ln - ld) - 1)
  else (if d ≤ n * 2 ^ (ld - ln) then 1000 - (ld - ln) else 1000 - (ld - ln) - 1)

/-- round-half-even of n/d to a natural -/
def rhe (n d : Nat) : Nat :=
  strict (n / d) fun f => strict (2 * (n % d)) fun r2 =>
  if r2 < d then f else if r2 > d then f + 1 else if f % 2 = 0 then f else f + 1

/-- round n/d to binary32; the result fraction is handed to the continuation -/
def rnd {α : Type} (n d : Nat) (k : Nat → Nat → α) : α :=
  if n = 0 then k 0 1 else
  strict (lg n d) fun e =>
  if 1023 ≤ e then
    strict (2 ^ (e - 1023)) fun p => strict (rhe n (d * p)) fun m => strict (m * p) fun v => k v 1
  else
    strict (2 ^ (1023 - e)) fun p => strict (rhe (n * p) d) fun m => k m p

end Resvg.FastRnd
