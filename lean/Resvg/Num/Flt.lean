/-
  `Flt α`: the arithmetic interface the geometric models are written against.
  * instance `Float32` (hardware IEEE single of the Lean runtime) — used by the driver, so the
    executable model is compared bit for bit with Rust's `f32`;
  * instance `Rat` — exact arithmetic, used by the theorems.
  The two instances run the *same* definitions; what separates them is IEEE rounding only.
-/
namespace Resvg

class Flt (α : Type) where
  add : α → α → α
  sub : α → α → α
  mul : α → α → α
  div : α → α → α
  neg : α → α
  lt : α → α → Bool
  le : α → α → Bool
  beq : α → α → Bool
  ofNat : Nat → α
  /-- `(a as f64 * b as f64 + c as f64 * d as f64) as f32` (tiny-skia `mul_add_mul`) -/
  mulAddMul : α → α → α → α → α
  min : α → α → α
  max : α → α → α
  /-- `a.approx_eq_ulps(&b, 4)` (float-cmp): equal, or same sign and at most 4 representable values apart -/
  approxEq4 : α → α → Bool
  /-- `f32::EPSILON` = 2⁻²³ -/
  eps : α

namespace Flt
instance instFloat32 : Flt Float32 where
  add a b := a + b
  sub a b := a - b
  mul a b := a * b
  div a b := a / b
  neg a := -a
  lt a b := decide (a < b)
  le a b := decide (a ≤ b)
  beq a b := a == b
  ofNat n := Float32.ofNat n
  mulAddMul a b c d := (a.toFloat * b.toFloat + c.toFloat * d.toFloat).toFloat32
  -- Rust f32::min / f32::max (NaN-ignoring); inputs here are never NaN
  min a b := if b < a then b else a
  max a b := if a < b then b else a
  approxEq4 a b :=
    if a == b then true
    else if (a < 0) != (b < 0) then false
    else
      let x := a.toBits.toNat
      let y := b.toBits.toNat
      (if x ≤ y then y - x else x - y) ≤ 4
  eps := Float32.ofBits 0x34000000

instance instRat : Flt Rat where
  add a b := a + b
  sub a b := a - b
  mul a b := a * b
  div a b := a / b
  neg a := -a
  lt a b := decide (a < b)
  le a b := decide (a ≤ b)
  beq a b := decide (a = b)
  ofNat n := (n : Rat)
  mulAddMul a b c d := a * b + c * d
  min a b := if b < a then b else a
  max a b := if a < b then b else a
  -- exact arithmetic has no representable neighbours: "approximately equal" is equality
  approxEq4 a b := decide (a = b)
  eps := 1 / 8388608

@[simp] theorem rat_add (a b : Rat) : Flt.add a b = a + b := rfl
@[simp] theorem rat_sub (a b : Rat) : Flt.sub a b = a - b := rfl
@[simp] theorem rat_mul (a b : Rat) : Flt.mul a b = a * b := rfl
@[simp] theorem rat_div (a b : Rat) : Flt.div a b = a / b := rfl
@[simp] theorem rat_neg (a : Rat) : Flt.neg a = -a := rfl
@[simp] theorem rat_lt (a b : Rat) : Flt.lt a b = decide (a < b) := rfl
@[simp] theorem rat_le (a b : Rat) : Flt.le a b = decide (a ≤ b) := rfl
@[simp] theorem rat_beq (a b : Rat) : Flt.beq a b = decide (a = b) := rfl
@[simp] theorem rat_ofNat (n : Nat) : (Flt.ofNat n : Rat) = (n : Rat) := rfl
@[simp] theorem rat_mulAddMul (a b c d : Rat) : Flt.mulAddMul a b c d = a * b + c * d := rfl
@[simp] theorem rat_min (a b : Rat) : Flt.min a b = if b < a then b else a := rfl
@[simp] theorem rat_max (a b : Rat) : Flt.max a b = if a < b then b else a := rfl
@[simp] theorem rat_approxEq4 (a b : Rat) : Flt.approxEq4 a b = decide (a = b) := rfl
@[simp] theorem rat_eps : (Flt.eps : Rat) = 1 / 8388608 := rfl
end Flt

end Resvg
