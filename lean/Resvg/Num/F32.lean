/-
  Exact (rational) semantics of IEEE-754 binary32 values and of round-to-nearest-even.

  `F32.decode` gives the exact rational value of a bit pattern; `F32.rnd` is round-to-nearest-even
  onto the binary32 grid (unbounded exponent upwards: overflow is handled by callers where it
  matters; gradual underflow is modelled).  With these, Rust expressions such as
  `(c as f32 / a + 0.5) as u8` are modelled *bit-exactly* over `Rat`, so that theorems are about
  what the code computes, not about an idealisation.  The driver cross-checks `rnd` against the
  hardware `Float32` of the Lean runtime and the harness cross-checks it against Rust's `f32`.

  No imports: this file is part of the executable model.
-/
namespace Resvg.F32

/-- floor(log2 (n/d)) for n,d > 0, by repeated doubling/halving with explicit fuel. -/
def log2Floor (q : Rat) : Int :=
  -- q > 0 expected
  let n := q.num.toNat
  let d := q.den
  -- Nat.log2 is kernel-friendly (binary representation)
  let ln := n.log2
  let ld := d.log2
  -- candidate e = ln - ld or ln - ld - 1
  let e : Int := (ln : Int) - (ld : Int)
  -- check 2^e ≤ n/d  ⇔ d * 2^e ≤ n
  if e ≥ 0 then
    if d * 2 ^ e.toNat ≤ n then e else e - 1
  else
    if d ≤ n * 2 ^ (-e).toNat then e else e - 1

/-- 2^k as a rational, k any integer. -/
def pow2 (k : Int) : Rat :=
  if k ≥ 0 then ((2 ^ k.toNat : Nat) : Rat) else 1 / ((2 ^ (-k).toNat : Nat) : Rat)

/-- round half to even of a rational to an integer -/
def roundHalfEven (q : Rat) : Int :=
  let f := q.floor
  let r := q - (f : Rat)
  if r < 1/2 then f
  else if r > 1/2 then f + 1
  else if f % 2 = 0 then f else f + 1

/-- Round-to-nearest-even onto a binary floating-point grid with `prec`-bit significands and
    smallest quantum `2^qmin` (gradual underflow).  No overflow: results above the format's
    maximum keep growing (callers that care check the magnitude). -/
def rndTo (prec : Nat) (qmin : Int) (q : Rat) : Rat :=
  if q = 0 then 0 else
  let a := if q < 0 then -q else q
  let e := log2Floor a
  let qe : Int := if e - ((prec : Int) - 1) < qmin then qmin else e - ((prec : Int) - 1)
  let m := roundHalfEven (a / pow2 qe)
  let v := (m : Rat) * pow2 qe
  if q < 0 then -v else v

/-- binary32 (f32) rounding -/
def rnd (q : Rat) : Rat := rndTo 24 (-149) q
/-- binary64 (f64) rounding -/
def rnd64 (q : Rat) : Rat := rndTo 53 (-1074) q

def maxFinite : Rat := ((2 ^ 24 - 1 : Nat) : Rat) * pow2 104

/-- Exact value of a finite binary32 bit pattern; `none` for ±∞ and NaN. -/
def decode (bits : UInt32) : Option Rat :=
  let b : Nat := bits.toNat
  let sign : Nat := b / 2 ^ 31
  let ex : Nat := (b / 2 ^ 23) % 256
  let man : Nat := b % 2 ^ 23
  if ex = 255 then none
  else
    let mag : Rat :=
      if ex = 0 then (man : Rat) * pow2 (-149)
      else ((man + 2 ^ 23 : Nat) : Rat) * pow2 ((ex : Int) - 150)
    some (if sign = 1 then -mag else mag)

/-- Exact value of a finite binary64 bit pattern; `none` for ±∞ and NaN. -/
def decode64 (bits : UInt64) : Option Rat :=
  let b : Nat := bits.toNat
  let sign : Nat := b / 2 ^ 63
  let ex : Nat := (b / 2 ^ 52) % 2048
  let man : Nat := b % 2 ^ 52
  if ex = 2047 then none
  else
    let mag : Rat :=
      if ex = 0 then (man : Rat) * pow2 (-1074)
      else ((man + 2 ^ 52 : Nat) : Rat) * pow2 ((ex : Int) - 1075)
    some (if sign = 1 then -mag else mag)

/-- Bit pattern of a rational that lies on the binary32 grid (positive zero for 0). -/
def encode (q : Rat) : UInt32 :=
  if q = 0 then 0 else
  let a := if q < 0 then -q else q
  let s : Nat := if q < 0 then 2 ^ 31 else 0
  let e := log2Floor a
  if e < -126 then
    let m := (a / pow2 (-149)).floor.toNat
    UInt32.ofNat (s + m)
  else
    let m := (a / pow2 (e - 23)).floor.toNat  -- in [2^23, 2^24)
    UInt32.ofNat (s + ((e + 127).toNat) * 2 ^ 23 + (m - 2 ^ 23))

end Resvg.F32
