/-
  C19 — exporting one node equals that node's part of the full rendering (the transform algebra and
  the id lookup).  Model: Resvg/Render/Export.lean.
-/
import Mathlib.Tactic.Ring
import Mathlib.Tactic.Linarith
import Mathlib.Tactic.SplitIfs
import Resvg.Render.Export
import Resvg.Lemmas.Transform
import Resvg.Props.C12

namespace Resvg.Props.C19
open Resvg Resvg.Geom Resvg.Render Resvg.Lemmas

theorem act_preTranslate (t : Transform Rat) (dx dy : Rat) (p : Rat × Rat) :
    act (t.preTranslate dx dy) p = act t (p.1 + dx, p.2 + dy) := by
  unfold Transform.preTranslate Transform.preConcat
  rw [concat_eq, act_mulT]
  congr 1
  unfold act Transform.fromTranslate Transform.one Transform.zero
  simp

/-- **C19 (an exported node is its part of the full rendering, shifted to the origin)**: for any
    caller transform, any ancestors and any own transform, a point `p` of the node lands in the
    export exactly where the full rendering puts it (`abs = ancestors ∘ own`), moved by the origin
    of the node's absolute box and then by the caller's transform. -/
theorem C19_export_is_shifted_full_rendering (user ancestors own : Transform Rat) (bx byy : Rat) (p : Rat × Rat) :
    act ((exportTransform user bx byy ancestors).preConcat own) p
      = act user ((act (ancestors.preConcat own) p).1 - bx, (act (ancestors.preConcat own) p).2 - byy) := by
  unfold exportTransform
  simp only [Transform.preConcat, concat_eq, act_mulT]
  rw [act_preTranslate]
  simp only [Flt.rat_neg, sub_eq_add_neg]

/-- before the fix the ancestors were left out: a node below `scale(2)` was exported at half size
    and, shifted by its absolute box, ended up outside the canvas (replay findings/C19/export-under-transformed-group.svg) -/
theorem C19_old_export_misplaces :
    let own : Transform Rat := ⟨1, 0, 0, 1, 0, 0⟩
    let anc : Transform Rat := ⟨2, 0, 0, 2, 10, 0⟩
    -- the node's corner (10,10) is at (30,20) in the full rendering; its absolute box starts there
    act ((exportTransformOld ⟨1, 0, 0, 1, 0, 0⟩ 30 20).preConcat own) (10, 10) = (-20, -10) ∧
    act ((exportTransform ⟨1, 0, 0, 1, 0, 0⟩ 30 20 anc).preConcat own) (10, 10) = (0, 0) := by
  decide +kernel

/-! ### the canvas of an export, and when there is nothing to render -/

/-- **the node's box fills the canvas**: under a caller transform `scale(s)` (the two the property
    quantifies over are `s = 1` and `s = 2`) every point of the node's absolute layer box `[l,r]×[t,b]`
    lands inside the canvas `[0, s·(r−l)] × [0, s·(b−t)]`, and the box's corners land on the canvas's -/
theorem C19_box_maps_onto_canvas (s l t r b : Rat) (hs : 0 ≤ s) (q : Rat × Rat)
    (hx : l ≤ q.1 ∧ q.1 ≤ r) (hy : t ≤ q.2 ∧ q.2 ≤ b) :
    let e := act (⟨s, 0, 0, s, 0, 0⟩ : Transform Rat) (q.1 - l, q.2 - t)
    0 ≤ e.1 ∧ e.1 ≤ s * (r - l) ∧ 0 ≤ e.2 ∧ e.2 ≤ s * (b - t) := by
  simp only [act]
  refine ⟨?_, ?_, ?_, ?_⟩
  · have : 0 ≤ s * (q.1 - l) := mul_nonneg hs (by linarith)
    linarith
  · have : s * (q.1 - l) ≤ s * (r - l) := mul_le_mul_of_nonneg_left (by linarith) hs
    linarith
  · have : 0 ≤ s * (q.2 - t) := mul_nonneg hs (by linarith)
    linarith
  · have : s * (q.2 - t) ≤ s * (b - t) := mul_le_mul_of_nonneg_left (by linarith) hs
    linarith

/-- **"nothing to render" exactly for zero-sized nodes**: the export is refused iff the node's absolute
    layer box has an empty side; otherwise the canvas is the box's size times the scale -/
theorem C19_nothing_iff_zero_sized (l t r b s : Rat) (hlr : l ≤ r) (htb : t ≤ b) :
    (renderNodeCanvas l t r b s = none ↔ (r - l = 0 ∨ b - t = 0)) ∧
    (∀ c, renderNodeCanvas l t r b s = some c → c = (s * (r - l), s * (b - t))) := by
  unfold renderNodeCanvas toNonZero
  constructor
  · split_ifs with h
    · simp only [reduceCtorEq, false_iff, not_or]
      constructor <;> linarith [h.1, h.2]
    · simp only [true_iff]
      by_contra hc
      push_neg at hc
      apply h
      constructor
      · rcases lt_or_eq_of_le hlr with h1 | h1
        · exact h1
        · exact absurd (by linarith) hc.1
      · rcases lt_or_eq_of_le htb with h1 | h1
        · exact h1
        · exact absurd (by linarith) hc.2
  · intro c hc
    split_ifs at hc with h
    · simpa using hc.symm

example : renderNodeCanvas 10 10 10 40 2 = none ∧ renderNodeCanvas 10 10 30 40 2 = some (40, 60) := by
  decide +kernel

/-! ### lookup by id -/

mutual
theorem findById_node (id : String) (n : IdNode) (rest : IdNodes) (i : Nat) :
    (findById id (.cons n rest) i).isSome = (carriesN id n || (findById id rest (i + 1)).isSome) := by
  cases n with
  | mk nid kids =>
    conv_lhs => unfold findById
    unfold carriesN
    by_cases h : nid = id
    · simp [h]
    · simp only [h, if_false, decide_false, Bool.false_or]
      have hk := findById_list id kids 0
      cases hf : findById id kids 0 with
      | some p => rw [hf] at hk; simp at hk; simp [hk]
      | none => rw [hf] at hk; simp at hk; simp [hk]
theorem findById_list (id : String) (l : IdNodes) (i : Nat) :
    (findById id l i).isSome = carriesL id l := by
  cases l with
  | nil => simp [findById, carriesL]
  | cons n rest =>
    rw [findById_node id n rest i, findById_list id rest (i + 1)]
    simp [carriesL]
end

/-- **C19 (lookup by id)**: `node_by_id` returns a node exactly when some node of the tree carries
    that id — for every tree shape and depth. -/
theorem C19_node_by_id_iff_carried (id : String) (tree : IdNodes) :
    (findById id tree 0).isSome = carriesL id tree := findById_list id tree 0

/-! ### exporting an image node

`render_node` shifts by the origin of the node's absolute box.  For an image that box is the image's own
rect under its absolute transform (C12, fix 5463222): the image's corner lands on the canvas origin.  With the
former box (the element rect under the same transform) the export was shifted off the canvas. -/

/-- the box of `0 0 w h` under a positive scale-and-translate starts at the translation -/
theorem scaled_box_origin (sx sy tx ty w h : Rat) (hsx : 0 < sx) (hsy : 0 < sy) (hw : 0 < w) (hh : 0 < h) :
    ((LTRB.fromXywh 0 0 w h).transform ⟨sx, 0, 0, sy, tx, ty⟩).l = tx ∧
    ((LTRB.fromXywh 0 0 w h).transform ⟨sx, 0, 0, sy, tx, ty⟩).t = ty := by
  have hxw : 0 < w * sx := mul_pos hw hsx
  have hyh : 0 < h * sy := mul_pos hh hsy
  unfold LTRB.transform
  split_ifs with hid
  · obtain ⟨_, _, _, _, e5, e6⟩ := (isIdentity_iff _).mp hid
    simp only at e5 e6
    simp [LTRB.fromXywh, e5, e6]
  · simp only [mapPoint_eq, act, LTRB.fromXywh, Flt.rat_add, Flt.rat_min]
    simp only [zero_mul, mul_zero, add_zero, zero_add]
    constructor <;> split_ifs <;> linarith

open Resvg.Props.C12 in
/-- an image of `w x h` shown at `vx vy` with size `vw x vh` under an identity parent: its corner `(0,0)`
    is exported to `(0,0)` -/
theorem C19_image_export_origin (w h vx vy vw vh : Rat) (hw : 0 < w) (hh : 0 < h) (hvw : 0 < vw) (hvh : 0 < vh) :
    act (exportTransform ⟨1, 0, 0, 1, 0, 0⟩ (imageAbsBox w h (imageTs w h vx vy vw vh)).l
      (imageAbsBox w h (imageTs w h vx vy vw vh)).t (imageTs w h vx vy vw vh)) (0, 0) = (0, 0) := by
  have hx : 0 < vw / w := div_pos hvw hw
  have hy : 0 < vh / h := div_pos hvh hh
  obtain ⟨hl, ht⟩ := scaled_box_origin (vw / w) (vh / h) vx vy w h hx hy hw hh
  unfold imageAbsBox imageTs
  rw [hl, ht]
  unfold exportTransform
  simp only [Transform.preConcat, concat_eq, act_mulT, act_preTranslate]
  simp [act]

/-- the recorded witness with the former box: the corner of the 2x2 image shown at 56,64 is exported to
    (-1148, -992), far outside any canvas -/
theorem C19_old_image_export_off_canvas :
    act (exportTransform ⟨1, 0, 0, 1, 0, 0⟩ 1204 1056 (Resvg.Props.C12.imageTs 2 2 56 64 41 31)) (0, 0) = (-1148, -992) := by
  decide +kernel

end Resvg.Props.C19
