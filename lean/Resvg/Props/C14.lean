/-
  C14 — Offscreen group layers are invisible: isolation never changes the picture.
  Models: Resvg/Render/Layer.lean (layer rectangle), Resvg/Render/Compose.lean (compositing in exact
  arithmetic), Resvg/Geom/Transform.lean (placement).
-/
import Mathlib.Tactic.Linarith
import Mathlib.Tactic.Ring
import Mathlib.Tactic.SplitIfs
import Resvg.Lemmas.Basic
import Resvg.Lemmas.Transform
import Resvg.Render.Layer
import Resvg.Render.Compose
import Resvg.Props.C02
import Resvg.Generated.FiniteGuards

namespace Resvg.Props.C14
open Resvg Resvg.Render Resvg.Render.IntRect Resvg.Geom Resvg.Lemmas

/-- The raw (unfitted) layer of a filter-less group, for boxes inside ±2²⁹:
    `[⌊x⌋ − 2, ⌊x⌋ + ⌈w⌉ + 2)` — it contains the box grown by 2 px on the left/top and by at
    least 1 px on the right/bottom, so anti-aliased edge pixels are inside. -/
theorem raw_layer (x w : Rat) (hx : -536870912 ≤ x ∧ x ≤ 536870912) (hw : 0 < w ∧ w ≤ 536870912) :
    satSubI32 (satI32 x.floor) 2 = x.floor - 2 ∧ satAddU32 (satU32 w.ceil) 4 = w.ceil + 4 ∧
    ((x.floor - 2 : Int) : Rat) ≤ x - 2 ∧ x + w + 1 ≤ ((x.floor - 2 + (w.ceil + 4) : Int) : Rat) := by
  have fx1 : (-536870912 : Int) ≤ x.floor := Rat.le_floor_iff.mpr (by exact_mod_cast hx.1)
  have fx2 : x.floor < 536870913 := Rat.floor_lt_iff.mpr (by push_cast; linarith [hx.2])
  have cw1 : 0 < w.ceil := Rat.lt_ceil_iff.mpr (by exact_mod_cast hw.1)
  have cw2 : w.ceil ≤ 536870912 := Rat.ceil_le_iff.mpr (by exact_mod_cast hw.2)
  have f1 : (x.floor : Rat) ≤ x := Rat.floor_le x
  have f2 : x < (x.floor : Rat) + 1 := by have := Rat.lt_floor (x := x); linarith
  have c1 : w ≤ (w.ceil : Rat) := Rat.le_ceil
  refine ⟨?_, ?_, ?_, ?_⟩
  · unfold satSubI32 satI32 i32Min i32Max; split_ifs <;> omega
  · unfold satAddU32 satU32 u32Max; split_ifs <;> omega
  · push_cast; linarith
  · push_cast; linarith

theorem cover_lo (a c : Int) (p : Rat) (h1 : (a : Rat) ≤ p) (h2 : (c : Rat) ≤ p) :
    (((if a < c then c else a) : Int) : Rat) ≤ p := by split_ifs <;> assumption
theorem cover_hi (b d : Int) (p : Rat) (h1 : p ≤ (b : Rat)) (h2 : p ≤ (d : Rat)) :
    p ≤ (((if b > d then d else b) : Int) : Rat) := by split_ifs <;> assumption

/-- **Nothing visible is clipped.**  If a layer is produced, every device point of the group's box
    (even grown by one pixel) that lies inside the maximum box lies inside the layer; since the
    canvas is inside the maximum box (C02_max_box), nothing that could reach the canvas is cut. -/
theorem C14_layer_covers (x y w h : Rat) (mb r : IntRect)
    (hx : -536870912 ≤ x ∧ x ≤ 536870912) (hy : -536870912 ≤ y ∧ y ≤ 536870912)
    (hw : 0 < w ∧ w ≤ 536870912) (hh : 0 < h ∧ h ≤ 536870912)
    (hl : layerRect x y w h true mb = .ok (some r)) (px py : Rat)
    (hpx : x - 1 ≤ px ∧ px ≤ x + w + 1) (hpy : y - 1 ≤ py ∧ py ≤ y + h + 1)
    (hmx : (mb.x : Rat) ≤ px ∧ px ≤ mb.right) (hmy : (mb.y : Rat) ≤ py ∧ py ≤ mb.bottom) :
    (r.x : Rat) ≤ px ∧ px ≤ r.right ∧ (r.y : Rat) ≤ py ∧ py ≤ r.bottom := by
  obtain ⟨ex1, ex2, ex3, ex4⟩ := raw_layer x w hx hw
  obtain ⟨ey1, ey2, ey3, ey4⟩ := raw_layer y h hy hh
  unfold layerRect at hl
  simp only [if_true, ex1, ex2, ey1, ey2] at hl
  split at hl
  · cases hl
  · rename_i q hq
    injection hl with hl
    obtain ⟨eq, _⟩ := C02.fromXywh_some hq
    unfold fitToRect at hl
    obtain ⟨er, _, _⟩ := C02.fromLtrb_some hl
    rw [er]; rw [eq]
    simp only [IntRect.right, IntRect.bottom]
    have a1 : ((x.floor - 2 : Int) : Rat) ≤ px := by linarith [hpx.1]
    have a2 : px ≤ ((x.floor - 2 + (w.ceil + 4) : Int) : Rat) := by linarith [hpx.2]
    have b1 : ((y.floor - 2 : Int) : Rat) ≤ py := by linarith [hpy.1]
    have b2 : py ≤ ((y.floor - 2 + (h.ceil + 4) : Int) : Rat) := by linarith [hpy.2]
    have m2 : px ≤ ((mb.x + mb.w : Int) : Rat) := by simpa [IntRect.right] using hmx.2
    have n2 : py ≤ ((mb.y + mb.h : Int) : Rat) := by simpa [IntRect.bottom] using hmy.2
    refine ⟨cover_lo _ _ _ a1 hmx.1, ?_, cover_lo _ _ _ b1 hmy.1, ?_⟩
    · have := cover_hi _ _ _ a2 m2
      have e : ∀ l r : Int, l + (r - l) = r := fun l r => by ring
      rw [e]; exact this
    · have := cover_hi _ _ _ b2 n2
      have e : ∀ l r : Int, l + (r - l) = r := fun l r => by ring
      rw [e]; exact this

/-- If no layer is produced the group's box (grown by a pixel) misses the maximum box — hence the
    canvas — completely: skipping the group changes nothing. -/
theorem C14_skipped_is_invisible (x y w h : Rat) (mb : IntRect)
    (hx : -536870912 ≤ x ∧ x ≤ 536870912) (hy : -536870912 ≤ y ∧ y ≤ 536870912)
    (hw : 0 < w ∧ w ≤ 536870912) (hh : 0 < h ∧ h ≤ 536870912)
    (hmb : 1 ≤ mb.w ∧ 1 ≤ mb.h ∧ i32Min ≤ mb.x ∧ i32Min ≤ mb.y ∧ mb.right ≤ i32Max ∧ mb.bottom ≤ i32Max)
    (hl : layerRect x y w h true mb = .ok none) :
    x + w + 1 ≤ mb.x ∨ (mb.right : Rat) ≤ x - 2 ∨ y + h + 1 ≤ mb.y ∨ (mb.bottom : Rat) ≤ y - 2 := by
  obtain ⟨ex1, ex2, ex3, ex4⟩ := raw_layer x w hx hw
  obtain ⟨ey1, ey2, ey3, ey4⟩ := raw_layer y h hy hh
  have fx1 : (-536870912 : Int) ≤ x.floor := Rat.le_floor_iff.mpr (by exact_mod_cast hx.1)
  have fx2 : x.floor < 536870913 := Rat.floor_lt_iff.mpr (by push_cast; linarith [hx.2])
  have fy1 : (-536870912 : Int) ≤ y.floor := Rat.le_floor_iff.mpr (by exact_mod_cast hy.1)
  have fy2 : y.floor < 536870913 := Rat.floor_lt_iff.mpr (by push_cast; linarith [hy.2])
  have cw1 : 0 < w.ceil := Rat.lt_ceil_iff.mpr (by exact_mod_cast hw.1)
  have cw2 : w.ceil ≤ 536870912 := Rat.ceil_le_iff.mpr (by exact_mod_cast hw.2)
  have ch1 : 0 < h.ceil := Rat.lt_ceil_iff.mpr (by exact_mod_cast hh.1)
  have ch2 : h.ceil ≤ 536870912 := Rat.ceil_le_iff.mpr (by exact_mod_cast hh.2)
  unfold layerRect at hl
  simp only [if_true, ex1, ex2, ey1, ey2] at hl
  have hq : IntRect.fromXywh (x.floor - 2) (y.floor - 2) (w.ceil + 4) (h.ceil + 4)
      = some ⟨x.floor - 2, y.floor - 2, w.ceil + 4, h.ceil + 4⟩ := by
    unfold IntRect.fromXywh i32Max; split_ifs <;> first | omega | rfl
  rw [hq] at hl
  simp only at hl
  injection hl with hl
  have hnone := (C02.C02_fit_none_iff_disjoint ⟨x.floor - 2, y.floor - 2, w.ceil + 4, h.ceil + 4⟩ mb
    (by simp only [IntRect.right, IntRect.bottom, i32Min, i32Max]; omega) hmb
    (by simp only [i32Max]; omega)).mp hl
  simp only [IntRect.right, IntRect.bottom] at hnone hmb ⊢
  have key : x.floor - 2 + (w.ceil + 4) ≤ mb.x ∨ mb.x + mb.w ≤ x.floor - 2 ∨
             y.floor - 2 + (h.ceil + 4) ≤ mb.y ∨ mb.y + mb.h ≤ y.floor - 2 := by
    by_contra hc
    apply hnone
    constructor <;> omega
  rcases key with k | k | k | k
  · left; have : ((x.floor - 2 + (w.ceil + 4) : Int) : Rat) ≤ (mb.x : Rat) := by exact_mod_cast k
    linarith
  · right; left
    have : ((mb.x + mb.w : Int) : Rat) ≤ ((x.floor - 2 : Int) : Rat) := by exact_mod_cast k
    exact le_trans this ex3
  · right; right; left
    have : ((y.floor - 2 + (h.ceil + 4) : Int) : Rat) ≤ (mb.y : Rat) := by exact_mod_cast k
    linarith
  · right; right; right
    have : ((mb.y + mb.h : Int) : Rat) ≤ ((y.floor - 2 : Int) : Rat) := by exact_mod_cast k
    exact le_trans this ey3

/-- **Placement.**  Content is drawn into the layer with `translate(−ix, −iy) · ts` and the layer is
    composited at the integer offset `(ix, iy)`: device positions are unchanged. -/
theorem C14_placement (ts : Transform Rat) (ix iy : Int) (p : Rat × Rat) :
    let loc := (Transform.fromTranslate (-(ix : Rat)) (-(iy : Rat))).preConcat ts
    ((Transform.mapPoint loc p).1 + ix, (Transform.mapPoint loc p).2 + iy) = Transform.mapPoint ts p := by
  intro loc
  have e : loc = mulT (Transform.fromTranslate (-(ix : Rat)) (-(iy : Rat))) ts := concat_eq _ _
  rw [mapPoint_eq, mapPoint_eq, e, act_mulT]
  simp only [act, Transform.fromTranslate, Transform.one, Transform.zero, Flt.rat_ofNat]
  refine Prod.ext ?_ ?_ <;> simp <;> ring

/-- **Nesting.**  The maximum box handed to the children of a layer is the parent's box expressed
    in the layer's own coordinates.  Hence if the canvas (in the parent's coordinates `c`) lies inside
    the parent's box, the canvas in the layer's coordinates lies inside the children's box — at every
    nesting depth, by induction — and `C14_layer_covers` applies to nested layers as well.
    (Before fix 64ee706 the parent's box was passed on unchanged and nested layers larger than the
    canvas were clipped: findings/C14/nested-isolation-clipped.svg.) -/
theorem C14_nested_max_box (mb ib c : IntRect)
    (hmb : 1 ≤ mb.w ∧ 1 ≤ mb.h ∧ mb.w ≤ 1073741823 ∧ mb.h ≤ 1073741823)
    (hrange : -1073741823 ≤ mb.x - ib.x ∧ mb.x - ib.x ≤ 1073741823 ∧
              -1073741823 ≤ mb.y - ib.y ∧ mb.y - ib.y ≤ 1073741823)
    (hc : c.subset mb) :
    (⟨c.x - ib.x, c.y - ib.y, c.w, c.h⟩ : IntRect).subset (childMaxBox mb ib) := by
  have s1 : satI32 (mb.x - ib.x) = mb.x - ib.x := by unfold satI32 i32Min i32Max; split_ifs <;> omega
  have s2 : satI32 (mb.y - ib.y) = mb.y - ib.y := by unfold satI32 i32Min i32Max; split_ifs <;> omega
  have e : IntRect.fromXywh (mb.x - ib.x) (mb.y - ib.y) mb.w mb.h = some ⟨mb.x - ib.x, mb.y - ib.y, mb.w, mb.h⟩ := by
    unfold IntRect.fromXywh i32Max; split_ifs <;> first | omega | rfl
  unfold childMaxBox
  rw [s1, s2, e]
  simp only [IntRect.subset, IntRect.right, IntRect.bottom] at hc ⊢
  omega

/-- the chain version: after any number of nested layers with origins `ibs`, the canvas expressed in
    the innermost coordinates lies inside the innermost maximum box -/
def nestMax : IntRect → List IntRect → IntRect
  | mb, [] => mb
  | mb, ib :: rest => nestMax (childMaxBox mb ib) rest
def nestCanvas : IntRect → List IntRect → IntRect
  | c, [] => c
  | c, ib :: rest => nestCanvas ⟨c.x - ib.x, c.y - ib.y, c.w, c.h⟩ rest

/-- all boxes and offsets of a chain stay inside ±2²⁸ (any sane canvas and document) -/
def chainOk : IntRect → List IntRect → Prop
  | _, [] => True
  | mb, ib :: rest =>
    (-1073741823 ≤ mb.x - ib.x ∧ mb.x - ib.x ≤ 1073741823 ∧ -1073741823 ≤ mb.y - ib.y ∧ mb.y - ib.y ≤ 1073741823)
      ∧ chainOk (childMaxBox mb ib) rest

theorem childMaxBox_size (mb ib : IntRect) : (childMaxBox mb ib).w = mb.w ∧ (childMaxBox mb ib).h = mb.h := by
  unfold childMaxBox
  split
  · rename_i r hr
    obtain ⟨e, _⟩ := C02.fromXywh_some hr
    rw [e]; exact ⟨rfl, rfl⟩
  · exact ⟨rfl, rfl⟩

theorem C14_nested_any_depth (mb c : IntRect) (ibs : List IntRect)
    (hmb : 1 ≤ mb.w ∧ 1 ≤ mb.h ∧ mb.w ≤ 1073741823 ∧ mb.h ≤ 1073741823)
    (hok : chainOk mb ibs) (hc : c.subset mb) :
    (nestCanvas c ibs).subset (nestMax mb ibs) := by
  induction ibs generalizing mb c with
  | nil => exact hc
  | cons ib rest ih =>
    obtain ⟨hr, hrest⟩ := hok
    have hs := childMaxBox_size mb ib
    exact ih (childMaxBox mb ib) _ (by rw [hs.1, hs.2]; exact hmb) hrest
      (C14_nested_max_box mb ib c hmb hr hc)

/-! ### compositing algebra -/
open RGBA

theorem over_assoc (d a b : RGBA) : over d (over a b) = over (over d a) b := by
  simp only [over]; congr 1 <;> ring

theorem over_clear_left (s : RGBA) : over clear s = s := by
  simp [over, clear]

theorem over_clear_right (d : RGBA) : over d clear = d := by
  simp [over, clear]

theorem drawAll_over (d e : RGBA) (cs : List RGBA) :
    drawAll (over d e) cs = over d (drawAll e cs) := by
  induction cs generalizing e with
  | nil => rfl
  | cons c cs ih =>
    simp only [drawAll, List.foldl_cons] at *
    rw [← over_assoc]; exact ih (over e c)

theorem scale_one (s : RGBA) : scale 1 s = s := by simp [scale]
theorem scale_zero (s : RGBA) : scale 0 s = clear := by simp [scale, clear]
theorem scale_scale (o1 o2 : Rat) (s : RGBA) : scale o1 (scale o2 s) = scale (o2 * o1) s := by
  simp only [scale]; congr 1 <;> ring

/-- **Isolation is invisible** (exact arithmetic): rendering a normally blended group with opacity
    1 through a cleared layer equals drawing its children straight onto the backdrop —
    for every backdrop, every number of children. -/
theorem C14_isolation_identity (d : RGBA) (cs : List RGBA) : drawIsolated d 1 cs = drawAll d cs := by
  unfold drawIsolated
  rw [scale_one, ← drawAll_over, over_clear_right]

/-- opacity 0 erases the group, opacity 1 leaves it unchanged -/
theorem C14_opacity_zero (d : RGBA) (cs : List RGBA) : drawIsolated d 0 cs = d := by
  unfold drawIsolated; rw [scale_zero, over_clear_right]

/-- nested group opacities multiply: a group of opacity `o1` containing only a group of opacity
    `o2` equals one group of opacity `o1·o2` -/
theorem C14_opacity_mul (d : RGBA) (o1 o2 : Rat) (cs : List RGBA) :
    drawIsolated d o1 [scale o2 (drawAll clear cs)] = drawIsolated d (o2 * o1) cs := by
  unfold drawIsolated
  simp only [drawAll, List.foldl_cons, List.foldl_nil, over_clear_left, scale_scale]

/-- `should_isolate` is false exactly for plain groups -/
theorem C14_should_isolate_iff (g : GroupFlags) :
    shouldIsolate g = false ↔
      g.isolate = false ∧ g.opacityIsOne = true ∧ g.hasClip = false ∧ g.hasMask = false ∧
      g.hasFilters = false ∧ g.blendNormal = true := by
  cases g with | mk a b c d e f => cases a <;> cases b <;> cases c <;> cases d <;> cases e <;> cases f <;> simp [shouldIsolate]

/-! non-vacuity -/
example : layerRect (21/2) (-3) 100 (7/2) true ⟨-40, -40, 100, 100⟩ = .ok (some ⟨8, -5, 52, 8⟩) := by
  decide +kernel
example : drawIsolated ⟨1/2, 0, 0, 1/2⟩ 1 [⟨0, 1/4, 0, 1/4⟩, ⟨0, 0, 1/2, 1/2⟩]
    = drawAll ⟨1/2, 0, 0, 1/2⟩ [⟨0, 1/4, 0, 1/4⟩, ⟨0, 0, 1/2, 1/2⟩] := by decide +kernel

/-! ### an SVG image whose content reaches beyond its own size

The layer of an isolated ancestor is sized by the image's box, so through a layer only the part of the
nested rendering inside the image rectangle survives.  Drawn directly, `image::render_vector` composites
the nested rendering itself: it has to cut it to the rectangle (fix c1a7a73), or isolation becomes visible.
Pixels are modelled as predicates (`content p`: the nested document paints `p`; `rect p`: `p` lies in the
image rectangle). -/

/-- what reaches the canvas when the image is drawn directly; `clip` = the nested rendering is cut to the rectangle -/
def imagePaintDirect (clip : Bool) (content rect : Int × Int → Prop) (p : Int × Int) : Prop :=
  content p ∧ (clip = true → rect p)

/-- … and through a layer sized by the image's box -/
def imagePaintViaLayer (content rect : Int × Int → Prop) (p : Int × Int) : Prop := content p ∧ rect p

/-- **with the cut in place, isolating an ancestor of an SVG image changes nothing**, whatever the nested
    document paints outside of its own size (the translator checks that the source performs the cut) -/
theorem C14_svg_image_overflow_invisible (content rect : Int × Int → Prop) (p : Int × Int) :
    (imagePaintDirect true content rect p ↔ imagePaintViaLayer content rect p) ∧
    Generated.svgImageOverflowClipped = true := by
  refine ⟨?_, by decide⟩
  unfold imagePaintDirect imagePaintViaLayer
  constructor
  · rintro ⟨h1, h2⟩; exact ⟨h1, h2 rfl⟩
  · rintro ⟨h1, h2⟩; exact ⟨h1, fun _ => h2⟩

/-- without it, any content outside of the rectangle is painted directly and lost through a layer -/
theorem C14_old_svg_image_overflow_visible (content rect : Int × Int → Prop) (p : Int × Int)
    (hc : content p) (hr : ¬ rect p) :
    imagePaintDirect false content rect p ∧ ¬ imagePaintViaLayer content rect p := by
  unfold imagePaintDirect imagePaintViaLayer
  exact ⟨⟨hc, fun h => by cases h⟩, fun h => hr h.2⟩

end Resvg.Props.C14
