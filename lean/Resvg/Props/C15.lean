/-
  C15 — Clipping, masking and opacity only remove paint, and only where specified.
  Model: Resvg/Render/Clip.lean (coverage algebra of clip.rs / mask.rs in exact arithmetic).
-/
import Mathlib.Tactic.Linarith
import Mathlib.Tactic.Ring
import Mathlib.Tactic.NormNum
import Mathlib.Tactic.Positivity
import Resvg.Render.Clip

namespace Resvg.Props.C15
open Resvg.Render

def stepOk : ClipStep → Prop
  | .plain c => 0 ≤ c ∧ c ≤ 1
  | .clippedGroup s f => 0 ≤ s ∧ s ≤ 1 ∧ 0 ≤ f ∧ f ≤ 1

theorem clipStep_range (d : Rat) (st : ClipStep) (hd : 0 ≤ d ∧ d ≤ 1) (hs : stepOk st) :
    0 ≤ clipStep d st ∧ clipStep d st ≤ d := by
  cases st with
  | plain c =>
    obtain ⟨h0, h1⟩ := hs
    simp only [clipStep]
    constructor
    · exact mul_nonneg hd.1 (by linarith)
    · nlinarith
  | clippedGroup s f =>
    obtain ⟨s0, s1, f0, f1⟩ := hs
    simp only [clipStep]
    have hsf0 : 0 ≤ s * f := mul_nonneg s0 f0
    have hsf1 : s * f ≤ 1 := by nlinarith
    constructor
    · exact mul_nonneg hd.1 (by linarith)
    · nlinarith

theorem foldl_range (steps : List ClipStep) (d : Rat) (hd : 0 ≤ d ∧ d ≤ 1) (hs : ∀ s ∈ steps, stepOk s) :
    0 ≤ steps.foldl clipStep d ∧ steps.foldl clipStep d ≤ d := by
  induction steps generalizing d with
  | nil => exact ⟨hd.1, le_refl _⟩
  | cons s ss ih =>
    have h1 := clipStep_range d s hd (hs s (List.mem_cons_self))
    have h2 := ih (clipStep d s) ⟨h1.1, le_trans h1.2 hd.2⟩ (fun x hx => hs x (List.mem_cons_of_mem _ hx))
    simp only [List.foldl_cons]
    exact ⟨h2.1, le_trans h2.2 h1.2⟩

/-- the clip factor is a number in [0, 1] … -/
theorem C15_clip_factor_range (n : Rat) (steps : List ClipStep) (hn : 0 ≤ n ∧ n ≤ 1)
    (hs : ∀ s ∈ steps, stepOk s) : 0 ≤ clipFactor n steps ∧ clipFactor n steps ≤ 1 := by
  have h := foldl_range steps 1 ⟨by norm_num, le_refl _⟩ hs
  unfold clipFactor clipBuffer
  constructor
  · exact mul_nonneg hn.1 (by linarith)
  · nlinarith

/-- … hence **clipping never increases alpha** (any nesting, any children, any transforms — they
    only change the coverages). -/
theorem C15_clip_monotone (alpha n : Rat) (steps : List ClipStep) (ha : 0 ≤ alpha) (hn : 0 ≤ n ∧ n ≤ 1)
    (hs : ∀ s ∈ steps, stepOk s) : alpha * clipFactor n steps ≤ alpha := by
  have h := C15_clip_factor_range n steps hn hs
  nlinarith

theorem foldl_one_of_zero (steps : List ClipStep)
    (hz : ∀ s ∈ steps, match s with | .plain c => c = 0 | .clippedGroup s f => s * f = 0) :
    steps.foldl clipStep 1 = 1 := by
  induction steps with
  | nil => rfl
  | cons s ss ih =>
    simp only [List.foldl_cons]
    have h := hz s (List.mem_cons_self)
    have e : clipStep 1 s = 1 := by
      cases s with
      | plain c => simp only at h; simp [clipStep, h]
      | clippedGroup a b => simp only at h; simp [clipStep, h]
    rw [e]
    exact ih (fun x hx => hz x (List.mem_cons_of_mem _ hx))

/-- **Outside the clip geometry everything becomes transparent**: no child covers the pixel. -/
theorem C15_outside_zero (alpha n : Rat) (steps : List ClipStep)
    (hz : ∀ s ∈ steps, match s with | .plain c => c = 0 | .clippedGroup s f => s * f = 0) :
    alpha * clipFactor n steps = 0 := by
  unfold clipFactor clipBuffer
  rw [foldl_one_of_zero steps hz]; ring

theorem foldl_zero (steps : List ClipStep) : steps.foldl clipStep 0 = 0 := by
  induction steps with
  | nil => rfl
  | cons s ss ih =>
    simp only [List.foldl_cons]
    have : clipStep 0 s = 0 := by cases s <;> simp [clipStep]
    rw [this]; exact ih

/-- **Inside a clip shape nothing changes**: if any child covers the pixel completely — a plain
    shape, or a child with its own clip-path whose clip also covers it — and the clip-path on the
    clipPath (if any) covers it too, the pixel is unchanged, whatever the other children do
    (including overlapping ones that carry their own clip-path). -/
theorem C15_inside_kept (alpha : Rat) (pre post : List ClipStep) (st : ClipStep)
    (hfull : match st with | .plain c => c = 1 | .clippedGroup s f => s * f = 1) :
    alpha * clipFactor 1 (pre ++ st :: post) = alpha := by
  unfold clipFactor clipBuffer
  rw [List.foldl_append, List.foldl_cons]
  have : clipStep (pre.foldl clipStep 1) st = 0 := by
    cases st with
    | plain c => simp only at hfull; simp [clipStep, hfull]
    | clippedGroup a b => simp only at hfull; simp [clipStep, hfull]
  rw [this, foldl_zero]; ring

/-- The statement was false with `Xor` (before fix 5e91a6d): a pixel fully covered by a plain child
    *and* by a later child with its own clip-path was removed from the clip
    (findings/C15/overlapping-clipped-child.svg). -/
theorem C15_inside_kept_xor_false :
    clipFactorXor 1 [.plain 1, .clippedGroup 1 1] = 0 ∧ clipFactor 1 [.plain 1, .clippedGroup 1 1] = 1 := by
  constructor <;> decide +kernel

/-- masks: the factor is in [0,1] when the mask value is; outside the mask rectangle it is 0;
    a fully white opaque luminance mask (no mask on the mask) is the identity inside its rectangle -/
theorem C15_mask_monotone (alpha m n : Rat) (inRect : Bool) (ha : 0 ≤ alpha) (hm : 0 ≤ m ∧ m ≤ 1)
    (hn : 0 ≤ n ∧ n ≤ 1) : alpha * maskFactor inRect m n ≤ alpha ∧ 0 ≤ alpha * maskFactor inRect m n := by
  unfold maskFactor
  cases inRect
  · simp [ha]
  · simp only [if_true]
    have h1 : 0 ≤ m * n := mul_nonneg hm.1 hn.1
    have h2 : m * n ≤ 1 := by nlinarith
    constructor
    · nlinarith
    · exact mul_nonneg ha h1

theorem C15_mask_outside_zero (alpha m n : Rat) : alpha * maskFactor false m n = 0 := by
  simp [maskFactor]

theorem C15_white_mask_identity (alpha : Rat) : alpha * maskFactor true (luminance 1 1 1 1) 1 = alpha := by
  simp only [maskFactor, luminance, if_true]; norm_num

/-- opacity below 1 only removes paint -/
theorem C15_opacity_monotone (alpha o : Rat) (ha : 0 ≤ alpha) (ho : 0 ≤ o ∧ o ≤ 1) : alpha * o ≤ alpha := by
  nlinarith

/-! non-vacuity -/
example : stepOk (.clippedGroup (1/2) (1/3)) := by unfold stepOk; norm_num
example : clipFactor 1 [.plain (1/2), .clippedGroup 1 (1/2)] = 3 / 4 := by decide +kernel

/-! ### clip children with clip paths, nested in one another -/

/-- the tree model restricted to flat scenes is the step model above (so everything proved about
    `clipFactor` is about `clipFactorTree` on flat scenes, whichever compositing the nested case uses) -/
theorem C15_tree_embeds_flat (b : Bool) (steps : List ClipStep) (d : Rat) :
    drawClearList b (steps.map ClipStep.toNode) d = steps.foldl clipStep d := by
  induction steps generalizing d with
  | nil => rfl
  | cons st rest ih =>
    simp only [List.map_cons, drawClearList, List.foldl_cons]
    rw [ih]
    congr 1
    cases st <;> simp [ClipStep.toNode, drawClear, drawOverList, drawOver, clipStep]

/-- **a clipped child inside a clipped child counts**: a shape with coverage `s` and own clip `f1`,
    instantiated by a group with clip `f2` (`<use clip-path>` of a shape with `clip-path`), clears the clip
    buffer by `s·f1·f2` — it is part of the clip exactly where all three cover -/
theorem C15_nested_clipped_child_counts (s f1 f2 d : Rat) :
    drawClear true (.group (some f2) [.group (some f1) [.plain s]]) d = d * (1 - s * f1 * f2) := by
  simp [drawClear, drawOverList, drawOver]

/-- with `DestinationOut` in the nested position (the code between the two fixes) the inner child never
    reaches its parent's buffer: the clip buffer is untouched, and a clip path consisting of such a child
    removes the whole element (`clipFactorTree … = 0` although everything covers the pixel) -/
theorem C15_old_nested_clipped_child_lost (s f1 f2 d : Rat) :
    drawClear false (.group (some f2) [.group (some f1) [.plain s]]) d = d ∧
    clipFactorTree false 1 [.group (some 1) [.group (some 1) [.plain 1]]] = 0 ∧
    clipFactorTree true 1 [.group (some 1) [.group (some 1) [.plain 1]]] = 1 := by
  refine ⟨?_, ?_, ?_⟩ <;> simp [clipFactorTree, drawClearList, drawClear, drawOverList, drawOver]

/-- in the transparent-buffer context a fully covering, fully unclipped nested child makes the pixel
    fully covered, whatever was drawn before and is drawn after it (compositing adds, it never removes) -/
theorem C15_nested_full_cover_kept (a : Rat) (inner : List ClipNode) (h : drawOverList true inner 0 = 1) :
    drawOver true (.group (some 1) inner) a = 1 := by
  simp [drawOver, h]

end Resvg.Props.C15
