/-
  C05 — all references inside a tree are closed, unique and well-founded.
  Models: Resvg/Tree/Collect.lean (the four collectors of tree/mod.rs) and
  Resvg/Convert/FilterInputs.lean (filter primitive inputs and result names).
-/
import Mathlib.Tactic.SplitIfs
import Mathlib.Tactic.Tauto
import Mathlib.Data.List.Nodup
import Resvg.Tree.Collect
import Resvg.Convert.FilterInputs
import Resvg.Generated.ConvElems

namespace Resvg.Props.C05
open Resvg.Tree Resvg.Convert

/-! ### `pushNew` -/

theorem mem_pushNew {acc : List Nat} {a x : Nat} : x ∈ pushNew acc a ↔ x ∈ acc ∨ x = a := by
  unfold pushNew
  split_ifs with h
  · constructor
    · exact Or.inl
    · rintro (h' | rfl) <;> assumption
  · simp [List.mem_append]

theorem nodup_pushNew {acc : List Nat} {a : Nat} (h : acc.Nodup) : (pushNew acc a).Nodup := by
  unfold pushNew
  split_ifs with hm
  · exact h
  · rw [List.nodup_append]
    refine ⟨h, by simp, ?_⟩
    intro x hx y hy
    simp only [List.mem_singleton] at hy
    subst hy
    intro hxy; subst hxy; exact hm hx

theorem mem_foldl_pushNew (refs acc : List Nat) (x : Nat) :
    x ∈ refs.foldl pushNew acc ↔ x ∈ acc ∨ x ∈ refs := by
  induction refs generalizing acc with
  | nil => simp
  | cons r t ih =>
    simp only [List.foldl_cons, ih, mem_pushNew, List.mem_cons]
    tauto

theorem nodup_foldl_pushNew (refs acc : List Nat) (h : acc.Nodup) : (refs.foldl pushNew acc).Nodup := by
  induction refs generalizing acc with
  | nil => simpa
  | cons r t ih => exact ih _ (nodup_pushNew h)

/-! ### the collectors collect exactly what they can see, once -/

mutual
theorem mem_collectN (n : Nd) (acc : List Nat) (x : Nat) :
    x ∈ collectN n acc ↔ x ∈ acc ∨ x ∈ seenN n := by
  cases n with
  | mk refs unseen subs children =>
    simp only [collectN, seenN, mem_collectL children, mem_collectL subs, mem_foldl_pushNew,
      List.mem_append]
    tauto
theorem mem_collectL (l : NdL) (acc : List Nat) (x : Nat) :
    x ∈ collectL l acc ↔ x ∈ acc ∨ x ∈ seenL l := by
  cases l with
  | nil => simp [collectL, seenL]
  | cons n rest =>
    simp only [collectL, seenL, mem_collectL rest, mem_collectN n, List.mem_append]
    tauto
end

mutual
theorem nodup_collectN (n : Nd) (acc : List Nat) (h : acc.Nodup) : (collectN n acc).Nodup := by
  cases n with
  | mk refs unseen subs children =>
    simp only [collectN]
    exact nodup_collectL children _ (nodup_collectL subs _ (nodup_foldl_pushNew refs acc h))
theorem nodup_collectL (l : NdL) (acc : List Nat) (h : acc.Nodup) : (collectL l acc).Nodup := by
  cases l with
  | nil => simpa [collectL]
  | cons n rest =>
    simp only [collectL]
    exact nodup_collectL rest _ (nodup_collectN n acc h)
end

mutual
theorem mem_collectPaintN (n : Nd) (acc : List Nat) (x : Nat) :
    x ∈ collectPaintN n acc ↔ x ∈ acc ∨ x ∈ seenN n := by
  cases n with
  | mk refs unseen subs children =>
    simp only [collectPaintN, seenN, mem_collectPaintL children, mem_collectPaintL subs,
      mem_foldl_pushNew, List.mem_append]
    tauto
theorem mem_collectPaintL (l : NdL) (acc : List Nat) (x : Nat) :
    x ∈ collectPaintL l acc ↔ x ∈ acc ∨ x ∈ seenL l := by
  cases l with
  | nil => simp [collectPaintL, seenL]
  | cons n rest =>
    simp only [collectPaintL, seenL, mem_collectPaintL rest, mem_collectPaintN n, List.mem_append]
    tauto
end

mutual
theorem nodup_collectPaintN (n : Nd) (acc : List Nat) (h : acc.Nodup) : (collectPaintN n acc).Nodup := by
  cases n with
  | mk refs unseen subs children =>
    simp only [collectPaintN]
    exact nodup_collectPaintL subs _ (nodup_collectPaintL children _ (nodup_foldl_pushNew refs acc h))
theorem nodup_collectPaintL (l : NdL) (acc : List Nat) (h : acc.Nodup) : (collectPaintL l acc).Nodup := by
  cases l with
  | nil => simpa [collectPaintL]
  | cons n rest =>
    simp only [collectPaintL]
    exact nodup_collectPaintL rest _ (nodup_collectPaintN n acc h)
end

/-! ### what can be reached vs. what is seen -/

mutual
theorem seen_sub_reachN (n : Nd) (x : Nat) (h : x ∈ seenN n) : x ∈ reachN n := by
  cases n with
  | mk refs unseen subs children =>
    simp only [seenN, reachN, List.mem_append] at h ⊢
    rcases h with (h | h) | h
    · exact Or.inl (Or.inl (Or.inl h))
    · exact Or.inl (Or.inr (seen_sub_reachL subs x h))
    · exact Or.inr (seen_sub_reachL children x h)
theorem seen_sub_reachL (l : NdL) (x : Nat) (h : x ∈ seenL l) : x ∈ reachL l := by
  cases l with
  | nil => simp [seenL] at h
  | cons n rest =>
    simp only [seenL, reachL, List.mem_append] at h ⊢
    rcases h with h | h
    · exact Or.inl (seen_sub_reachN n x h)
    · exact Or.inr (seen_sub_reachL rest x h)
end

mutual
theorem reach_sub_seenN (n : Nd) (hn : noUnseenN n = true) (x : Nat) (h : x ∈ reachN n) : x ∈ seenN n := by
  cases n with
  | mk refs unseen subs children =>
    simp only [noUnseenN, Bool.and_eq_true, List.isEmpty_iff] at hn
    obtain ⟨⟨hu, hs⟩, hc⟩ := hn
    subst hu
    simp only [seenN, reachN, List.mem_append, List.not_mem_nil, or_false] at h ⊢
    rcases h with (h | h) | h
    · exact Or.inl (Or.inl h)
    · exact Or.inl (Or.inr (reach_sub_seenL subs hs x h))
    · exact Or.inr (reach_sub_seenL children hc x h)
theorem reach_sub_seenL (l : NdL) (hl : noUnseenL l = true) (x : Nat) (h : x ∈ reachL l) : x ∈ seenL l := by
  cases l with
  | nil => simp [reachL] at h
  | cons n rest =>
    simp only [noUnseenL, Bool.and_eq_true] at hl
    simp only [seenL, reachL, List.mem_append] at h ⊢
    rcases h with h | h
    · exact Or.inl (reach_sub_seenN n hl.1 x h)
    · exact Or.inr (reach_sub_seenL rest hl.2 x h)
end

/-- **C05 (collections), partial**: for every tree — any shape, any chain length, any sharing —
    in which no text span carries a paint server of its own (`noUnseenL`), every reachable
    definition appears in the collection **exactly once**, and nothing else does.
    Holds for the clip-path / mask / filter collectors … -/
theorem C05_collection_exact_partial (t : NdL) (h : noUnseenL t = true) :
    (∀ a, a ∈ reachL t → (collectL t []).count a = 1) ∧ (∀ a, a ∈ collectL t [] → a ∈ reachL t) := by
  have hnd := nodup_collectL t [] List.nodup_nil
  constructor
  · intro a ha
    have hm : a ∈ collectL t [] := (mem_collectL t [] a).mpr (Or.inr (reach_sub_seenL t h a ha))
    exact List.count_eq_one_of_mem hnd hm
  · intro a ha
    rcases (mem_collectL t [] a).mp ha with h' | h'
    · cases h'
    · exact seen_sub_reachL t a h'

/-- … and for the paint-server collector. -/
theorem C05_paint_collection_exact_partial (t : NdL) (h : noUnseenL t = true) :
    (∀ a, a ∈ reachL t → (collectPaintL t []).count a = 1) ∧ (∀ a, a ∈ collectPaintL t [] → a ∈ reachL t) := by
  have hnd := nodup_collectPaintL t [] List.nodup_nil
  constructor
  · intro a ha
    have hm : a ∈ collectPaintL t [] := (mem_collectPaintL t [] a).mpr (Or.inr (reach_sub_seenL t h a ha))
    exact List.count_eq_one_of_mem hnd hm
  · intro a ha
    rcases (mem_collectPaintL t [] a).mp ha with h' | h'
    · cases h'
    · exact seen_sub_reachL t a h'

/-- the collection never lists a definition twice, whatever the tree -/
theorem C05_collection_nodup (t : NdL) : (collectL t []).Nodup ∧ (collectPaintL t []).Nodup :=
  ⟨nodup_collectL t [] List.nodup_nil, nodup_collectPaintL t [] List.nodup_nil⟩

/-- the hypotheses are satisfiable by a tree with sharing and a chain of length three -/
example : noUnseenL (.cons (.mk [0, 1, 2] [] (.cons (.mk [1] [] .nil .nil) .nil) .nil) (.cons (.mk [0] [] .nil .nil) .nil)) = true
    ∧ collectL (.cons (.mk [0, 1, 2] [] (.cons (.mk [1] [] .nil .nil) .nil) .nil) (.cons (.mk [0] [] .nil .nil) .nil)) [] = [0, 1, 2] := by
  decide

/-- **the full statement is false of the code**: a paint server referenced only by a text span is
    reachable and is not collected (known finding; replay findings/C05/text-span-gradient-not-collected.svg) -/
theorem C05_full_statement_false :
    ∃ t : NdL, ∃ a, a ∈ reachL t ∧ a ∉ collectPaintL t [] :=
  ⟨.cons (.mk [] [7] (.cons (.mk [3] [] .nil .nil) .nil) .nil) .nil, 7, by decide, by decide⟩

/-- in general: what is collected is exactly what the collector sees -/
theorem C05_collected_iff_seen (t : NdL) (a : Nat) :
    (a ∈ collectL t [] ↔ a ∈ seenL t) ∧ (a ∈ collectPaintL t [] ↔ a ∈ seenL t) := by
  constructor
  · rw [mem_collectL]; simp
  · rw [mem_collectPaintL]; simp

/-- before fix a695c10 the third element of a chain was reachable but not collected
    (replay findings/C05/clip-chain-depth3.svg) -/
theorem C05_old_collector_misses_chain :
    2 ∈ reachL (.cons (.mk [0, 1, 2] [] .nil .nil) .nil) ∧ 2 ∉ collectOldL (.cons (.mk [0, 1, 2] [] .nil .nil) .nil) [] := by
  decide

/-! ### filter primitive inputs -/

/-- every reference names the result of an earlier primitive -/
def ClosedFrom (prev : List String) : List (List Inp × String) → Prop
  | [] => True
  | (ins, r) :: rest => (∀ n, Inp.ref n ∈ ins → n ∈ prev) ∧ ClosedFrom (prev ++ [r]) rest

theorem resolveInput_closed (attr : Option String) (prev : List String) (n : String)
    (h : resolveInput attr prev = .ref n) : n ∈ prev := by
  unfold resolveInput at h
  have last_mem : ∀ p, prev.getLast? = some p → p ∈ prev := fun p hp => List.mem_of_getLast? hp
  cases attr with
  | none =>
    simp only at h
    cases hl : prev.getLast? with
    | none => rw [hl] at h; cases h
    | some p => rw [hl] at h; injection h with h; subst h; exact last_mem _ hl
  | some s =>
    simp only at h
    cases hp : parseIn s with
    | sourceGraphic => rw [hp] at h; cases h
    | sourceAlpha => rw [hp] at h; cases h
    | ref name =>
      rw [hp] at h
      simp only at h
      split_ifs at h with hm
      · injection h with h; subst h; exact hm
      · cases hl : prev.getLast? with
        | none => rw [hl] at h; cases h
        | some p => rw [hl] at h; injection h with h; subst h; exact last_mem _ hl

theorem convertFrom_closed (prims : List PrimIn) (prev : List String) (st : GenState) :
    ClosedFrom prev (convertFrom prev st prims) := by
  induction prims generalizing prev st with
  | nil => simp [convertFrom, ClosedFrom]
  | cons p rest ih =>
    obtain ⟨ins, res⟩ := p
    simp only [convertFrom, ClosedFrom]
    refine ⟨?_, ih _ _⟩
    intro n hn
    obtain ⟨a, _, ha⟩ := List.mem_map.mp hn
    exact resolveInput_closed a prev n ha

/-- **C05 (filter inputs), all filters**: whatever `in` / `in2` / `result` attributes the primitives
    carry — unknown names, forward references, self references, duplicates — every input of the
    converted filter that names a result names the result of an earlier primitive of the same filter. -/
theorem C05_filter_inputs_closed (prims : List PrimIn) : ClosedFrom [] (convertFilter prims) :=
  convertFrom_closed prims [] _

example : convertFilter [([some "later", none], some "a"), ([some "a", some "zz"], none), ([none], some "later")]
    = [([.sourceGraphic, .sourceGraphic], "a"), ([.ref "a", .ref "a"], "result2"), ([.ref "result2"], "later")] := by
  decide

/-! ### generated ids -/

/-- `Cache::gen_*_id`: count upwards from `start` until the candidate is not a registered id; `fuel` is the
    number of registered ids plus one (the loop cannot run longer: each failed candidate is a different id) -/
def genId (taken : Nat → Bool) : Nat → Nat → Nat
  | 0, k => k
  | fuel + 1, k => if taken k then genId taken fuel (k + 1) else k

theorem genId_ge (taken : Nat → Bool) (fuel k : Nat) : k ≤ genId taken fuel k := by
  induction fuel generalizing k with
  | zero => exact Nat.le_refl _
  | succ n ih =>
    unfold genId
    split_ifs
    · exact Nat.le_trans (Nat.le_succ k) (ih (k + 1))
    · exact Nat.le_refl _

/-- **a generated id is fresh**: when at most `fuel − 1` … more precisely when the registered ids above `k`
    are fewer than the fuel, the returned index is not registered. With fix 47fee9c *every* element id of the
    document is registered (translator fact below), so a generated definition id differs from every node id. -/
theorem C05_generated_id_fresh (taken : Nat → Bool) (fuel k : Nat)
    (hfree : ∃ j, j < fuel ∧ taken (k + j) = false) :
    taken (genId taken fuel k) = false ∧ Generated.allElementIdsRegistered = true := by
  refine ⟨?_, by decide⟩
  induction fuel generalizing k with
  | zero => obtain ⟨j, hj, _⟩ := hfree; omega
  | succ n ih =>
    unfold genId
    by_cases ht : taken k = true
    · simp only [ht, if_true]
      apply ih
      obtain ⟨j, hj, hfj⟩ := hfree
      cases j with
      | zero => simp [ht] at hfj
      | succ j' => exact ⟨j', by omega, by rw [← hfj]; congr 1; omega⟩
    · simp only [ht, if_false, Bool.false_eq_true]

example : genId (fun n => n == 1 || n == 2) 3 1 = 3 := by decide

end Resvg.Props.C05
