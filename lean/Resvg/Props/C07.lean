/-
  C07 — written SVG is well-formed, self-contained and re-parsable (the string-level core).
  Models: Resvg/Writer/Escape.lean (attribute escaping as composed by usvg and xmlwriter) and
  Resvg/Tree/Collect.lean (what the writer emits as definitions vs what it emits as references).
-/
import Mathlib.Tactic.SplitIfs
import Mathlib.Data.List.Nodup
import Resvg.Writer.Escape
import Resvg.Generated.WriterTables
import Resvg.Writer.Color
import Resvg.Props.C05

namespace Resvg.Props.C07
open Resvg.Writer Resvg.Tree

theorem wfAtt_cons_other (q c : Char) (rest : List Char) (h1 : c ≠ '&') :
    wfAtt q (c :: rest) = (c != '&' && c != '<' && c != q && wfAtt q rest) := by
  rw [wfAtt.eq_def]
  split <;> simp_all

theorem decodeAtt_cons_other (c : Char) (rest : List Char) (h1 : c ≠ '&') :
    decodeAtt (c :: rest) = c :: decodeAtt rest := by
  rw [decodeAtt.eq_def]
  split <;> simp_all

/-- the three cases a character can fall into, for quote `q` -/
theorem writeAttrValue_cons (q c : Char) (s : List Char) (hq : q = '"' ∨ q = '\'') :
    writeAttrValue q (c :: s) =
      (if c = '&' then amp else if c = '<' then lt
       else if c = q then (if q = '\'' then apos else quot) else [c]) ++ writeAttrValue q s := by
  unfold writeAttrValue usvgEscape
  rw [List.flatMap_cons]
  unfold xmlwriterEscape
  rw [List.flatMap_append]
  congr 1
  rcases hq with rfl | rfl
  · by_cases h1 : c = '&'
    · subst h1; decide
    · by_cases h2 : c = '<'
      · subst h2; decide
      · by_cases h3 : c = '"'
        · subst h3; decide
        · simp [h1, h2, h3]
  · by_cases h1 : c = '&'
    · subst h1; decide
    · by_cases h2 : c = '<'
      · subst h2; decide
      · by_cases h3 : c = '\''
        · subst h3; decide
        · simp [h1, h2, h3]

/-- **C07 (well-formed attribute values), every string**: whatever characters an id, id prefix,
    result name or font family contains, what the writer puts between the quotes is a well-formed
    XML attribute value — for both quote styles. -/
theorem C07_attr_wellformed (q : Char) (hq : q = '"' ∨ q = '\'') (s : List Char) :
    wfAtt q (writeAttrValue q s) = true := by
  induction s with
  | nil => rfl
  | cons c s ih =>
    rw [writeAttrValue_cons q c s hq]
    by_cases h1 : c = '&'
    · simp only [h1, if_true]; simpa [amp, wfAtt] using ih
    · by_cases h2 : c = '<'
      · simp only [h1, h2, if_true, if_false]; simpa [lt, wfAtt] using ih
      · by_cases h3 : c = q
        · rcases hq with rfl | rfl
          · simp only [h1, h2, h3, if_true, if_false]
            have : (if '"' = '\'' then apos else quot) = quot := by decide
            rw [this]; simpa [quot, wfAtt] using ih
          · simp only [h1, h2, h3, if_true, if_false]
            simpa [apos, wfAtt] using ih
        · simp only [h1, h2, h3, if_false, List.singleton_append]
          rw [wfAtt_cons_other q c _ h1, ih]
          simp [h1, h2, h3]

/-- **and it reads back as the same string**: an XML parser decodes the written value to exactly
    the original characters, so an id and the references to it still agree after a round trip. -/
theorem C07_attr_roundtrip (q : Char) (hq : q = '"' ∨ q = '\'') (s : List Char) :
    decodeAtt (writeAttrValue q s) = s := by
  induction s with
  | nil => rfl
  | cons c s ih =>
    rw [writeAttrValue_cons q c s hq]
    by_cases h1 : c = '&'
    · simp only [h1, if_true]; simpa [amp, decodeAtt] using ih
    · by_cases h2 : c = '<'
      · simp only [h2, if_true]; simpa [lt, decodeAtt] using ih
      · by_cases h3 : c = q
        · rcases hq with rfl | rfl
          · simp only [h1, h2, h3, if_true, if_false]
            have : (if '"' = '\'' then apos else quot) = quot := by decide
            rw [this]; simpa [quot, decodeAtt] using ih
          · simp only [h1, h2, h3, if_true, if_false]
            simpa [apos, decodeAtt] using ih
        · simp only [h1, h2, h3, if_false, List.singleton_append]
          rw [decodeAtt_cons_other c _ h1, ih]

/-- before fix 6b2adfa the writer relied on xmlwriter alone: an id containing `&` or `<` came out
    ill-formed (replay: findings/C07/id-with-ampersand.svg) -/
theorem C07_old_writer_illformed :
    wfAtt '"' (writeAttrValueOld '"' ['a', '&', 'b']) = false ∧
    wfAtt '"' (writeAttrValueOld '"' ['a', '<', 'b']) = false := by decide

example : writeAttrValue '"' ['p', '&', '<', '"', '\'', '>'] = "p&amp;&lt;&quot;'>".toList := by decide

/-! ### character data -/

theorem wfText_cons_other (c : Char) (rest : List Char) (h1 : c ≠ '&') :
    wfText (c :: rest) = (c != '&' && c != '<' && wfText rest) := by
  rw [wfText.eq_def]
  split <;> simp_all

theorem writeTextValue_cons (c : Char) (s : List Char) :
    writeTextValue (c :: s) = (if c = '&' then amp else if c = '<' then lt else [c]) ++ writeTextValue s := by
  unfold writeTextValue
  rw [List.flatMap_cons, List.flatMap_append]
  congr 1
  by_cases h1 : c = '&'
  · subst h1; decide
  · by_cases h2 : c = '<'
    · subst h2; decide
    · simp [h1, h2]

/-- **C07 (text content)**: whatever characters a text node holds, the character data written for it
    (with `preserve_text`) is well-formed and reads back as the same string. -/
theorem C07_text_wellformed (s : List Char) : wfText (writeTextValue s) = true ∧ decodeAtt (writeTextValue s) = s := by
  induction s with
  | nil => exact ⟨rfl, rfl⟩
  | cons c s ih =>
    rw [writeTextValue_cons]
    by_cases h1 : c = '&'
    · simp only [h1, if_true]
      exact ⟨by simpa [amp, wfText] using ih.1, by simpa [amp, decodeAtt] using ih.2⟩
    · by_cases h2 : c = '<'
      · simp only [h2, if_true]
        refine ⟨by simpa [lt, wfText] using ih.1, by simpa [lt, decodeAtt] using ih.2⟩
      · simp only [h1, h2, if_false, List.singleton_append]
        refine ⟨?_, ?_⟩
        · rw [wfText_cons_other c _ h1, ih.1]; simp [h1, h2]
        · rw [decodeAtt_cons_other c _ h1, ih.2]

/-! ### references resolve -/

/-- **C07 (references resolve), partial**: the writer emits one definition element per collected
    address and one reference per address it sees on a node.  If distinct collected definitions
    carry distinct ids (C05; known findings list where they do not), every written reference
    matches exactly one written definition — for any tree. -/
theorem C07_references_resolve_partial (t : NdL) (idOf : Nat → String)
    (hinj : ∀ a b, a ∈ collectL t [] → b ∈ collectL t [] → idOf a = idOf b → a = b)
    (a : Nat) (ha : a ∈ seenL t) :
    ((collectL t []).map idOf).count (idOf a) = 1 := by
  have hmem : a ∈ collectL t [] := (C05.mem_collectL t [] a).mpr (Or.inr ha)
  have hnd := C05.nodup_collectL t [] List.nodup_nil
  have hnd' : ((collectL t []).map idOf).Nodup := by
    rw [List.nodup_map_iff_inj_on hnd]
    intro x hx y hy hxy
    exact hinj x y hx hy hxy
  exact List.count_eq_one_of_mem hnd' (List.mem_map.mpr ⟨a, hmem, rfl⟩)

/-! ### the replacements of `escape_attr`, regenerated from writer.rs on every run -/

/-- `str::replace(c, r)` on characters -/
def replaceAll (c : Char) (r : List Char) (s : List Char) : List Char :=
  s.flatMap fun x => if x = c then r else [x]

/-- the chain of `.replace` calls, applied left to right -/
def applyReplacements (reps : List (Char × String)) (s : List Char) : List Char :=
  reps.foldl (fun acc cr => replaceAll cr.1 cr.2.toList acc) s

/-- the chain of replacements found in the source computes the model's `usvgEscape` on every string.
    (Order matters: with the two calls swapped `<` becomes `&amp;lt;` and this theorem fails.) -/
theorem C07_escape_attr_source_is_model (s : List Char) :
    applyReplacements Generated.escapeAttrReplacements s = usvgEscape s := by
  have h1 : "&amp;".toList = amp := by decide
  have h2 : "&lt;".toList = lt := by decide
  simp only [applyReplacements, Generated.escapeAttrReplacements, List.foldl_cons, List.foldl_nil, h1, h2]
  induction s with
  | nil => rfl
  | cons c t ih =>
    simp only [replaceAll, usvgEscape, List.flatMap_cons, List.flatMap_append] at ih ⊢
    rw [ih]
    by_cases hc : c = '&'
    · subst hc; simp [amp]
    · by_cases hl : c = '<'
      · subst hl; simp [lt]
      · simp [hc, hl]

/-! ### values written raw (no escaping): colours -/

theorem wfAtt_safe (q : Char) (l : List Char) (h : ∀ c ∈ l, c ≠ '&' ∧ c ≠ '<' ∧ c ≠ q) :
    wfAtt q l = true ∧ decodeAtt l = l := by
  induction l with
  | nil => exact ⟨rfl, rfl⟩
  | cons c t ih =>
    have hc := h c (List.mem_cons_self)
    have ht := ih (fun x hx => h x (List.mem_cons_of_mem _ hx))
    constructor
    · rw [wfAtt_cons_other q c t hc.1]
      simp [hc.1, hc.2.1, hc.2.2, ht.1]
    · rw [decodeAtt.eq_def]; split <;> simp_all

theorem hexDigit_safe (i : Nat) : hexDigit i ≠ '&' ∧ hexDigit i ≠ '<' ∧ hexDigit i ≠ '"' ∧ hexDigit i ≠ '\'' := by
  rcases Nat.lt_or_ge i 16 with h | h
  · have key : (List.range 16).all (fun i => hexDigit i != '&' && hexDigit i != '<' && hexDigit i != '"' && hexDigit i != '\'') = true := by decide +kernel
    have := (List.all_eq_true.mp key) i (List.mem_range.mpr h)
    simp only [Bool.and_eq_true, bne_iff_ne, ne_eq] at this
    exact ⟨this.1.1.1, this.1.1.2, this.1.2, this.2⟩
  · have : hexDigit i = '?' := by
      unfold hexDigit
      simp [List.getD, List.getElem?_eq_none (show hexChars.length ≤ i by simpa [hexChars] using h)]
    rw [this]; decide

/-- **colours are written raw and need no escaping**: for either quote character the value `write_color`
    writes is a well-formed attribute body and decodes to itself -/
theorem C07_color_wellformed (q : Char) (hq : q = '"' ∨ q = '\'') (r g b : Nat) :
    wfAtt q (writeColor r g b) = true ∧ decodeAtt (writeColor r g b) = writeColor r g b := by
  apply wfAtt_safe
  intro c hc
  simp only [writeColor, int2hex, List.cons_append, List.nil_append, List.mem_cons, List.not_mem_nil, or_false] at hc
  rcases hc with h | h | h | h | h | h | h
  · subst h; rcases hq with rfl | rfl <;> decide
  all_goals (subst h; have := hexDigit_safe; rcases hq with rfl | rfl <;> exact ⟨(this _).1, (this _).2.1, by first | exact (this _).2.2.1 | exact (this _).2.2.2⟩)

end Resvg.Props.C07
