/-
  C10 — Structural constructs resolve to the same tree as their expansions.
  Models: Resvg/Geom/Transform.lean, Resvg/Convert/Structure.lean, Resvg/Convert/UseSize.lean, Resvg/SvgTree/Build.lean.
-/
import Mathlib.Tactic.Linarith
import Mathlib.Tactic.Ring
import Mathlib.Tactic.SplitIfs
import Resvg.Lemmas.Transform
import Resvg.Convert.Structure
import Resvg.SvgTree.Build
import Resvg.Generated.ConvElems
import Resvg.Convert.UseSize
import Resvg.Generated.UseSize
import Mathlib.Tactic.NormNum
import Mathlib.Tactic.Tauto

namespace Resvg.Props.C10
open Resvg Resvg.Geom Resvg.Convert Resvg.Lemmas Resvg.SvgTree

/-! ### a transform list is its matrix product -/

/-- `concat` is associative, has the identity as unit, and acts on points as composition —
    whatever special-case branch (`is_identity`, scale-translate, general) the code takes. -/
theorem C10_transform_monoid (a b c : Transform Rat) (p : Rat × Rat) :
    Transform.concat (Transform.concat a b) c = Transform.concat a (Transform.concat b c) ∧
    Transform.concat Transform.identity a = a ∧ Transform.concat a Transform.identity = a ∧
    Transform.mapPoint (Transform.concat a b) p = Transform.mapPoint a (Transform.mapPoint b p) := by
  refine ⟨?_, ?_, ?_, ?_⟩
  · rw [concat_eq, concat_eq, concat_eq, concat_eq, mulT_assoc]
  · rw [concat_eq, ext_iff']; simp [mulT, Transform.identity, Transform.one, Transform.zero]
  · rw [concat_eq, ext_iff']; simp [mulT, Transform.identity, Transform.one, Transform.zero]
  · rw [mapPoint_eq, mapPoint_eq, mapPoint_eq, concat_eq, act_mulT]

/-- `transform-origin`: the resolved transform acts as `p ↦ T(p − o) + o` -/
theorem C10_origin (t : Transform Rat) (dx dy : Rat) (p : Rat × Rat) :
    Transform.mapPoint (resolveTransformOrigin t dx dy) p =
      ((Transform.mapPoint t (p.1 - dx, p.2 - dy)).1 + dx, (Transform.mapPoint t (p.1 - dx, p.2 - dy)).2 + dy) := by
  unfold resolveTransformOrigin Transform.preTranslate Transform.preConcat
  simp only [mapPoint_eq, concat_eq, act_mulT]
  simp only [act, Transform.fromTranslate, Transform.identity, Transform.one, Transform.zero, mulT,
    Flt.rat_ofNat, Flt.rat_neg]
  refine Prod.ext ?_ ?_ <;> simp <;> ring

/-- `use x y transform`: the generated group maps a point of the referenced content to
    `T(p + (x, y))` — the definitional expansion `<g transform="T translate(x,y)">copy</g>`. -/
theorem C10_use_transform (orig : Transform Rat) (x y : Rat) (p : Rat × Rat) :
    Transform.mapPoint (useTransform orig x y none) p = Transform.mapPoint orig (p.1 + x, p.2 + y) := by
  unfold useTransform Transform.preTranslate Transform.preConcat
  simp only [mapPoint_eq, concat_eq, act_mulT]
  simp only [act, Transform.fromTranslate, Transform.identity, Transform.one, Transform.zero, mulT, Flt.rat_ofNat]
  refine Prod.ext ?_ ?_ <;> simp <;> ring

/-- …and with a viewBox mapping `v` (symbol / nested svg): `T(v(p) + (x, y))` -/
theorem C10_use_viewbox_transform (orig v : Transform Rat) (x y : Rat) (p : Rat × Rat) :
    Transform.mapPoint (useTransform orig x y (some v)) p =
      Transform.mapPoint orig ((Transform.mapPoint v p).1 + x, (Transform.mapPoint v p).2 + y) := by
  unfold useTransform Transform.preTranslate Transform.preConcat
  simp only [mapPoint_eq, concat_eq, act_mulT]
  simp only [act, Transform.fromTranslate, Transform.identity, Transform.one, Transform.zero, mulT, Flt.rat_ofNat]
  refine Prod.ext ?_ ?_ <;> simp <;> ring

/-! ### rounded rectangles -/

/-- rx only ⇒ ry = rx; ry only ⇒ rx = ry; none ⇒ (0, 0) (a negative value counts as absent) -/
theorem C10_rect_radii_auto (a : Rat) :
    resolveRxRy (some a) none = (a, a) ∧ resolveRxRy none (some a) = (a, a) ∧
    resolveRxRy (none : Option Rat) none = (0, 0) := by
  simp [resolveRxRy]

/-- the radii that reach the path builder never exceed half of the size -/
theorem C10_rect_radii_clamped (w h : Rat) (r : Rat × Rat) :
    (clampRadii w h r).1 ≤ w / 2 ∧ (clampRadii w h r).2 ≤ h / 2 ∧
    (clampRadii w h r).1 ≤ r.1 ∧ (clampRadii w h r).2 ≤ r.2 := by
  unfold clampRadii
  simp only [Flt.rat_div, Flt.rat_ofNat, Flt.rat_lt, decide_eq_true_eq]
  norm_num
  refine ⟨?_, ?_, ?_, ?_⟩ <;> split_ifs <;> linarith

/-- radii inside the half size are kept as they are -/
theorem C10_rect_radii_kept (w h : Rat) (r : Rat × Rat) (h1 : r.1 ≤ w / 2) (h2 : r.2 ≤ h / 2) :
    clampRadii w h r = r := by
  unfold clampRadii
  simp only [Flt.rat_div, Flt.rat_ofNat, Flt.rat_lt, decide_eq_true_eq]
  norm_num
  have e1 : ¬ w / 2 < r.1 := not_lt.mpr h1
  have e2 : ¬ h / 2 < r.2 := not_lt.mpr h2
  simp [e1, e2]

/-! ### switch -/

/-- `switch` converts its first passing child: every earlier child fails its test -/
theorem C10_switch_first (cs : List SwitchChild) (langs : List String) (i : Nat)
    (h : switchChoice cs langs = some i) :
    (∃ c, cs[i]? = some c ∧ conditionPassed c langs = true) ∧
    ∀ j, j < i → ∀ c, cs[j]? = some c → conditionPassed c langs = false := by
  unfold switchChoice at h
  rw [List.findIdx?_eq_some_iff_getElem] at h
  obtain ⟨hi, hp, hbefore⟩ := h
  refine ⟨⟨cs[i], by simp [hi], hp⟩, ?_⟩
  intro j hj c hc
  have hjl : j < cs.length := by omega
  have : cs[j]? = some cs[j] := List.getElem?_eq_getElem hjl
  rw [this] at hc; injection hc with hc; subst hc
  simpa using hbefore j hj

/-- no child passes ⇒ nothing is converted -/
theorem C10_switch_none (cs : List SwitchChild) (langs : List String)
    (h : switchChoice cs langs = none) : ∀ c ∈ cs, conditionPassed c langs = false := by
  unfold switchChoice at h
  rw [List.findIdx?_eq_none_iff] at h
  intro c hc; simpa using h c hc

/-! ### `a` is `g` -/

theorem C10_a_is_g : normTag "a" = "g" ∧ ∀ t, t ≠ "a" → normTag t = t := by
  refine ⟨by decide +kernel, ?_⟩
  intro t ht; unfold normTag; simp [ht]

/-! non-vacuity -/
example : Transform.mapPoint (useTransform (Transform.fromScale (2 : Rat) 2) 3 4 none) (1, 1) = (8, 10) := by
  decide +kernel

/-! ### an element's own group (opacity, transform, effects) is created exactly once

`convert_element` either hands an element to its own converter, or wraps the generic conversion in
`convert_group(node, …)`.  The converters of `use`, `switch` and nested `svg` create that group
themselves, from the same node.  `Generated.routedBeforeGroup` / `Generated.buildsOwnGroup` are read off
the current sources by the translator. -/

/-- how many groups carry the element's own opacity / transform / filter / mask / clip-path -/
def groupApplications (routed : List String) (own : List String) (tag : String) : Nat :=
  (if routed.contains tag then 0 else 1) + (if own.contains tag then 1 else 0)

/-- the opacity a reader of the tree sees for an element that asked for `o` -/
def seenOpacity (o : Rat) (applications : Nat) : Rat := o ^ applications

/-- **Every converted element kind gets its own group exactly once** (current sources): the elements
    that build their group themselves are exactly the ones routed past the generic wrapper. -/
theorem C10_own_group_once (tag : String) :
    groupApplications (Generated.routedBeforeGroup.map (·.1)) Generated.buildsOwnGroup tag = 1 := by
  unfold groupApplications
  have h : ∀ t : String, (Generated.routedBeforeGroup.map (·.1)).contains t = Generated.buildsOwnGroup.contains t := by
    intro t
    simp [Generated.routedBeforeGroup, Generated.buildsOwnGroup] <;> tauto
  rw [h tag]
  split <;> simp

/-- hence a nested `svg` (like `use`, `switch` and everything else) shows the opacity it asked for -/
theorem C10_nested_svg_effects_once (o : Rat) :
    seenOpacity o (groupApplications (Generated.routedBeforeGroup.map (·.1)) Generated.buildsOwnGroup "svg") = o := by
  rw [C10_own_group_once]; simp [seenOpacity]

/-- the routing before fix f95e0c7 (nested `svg` not routed past the wrapper) created the group
    twice: `opacity="0.5"` was seen as 0.25 -/
theorem C10_old_nested_svg_twice :
    groupApplications ["use", "switch"] ["use", "switch", "svg"] "svg" = 2 ∧
    seenOpacity (1/2) (groupApplications ["use", "switch"] ["use", "switch", "svg"] "svg") = 1/4 := by
  constructor
  · decide
  · have : groupApplications ["use", "switch"] ["use", "switch", "svg"] "svg" = 2 := by decide
    rw [this]; norm_num [seenOpacity]

/-! ### the size of a `use` of a symbol is resolved once

`<use width="50%">` of a symbol establishes a viewport of half the width of the viewport the `use` is in —
the same viewport as the `use` with that width written as a number.  `Generated.symbolSizeResolvedIn` is read
off the current sources by the translator: the state in which `viewbox_transform` and `get_clip_rect` resolve
the size (fix 6b5fe27). -/

/-- the clip rectangle, resolved in the state the sources name -/
def useSymbolClipAs (resolvedIn : String) (w h : Option Length) (vw vh : Rat) (env : LenEnv) : Option (Rat × Rat) :=
  if resolvedIn = "state" then useSymbolClip id w h vw vh env else useSymbolClipOld id w h vw vh env

/-- a percentage width on the `use` is the width written out -/
theorem C10_use_percent_width_is_absolute (p : Rat) (h : Option Length) (vw vh : Rat) (env : LenEnv) :
    useSymbolClip id (some ⟨p, .percent⟩) h vw vh env = useSymbolClip id (some ⟨vw * p / 100, .none⟩) h vw vh env := by
  simp [useSymbolClip, useNodeSize, convertLength]

/-- a percentage height on the `use` is the height written out -/
theorem C10_use_percent_height_is_absolute (p : Rat) (w : Option Length) (vw vh : Rat) (env : LenEnv) :
    useSymbolClip id w (some ⟨p, .percent⟩) vw vh env = useSymbolClip id w (some ⟨vh * p / 100, .none⟩) vw vh env := by
  simp [useSymbolClip, useNodeSize, convertLength]

/-- **Current sources**: both size computations of the symbol branch resolve the size in the state of the
    `use` element, so the percentage form and the written-out form give the same clip rectangle. -/
theorem C10_use_percent_size_once (p : Rat) (h : Option Length) (vw vh : Rat) (env : LenEnv) :
    ∀ e ∈ Generated.symbolSizeResolvedIn,
      useSymbolClipAs e.2 (some ⟨p, .percent⟩) h vw vh env =
      useSymbolClipAs e.2 (some ⟨vw * p / 100, .none⟩) h vw vh env := by
  intro e he
  have hs : e.2 = "state" := by
    simp [Generated.symbolSizeResolvedIn] at he
    rcases he with rfl | rfl <;> rfl
  simp only [useSymbolClipAs, hs, if_true]
  exact C10_use_percent_width_is_absolute p h vw vh env

/-- with both sides given, the clip rectangle is the viewport that percentages inside the symbol refer to -/
theorem C10_use_clip_is_viewport (w h : Length) (vw vh : Rat) (env : LenEnv) (s : Rat × Rat)
    (hc : useSymbolClip id (some w) (some h) vw vh env = some s) :
    useSymbolViewport id (some w) (some h) vw vh env = s := by
  unfold useSymbolClip useNodeSize at hc
  unfold useSymbolViewport
  simp only [Option.getD_some] at hc
  split_ifs at hc with hv
  · simp only [Option.some.injEq] at hc
    simp only [hv, if_true]
    exact hc

/-- hence a child's percentage is taken of the size the `use` asked for, once -/
theorem C10_use_child_percent (p q : Rat) (h : Length) (vw vh : Rat) (env : LenEnv) (s : Rat × Rat)
    (hc : useSymbolClip id (some ⟨p, .percent⟩) (some h) vw vh env = some s) :
    symbolChildLen id ⟨q, .percent⟩ (useSymbolViewport id (some ⟨p, .percent⟩) (some h) vw vh env).1 env
      = vw * p / 100 * q / 100 := by
  rw [C10_use_clip_is_viewport _ _ _ _ _ _ hc]
  unfold useSymbolClip useNodeSize at hc
  simp only [Option.getD_some] at hc
  split_ifs at hc
  simp only [Option.some.injEq] at hc
  subst hc
  simp [symbolChildLen, convertLength]

/-- every size used in the examples below is a finite `f32` -/
theorem small_le_maxFinite (x : Rat) (hx : x ≤ 16777215) : x ≤ F32.maxFinite := by
  have h1 : (1 : Rat) ≤ F32.pow2 104 := by
    unfold F32.pow2
    rw [if_pos (by decide)]
    have : 1 ≤ 2 ^ (104 : Int).toNat := Nat.one_le_two_pow
    exact_mod_cast this
  unfold F32.maxFinite
  have : (((2 ^ 24 - 1 : Nat) : Rat)) = 16777215 := by norm_num
  rw [this]
  nlinarith

/-- the sources before 6b5fe27 resolved the percentage twice: `width="50%" height="50%"` in a 200 × 200
    viewport gave a 50 × 50 clip rectangle instead of 100 × 100 -/
theorem C10_old_use_percent_twice :
    useSymbolClipAs "use_state" (some ⟨50, .percent⟩) (some ⟨50, .percent⟩) 200 200 ⟨96, 12⟩ = some (50, 50) ∧
    useSymbolClipAs "state" (some ⟨50, .percent⟩) (some ⟨50, .percent⟩) 200 200 ⟨96, 12⟩ = some (100, 100) := by
  have h100 : (100 : Rat) ≤ F32.maxFinite := small_le_maxFinite 100 (by norm_num)
  have h50 : (50 : Rat) ≤ F32.maxFinite := small_le_maxFinite 50 (by norm_num)
  have e1 : (200 : Rat) * 50 / 100 = 100 := by norm_num
  have e2 : (100 : Rat) * 50 / 100 = 50 := by norm_num
  constructor
  · simp [useSymbolClipAs, useSymbolClipOld, useSymbolViewport, useNodeSize, convertLength, validLen, e1, e2, h100, h50]
  · simp [useSymbolClipAs, useSymbolClip, useNodeSize, convertLength, validLen, e1, h100]

/-- non-vacuity: the clip rectangle exists for an ordinary `use` -/
example : useSymbolClip id (some ⟨50, .percent⟩) none 200 100 ⟨96, 12⟩ = some (100, 100) := by
  have h100 : (100 : Rat) ≤ F32.maxFinite := small_le_maxFinite 100 (by norm_num)
  have e1 : (200 : Rat) * 50 / 100 = 100 := by norm_num
  have e2 : (100 : Rat) * 100 / 100 = 100 := by norm_num
  simp [useSymbolClip, useNodeSize, convertLength, validLen, pct100, e1, e2, h100]

/-- `convert_svg` clears the size override of an enclosing `use` (fix 203fc52, read off the sources) -/
theorem C10_nested_svg_resets_use_size : Generated.nestedSvgResetsUseSize = true := by decide

end Resvg.Props.C10
