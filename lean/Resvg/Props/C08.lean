/-
  C08 — write then parse preserves the rendering (the numeric core).
  Model: Resvg/Writer/Num.lean (`write_num`).  What a re-parse can change in a tree is the numbers;
  the theorems bound how far a written coordinate can be from the tree's coordinate.
-/
import Mathlib.Tactic.Linarith
import Mathlib.Tactic.Positivity
import Mathlib.Algebra.Order.Floor.Ring
import Resvg.Writer.Num
import Resvg.Generated.WriterTables
import Resvg.Writer.Color
import Resvg.Lemmas.Basic

namespace Resvg.Props.C08
open Resvg Resvg.Writer

theorem roundHalfAway_close (q : Rat) : |((roundHalfAway q : Int) : Rat) - q| ≤ 1 / 2 := by
  unfold roundHalfAway
  split_ifs with h
  · rw [Lemmas.rat_floor_eq]
    have h1 := Int.floor_le (q + 1 / 2)
    have h2 := Int.lt_floor_add_one (q + 1 / 2)
    rw [abs_le]; constructor <;> linarith
  · rw [Lemmas.rat_floor_eq]
    have h1 := Int.floor_le (-q + 1 / 2)
    have h2 := Int.lt_floor_add_one (-q + 1 / 2)
    push_cast
    rw [abs_le]; constructor <;> linarith

/-- **C08 (written numbers stay close), any rounding with relative error ≤ ε, any scale P > 0**:
    the value that `write_num` writes for a non-integer `num` differs from `num` by at most half a
    unit of the chosen precision plus rounding noise proportional to `num`. -/
theorem C08_roundAt_close (r : Rat → Rat) (ε : Rat) (hε : 0 ≤ ε)
    (hr : ∀ x, |r x - x| ≤ ε * |x|) (P : Rat) (hP : 0 < P) (num : Rat) :
    |roundAt r P num - num| ≤ 1 / (2 * P) + ε * |num| + ε * ((1 + ε) * |num| + 1 / (2 * P)) := by
  unfold roundAt
  set a := r (num * P) with ha
  set n : Rat := ((roundHalfAway a : Int) : Rat) with hn
  have h1 : |a - num * P| ≤ ε * |num * P| := hr (num * P)
  have h2 : |n - a| ≤ 1 / 2 := roundHalfAway_close a
  have h3 : |r (n / P) - n / P| ≤ ε * |n / P| := hr (n / P)
  have habs : |num * P| = |num| * P := by rw [abs_mul, abs_of_pos hP]
  -- |n| ≤ (1+ε)|num|P + 1/2
  have hn_le : |n| ≤ (1 + ε) * (|num| * P) + 1 / 2 := by
    have : |n| ≤ |n - a| + |a - num * P| + |num * P| := by
      calc |n| = |(n - a) + (a - num * P) + num * P| := by ring_nf
        _ ≤ |(n - a) + (a - num * P)| + |num * P| := abs_add_le _ _
        _ ≤ |n - a| + |a - num * P| + |num * P| := by linarith [abs_add_le (n - a) (a - num * P)]
    rw [habs] at this h1
    nlinarith [abs_nonneg num]
  have hdiv : |n / P| = |n| / P := by rw [abs_div, abs_of_pos hP]
  -- n/P − num = ((n − a) + (a − num·P)) / P
  have hmid : |n / P - num| ≤ (1 / 2 + ε * (|num| * P)) / P := by
    have e : n / P - num = ((n - a) + (a - num * P)) / P := by field_simp; ring
    rw [e, abs_div, abs_of_pos hP]
    apply div_le_div_of_nonneg_right _ (le_of_lt hP)
    rw [habs] at h1
    linarith [abs_add_le (n - a) (a - num * P)]
  have hfin : |r (n / P) - num| ≤ ε * (|n| / P) + (1 / 2 + ε * (|num| * P)) / P := by
    have : |r (n / P) - num| ≤ |r (n / P) - n / P| + |n / P - num| := by
      calc |r (n / P) - num| = |(r (n / P) - n / P) + (n / P - num)| := by ring_nf
        _ ≤ _ := abs_add_le _ _
    rw [hdiv] at h3
    linarith
  have hP' : P ≠ 0 := ne_of_gt hP
  have e1 : (1 / 2 + ε * (|num| * P)) / P = 1 / (2 * P) + ε * |num| := by field_simp
  have e2 : ε * (|n| / P) ≤ ε * ((1 + ε) * |num| + 1 / (2 * P)) := by
    apply mul_le_mul_of_nonneg_left _ hε
    have : |n| / P ≤ ((1 + ε) * (|num| * P) + 1 / 2) / P := div_le_div_of_nonneg_right hn_le (le_of_lt hP)
    have e3 : ((1 + ε) * (|num| * P) + 1 / 2) / P = (1 + ε) * |num| + 1 / (2 * P) := by field_simp
    linarith
  linarith

theorem roundHalfAway_int (k : Int) : roundHalfAway (k : Rat) = k := by
  unfold roundHalfAway
  by_cases h : (0 : Rat) ≤ k
  · simp only [h, if_true, Lemmas.rat_floor_eq]
    have h1 : ⌊(k : ℚ) + 1 / 2⌋ = k := by
      rw [Int.floor_eq_iff]; constructor <;> push_cast <;> linarith
    exact h1
  · simp only [h, if_false, Lemmas.rat_floor_eq]
    have h1 : ⌊-(k : ℚ) + 1 / 2⌋ = -k := by
      rw [Int.floor_eq_iff]; constructor <;> push_cast <;> linarith
    rw [h1]; ring

/-- **a second round trip changes nothing further (exact arithmetic)**: a value that already has at
    most the chosen number of decimals (`x = k / P`) is written as itself, so what the first
    round trip produced is a fixed point of the second. -/
theorem C08_fixed_point (P : Rat) (hP : 0 < P) (k : Int) : roundAt id P ((k : Rat) / P) = (k : Rat) / P := by
  unfold roundAt
  simp only [id]
  have : (k : Rat) / P * P = k := by field_simp
  rw [this, roundHalfAway_int]

theorem C08_second_round_trip_exact (P : Rat) (hP : 0 < P) (x : Rat) :
    roundAt id P (roundAt id P x) = roundAt id P x := by
  unfold roundAt
  simp only [id]
  exact C08_fixed_point P hP _

/-- integers are written exactly — inside the i32 range through `as i32`, beyond it as they are -/
theorem C08_integers_exact (r : Rat → Rat) (p : Nat) (k : Int) :
    writeNumValue r p (k : Rat) = k := by
  unfold writeNumValue
  have hint : intLike (k : Rat) = true := by
    unfold intLike
    by_cases h : (0 : Rat) ≤ k
    · simp [h, Lemmas.rat_floor_eq]
    · simp only [h, if_false]
      have : ((-(k : Rat)).floor) = -k := by
        rw [Lemmas.rat_floor_eq]; simpa using Int.floor_intCast (R := ℚ) (-k)
      simp [this]
  simp only [hint, if_true]
  split_ifs with hr
  · have h1 : k < 2147483648 := by exact_mod_cast hr.1
    have h2 : -2147483648 < k := by exact_mod_cast hr.2
    unfold asI32
    by_cases h : (0 : Rat) ≤ k
    · simp only [h, if_true, Lemmas.rat_floor_eq, Int.floor_intCast]
      split_ifs <;> first | rfl | omega
    · simp only [h, if_false]
      have : ((-(k : Rat)).floor) = -k := by
        rw [Lemmas.rat_floor_eq]; simpa using Int.floor_intCast (R := ℚ) (-k)
      rw [this]
      simp only [neg_neg]
      split_ifs <;> first | rfl | omega
  · rfl

/-- before fix d6c230e the integer branch saturated outside the i32 range: 3·10⁹ was written as 2147483647 -/
theorem C08_old_large_integer_saturates :
    writeNumValueOld id 8 3000000000 = 2147483647 ∧ writeNumValue id 8 3000000000 = 3000000000 := by
  constructor <;> decide +kernel

example : roundAt id 100 (314159 / 100000) = 314 / 100 := by decide +kernel

/-! ### the table of `write_num`, regenerated from writer.rs on every run -/

/-- the table read off the source is the powers of ten `10^0 … 10^12`, and the index is clamped to it:
    so the model's `powVec` *is* the table lookup of the code, for every precision. A table with a
    missing, repeated or mistyped entry, or an unclamped index, breaks this theorem. -/
theorem C08_pow_table_is_model (p : Nat) :
    Generated.powVecIndexClamped = true ∧
    powVec id p = ((Generated.powVecTable.getD (min p (Generated.powVecTable.length - 1)) 0 : Nat) : Rat) := by
  refine ⟨by decide, ?_⟩
  have hlen : Generated.powVecTable.length - 1 = 12 := by decide
  rw [hlen]
  have hk : min p 12 ≤ 12 := Nat.min_le_right _ _
  have htab : ∀ k, k ≤ 12 → Generated.powVecTable.getD k 0 = 10 ^ k := by decide +kernel
  rw [htab _ hk]
  simp [powVec]

/-! ### colours -/

theorem hex_pair_round_trip (n : Nat) (h : n < 256) :
    hexVal (hexDigit (n / 16 % 16)) = some (n / 16) ∧ hexVal (hexDigit (n % 16)) = some (n % 16) := by
  have key : (List.range 256).all (fun n =>
      hexVal (hexDigit (n / 16 % 16)) == some (n / 16) && hexVal (hexDigit (n % 16)) == some (n % 16)) = true := by
    decide +kernel
  have := (List.all_eq_true.mp key) n (List.mem_range.mpr h)
  simpa using this

/-- **colours survive the round trip exactly**: what `write_color` writes for any 8-bit colour is read
    back by the `#rrggbb` branch of the colour parser as the same three channels -/
theorem C08_color_round_trip (r g b : Nat) (hr : r < 256) (hg : g < 256) (hb : b < 256) :
    parseHexColor (writeColor r g b) = some (r, g, b) := by
  obtain ⟨r1, r2⟩ := hex_pair_round_trip r hr
  obtain ⟨g1, g2⟩ := hex_pair_round_trip g hg
  obtain ⟨b1, b2⟩ := hex_pair_round_trip b hb
  simp only [writeColor, int2hex, List.cons_append, List.nil_append, parseHexColor, r1, r2, g1, g2, b1, b2]
  congr 2 <;> [skip; congr 1] <;> omega

/-- the table the translator reads off `write_color` is the model's, and the function has the modelled shape -/
theorem C08_color_table_is_model :
    Generated.colorHexChars.toList = hexChars ∧ Generated.colorWriterShape = true := by
  constructor <;> decide


end Resvg.Props.C08
