/-
  C08 — write then parse preserves the rendering (the numeric core).
  Model: Resvg/Writer/Num.lean (`write_num`).  What a re-parse can change in a tree is the numbers;
  the theorems bound how far a written coordinate can be from the tree's coordinate.
-/
import Mathlib.Tactic.Linarith
import Mathlib.Tactic.Positivity
import Mathlib.Algebra.Order.Floor.Ring
import Resvg.Writer.Num
import Resvg.Lemmas.Basic

namespace Resvg.Props.C08
open Resvg Resvg.Writer

theorem roundHalfAway_close (q : Rat) : |((roundHalfAway q : Int) : Rat) - q| ≤ 1 / 2 := by
  unfold roundHalfAway
  split_ifs with h
  · rw [Lemmas.rat_floor_eq]
    have h1 := Int.floor_le (q + 1 / 2)
    have h2 := Int.lt_floor_add_one (q + 1 / 2)
    rw [abs_le]; constructor <;> linarith
  · rw [Lemmas.rat_floor_eq]
    have h1 := Int.floor_le (-q + 1 / 2)
    have h2 := Int.lt_floor_add_one (-q + 1 / 2)
    push_cast
    rw [abs_le]; constructor <;> linarith

/-- **C08 (written numbers stay close), any rounding with relative error ≤ ε, any scale P > 0**:
    the value that `write_num` writes for a non-integer `num` differs from `num` by at most half a
    unit of the chosen precision plus rounding noise proportional to `num`. -/
theorem C08_roundAt_close (r : Rat → Rat) (ε : Rat) (hε : 0 ≤ ε)
    (hr : ∀ x, |r x - x| ≤ ε * |x|) (P : Rat) (hP : 0 < P) (num : Rat) :
    |roundAt r P num - num| ≤ 1 / (2 * P) + ε * |num| + ε * ((1 + ε) * |num| + 1 / (2 * P)) := by
  unfold roundAt
  set a := r (num * P) with ha
  set n : Rat := ((roundHalfAway a : Int) : Rat) with hn
  have h1 : |a - num * P| ≤ ε * |num * P| := hr (num * P)
  have h2 : |n - a| ≤ 1 / 2 := roundHalfAway_close a
  have h3 : |r (n / P) - n / P| ≤ ε * |n / P| := hr (n / P)
  have habs : |num * P| = |num| * P := by rw [abs_mul, abs_of_pos hP]
  -- |n| ≤ (1+ε)|num|P + 1/2
  have hn_le : |n| ≤ (1 + ε) * (|num| * P) + 1 / 2 := by
    have : |n| ≤ |n - a| + |a - num * P| + |num * P| := by
      calc |n| = |(n - a) + (a - num * P) + num * P| := by ring_nf
        _ ≤ |(n - a) + (a - num * P)| + |num * P| := abs_add_le _ _
        _ ≤ |n - a| + |a - num * P| + |num * P| := by linarith [abs_add_le (n - a) (a - num * P)]
    rw [habs] at this h1
    nlinarith [abs_nonneg num]
  have hdiv : |n / P| = |n| / P := by rw [abs_div, abs_of_pos hP]
  -- n/P − num = ((n − a) + (a − num·P)) / P
  have hmid : |n / P - num| ≤ (1 / 2 + ε * (|num| * P)) / P := by
    have e : n / P - num = ((n - a) + (a - num * P)) / P := by field_simp; ring
    rw [e, abs_div, abs_of_pos hP]
    apply div_le_div_of_nonneg_right _ (le_of_lt hP)
    rw [habs] at h1
    linarith [abs_add_le (n - a) (a - num * P)]
  have hfin : |r (n / P) - num| ≤ ε * (|n| / P) + (1 / 2 + ε * (|num| * P)) / P := by
    have : |r (n / P) - num| ≤ |r (n / P) - n / P| + |n / P - num| := by
      calc |r (n / P) - num| = |(r (n / P) - n / P) + (n / P - num)| := by ring_nf
        _ ≤ _ := abs_add_le _ _
    rw [hdiv] at h3
    linarith
  have hP' : P ≠ 0 := ne_of_gt hP
  have e1 : (1 / 2 + ε * (|num| * P)) / P = 1 / (2 * P) + ε * |num| := by field_simp
  have e2 : ε * (|n| / P) ≤ ε * ((1 + ε) * |num| + 1 / (2 * P)) := by
    apply mul_le_mul_of_nonneg_left _ hε
    have : |n| / P ≤ ((1 + ε) * (|num| * P) + 1 / 2) / P := div_le_div_of_nonneg_right hn_le (le_of_lt hP)
    have e3 : ((1 + ε) * (|num| * P) + 1 / 2) / P = (1 + ε) * |num| + 1 / (2 * P) := by field_simp
    linarith
  linarith

/-- integers inside the i32 range are written exactly -/
theorem C08_integers_exact (r : Rat → Rat) (p : Nat) (k : Int) (hk : -2147483648 ≤ k ∧ k ≤ 2147483647) :
    writeNumValue r p (k : Rat) = k := by
  unfold writeNumValue
  have hint : intLike (k : Rat) = true := by
    unfold intLike
    by_cases h : (0 : Rat) ≤ k
    · simp [h, Lemmas.rat_floor_eq]
    · simp only [h, if_false]
      have : ((-(k : Rat)).floor) = -k := by
        rw [Lemmas.rat_floor_eq]; simpa using Int.floor_intCast (R := ℚ) (-k)
      simp [this]
  simp only [hint, if_true]
  unfold asI32
  by_cases h : (0 : Rat) ≤ k
  · simp only [h, if_true, Lemmas.rat_floor_eq, Int.floor_intCast]
    split_ifs <;> first | rfl | omega
  · simp only [h, if_false]
    have : ((-(k : Rat)).floor) = -k := by
      rw [Lemmas.rat_floor_eq]; simpa using Int.floor_intCast (R := ℚ) (-k)
    rw [this]
    simp only [neg_neg]
    split_ifs <;> first | rfl | omega

/-- **outside the i32 range the integer branch saturates**: 3·10⁹ is written as 2147483647
    (recorded; invisible in the rendering, the coordinate is far outside any canvas) -/
theorem C08_large_integer_saturates : writeNumValue id 8 3000000000 = 2147483647 := by decide +kernel

example : roundAt id 100 (314159 / 100000) = 314 / 100 := by decide +kernel

end Resvg.Props.C08
