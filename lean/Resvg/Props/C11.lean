/-
  C11 — Content that SVG says is not rendered never influences the result.
  Models: Resvg/SvgTree/Build.lean (what enters the intermediate tree), Generated/ConvElems.lean
  (what `convert_element` converts).
  Proved: a node that is not a known SVG-namespace element produces nothing and consumes nothing,
  wherever it stands among its siblings; unknown / foreign attributes never reach the tree; the
  definition elements are not converted by `convert_element` (they are reached through references
  only).  The document-level statement additionally needs the id map and the `use` look-ahead to be
  unaffected (junk carries no ids and no SVG `use`): that part is a stated hypothesis here
  (`C11_junk_invisible_partial`) and is covered by the correspondence and the search.
-/
import Mathlib.Tactic.SplitIfs
import Resvg.SvgTree.Build
import Resvg.Generated.ConvElems

namespace Resvg.Props.C11
open Resvg Resvg.SvgTree

/-- comments, PIs, text, foreign-namespace elements, unknown elements -/
def isJunk (x : Xml) : Prop := tagName? x = none

theorem other_is_junk (n : Nat) : isJunk (.other n) := rfl
theorem foreign_is_junk (n : Nat) (name : String) (a : List XAttr) (cs : List Xml) :
    isJunk (.elem n false name a cs) := rfl
theorem unknown_is_junk (n : Nat) (name : String) (a : List XAttr) (cs : List Xml)
    (h : Generated.elementNames.contains name = false) : isJunk (.elem n true name a cs) := by
  unfold isJunk tagName?
  simp only [h, Bool.false_eq_true, if_false]

/-- **A junk node is invisible**: building it appends nothing and leaves the node count unchanged —
    whatever its subtree contains, at any depth within the limit. -/
theorem C11_junk_node (ctx : Ctx) (fuel : Nat) (j : Xml) (hj : isJunk j) (origin : Nat) (ig : Bool)
    (depth od : Nat) (anc : List (List Attr)) (us : List Nat) (out : Out)
    (hd : depth ≤ Generated.depthLimit) :
    buildNode ctx (fuel + 1) j origin ig depth od anc us out = .ok out := by
  unfold buildNode
  have : ¬ depth > Generated.depthLimit := by omega
  simp only [this, if_false]
  unfold isJunk at hj
  rw [hj]

/-- the fold over a child list that `parse_xml_node_children` performs -/
def buildChildren (ctx : Ctx) (fuel : Nat) (origin : Nat) (ig : Bool) (depth od : Nat)
    (anc : List (List Attr)) (us : List Nat) (cs : List Xml) (acc : Except BuildErr Out) : Except BuildErr Out :=
  cs.foldl (fun acc c => match acc with
    | .error e => .error e
    | .ok o => buildNode ctx fuel c origin ig depth od anc us o) acc

/-- **Junk among siblings is invisible**: inserting a junk node at any position of a child list
    gives the same tree and the same node count (same id map and look-ahead context). -/
theorem C11_junk_invisible_partial (ctx : Ctx) (fuel : Nat) (j : Xml) (hj : isJunk j) (origin : Nat)
    (ig : Bool) (depth od : Nat) (anc : List (List Attr)) (us : List Nat) (cs₁ cs₂ : List Xml)
    (acc : Except BuildErr Out) (hd : depth ≤ Generated.depthLimit) :
    buildChildren ctx (fuel + 1) origin ig depth od anc us (cs₁ ++ j :: cs₂) acc
      = buildChildren ctx (fuel + 1) origin ig depth od anc us (cs₁ ++ cs₂) acc := by
  unfold buildChildren
  rw [List.foldl_append, List.foldl_append, List.foldl_cons]
  congr 1
  cases h : List.foldl _ acc cs₁ with
  | error e => rfl
  | ok o => simp only; exact C11_junk_node ctx fuel j hj origin ig depth od anc us o hd

/-- inside a `text` element: everything that is not a span, link, reference or text path —
    comments, character data (kept as text nodes, not elements), foreign and unknown elements, and
    known elements such as `rect`, `g` or a nested `text` -/
def isTextJunk (x : Xml) : Prop :=
  match tagName? x with
  | none => True
  | some t0 => (let t1 := if t0 == "a" then "tspan" else t0; !(t1 == "tspan" || t1 == "tref" || t1 == "textPath")) = true

/-- **Junk inside a text element is invisible**: it adds no element, whatever its own content, at any
    position among the children of the `text` (or of a span) — e.g. `<text>a<rect><tspan/></rect>b</text>`
    has no span. -/
theorem C11_text_junk_invisible (fuel : Nat) (n : Nat) (ns : Bool) (name : String) (attrs : List XAttr)
    (j : Xml) (hj : isTextJunk j) (cs₁ cs₂ : List Xml) (ut : Bool) (depth od : Nat)
    (anc : List (List Attr)) (out : Out) (hd : depth ≤ Generated.depthLimit) :
    buildText (fuel + 1) (.elem n ns name attrs (cs₁ ++ j :: cs₂)) ut depth od anc out
      = buildText (fuel + 1) (.elem n ns name attrs (cs₁ ++ cs₂)) ut depth od anc out := by
  rw [buildText, buildText]
  simp only [Xml.children]
  rw [List.foldl_append, List.foldl_append, List.foldl_cons]
  congr 1
  cases h : List.foldl _ (Except.ok out) cs₁ with
  | error e => rfl
  | ok o =>
    simp only
    have hnd : ¬ depth > Generated.depthLimit := by omega
    simp only [hnd, if_false]
    unfold isTextJunk at hj
    cases ht : tagName? j with
    | none => rfl
    | some t0 =>
      simp only [ht] at hj
      simp only [hj, if_true]

/-- **Unknown and foreign attributes never reach the tree** (any position in the attribute list). -/
theorem C11_junk_attr_invisible (tag : String) (anc : List (List Attr)) (ig : Bool) (as₁ as₂ : List XAttr)
    (a : XAttr) (ha : a.1 = "other" ∨ isKnownAttr a.2.1 = false) :
    copyAttrs tag anc ig (as₁ ++ a :: as₂) = copyAttrs tag anc ig (as₁ ++ as₂) := by
  unfold copyAttrs
  rw [List.foldl_append, List.foldl_append, List.foldl_cons]
  congr 1
  rcases ha with h | h
  · simp [h]
  · by_cases h1 : (a.1 == "other") = true
    · simp [h1]
    · simp [h1, h]

/-- what `convert_element` lets through: graphic elements, `g`, `switch`, `svg` -/
def isConverted (tag : String) : Bool :=
  Generated.graphicElements.contains tag || Generated.convertedContainers.contains tag

/-- **Definitions are reached through references only**: none of the definition / container-only
    elements is converted when met in the document flow (so an unreferenced one cannot influence the
    tree except through the id registry, see C05). -/
theorem C11_defs_not_converted :
    ∀ t ∈ ["defs", "linearGradient", "radialGradient", "pattern", "clipPath", "mask", "filter", "marker",
           "symbol", "stop", "style", "title", "desc", "metadata", "feBlend", "feFlood", "feImage", "tspan", "textPath"],
      isConverted t = false := by decide +kernel

/-- every known element is either converted in the flow or one of the reference-only kinds -/
theorem C11_converted_are_exactly :
    Generated.elementNames.filter isConverted =
      ["circle", "ellipse", "g", "image", "line", "path", "polygon", "polyline", "rect", "svg", "switch", "text", "use"] := by
  decide +kernel

end Resvg.Props.C11
