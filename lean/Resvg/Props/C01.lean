/-
  C01 — Parsing is total.
  Models: Resvg/SvgTree/Build.lean (svgtree construction with the depth and node limits and `use`
  expansion), Resvg/SvgTree/Links.lean (`HrefIter`).
  Proved here: the recursion of the tree builder is bounded by the depth limit (the derived fuel is
  never exhausted), the number of nodes is bounded by the node limit, xlink:href chains end.
  Not reached by a theorem (searched in an isolated worker): roxmltree, simplecss, svgtypes, flate2,
  the numeric converters (their panics on non-finite values are listed as known findings).
-/
import Mathlib.Tactic.Linarith
import Mathlib.Tactic.SplitIfs
import Resvg.SvgTree.Build
import Resvg.Props.C03

namespace Resvg.Props.C01
open Resvg Resvg.SvgTree

theorem foldl_congr_mem {α β : Type} (f g : β → α → β) (l : List α) (b : β)
    (h : ∀ acc, ∀ a ∈ l, f acc a = g acc a) : l.foldl f b = l.foldl g b := by
  induction l generalizing b with
  | nil => rfl
  | cons a as ih =>
    simp only [List.foldl_cons]
    rw [h b a (List.mem_cons_self)]
    exact ih _ (fun acc x hx => h acc x (List.mem_cons_of_mem _ hx))

/-- **The derived fuel suffices.**  Every recursive call of the builder increases `depth`, and
    `depth > depthLimit` is an error before anything else happens; hence with
    `fuel + depth ≥ depthLimit + 2` one more unit of fuel changes nothing: the out-of-fuel branch is
    unreachable and the recursion depth (stack usage) is bounded by `depthLimit + 2` frames. -/
theorem C01_fuel_suffices (ctx : Ctx) (fuel : Nat) (node : Xml) (origin : Nat) (ig : Bool) (depth od : Nat)
    (anc : List (List Attr)) (us : List Nat) (out : Out)
    (h : Generated.depthLimit + 2 ≤ fuel + depth) :
    buildNode ctx fuel node origin ig depth od anc us out
      = buildNode ctx (fuel + 1) node origin ig depth od anc us out := by
  induction fuel generalizing node origin ig depth od anc us out with
  | zero =>
    have hd : depth > Generated.depthLimit := by omega
    simp [buildNode, hd]
  | succ f ih =>
    unfold buildNode
    by_cases hd : depth > Generated.depthLimit
    · simp only [hd, if_true]
    · simp only [hd, if_false]
      cases tagName? node with
      | none => rfl
      | some tag0 =>
        simp only
        by_cases h1 : (tag0 == "style") = true
        · simp only [h1, if_true]
        · simp only [h1, if_false]
          by_cases h2 : out.count > Generated.nodeLimit
          · simp only [h2, if_true]
          · simp only [h2, if_false]
            by_cases h3 : (normTag tag0 == "text") = true
            · simp only [h3, if_true]
            · simp only [h3, if_false]
              by_cases h4 : (normTag tag0 == "use") = true
              · simp only [h4, if_true]
                cases resolveHref ctx.idMap node with
                | none => rfl
                | some link =>
                  simp only
                  split_ifs <;> first | rfl | exact ih _ _ _ _ _ _ _ _ (by omega)
              · simp only [h4, if_false]
                apply foldl_congr_mem
                intro acc c _
                cases acc with
                | error e => rfl
                | ok o => exact ih _ _ _ _ _ _ _ _ (by omega)

/-- **The node limit bounds the tree.**  Whatever the document (any `use` expansion bomb), a
    successful build has at most `nodeLimit + 1` element nodes (+ the root node). -/
theorem C01_nodes_bounded (ctx : Ctx) (fuel : Nat) (node : Xml) (origin : Nat) (ig : Bool) (depth od : Nat)
    (anc : List (List Attr)) (us : List Nat) (out out' : Out)
    (hc : out.count ≤ Generated.nodeLimit + 1)
    (hb : buildNode ctx fuel node origin ig depth od anc us out = .ok out') :
    out'.count ≤ Generated.nodeLimit + 1 := by
  induction fuel generalizing node origin ig depth od anc us out out' with
  | zero => simp [buildNode] at hb
  | succ f ih =>
    unfold buildNode at hb
    by_cases hd : depth > Generated.depthLimit
    · simp [hd] at hb
    · simp only [hd, if_false] at hb
      cases htag : tagName? node with
      | none => simp only [htag] at hb; injection hb with hb; subst hb; exact hc
      | some tag0 =>
        simp only [htag] at hb
        by_cases h1 : (tag0 == "style") = true
        · simp only [h1, if_true] at hb; injection hb with hb; subst hb; exact hc
        · simp only [h1, if_false] at hb
          by_cases h2 : out.count > Generated.nodeLimit
          · simp only [h2, if_true] at hb; cases hb
          · simp only [h2, if_false] at hb
            have hc1 : out.count + 1 ≤ Generated.nodeLimit + 1 := by omega
            by_cases h3 : (normTag tag0 == "text") = true
            · simp only [h3, if_true] at hb; injection hb with hb; subst hb; exact hc1
            · simp only [h3, if_false] at hb
              by_cases h4 : (normTag tag0 == "use") = true
              · simp only [h4, if_true] at hb
                cases hl : resolveHref ctx.idMap node with
                | none => simp only [hl] at hb; injection hb with hb; subst hb; exact hc1
                | some link =>
                  simp only [hl] at hb
                  split_ifs at hb <;>
                    first
                    | (injection hb with hb; subst hb; exact hc1)
                    | (injection hb with hb; subst hb; simpa using hc1)
                    | exact ih _ _ _ _ _ _ _ _ _ hc1 hb
                    | (injection hb with hb; subst hb; omega)
              · simp only [h4, if_false] at hb
                -- generalised fold invariant
                have key : ∀ (anc' : List (List Attr)) (cs : List Xml) (acc : Except BuildErr Out),
                    (∀ o, acc = .ok o → o.count ≤ Generated.nodeLimit + 1) →
                    ∀ o', cs.foldl (fun acc c => match acc with
                      | .error e => .error e
                      | .ok o => buildNode ctx f c origin ig (depth + 1) (od + 1) anc' us o) acc = .ok o' →
                    o'.count ≤ Generated.nodeLimit + 1 := by
                  intro anc' cs
                  induction cs with
                  | nil => intro acc hacc o' ho'; exact hacc o' (by simpa using ho')
                  | cons c cs ihc =>
                    intro acc hacc o' ho'
                    simp only [List.foldl_cons] at ho'
                    apply ihc _ _ o' ho'
                    intro o ho
                    cases acc with
                    | error e => simp at ho
                    | ok o0 => exact ih _ _ _ _ _ _ _ _ _ (hacc o0 rfl) ho
                exact key _ _ _ (by intro o ho; injection ho with ho; subst ho; exact hc1) _ hb

/-- the document builder: at most `nodeLimit + 1` nodes besides the root -/
theorem C01_build_nodes_bounded (doc : Xml) (out : Out) (h : build doc = .ok out) :
    out.count ≤ Generated.nodeLimit + 1 := by
  unfold build at h
  exact C01_nodes_bounded _ _ _ _ _ _ _ _ _ _ _ (by simp [Generated.nodeLimit]) h

/-- xlink:href chains end (every `for … in href_iter()` loop of the converter terminates): the
    theorem of C03, restated for the parser -/
theorem C01_href_iter_terminates (n : Nat) (href : Nat → Option Nat)
    (hh : ∀ a b, href a = some b → b < n) (o : Nat) (ho : o < n) (fuel : Nat) :
    (HrefIter.collect href fuel (HrefIter.start o)).length ≤ n :=
  C03.C03_href_iter_terminates n href hh o ho fuel

end Resvg.Props.C01
