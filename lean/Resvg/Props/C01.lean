/-
  C01 — Parsing is total.
  Models: Resvg/SvgTree/Build.lean (svgtree construction with the depth and node limits and `use`
  expansion), Resvg/SvgTree/Links.lean (`HrefIter`).
  Proved here: the recursion of the tree builder is bounded by the depth limit (the derived fuel is
  never exhausted), the number of nodes is bounded by the node limit, xlink:href chains end.
  Not reached by a theorem (searched in an isolated worker): roxmltree, simplecss, svgtypes, flate2,
  the numeric converters (their panics on non-finite values are listed as known findings).
-/
import Mathlib.Tactic.Linarith
import Mathlib.Tactic.SplitIfs
import Resvg.SvgTree.Build
import Resvg.Props.C03
import Mathlib.Tactic.Positivity
import Mathlib.Tactic.NormNum
import Mathlib.Tactic.Ring
import Mathlib.Algebra.Order.AbsoluteValue.Basic
import Resvg.Tree.StrokeGuard
import Resvg.Generated.StrokeGuard

namespace Resvg.Props.C01
open Resvg Resvg.SvgTree

theorem foldl_congr_mem {α β : Type} (f g : β → α → β) (l : List α) (b : β)
    (h : ∀ acc, ∀ a ∈ l, f acc a = g acc a) : l.foldl f b = l.foldl g b := by
  induction l generalizing b with
  | nil => rfl
  | cons a as ih =>
    simp only [List.foldl_cons]
    rw [h b a (List.mem_cons_self)]
    exact ih _ (fun acc x hx => h acc x (List.mem_cons_of_mem _ hx))

/-- the text-content builder: one more unit of fuel changes nothing once `fuel + depth` covers the
    limit (calls are only made with `depth ≤ depthLimit + 1`: the check precedes every descent) -/
theorem C01_text_fuel_suffices (fuel : Nat) (parent : Xml) (ut : Bool) (depth od : Nat)
    (anc : List (List Attr)) (out : Out)
    (hd : depth ≤ Generated.depthLimit + 1)
    (h : Generated.depthLimit + 2 ≤ fuel + depth) :
    buildText fuel parent ut depth od anc out = buildText (fuel + 1) parent ut depth od anc out := by
  induction fuel generalizing parent ut depth od anc out with
  | zero => omega
  | succ f ih =>
    rw [buildText, buildText]
    apply foldl_congr_mem
    intro acc c _
    cases acc with
    | error e => rfl
    | ok o =>
      simp only
      by_cases hlim : depth > Generated.depthLimit
      · simp only [hlim, if_true]
      · simp only [hlim, if_false]
        cases tagName? c with
        | none => rfl
        | some tag0 =>
          simp only
          split_ifs <;> first | rfl | exact ih _ _ _ _ _ _ (by omega) (by omega)

/-- **The derived fuel suffices.**  Every recursive call of the builder increases `depth`, and
    `depth > depthLimit` is an error before anything else happens; hence with
    `fuel + depth ≥ depthLimit + 2` one more unit of fuel changes nothing: the out-of-fuel branch is
    unreachable and the recursion depth (stack usage) is bounded by `depthLimit + 2` frames. -/
theorem C01_fuel_suffices (ctx : Ctx) (fuel : Nat) (node : Xml) (origin : Nat) (ig : Bool) (depth od : Nat)
    (anc : List (List Attr)) (us : List Nat) (out : Out)
    (h : Generated.depthLimit + 2 ≤ fuel + depth) :
    buildNode ctx fuel node origin ig depth od anc us out
      = buildNode ctx (fuel + 1) node origin ig depth od anc us out := by
  induction fuel generalizing node origin ig depth od anc us out with
  | zero =>
    have hd : depth > Generated.depthLimit := by omega
    simp [buildNode, hd]
  | succ f ih =>
    unfold buildNode
    by_cases hd : depth > Generated.depthLimit
    · simp only [hd, if_true]
    · simp only [hd, if_false]
      cases tagName? node with
      | none => rfl
      | some tag0 =>
        simp only
        by_cases h1 : (tag0 == "style") = true
        · simp only [h1, if_true]
        · simp only [h1, if_false]
          by_cases h2 : out.count > Generated.nodeLimit
          · simp only [h2, if_true]
          · simp only [h2, if_false]
            by_cases h3 : (normTag tag0 == "text") = true
            · simp only [h3, if_true]
              exact C01_text_fuel_suffices _ _ _ _ _ _ _ (by omega) (by omega)
            · simp only [h3, if_false]
              by_cases h4 : (normTag tag0 == "use") = true
              · simp only [h4, if_true]
                cases resolveHref ctx.idMap node with
                | none => rfl
                | some link =>
                  simp only
                  split_ifs <;> first | rfl | exact ih _ _ _ _ _ _ _ _ (by omega)
              · simp only [h4, if_false]
                apply foldl_congr_mem
                intro acc c _
                cases acc with
                | error e => rfl
                | ok o => exact ih _ _ _ _ _ _ _ _ (by omega)

/-- the text-content builder keeps the node count within the limit -/
theorem C01_text_nodes_bounded (fuel : Nat) (parent : Xml) (ut : Bool) (depth od : Nat)
    (anc : List (List Attr)) (out out' : Out)
    (hc : out.count ≤ Generated.nodeLimit + 1)
    (hb : buildText fuel parent ut depth od anc out = .ok out') :
    out'.count ≤ Generated.nodeLimit + 1 := by
  induction fuel generalizing parent ut depth od anc out out' with
  | zero => simp [buildText] at hb
  | succ f ih =>
    rw [buildText] at hb
    -- generalised fold invariant
    revert hb
    generalize hcs : parent.children = cs
    clear hcs
    have key : ∀ (cs : List Xml) (acc : Except BuildErr Out),
        (∀ o, acc = .ok o → o.count ≤ Generated.nodeLimit + 1) →
        ∀ o', cs.foldl (fun acc c =>
          match acc with
          | .error e => .error e
          | .ok o =>
            if depth > Generated.depthLimit then .error .nodesLimit
            else
              match tagName? c with
              | none => .ok o
              | some tag0 =>
                let tag1 := if tag0 == "a" then "tspan" else tag0
                if !(tag1 == "tspan" || tag1 == "tref" || tag1 == "textPath") then .ok o
                else if tag1 == "textPath" && !ut then .ok o
                else
                  let isTref := tag1 == "tref"
                  let tag := if isTref then "tspan" else tag1
                  let attrs := copyAttrs tag anc false (xmlAttrs c)
                  if o.count > Generated.nodeLimit then .error .nodesLimit
                  else
                    let o1 : Out := { nodes := o.nodes ++ [(od, tag, attrs)], count := o.count + 1 }
                    if isTref then .ok o1
                    else buildText f c false (depth + 1) (od + 1) (attrs :: anc) o1) acc = .ok o' →
        o'.count ≤ Generated.nodeLimit + 1 := by
      intro cs
      induction cs with
      | nil => intro acc hacc o' ho'; exact hacc o' (by simpa using ho')
      | cons c cs ihc =>
        intro acc hacc o' ho'
        simp only [List.foldl_cons] at ho'
        apply ihc _ _ o' ho'
        intro o ho
        cases acc with
        | error e => simp at ho
        | ok o0 =>
          have h0 := hacc o0 rfl
          simp only at ho
          by_cases hlim : depth > Generated.depthLimit
          · simp [hlim] at ho
          · simp only [hlim, if_false] at ho
            cases htag : tagName? c with
            | none => simp only [htag] at ho; injection ho with ho; subst ho; exact h0
            | some tag0 =>
              simp only [htag] at ho
              split_ifs at ho <;>
                first
                | (injection ho with ho; subst ho; exact h0)
                | (injection ho with ho; subst ho; simp only; omega)
                | exact ih _ _ _ _ _ _ _ (by simp only; omega) ho
    intro hb
    exact key cs _ (by intro o ho; injection ho with ho; subst ho; exact hc) _ hb

/-- **The node limit bounds the tree.**  Whatever the document (any `use` expansion bomb), a
    successful build has at most `nodeLimit + 1` element nodes (+ the root node). -/
theorem C01_nodes_bounded (ctx : Ctx) (fuel : Nat) (node : Xml) (origin : Nat) (ig : Bool) (depth od : Nat)
    (anc : List (List Attr)) (us : List Nat) (out out' : Out)
    (hc : out.count ≤ Generated.nodeLimit + 1)
    (hb : buildNode ctx fuel node origin ig depth od anc us out = .ok out') :
    out'.count ≤ Generated.nodeLimit + 1 := by
  induction fuel generalizing node origin ig depth od anc us out out' with
  | zero => simp [buildNode] at hb
  | succ f ih =>
    unfold buildNode at hb
    by_cases hd : depth > Generated.depthLimit
    · simp [hd] at hb
    · simp only [hd, if_false] at hb
      cases htag : tagName? node with
      | none => simp only [htag] at hb; injection hb with hb; subst hb; exact hc
      | some tag0 =>
        simp only [htag] at hb
        by_cases h1 : (tag0 == "style") = true
        · simp only [h1, if_true] at hb; injection hb with hb; subst hb; exact hc
        · simp only [h1, if_false] at hb
          by_cases h2 : out.count > Generated.nodeLimit
          · simp only [h2, if_true] at hb; cases hb
          · simp only [h2, if_false] at hb
            have hc1 : out.count + 1 ≤ Generated.nodeLimit + 1 := by omega
            by_cases h3 : (normTag tag0 == "text") = true
            · simp only [h3, if_true] at hb
              exact C01_text_nodes_bounded _ _ _ _ _ _ _ _ (by simpa using hc1) hb
            · simp only [h3, if_false] at hb
              by_cases h4 : (normTag tag0 == "use") = true
              · simp only [h4, if_true] at hb
                cases hl : resolveHref ctx.idMap node with
                | none => simp only [hl] at hb; injection hb with hb; subst hb; exact hc1
                | some link =>
                  simp only [hl] at hb
                  split_ifs at hb <;>
                    first
                    | (injection hb with hb; subst hb; exact hc1)
                    | (injection hb with hb; subst hb; simpa using hc1)
                    | exact ih _ _ _ _ _ _ _ _ _ hc1 hb
                    | (injection hb with hb; subst hb; omega)
              · simp only [h4, if_false] at hb
                -- generalised fold invariant
                have key : ∀ (anc' : List (List Attr)) (cs : List Xml) (acc : Except BuildErr Out),
                    (∀ o, acc = .ok o → o.count ≤ Generated.nodeLimit + 1) →
                    ∀ o', cs.foldl (fun acc c => match acc with
                      | .error e => .error e
                      | .ok o => buildNode ctx f c origin ig (depth + 1) (od + 1) anc' us o) acc = .ok o' →
                    o'.count ≤ Generated.nodeLimit + 1 := by
                  intro anc' cs
                  induction cs with
                  | nil => intro acc hacc o' ho'; exact hacc o' (by simpa using ho')
                  | cons c cs ihc =>
                    intro acc hacc o' ho'
                    simp only [List.foldl_cons] at ho'
                    apply ihc _ _ o' ho'
                    intro o ho
                    cases acc with
                    | error e => simp at ho
                    | ok o0 => exact ih _ _ _ _ _ _ _ _ _ (hacc o0 rfl) ho
                exact key _ _ _ (by intro o ho; injection ho with ho; subst ho; exact hc1) _ hb

/-- the document builder: at most `nodeLimit + 1` nodes besides the root -/
theorem C01_build_nodes_bounded (doc : Xml) (out : Out) (h : build doc = .ok out) :
    out.count ≤ Generated.nodeLimit + 1 := by
  unfold build at h
  exact C01_nodes_bounded _ _ _ _ _ _ _ _ _ _ _ (by simp [Generated.nodeLimit]) h

/-- xlink:href chains end (every `for … in href_iter()` loop of the converter terminates): the
    theorem of C03, restated for the parser -/
theorem C01_href_iter_terminates (n : Nat) (href : Nat → Option Nat)
    (hh : ∀ a b, href a = some b → b < n) (o : Nat) (ho : o < n) (fuel : Nat) :
    (HrefIter.collect href fuel (HrefIter.start o)).length ≤ n :=
  C03.C03_href_iter_terminates n href hh o ho fuel

/-! ### the size guard in front of the stroker (fix 1f07717): no overflow inside `find_quad_max_curvature` -/
section StrokeGuard
open Resvg.Tree

section
variable (r : Rat → Rat) (e : Rat)

theorem rb (he : 0 ≤ e) (hr : ∀ x, |r x| ≤ (1 + e) * |x|) {x a : Rat} (h : |x| ≤ a) : |r x| ≤ (1 + e) * a :=
  le_trans (hr x) (mul_le_mul_of_nonneg_left h (by linarith))

theorem quadA_bound (he : 0 ≤ e) (hr : ∀ x, |r x| ≤ (1 + e) * |x|) (L c0 c1 : Rat)
    (h0 : |c0| ≤ L) (h1 : |c1| ≤ L) : |quadA r c0 c1| ≤ (1 + e) * (2 * L) := by
  unfold quadA
  apply rb r e he hr
  calc |c1 - c0| ≤ |c1| + |c0| := abs_sub _ _
    _ ≤ 2 * L := by linarith

theorem quadB_bound (he : 0 ≤ e) (hr : ∀ x, |r x| ≤ (1 + e) * |x|) (L c0 c1 c2 : Rat) (hL : 0 ≤ L)
    (h0 : |c0| ≤ L) (h1 : |c1| ≤ L) (h2 : |c2| ≤ L) : |quadB r c0 c1 c2| ≤ (1 + e) ^ 3 * (4 * L) := by
  unfold quadB
  have s1 : |r (c0 - c1)| ≤ (1 + e) * (2 * L) := by
    apply rb r e he hr
    calc |c0 - c1| ≤ |c0| + |c1| := abs_sub _ _
      _ ≤ 2 * L := by linarith
  have e1 : (1 : Rat) ≤ 1 + e := by linarith
  have s2 : |r (r (c0 - c1) - c1)| ≤ (1 + e) * ((1 + e) * (3 * L)) := by
    apply rb r e he hr
    calc |r (c0 - c1) - c1| ≤ |r (c0 - c1)| + |c1| := abs_sub _ _
      _ ≤ (1 + e) * (2 * L) + L := by linarith
      _ ≤ (1 + e) * (2 * L) + (1 + e) * L := by
          have h2 : 0 ≤ e * L := mul_nonneg he hL
          have h1 : (1 + e) * L = L + e * L := by ring
          linarith
      _ = (1 + e) * (3 * L) := by ring
  have s3 : |r (r (r (c0 - c1) - c1) + c2)| ≤ (1 + e) * ((1 + e) * ((1 + e) * (4 * L))) := by
    apply rb r e he hr
    have hp : 0 ≤ (1 + e) * ((1 + e) * L) := by positivity
    calc |r (r (c0 - c1) - c1) + c2| ≤ |r (r (c0 - c1) - c1)| + |c2| := abs_add_le _ _
      _ ≤ (1 + e) * ((1 + e) * (3 * L)) + L := by linarith
      _ ≤ (1 + e) * ((1 + e) * (3 * L)) + (1 + e) * ((1 + e) * L) := by
          have h1 : (1 + e) * ((1 + e) * L) = L + (2 * (e * L) + e * (e * L)) := by ring
          have h2 : 0 ≤ e * L := mul_nonneg he hL
          have h3 : 0 ≤ e * (e * L) := mul_nonneg he h2
          linarith
      _ = (1 + e) * ((1 + e) * (4 * L)) := by ring
  calc _ ≤ (1 + e) * ((1 + e) * ((1 + e) * (4 * L))) := s3
    _ = (1 + e) ^ 3 * (4 * L) := by ring
end

section
variable (r : Rat → Rat) (e : Rat)

theorem prod_bound (he : 0 ≤ e) (hr : ∀ x, |r x| ≤ (1 + e) * |x|) {u v a b : Rat}
    (hu : |u| ≤ a) (hv : |v| ≤ b) : |r (u * v)| ≤ (1 + e) * (a * b) := by
  apply rb r e he hr
  rw [abs_mul]
  exact mul_le_mul hu hv (abs_nonneg _) (le_trans (abs_nonneg _) hu)

theorem absOf {L c : Rat} (h1 : -L ≤ c) (h2 : c ≤ L) : |c| ≤ L := abs_le.mpr ⟨h1, h2⟩

/-- every intermediate of `find_quad_max_curvature` is bounded by `32 L² (1+e)^8` for points within `±L` -/
theorem C01_stroker_quad_intermediates_bounded (he : 0 ≤ e) (hr : ∀ x, |r x| ≤ (1 + e) * |x|) (L : Rat) (hL : 0 ≤ L) (p0 p1 p2 : Pt)
    (h0 : withinLimit L p0) (h1 : withinLimit L p1) (h2 : withinLimit L p2) :
    |quadNumer r p0 p1 p2| ≤ (1 + e) ^ 6 * (16 * L ^ 2) ∧ |quadDenom r p0 p1 p2| ≤ (1 + e) ^ 8 * (32 * L ^ 2) := by
  obtain ⟨a0, a1, a2, a3⟩ := h0
  obtain ⟨b0, b1, b2, b3⟩ := h1
  obtain ⟨c0, c1, c2, c3⟩ := h2
  have x0 := absOf a0 a1; have y0 := absOf a2 a3
  have x1 := absOf b0 b1; have y1 := absOf b2 b3
  have x2 := absOf c0 c1; have y2 := absOf c2 c3
  have ax := quadA_bound r e he hr L _ _ x0 x1
  have ay := quadA_bound r e he hr L _ _ y0 y1
  have bx := quadB_bound r e he hr L _ _ _ hL x0 x1 x2
  have by_ := quadB_bound r e he hr L _ _ _ hL y0 y1 y2
  have e1 : (0 : Rat) ≤ 1 + e := by linarith
  constructor
  · unfold quadNumer
    rw [abs_neg]
    have p1 := prod_bound r e he hr ax bx
    have p2 := prod_bound r e he hr ay by_
    have s := rb r e he hr (le_trans (abs_add_le _ _) (add_le_add p1 p2))
    calc _ ≤ _ := s
      _ = (1 + e) ^ 6 * (16 * L ^ 2) := by ring
  · unfold quadDenom
    have p1 := prod_bound r e he hr bx bx
    have p2 := prod_bound r e he hr by_ by_
    have s := rb r e he hr (le_trans (abs_add_le _ _) (add_le_add p1 p2))
    calc _ ≤ _ := s
      _ = (1 + e) ^ 8 * (32 * L ^ 2) := by ring

/-- with the limit the translator reads off `can_be_stroked` and f32's unit round-off `2^-23` as `e`, the
    bounds stay below `f32::MAX`: no intermediate overflows, so `numer / denom` is never `inf / inf` -/
theorem C01_stroke_limit_below_f32_max : (1 + 1 / 2 ^ 23 : Rat) ^ 8 * (32 * (Generated.strokeLimit : Rat) ^ 2) < f32Max := by
  unfold Generated.strokeLimit f32Max
  norm_num
end

/-- the guard is where the translator expects it: `Path::new` filters the stroke before the stroker is
    used, all four sides of the bounds are compared, and nothing else in the two libraries strokes a path -/
theorem C01_stroke_guard_in_place :
    Generated.strokeGuardInstalled = true ∧ Generated.strokeGuardSides = [true, true, true, true] ∧
    Generated.strokerCallers.length = 1 := by
  refine ⟨by decide, by decide, by decide⟩

/-- without the guard: the quad `(0,0) (1e20,1e20) (4e20,0)` of findings/C01/huge-quad-stroke.svg has
    `ax·bx = 2e40`, beyond `f32::MAX`: the product is infinite, `numer` is `inf - inf`, the ratio NaN -/
theorem C01_unguarded_quad_overflows :
    f32Max < quadA id 0 (10 ^ 20) * quadB id 0 (10 ^ 20) (4 * 10 ^ 20) ∧
    ¬ withinLimit (Generated.strokeLimit : Rat) ⟨10 ^ 20, 10 ^ 20⟩ := by
  constructor
  · unfold f32Max quadA quadB; norm_num
  · unfold withinLimit Generated.strokeLimit; norm_num

example : withinLimit (Generated.strokeLimit : Rat) ⟨-5 * 10 ^ 17, 10 ^ 18⟩ := by
  unfold withinLimit Generated.strokeLimit; norm_num
end StrokeGuard

/-! ### the recorded finding `slow:definition-dag`, as a theorem about the converter's recursion

The cycle guard bounds the *depth* of the conversion, not the number of conversions: a definition
that is not shared (bounding-box units) is converted once per user.  In the reference graph where each
of `n` definitions is used twice by the next one — a document of `n + 1` elements and `2 n`
references — converting the last definition visits `2^(n+1) − 1` elements.  The property's time budget
"proportional to the input size" is therefore false of the model (and of the code: known finding). -/

open Resvg.Convert in
/-- definitions `0 … n`: definition `e + 1` uses definition `e` twice; all are guarded definitions -/
def dagGraph : RefGraph :=
  { succ := fun e => if e = 0 then [] else [e - 1, e - 1], marked := fun _ => true }

open Resvg.Convert in
theorem C01_definition_dag_visits_exponential (e : Nat) :
    ∀ (fuel : Nat) (st : List Nat), (∀ x ∈ st, e < x) → e + 1 ≤ fuel →
      visit dagGraph fuel st e = some (2 ^ (e + 1) - 1) := by
  induction e with
  | zero =>
    intro fuel st hst hf
    obtain ⟨f, rfl⟩ : ∃ f, fuel = f + 1 := ⟨fuel - 1, by omega⟩
    have hn : (0 : Nat) ∉ st := fun h => by have := hst 0 h; omega
    simp [visit, dagGraph, enterDef, hn, sumOpt]
  | succ k ih =>
    intro fuel st hst hf
    obtain ⟨f, rfl⟩ : ∃ f, fuel = f + 1 := ⟨fuel - 1, by omega⟩
    have hn : (k + 1) ∉ st := fun h => by have := hst (k + 1) h; omega
    have hst' : ∀ x ∈ (k + 1) :: st, k < x := by
      intro x hx
      rcases List.mem_cons.mp hx with h | h
      · omega
      · have := hst x h; omega
    have hv := ih f ((k + 1) :: st) hst' (by omega)
    have hp : 1 ≤ 2 ^ (k + 1) := Nat.one_le_two_pow
    have h1 : visit dagGraph (f + 1) st (k + 1) =
        (sumOpt ([k, k].map (fun c => visit dagGraph f ((k + 1) :: st) c))).map (· + 1) := by
      simp [visit, dagGraph, enterDef, hn]
    rw [h1]
    simp only [List.map_cons, List.map_nil, hv, sumOpt, List.foldl_cons, List.foldl_nil, Option.map_some]
    congr 1
    rw [pow_succ 2 (k + 1)]
    omega

open Resvg.Convert in
/-- 26 definitions (the recorded witness, about 5 KB): 134 217 727 visits; the depth guard is no help -/
theorem C01_definition_dag_26 : visit dagGraph 27 [] 26 = some 134217727 := by
  rw [C01_definition_dag_visits_exponential 26 27 [] (by simp) (by omega)]
  norm_num

end Resvg.Props.C01
