/-
  C20 — the command-line tool is a faithful wrapper: the documented size rules.
  Model: Resvg/Cli/FitTo.lean.
-/
import Mathlib.Tactic.Linarith
import Mathlib.Tactic.SplitIfs
import Mathlib.Algebra.Order.Floor.Ring
import Resvg.Cli.FitTo
import Resvg.Lemmas.Basic

namespace Resvg.Props.C20
open Resvg Resvg.Cli

theorem ceilI_ge (q : Rat) : q ≤ (ceilI q : Rat) := by
  unfold ceilI
  rw [Lemmas.rat_floor_eq]
  have := Int.floor_le (-q)
  push_cast
  linarith

theorem ceilI_lt (q : Rat) : (ceilI q : Rat) < q + 1 := by
  unfold ceilI
  rw [Lemmas.rat_floor_eq]
  have := Int.lt_floor_add_one (-q)
  push_cast
  linarith

/-- **-w W**: the output is exactly `W` pixels wide, and its height is the aspect-preserving height
    rounded up (exact arithmetic): `h·W/w ≤ H < h·W/w + 1`. -/
theorem C20_width_rule (w h W : Nat) (hw : 0 < w) (hh : 0 < h) (hW : 0 < W) :
    ∃ H, fitToSize id (.width W) (w, h) = some (W, H) ∧
      (W : Rat) * h / w ≤ H ∧ (H : Rat) < (W : Rat) * h / w + 1 := by
  have hq : (0 : Rat) < (W : Rat) * h / w := by positivity
  have hc := ceilI_ge ((W : Rat) * h / w)
  have hc2 := ceilI_lt ((W : Rat) * h / w)
  have hpos : 0 < ceilI ((W : Rat) * h / w) := by
    have : (0 : Rat) < (ceilI ((W : Rat) * h / w) : Rat) := lt_of_lt_of_le hq hc
    exact_mod_cast this
  refine ⟨asU32 (ceilI ((W : Rat) * h / w)), ?_, ?_, ?_⟩
  · simp only [fitToSize, scaleToWidth, id, intSize]
    have : asU32 (ceilI ((W : Rat) * h / w)) ≠ 0 := by
      unfold asU32; omega
    simp [Nat.pos_iff_ne_zero.mp hW, this]
  · have : ((asU32 (ceilI ((W : Rat) * h / w)) : Nat) : Rat) = (ceilI ((W : Rat) * h / w) : Rat) := by
      unfold asU32; exact_mod_cast Int.toNat_of_nonneg (le_of_lt hpos)
    rw [this]; exact hc
  · have : ((asU32 (ceilI ((W : Rat) * h / w)) : Nat) : Rat) = (ceilI ((W : Rat) * h / w) : Rat) := by
      unfold asU32; exact_mod_cast Int.toNat_of_nonneg (le_of_lt hpos)
    rw [this]; exact hc2

/-- **-w W -h H**: the output fits into `W × H` and touches it on one side. -/
theorem C20_size_rule_fits (w h W H : Nat) (hw : 0 < w) (hh : 0 < h) (hW : 0 < W) (hH : 0 < H) :
    ∃ ow oh, fitToSize id (.size W H) (w, h) = some (ow, oh) ∧ (ow = W ∨ oh = H) ∧ ow ≤ W := by
  simp only [fitToSize, intSize, Nat.pos_iff_ne_zero.mp hW, Nat.pos_iff_ne_zero.mp hH, or_self, if_false,
    Option.map_some, scaleTo, id]
  split_ifs with hc
  · exact ⟨_, _, rfl, Or.inl rfl, le_refl _⟩
  · exact ⟨_, _, rfl, Or.inr rfl, by omega⟩

/-- without size options the document size is the image size -/
theorem C20_original (s : Nat × Nat) : fitToSize id .original s = some s := rfl

/-- a zero width or height is refused (the command then exits with an error) -/
theorem C20_zero_refused (s : Nat × Nat) (h : Nat) :
    fitToSize id (.size 0 h) s = none ∧ fitToSize id (.width 0) s = none := by
  simp [fitToSize, intSize, scaleToWidth]

example : fitToSize id (.width 300) (200, 100) = some (300, 150) := by decide +kernel
example : fitToSize id (.size 50 50) (200, 100) = some (50, 25) := by decide +kernel
example : fitToSize id (.zoom (3 / 2)) (33, 11) = some (50, 17) := by decide +kernel

end Resvg.Props.C20
