/-
  C20 — the command-line tool is a faithful wrapper: the documented size rules.
  Model: Resvg/Cli/FitTo.lean.
-/
import Mathlib.Tactic.Linarith
import Mathlib.Tactic.SplitIfs
import Mathlib.Tactic.FieldSimp
import Mathlib.Algebra.Order.Floor.Ring
import Resvg.Cli.FitTo
import Resvg.Lemmas.Basic
import Resvg.Props.C08

namespace Resvg.Props.C20
open Resvg Resvg.Cli

theorem ceilI_ge (q : Rat) : q ≤ (ceilI q : Rat) := by
  unfold ceilI
  rw [Lemmas.rat_floor_eq]
  have := Int.floor_le (-q)
  push_cast
  linarith

theorem ceilI_lt (q : Rat) : (ceilI q : Rat) < q + 1 := by
  unfold ceilI
  rw [Lemmas.rat_floor_eq]
  have := Int.lt_floor_add_one (-q)
  push_cast
  linarith

/-- **-w W**: the output is exactly `W` pixels wide, and its height is the aspect-preserving height
    rounded up (exact arithmetic): `h·W/w ≤ H < h·W/w + 1`. -/
theorem C20_width_rule (w h W : Nat) (hw : 0 < w) (hh : 0 < h) (hW : 0 < W) :
    ∃ H, fitToSize id (.width W) (w, h) = some (W, H) ∧
      (W : Rat) * h / w ≤ H ∧ (H : Rat) < (W : Rat) * h / w + 1 := by
  have hq : (0 : Rat) < (W : Rat) * h / w := by positivity
  have hc := ceilI_ge ((W : Rat) * h / w)
  have hc2 := ceilI_lt ((W : Rat) * h / w)
  have hpos : 0 < ceilI ((W : Rat) * h / w) := by
    have : (0 : Rat) < (ceilI ((W : Rat) * h / w) : Rat) := lt_of_lt_of_le hq hc
    exact_mod_cast this
  refine ⟨asU32 (ceilI ((W : Rat) * h / w)), ?_, ?_, ?_⟩
  · simp only [fitToSize, scaleToWidth, id, intSize]
    have : asU32 (ceilI ((W : Rat) * h / w)) ≠ 0 := by
      unfold asU32; omega
    simp [Nat.pos_iff_ne_zero.mp hW, this]
  · have : ((asU32 (ceilI ((W : Rat) * h / w)) : Nat) : Rat) = (ceilI ((W : Rat) * h / w) : Rat) := by
      unfold asU32; exact_mod_cast Int.toNat_of_nonneg (le_of_lt hpos)
    rw [this]; exact hc
  · have : ((asU32 (ceilI ((W : Rat) * h / w)) : Nat) : Rat) = (ceilI ((W : Rat) * h / w) : Rat) := by
      unfold asU32; exact_mod_cast Int.toNat_of_nonneg (le_of_lt hpos)
    rw [this]; exact hc2

/-- **-h H**: symmetric to the width rule. -/
theorem C20_height_rule (w h H : Nat) (hw : 0 < w) (hh : 0 < h) (hH : 0 < H) :
    ∃ W, fitToSize id (.height H) (w, h) = some (W, H) ∧
      (H : Rat) * w / h ≤ W ∧ (W : Rat) < (H : Rat) * w / h + 1 := by
  have hq : (0 : Rat) < (H : Rat) * w / h := by positivity
  have hc := ceilI_ge ((H : Rat) * w / h)
  have hc2 := ceilI_lt ((H : Rat) * w / h)
  have hpos : 0 < ceilI ((H : Rat) * w / h) := by
    have : (0 : Rat) < (ceilI ((H : Rat) * w / h) : Rat) := lt_of_lt_of_le hq hc
    exact_mod_cast this
  have hcast : ((asU32 (ceilI ((H : Rat) * w / h)) : Nat) : Rat) = (ceilI ((H : Rat) * w / h) : Rat) := by
    unfold asU32; exact_mod_cast Int.toNat_of_nonneg (le_of_lt hpos)
  refine ⟨asU32 (ceilI ((H : Rat) * w / h)), ?_, ?_, ?_⟩
  · simp only [fitToSize, scaleToHeight, id, intSize]
    have : asU32 (ceilI ((H : Rat) * w / h)) ≠ 0 := by
      unfold asU32; omega
    simp [Nat.pos_iff_ne_zero.mp hH, this]
  · rw [hcast]; exact hc
  · rw [hcast]; exact hc2

/-- **-z Z**: both sides are the document's sides times `Z`, rounded to the nearest pixel
    (so each differs from the exact product by at most half a pixel), whenever neither rounds to 0. -/
theorem C20_zoom_rule (w h : Nat) (z : Rat) (ow oh : Nat)
    (hres : fitToSize id (.zoom z) (w, h) = some (ow, oh)) :
    |(ow : Rat) - w * z| ≤ 1 / 2 ∧ |(oh : Rat) - h * z| ≤ 1 / 2 := by
  simp only [fitToSize, scaleBy, id, intSize] at hres
  by_cases h0 : asU32 (Writer.roundHalfAway ((w : Rat) * z)) = 0 ∨ asU32 (Writer.roundHalfAway ((h : Rat) * z)) = 0
  · simp [h0] at hres
  · simp only [h0, if_false] at hres
    push_neg at h0
    have r1 := C08.roundHalfAway_close ((w : Rat) * z)
    have r2 := C08.roundHalfAway_close ((h : Rat) * z)
    have p1 : 0 ≤ Writer.roundHalfAway ((w : Rat) * z) := by
      by_contra hc
      have : asU32 (Writer.roundHalfAway ((w : Rat) * z)) = 0 := by unfold asU32; omega
      exact h0.1 this
    have p2 : 0 ≤ Writer.roundHalfAway ((h : Rat) * z) := by
      by_contra hc
      have : asU32 (Writer.roundHalfAway ((h : Rat) * z)) = 0 := by unfold asU32; omega
      exact h0.2 this
    have c1 : ((asU32 (Writer.roundHalfAway ((w : Rat) * z)) : Nat) : Rat) = (Writer.roundHalfAway ((w : Rat) * z) : Rat) := by
      unfold asU32; exact_mod_cast Int.toNat_of_nonneg p1
    have c2 : ((asU32 (Writer.roundHalfAway ((h : Rat) * z)) : Nat) : Rat) = (Writer.roundHalfAway ((h : Rat) * z) : Rat) := by
      unfold asU32; exact_mod_cast Int.toNat_of_nonneg p2
    simp only [Option.some.injEq, Prod.mk.injEq] at hres
    rw [← hres.1, ← hres.2, c1, c2]
    exact ⟨r1, r2⟩

/-- **-w W -h H**: the output fits into `W × H` and touches it on one side. -/
theorem C20_size_rule_fits (w h W H : Nat) (hw : 0 < w) (hh : 0 < h) (hW : 0 < W) (hH : 0 < H) :
    ∃ ow oh, fitToSize id (.size W H) (w, h) = some (ow, oh) ∧ (ow = W ∨ oh = H) ∧ ow ≤ W := by
  simp only [fitToSize, intSize, Nat.pos_iff_ne_zero.mp hW, Nat.pos_iff_ne_zero.mp hH, or_self, if_false,
    Option.map_some, scaleTo, id]
  split_ifs with hc
  · exact ⟨_, _, rfl, Or.inl rfl, le_refl _⟩
  · exact ⟨_, _, rfl, Or.inr rfl, by omega⟩

/-- without size options the document size is the image size -/
theorem C20_original (s : Nat × Nat) : fitToSize id .original s = some s := rfl

/-- a zero width or height is refused (the command then exits with an error) -/
theorem C20_zero_refused (s : Nat × Nat) (h : Nat) :
    fitToSize id (.size 0 h) s = none ∧ fitToSize id (.width 0) s = none := by
  simp [fitToSize, intSize, scaleToWidth]

example : fitToSize id (.width 300) (200, 100) = some (300, 150) := by decide +kernel
example : fitToSize id (.size 50 50) (200, 100) = some (50, 25) := by decide +kernel
example : fitToSize id (.zoom (3 / 2)) (33, 11) = some (50, 17) := by decide +kernel

/-! ### `--export-id`: which area the size options apply to (fix 082ba5b) -/

theorem toIntSize_nat (w h : Nat) (hw : 0 < w) (hh : 0 < h) : toIntSize (w : Rat) (h : Rat) = (w, h) := by
  have e1 : Writer.roundHalfAway ((w : Nat) : Rat) = (w : Int) := by
    simpa using C08.roundHalfAway_int (w : Int)
  have e2 : Writer.roundHalfAway ((h : Nat) : Rat) = (h : Int) := by
    simpa using C08.roundHalfAway_int (h : Int)
  simp only [toIntSize, e1, e2, asU32, Int.toNat_natCast]
  congr 1 <;> omega

/-- **--export-id without --export-area-page**: the size options are applied to the object's box, and the
    object is rendered with exactly the scale that maps its box onto the whole written image — for every
    size option that is accepted. -/
theorem C20_export_object_fills_image (f : FitTo) (page : Nat × Nat) (bx by_ : Rat) (bw bh : Nat)
    (hw : 0 < bw) (hh : 0 < bh) (p : ExportPlan)
    (hp : exportPlan id f page bx by_ bw bh false = some p) :
    fitToSize id f (bw, bh) = some p.canvas ∧
    (bw : Rat) * p.scale.1 = p.canvas.1 ∧ (bh : Rat) * p.scale.2 = p.canvas.2 ∧ p.offset = (0, 0) := by
  simp only [exportPlan, Bool.false_eq_true, if_false, toIntSize_nat bw bh hw hh] at hp
  cases hsz : fitToSize id f (bw, bh) with
  | none => simp [hsz] at hp
  | some o =>
    simp only [hsz, Option.some.injEq] at hp
    subst hp
    have hw' : (bw : Rat) ≠ 0 := by exact_mod_cast (Nat.pos_iff_ne_zero.mp hw)
    have hh' : (bh : Rat) ≠ 0 := by exact_mod_cast (Nat.pos_iff_ne_zero.mp hh)
    refine ⟨rfl, ?_, ?_, rfl⟩
    · simp only [fitToScale, hsz, id]; field_simp
    · simp only [fitToScale, hsz, id]; field_simp

/-- **--export-id --export-area-page**: the written image has the size, and the object the scale, of the
    ordinary rendering of the page with the same options; the object sits exactly at its box scaled by that
    scale (it is rendered in place — no rounding to whole pixels, fix b316a01). -/
theorem C20_export_page_geometry (f : FitTo) (page : Nat × Nat) (bx by_ bw bh : Rat) (p : ExportPlan)
    (hp : exportPlan id f page bx by_ bw bh true = some p) :
    fitToSize id f page = some p.canvas ∧ p.scale = fitToScale id f page ∧
    p.offset.1 = bx * p.scale.1 ∧ p.offset.2 = by_ * p.scale.2 := by
  simp only [exportPlan, if_true] at hp
  cases hsz : fitToSize id f page with
  | none => simp [hsz] at hp
  | some o =>
    simp only [hsz, Option.some.injEq] at hp
    subst hp
    exact ⟨rfl, rfl, rfl, rfl⟩

/-- before the fix: `-w 60` on a 20×10 object of a 120×100 page wrote a 60×30 image in which the object
    covered 10×5 pixels, and `-z 2 --export-area-page` placed the object at (40, 30) instead of (80, 60) -/
theorem C20_old_export_wrong :
    (exportPlanOld id (.width 60) (120, 100) 40 30 20 10 false).map (fun p => (p.canvas, p.painted 20 10))
      = some ((60, 30), (0, 0, 10, 5)) ∧
    (exportPlan id (.width 60) (120, 100) 40 30 20 10 false).map (fun p => (p.canvas, p.painted 20 10))
      = some ((60, 30), (0, 0, 60, 30)) ∧
    (exportPlanOld id (.zoom 2) (120, 100) 40 30 20 10 true).map (fun p => p.painted 20 10)
      = some (40, 30, 80, 50) ∧
    (exportPlan id (.zoom 2) (120, 100) 40 30 20 10 true).map (fun p => p.painted 20 10)
      = some (80, 60, 120, 80) := by
  refine ⟨?_, ?_, ?_, ?_⟩ <;> decide +kernel

end Resvg.Props.C20
