/-
  C09 — Presentation resolution does not depend on how a property is spelled.
  Model: Resvg/SvgTree/Cascade.lean (`append_attribute`, `resolve_inherit`, `insert_attribute`,
  `write_declaration`, `find_attribute`), Resvg/Convert/SvgSize.lean (`convert_length`).
  Core theorem: looking a property up in the attribute list that `parse_svg_element` builds equals
  the declarative winner rule; every spelling-independence claim is a corollary.
-/
import Mathlib.Tactic.Linarith
import Mathlib.Tactic.SplitIfs
import Mathlib.Tactic.Ring
import Mathlib.Tactic.FieldSimp
import Resvg.SvgTree.Cascade
import Resvg.Convert.SvgSize
import Resvg.Generated.InheritReads

namespace Resvg.Props.C09
open Resvg Resvg.SvgTree

/-- what a later `find(|a| a.name == p)` sees -/
def lookup (attrs : List Attr) (p : String) : Option Attr := findAttr attrs p

/-- a write is *plain* when `append_attribute` takes its last branch: not `style`/`class`, not
    `href` on a `tspan`, not an `inherit` that gets resolved -/
def plain (tag n v : String) : Prop :=
  (n == "style" || n == "class") = false ∧ (tag == "tspan" && n == "href") = false ∧
  (allowsInherit n && v == "inherit") = false

/-- replace the first entry named `n` unless it is `!important`; append when there is none -/
def setOrAppend (n v : String) (imp : Bool) (attrs : List Attr) : List Attr :=
  match attrs.findIdx? (fun a => a.name == n) with
  | some i =>
    match attrs[i]? with
    | some e => if e.important then attrs else attrs.set i ⟨n, v, imp⟩
    | none => attrs
  | none => attrs ++ [⟨n, v, imp⟩]

theorem swap_dropLast (l : List Attr) (x : Attr) (i : Nat) (hi : i < l.length) :
    (swapAt (l ++ [x]) i l.length).dropLast = l.set i x := by
  unfold swapAt
  have h1 : (l ++ [x])[i]? = some l[i] := by
    rw [List.getElem?_append_left hi]; exact List.getElem?_eq_getElem hi
  have h2 : (l ++ [x])[l.length]? = some x := by simp
  rw [h1, h2]
  simp only
  rw [List.set_append_left _ _ hi]
  have hlen : (l.set i x).length = l.length := List.length_set
  rw [← hlen, List.set_append_right _ _ (Nat.le_refl _)]
  simp

/-- the `insert_attribute` closure (index before append, swap unless important, pop) is
    `setOrAppend` for every plain write -/
theorem insert_eq_spec (tag : String) (anc : List (List Attr)) (n v : String) (imp : Bool)
    (attrs : List Attr) (hp : plain tag n v) :
    insertAttribute tag anc n v imp attrs = setOrAppend n v imp attrs := by
  obtain ⟨h1, h2, h3⟩ := hp
  unfold insertAttribute appendAttribute setOrAppend
  simp only [h1, h2, h3, Bool.false_eq_true, if_false, if_true]
  cases hidx : attrs.findIdx? (fun a => a.name == n) with
  | none => simp
  | some i =>
    have hi : i < attrs.length := by
      have := List.findIdx?_eq_some_iff_getElem.mp hidx
      exact this.1
    have hg : (attrs ++ [⟨n, v, imp⟩])[i]? = attrs[i]? := List.getElem?_append_left hi
    have hgi : attrs[i]? = some attrs[i] := List.getElem?_eq_getElem hi
    simp only [hg, hgi, List.length_append, List.length_singleton, Nat.add_sub_cancel]
    cases hb : attrs[i].important
    · simp only [Bool.not_false, if_true, Bool.false_eq_true, if_false]
      exact swap_dropLast attrs _ i hi
    · simp

theorem find_set_self (l : List Attr) (n : String) (i : Nat) (x : Attr) (hx : x.name = n)
    (hidx : l.findIdx? (fun a => a.name == n) = some i) :
    (l.set i x).find? (fun a => a.name == n) = some x := by
  induction l generalizing i with
  | nil => simp at hidx
  | cons a as ih =>
    by_cases ha : (a.name == n) = true
    · have : i = 0 := by
        simp only [List.findIdx?_cons, ha, if_true] at hidx
        exact (Option.some.inj hidx).symm
      subst this
      simp [List.set, hx]
    · simp only [Bool.not_eq_true] at ha
      simp only [List.findIdx?_cons, ha, Bool.false_eq_true, if_false] at hidx
      cases hrest : as.findIdx? (fun a => a.name == n) with
      | none => simp [hrest] at hidx
      | some j =>
        simp only [hrest, Option.map_some] at hidx
        have : i = j + 1 := (Option.some.inj hidx).symm
        subst this
        simp only [List.set_cons_succ, List.find?_cons, ha]
        exact ih j hrest

theorem find_set_other (l : List Attr) (n p : String) (i : Nat) (x : Attr) (hx : x.name = n) (hne : n ≠ p)
    (hidx : l.findIdx? (fun a => a.name == n) = some i) :
    (l.set i x).find? (fun a => a.name == p) = l.find? (fun a => a.name == p) := by
  induction l generalizing i with
  | nil => simp
  | cons a as ih =>
    by_cases ha : (a.name == n) = true
    · have : i = 0 := by
        simp only [List.findIdx?_cons, ha, if_true] at hidx
        exact (Option.some.inj hidx).symm
      subst this
      have han : a.name = n := by simpa using ha
      have h1 : (x.name == p) = false := by simp [hx, hne]
      have h2 : (a.name == p) = false := by simp [han, hne]
      simp [List.set, List.find?_cons, h1, h2]
    · simp only [Bool.not_eq_true] at ha
      simp only [List.findIdx?_cons, ha, Bool.false_eq_true, if_false] at hidx
      cases hrest : as.findIdx? (fun a => a.name == n) with
      | none => simp [hrest] at hidx
      | some j =>
        simp only [hrest, Option.map_some] at hidx
        have : i = j + 1 := (Option.some.inj hidx).symm
        subst this
        simp only [List.set_cons_succ, List.find?_cons]
        split
        · rfl
        · exact ih j hrest

theorem findIdx_find (l : List Attr) (n : String) (i : Nat)
    (hidx : l.findIdx? (fun a => a.name == n) = some i) :
    l.find? (fun a => a.name == n) = l[i]? := by
  induction l generalizing i with
  | nil => simp at hidx
  | cons a as ih =>
    by_cases ha : (a.name == n) = true
    · have : i = 0 := by
        simp only [List.findIdx?_cons, ha, if_true] at hidx
        exact (Option.some.inj hidx).symm
      subst this; simp [List.find?_cons, ha]
    · simp only [Bool.not_eq_true] at ha
      simp only [List.findIdx?_cons, ha, Bool.false_eq_true, if_false] at hidx
      cases hrest : as.findIdx? (fun a => a.name == n) with
      | none => simp [hrest] at hidx
      | some j =>
        simp only [hrest, Option.map_some] at hidx
        have : i = j + 1 := (Option.some.inj hidx).symm
        subst this
        simp only [List.find?_cons, ha, List.getElem?_cons_succ]
        exact ih j hrest

theorem findIdx_none_find (l : List Attr) (n : String)
    (hidx : l.findIdx? (fun a => a.name == n) = none) : l.find? (fun a => a.name == n) = none := by
  rw [List.findIdx?_eq_none_iff] at hidx
  rw [List.find?_eq_none]
  intro a ha; simpa using hidx a ha

/-- one step of the winner rule: a new declaration replaces the current value unless that one is
    `!important` -/
def winnerStep (cur : Option Attr) (new : Attr) : Option Attr :=
  match cur with
  | some c => if c.important then some c else some new
  | none => some new

/-- lookup after one write: unchanged for other properties, `winnerStep` for the written one -/
theorem lookup_setOrAppend (n v : String) (imp : Bool) (attrs : List Attr) (p : String) :
    lookup (setOrAppend n v imp attrs) p =
      if n = p then winnerStep (lookup attrs p) ⟨n, v, imp⟩ else lookup attrs p := by
  unfold lookup findAttr setOrAppend
  cases hidx : attrs.findIdx? (fun a => a.name == n) with
  | none =>
    simp only
    split_ifs with hnp
    · subst hnp
      rw [List.find?_append, findIdx_none_find attrs n hidx]
      simp [winnerStep]
    · rw [List.find?_append]
      have : (({ name := n, value := v, important := imp } : Attr).name == p) = false := by simp [hnp]
      simp [List.find?_cons, this]
  | some i =>
    have hi : i < attrs.length := (List.findIdx?_eq_some_iff_getElem.mp hidx).1
    have hgi : attrs[i]? = some attrs[i] := List.getElem?_eq_getElem hi
    simp only [hgi]
    split_ifs with himp hnp hnp
    · subst hnp
      rw [findIdx_find attrs n i hidx, hgi]; simp [winnerStep, himp]
    · rfl
    · subst hnp
      rw [find_set_self attrs n i _ rfl hidx, findIdx_find attrs n i hidx, hgi]
      simp [winnerStep, himp]
    · exact find_set_other attrs n p i _ rfl hnp hidx

abbrev Decl := String × String × Bool

def applyDecls (attrs : List Attr) (ds : List Decl) : List Attr :=
  ds.foldl (fun acc d => setOrAppend d.1 d.2.1 d.2.2 acc) attrs

/-- **Lookup is the winner.**  For every property `p`, what is found in the final list is the fold
    of `winnerStep` over exactly the declarations of `p`, in source order, starting from what the
    XML attributes gave. -/
theorem C09_lookup_is_winner (attrs : List Attr) (ds : List Decl) (p : String) :
    lookup (applyDecls attrs ds) p =
      ((ds.filter (fun d => d.1 == p)).map (fun d => (⟨d.1, d.2.1, d.2.2⟩ : Attr))).foldl winnerStep (lookup attrs p) := by
  induction ds generalizing attrs with
  | nil => rfl
  | cons d ds ih =>
    simp only [applyDecls, List.foldl_cons] at ih ⊢
    rw [ih, lookup_setOrAppend]
    by_cases h : d.1 = p
    · simp [h, List.filter_cons]
    · have : (d.1 == p) = false := by simp [h]
      simp [h, List.filter_cons, this]

/-- closed form of the winner: once an `!important` value is current it stays; otherwise the last
    declaration wins -/
theorem winner_important_sticks (c : Attr) (hc : c.important = true) (ws : List Attr) :
    ws.foldl winnerStep (some c) = some c := by
  induction ws with
  | nil => rfl
  | cons w ws ih => simp only [List.foldl_cons, winnerStep, hc, if_true]; exact ih

theorem winner_last_when_none_important (cur : Option Attr) (ws : List Attr) (w : Attr)
    (hcur : ∀ c, cur = some c → c.important = false) (hws : ∀ x ∈ ws, x.important = false) :
    (ws ++ [w]).foldl winnerStep cur = some w := by
  induction ws generalizing cur with
  | nil =>
    simp only [List.nil_append, List.foldl_cons, List.foldl_nil, winnerStep]
    cases cur with
    | none => rfl
    | some c => simp [hcur c rfl]
  | cons x xs ih =>
    simp only [List.cons_append, List.foldl_cons]
    apply ih
    · intro c hc
      unfold winnerStep at hc
      cases cur with
      | none => simp at hc; subst hc; exact hws x (List.mem_cons_self)
      | some c0 =>
        simp only [hcur c0 rfl, Bool.false_eq_true, if_false] at hc
        injection hc with hc; subst hc; exact hws x (List.mem_cons_self)
    · intro y hy; exact hws y (List.mem_cons_of_mem _ hy)

/-- **Attribute = style = CSS.**  A single non-important declaration of `p` gives the same lookup
    whether it arrives as an XML attribute or as a (CSS / style) declaration. -/
theorem C09_attr_eq_decl (tag : String) (anc : List (List Attr)) (p v : String) (hp : plain tag p v) :
    lookup (cascadeElement tag anc [(p, v)] []) p = lookup (cascadeElement tag anc [] [(p, v, false)]) p := by
  obtain ⟨h1, h2, h3⟩ := hp
  unfold cascadeElement
  simp only [List.foldl_cons, List.foldl_nil]
  rw [insert_eq_spec tag anc p v false [] ⟨h1, h2, h3⟩]
  unfold appendAttribute
  simp only [h1, h2, h3, Bool.false_eq_true, if_false]
  simp [setOrAppend, lookup, findAttr]

/-- **Order is irrelevant.**  Two declaration lists that contain, for every property, the same
    declarations in the same relative order give the same lookups — in particular permuting
    declarations of different properties, or XML attributes, changes nothing. -/
theorem C09_order_irrelevant (attrs : List Attr) (ds ds' : List Decl)
    (h : ∀ q, ds.filter (fun d => d.1 == q) = ds'.filter (fun d => d.1 == q)) (p : String) :
    lookup (applyDecls attrs ds) p = lookup (applyDecls attrs ds') p := by
  rw [C09_lookup_is_winner, C09_lookup_is_winner, h p]

/-- **Explicit `inherit` = leaving the property out** (inheritable property, some ancestor sets it):
    the value pushed by `resolve_inherit` is the one `find_attribute` finds when the element does not
    mention the property at all. -/
theorem C09_inherit_eq_ancestor (tag : String) (anc : List (List Attr)) (p : String) (self : List Attr)
    (hinh : isInheritable p = true) (hallow : allowsInherit p = true)
    (h1 : (p == "style" || p == "class") = false) (h2 : (tag == "tspan" && p == "href") = false)
    (hself : hasAttr self p = false) (as : List Attr)
    (hanc : anc.find? (fun l => hasAttr l p) = some as) (a : Attr) (ha : findAttr as p = some a) :
    ((appendAttribute tag anc p "inherit" false self).1.find? (fun x => x.name == p)).map (·.value)
      = (findAttribute (self :: anc) p).map (·.value) := by
  have hnone : self.find? (fun x => x.name == p) = none := by
    rw [List.find?_eq_none]; intro x hx
    unfold hasAttr at hself
    rw [List.any_eq_false] at hself
    simpa using hself x hx
  unfold appendAttribute resolveInherit findAttribute
  simp only [h1, h2, hallow, Bool.false_eq_true, if_false, hinh, if_true, Bool.and_self, beq_self_eq_true,
    List.find?_cons, hself, hanc, ha]
  rw [List.find?_append, hnone]
  simp

/-- **Explicit `inherit` on a non-inheritable property = the parent's value.** -/
theorem C09_inherit_eq_parent (tag : String) (parent : List Attr) (rest : List (List Attr)) (p : String)
    (self : List Attr) (hinh : isInheritable p = false) (hallow : allowsInherit p = true)
    (h1 : (p == "style" || p == "class") = false) (h2 : (tag == "tspan" && p == "href") = false)
    (hself : hasAttr self p = false) (a : Attr) (ha : findAttr parent p = some a) :
    ((appendAttribute tag (parent :: rest) p "inherit" false self).1.find? (fun x => x.name == p)).map (·.value)
      = some a.value := by
  have hnone : self.find? (fun x => x.name == p) = none := by
    rw [List.find?_eq_none]; intro x hx
    unfold hasAttr at hself
    rw [List.any_eq_false] at hself
    simpa using hself x hx
  unfold appendAttribute resolveInherit
  simp only [h1, h2, hallow, Bool.false_eq_true, if_false, hinh, Bool.and_self, beq_self_eq_true, if_true, ha]
  rw [List.find?_append, hnone]
  simp

/-- every presentation property of the statement's list accepts `inherit`
    (after fix 3eaa813; before it `paint-order`, `lighting-color`, `mix-blend-mode`, `isolation` did not) -/
theorem C09_inherit_supported :
    ∀ p ∈ ["fill", "fill-opacity", "fill-rule", "stroke", "stroke-width", "stroke-opacity", "stroke-linecap",
           "stroke-linejoin", "stroke-miterlimit", "stroke-dasharray", "stroke-dashoffset", "opacity",
           "font-family", "font-size", "font-style", "font-variant", "font-weight", "font-stretch",
           "visibility", "display", "marker-start", "marker-mid", "marker-end", "clip-path", "mask", "filter",
           "paint-order", "shape-rendering", "text-rendering", "image-rendering", "stop-color", "stop-opacity",
           "flood-color", "flood-opacity", "lighting-color", "color", "mix-blend-mode", "isolation"],
      allowsInherit p = true := by decide +kernel

/-- equivalent units at the configured DPI (exact arithmetic): 1in = dpi px = 72pt = 6pc = 2.54cm = 25.4mm -/
theorem C09_units_equiv (dpi fs : Rat) (b : Rat) :
    let env : Convert.LenEnv := ⟨dpi, fs⟩
    Convert.convertLength id ⟨1, .inch⟩ b env = Convert.convertLength id ⟨dpi, .px⟩ b env ∧
    Convert.convertLength id ⟨72, .pt⟩ b env = Convert.convertLength id ⟨1, .inch⟩ b env ∧
    Convert.convertLength id ⟨6, .pc⟩ b env = Convert.convertLength id ⟨1, .inch⟩ b env ∧
    Convert.convertLength id ⟨254 / 100, .cm⟩ b env = Convert.convertLength id ⟨1, .inch⟩ b env ∧
    Convert.convertLength id ⟨254 / 10, .mm⟩ b env = Convert.convertLength id ⟨1, .inch⟩ b env := by
  simp only [Convert.convertLength, id]
  refine ⟨by ring, by ring, by ring, ?_, ?_⟩ <;> field_simp

/-- the same for `font-size`, which is resolved by its own copy of the unit table
    (`resolve_font_size`): every unit agrees with its pixel equivalent at the configured DPI,
    and em / ex / % with their definition relative to the inherited size -/
theorem C09_font_size_units_equiv (dpi fs n : Rat) :
    Convert.fontSizeStep id dpi fs ⟨n, .inch⟩ = Convert.fontSizeStep id dpi fs ⟨n * dpi, .px⟩ ∧
    Convert.fontSizeStep id dpi fs ⟨n, .pt⟩ = Convert.fontSizeStep id dpi fs ⟨n * dpi / 72, .px⟩ ∧
    Convert.fontSizeStep id dpi fs ⟨n, .pc⟩ = Convert.fontSizeStep id dpi fs ⟨n * dpi / 6, .px⟩ ∧
    Convert.fontSizeStep id dpi fs ⟨n, .cm⟩ = Convert.fontSizeStep id dpi fs ⟨n * dpi / (254 / 100), .px⟩ ∧
    Convert.fontSizeStep id dpi fs ⟨n, .mm⟩ = Convert.fontSizeStep id dpi fs ⟨n * dpi / (254 / 10), .px⟩ ∧
    Convert.fontSizeStep id dpi fs ⟨n, .em⟩ = Convert.fontSizeStep id dpi fs ⟨n * fs, .px⟩ ∧
    Convert.fontSizeStep id dpi fs ⟨n, .ex⟩ = Convert.fontSizeStep id dpi fs ⟨n * fs / 2, .px⟩ ∧
    Convert.fontSizeStep id dpi fs ⟨n, .percent⟩ = Convert.fontSizeStep id dpi fs ⟨n * fs / 100, .px⟩ ∧
    Convert.fontSizeStep id dpi fs ⟨n, .none⟩ = Convert.fontSizeStep id dpi fs ⟨n, .px⟩ := by
  simp only [Convert.fontSizeStep, id]
  refine ⟨trivial, trivial, trivial, trivial, trivial, trivial, trivial, ?_, trivial⟩
  ring

/-- and a `font-size` length means the same whether it is resolved by `resolve_font_size` or
    (as any other length) by `convert_length` -/
theorem C09_font_size_agrees_with_lengths (dpi fs n b : Rat) (u : Convert.LUnit) (hu : u ≠ .percent) :
    Convert.fontSizeStep id dpi fs ⟨n, u⟩ = Convert.convertLength id ⟨n, u⟩ b ⟨dpi, fs⟩ := by
  cases u <;> simp_all [Convert.fontSizeStep, Convert.convertLength]

/-! non-vacuity -/
example : plain "rect" "fill" "red" := by unfold plain; decide +kernel
example : lookup (cascadeElement "rect" [] [("fill", "red")] [("fill", "blue", false), ("fill", "green", true), ("fill", "black", true)]) "fill"
    = some ⟨"fill", "green", true⟩ := by decide +kernel

/-! ### inheritable properties are read through the ancestor chain

Inheritance is not materialised in the intermediate tree: a converter that wants the value of an
inheritable property has to look along the ancestors (`find_attribute`, an explicit
`ancestors().find(..)`, the length resolvers).  The translator lists, from the current sources, every
place where an inheritable property is read on ONE element only, and every place where a
non-inheritable one is read along the chain.  Each entry of the reviewed lists below has been
checked by hand; any new entry breaks the theorem. -/

/-- reviewed: these single-element reads sit inside an explicit walk over `ancestors()` (fill, stroke,
    stroke-dasharray in style.rs; font-family / -stretch / -weight, writing-mode in text.rs; font-size in
    units.rs `resolve_font_size`), or concern a property that belongs to one element by definition
    (`background-color` of the root, `mask-type` of a mask) -/
def reviewedDirectReads : List (String × String) := [
  ("BackgroundColor", "parser/converter.rs"),
  ("Fill", "parser/style.rs"),
  ("FontFamily", "parser/text.rs"),
  ("FontSize", "parser/units.rs"),
  ("FontStretch", "parser/text.rs"),
  ("FontWeight", "parser/text.rs"),
  ("MaskType", "parser/mask.rs"),
  ("Stroke", "parser/style.rs"),
  ("StrokeDasharray", "parser/style.rs"),
  ("WritingMode", "parser/text.rs")]

/-- reviewed: the baseline properties are looked up on the text chunk's ancestors (text.rs) -/
def reviewedChainReads : List (String × String) := [
  ("AlignmentBaseline", "parser/text.rs"),
  ("DominantBaseline", "parser/text.rs")]

/-- **no converter reads an inheritable property from a single element** (outside the reviewed
    ancestor walks), and none lets a non-inheritable property inherit -/
theorem C09_inheritable_reads_use_the_chain :
    (∀ r ∈ Generated.directInheritableReads, r ∈ reviewedDirectReads) ∧
    (∀ r ∈ Generated.chainNonInheritableReads, r ∈ reviewedChainReads) := by
  constructor <;> decide

end Resvg.Props.C09
